# Per-property claims. Keep in step with /verif/checker/props/cNN.go and DESIGN.md.
CLAIMS = {
 "C06": {
  "text": "Static error-flow analysis of every function on the query path: on every CFG path the error result of every call is propagated or examined (ERR1), blocks guarded by `err != nil` hand the error on (ERR3/ERR4), scan loops are followed by a checked Err() (ERR5) and error-carrying channel messages have their error field examined first (ERR6). This is a necessary condition of 'errors are never swallowed', decided for all paths rather than for sampled failures; it does not show that every failure raises an error in the first place.",
  "note": "Trusted: go/types, go/cfg, the reasoned allow table in props/c06.go (infallible writers, deferred Close, terminal output, fastjson accessors under a type test, failed-parse-yields-NULL). Third-party decoders are assumed to report their failures as errors.",
  "technique": "static error-flow analysis (AST + go/types + go/cfg must-dataflow)",
 },
 "C09": {
  "text": "Finite-domain abstract interpretation of Value.Compare, Value.Equal, Value.hash and CompareValueSlices: every TypeID arm is evaluated under every abstract ordering of its two payloads (lt/eq/gt, NaN-unordered for floats, the four Boolean pairs), and the list-like arms and CompareValueSlices are explored as a product with the lexicographic reference automaton until the state pairs repeat. Each abstract case stands for all concrete values with that ordering, so the verdict covers NaN, signed zeros and extreme integers without sampling. Hash arms must read only Compare-invariant projections of the compared payload; every hashmap site must pair Compare-equality with Hash/HashManyValues and every value comparator must be a strict order compatible with Compare-equality.",
  "note": "Decides per-arm correctness (sign per ordering), which implies reflexivity/antisymmetry; transitivity is argued from each arm being the standard order of a totally ordered carrier. Trusted: go/types, the interpreter in engine/absint, third-party btree/hashmap honouring their comparator contracts.",
  "technique": "finite-domain abstract interpretation over the AST (path-sensitive, product with reference automaton for loops)",
 },
 "C11": {
  "text": "AND/OR are decided for every arity and operand order by exploring the loop of (*And).Evaluate / (*Or).Evaluate as a product with the Kleene reference automaton (operand classes TRUE/FALSE/NULL/error) until the (implementation state, reference state) pairs repeat; (*FunctionCall).Evaluate is shown to return NULL without calling the function whenever a null-checked argument is NULL; the strictness table is read from the FunctionMap literal (comparisons, arithmetic, string and conversion functions Strict; IS [NOT] NULL non-strict and Boolean-only, evaluated for NULL and non-NULL arguments); NOT by truth table; the Filter callback is evaluated for predicate TRUE/FALSE/NULL/non-Boolean/error; the typechecker's and the materializer's strict-null predicates are compared by truth table over the type relation.",
  "note": "Does not decide the values comparison functions return on non-NULL arguments (C09/C13). Trusted: go/types, the interpreter in engine/absint, the expected strictness table in props/c11.go.",
  "technique": "finite-domain abstract interpretation (loop × reference-automaton product) + table extraction from composite literals",
 },
 "C01": {
  "text": "Structural necessary conditions of single-source SELECT semantics, each decided for all inputs: the Filter callback forwards a record iff the predicate is Boolean TRUE (5 abstract predicate classes); both ORDER BY comparators are the direction-aware lexicographic order with value tie-break (loop × reference-automaton product); Distinct and the two ORDER BY multiset containers keep (item, count) correctly for count-before ∈ {0,1,2,≥3} × {add, retract}, Distinct forwarding exactly on 0→1 and 1→0; every switch over NodeType/ExpressionType/TriggerType in package physical that asserts exhaustiveness lists every constant and touches only its own arm's payload.",
  "note": "Does not decide the result multiset itself (quantifies over data and an external SQL oracle), nor that parser.go builds the right plan shape. Trusted: go/types, engine/absint, engine/unionfield.",
  "technique": "finite-domain abstract interpretation + enum exhaustiveness / discriminant-payload agreement over go/types",
 },
 "C05": {
  "text": "Every loop that applies a LIMIT (Limit.Run, produceOrderByItems, both printer loops) is abstractly interpreted under every scenario of counter-vs-limit tests: each emitted row is counted exactly once, nothing is emitted once the counter is at the limit, every emission is preceded by a test of the current counter (or the invariant counter<limit is established by a LIMIT-0 guard and re-established after every increment), and reaching the limit stops the iteration. The three sites that choose between Limit and OrderSensitiveTransform are compared as boolean functions by truth table over (ORDER BY, LIMIT, NoRetractions); the ORDER BY comparators, ascending traversal, DeleteMax guard and Limit's sentinel are checked structurally.",
  "note": "Covers all n ≥ 0 and all multiplicities through the abstract scenarios; does not decide which rows are first beyond comparator orientation + Ascend. Trusted: go/types, engine/absint.",
  "technique": "finite-domain abstract interpretation of counter/limit scenarios + truth-table equivalence of selection predicates",
 },
 "C14": {
  "text": "Invariants that make every aggregate history-independent, decided on all paths of each Add/Trigger: scalar aggregates update one field with inverse operations for addition and retraction (same field, same operand, + / −), Average forwards (retraction, value) unchanged to both inner aggregates, the four multiset aggregates (Min, Max, Array, Distinct) keep count bookkeeping and container membership consistent for count-before ∈ {0,1,2,≥3} × {add, retract} with Distinct feeding the wrapped aggregate exactly on 0→1 and 1→0, the key comparators are ascending, and Trigger reads Min()/Max()/Ascend with multiplicity.",
  "note": "Equality with recomputation for every history follows from these invariants by induction on the history; the induction itself is not mechanised and histories are not enumerated. Float rounding and third-party containers are trusted.",
  "technique": "finite-domain abstract interpretation of Add over (count-before × operation) + symbolic inverse-update comparison",
 },
 "C03": {
  "text": "Both group-by nodes are abstractly interpreted per record: a NULL aggregate input touches neither the aggregate nor its set size, a non-NULL input moves AggregatedSetSize[i] by ±1 and calls Aggregates[i].Add(record.Retraction, input); the per-key record count moves by ±1 and the group is dropped exactly at 0 (count-before ∈ {0,1,2,≥3} × {add, retract}); both output paths call Trigger() only with a positive set size and put NULL otherwise; every aggregate descriptor's Trigger constructs its declared OutputType; Min/Max/Array read the right end / ascending order with ascending comparators.",
  "note": "Does not decide numeric results per group nor overload resolution in logical/group_by.go. One row per distinct key (incl. NULL) relies on C09 (Compare/Hash agreement). Trusted: go/types, engine/absint.",
  "technique": "finite-domain abstract interpretation of the per-record update and output loops + descriptor/constructor table check",
 },
 "C16": {
  "text": "Conditions that make the end-of-stream result independent of triggers, decided on all paths: Run signals EndOfStreamReached and triggers once more after a successful source run; every Poll flushes all remaining keys at end of stream and MultiTrigger forwards to every child; firing a key retracts the previously sent row before emitting and remembering the new one (four cases of group present × previous row present); both group-by nodes perform the same aggregate updates (shared with C03).",
  "note": "The equality of consolidated outputs for every history is not enumerated; it follows from these conditions plus C14. Trusted: go/types, engine/absint.",
  "technique": "finite-domain abstract interpretation with event-order checks",
 },
 "C17": {
  "text": "CountingTrigger.KeyReceived is interpreted for count-before × triggerAfter (k<n≤3): fires iff the incremented count equals n and resets in that branch; WatermarkTrigger.Poll's walk fires exactly the keys with time ≤ watermark, stops at the first later key and deletes what fired; EndOfStreamTrigger fires nothing before and everything at end of stream; CountingTrigger.Poll hands out and clears its pending list; the group-by's metadata callback runs WatermarkReceived → trigger → metaSend in that order; MultiTrigger forwards every call to every child without early exit; watermarkTriggerKey.Less orders by time then key.",
  "note": "The clause 'no key beyond W has been emitted unless another trigger fired it' quantifies over histories and is not decided. Trusted: go/types, engine/absint, google/btree.",
  "technique": "finite-domain abstract interpretation with event-order checks",
 },
 "C07": {
  "text": "Crash sources that are visible in the code shape, decided on all paths: every integer division with a non-constant divisor on the query path is interpreted with the divisor forced to zero and must be unreachable (guards inside the callback or in the enclosing function are both recognised); every index, slice bound and strings.Repeat count in a function descriptor that derives from a query value must have 0 ≤ lo ≤ hi ≤ len / index < len entailed by the comparisons assumed on the path that reaches it; every enum switch that asserts exhaustiveness (panicking default/fall-out) lists every constant; wrong-arm payloads are never indexed; function bodies stay within their declared arity and payloads; typecheck panics are recovered into errors and Typecheck is only called through the recovering wrappers.",
  "note": "Not decided: panics in third-party libraries, nil dereferences other than through union arms, out-of-memory, explicit invariant panics in container type assertions. Trusted: go/types, engine/absint, engine/unionfield.",
  "technique": "abstract interpretation with forced-zero / bound-entailment scenarios + enum exhaustiveness over go/types",
 },
 "C08": {
  "text": "Structural soundness conditions of the type system, decided on all paths: every function descriptor (and aggregate) with a static result type constructs only values of that type (a body that can return NULL must declare it); the typechecker marks strict calls nullable under exactly the predicate under which Materialize inserts the NULL check (truth table over the type relation); every runtime TypeAssertion site records static type = target ∩ expression type with the same target, strict functions assert the nullable target, and unions are only built by TypeSum; TypeAssertion/TypeCast behave as the static types assume (value iff TypeID expected / NULL otherwise); no pointer to a shared loop variable escapes in the type algebra and planner.",
  "note": "Does not decide soundness of every typing judgement (overload resolution, TypeFn bodies with computed result types) nor datasource conformance (C24). Trusted: go/types, engine/absint, engine/tables.",
  "technique": "descriptor-table extraction + constructor/type agreement, truth-table comparison, abstract interpretation of the runtime assertions",
 },
 "C10": {
  "text": "Only the clauses whose truth is in the code shape: Value.Type/ToRawGoValue/append read the payload of their own TypeID arm (so a value reports the types of its own elements); NonNullable drops exactly the Null alternative and unwraps a single survivor; the two union folds of Type.Is are explored as products with their reference automata (receiver: all Is → Is, some Is/Maybe → Maybe, else Isnt; argument: maximum); Any accepts everything; no loop-variable pointer escapes in package octosql.",
  "note": "The algebraic laws proper (reflexivity of Is, TypeSum upper bound/commutativity/idempotence, TypeIntersection containment) are inductive facts about recursive functions — theorem proving, not static analysis of code shape — and are NOT decided. Trusted: go/types, engine/absint.",
  "technique": "discriminant/payload agreement + loop × reference-automaton product",
 },
 "C12": {
  "text": "The LIKE translator is explored as a product of its loop with the escape automaton over 20 rune classes (every Go-regexp metacharacter, _, %, the escape character, ordinary and multi-byte runes, newline) and must emit the reference translation in both states, anchored and with the s flag; ~ and ~* must compile the unmodified pattern (with (?i) for ~*), match the unmodified subject and key their cache by the string that determines the compiled expression; reverse must not mix byte offsets and rune indices; upper/lower/replace/len/position delegate to the intended strings functions with the intended arguments; substr slices the first argument from the second.",
  "note": "Go's regexp engine and Unicode case mapping are trusted; byte-vs-character semantics of substr/len are as implemented (bytes). Trusted: go/types, engine/absint.",
  "technique": "finite-domain abstract interpretation (loop × reference-automaton product over rune classes) + symbolic result comparison",
 },
 "C13": {
  "text": "Each of the 76 function descriptors is abstractly interpreted with symbolic arguments: arithmetic operators must compute `values[0].P op values[1].Q` with the operator of their map key, operands in order, the payloads of the declared argument types and the constructor of the declared result; math/time/conversion functions must delegate to the intended library call on the intended arguments; failed parses yield NULL; COALESCE is explored as a product with its reference automaton (first non-NULL wins, else NULL, any arity); IN/NOT IN scan with Equal and negate each other; list indexing yields the element inside 0 ≤ i < len and NULL outside.",
  "note": "The numerical results of Go arithmetic and the math/time libraries are trusted, not computed. Trusted: go/types, engine/absint, engine/tables.",
  "technique": "abstract interpretation with symbolic arguments + expected-term tables; loop × reference-automaton product",
 },
 "C02": {
  "text": "Structural necessary conditions of join semantics, decided on all paths: a record whose join key contains NULL is neither stored in nor looked up in the key trees of either stream join (inner: dropped; outer: padded iff on an outer side), for every combination of LEFT/RIGHT/FULL and input side; the left and right halves of both joins (producer goroutines, select cases, buffer flushing) are token-level mirror images under left↔right; every output row puts the left record first and the right record at offset len(left) with the right retraction flags (matches, padding retraction on first match, re-emission after last retraction); the unmatched path pads iff on an outer side with the right length and offset; the lookup join runs the joined side with the source record in context, concatenates source then joined and XORs retractions; LEFT/RIGHT/FULL map to the right flags; `ON a = b` becomes key pairs with each part on the side whose variables it uses; key matching is lexicographic Compare.",
  "note": "The match set for arbitrary data and the behaviour under every interleaving are not decided (C19). Trusted: go/types, engine/absint, engine/mirror, tidwall/btree.",
  "technique": "finite-domain abstract interpretation of receiveRecord + token-level mirror comparison of sibling regions + truth tables",
 },
 "C04": {
  "text": "Each rewrite is abstractly interpreted on a symbolic plan and the node it returns is inspected: every filter-pushdown rule is run once per class of predicate (which join sides its variables use; for `a = b` which side each part uses) and the predicate must end up exactly where the class allows (branch filter(s), key pair with left part in LeftKey / right part in RightKey, or the filter that stays above), nowhere else and never dropped, with the untouched parts of the join carried over; filter merging keeps both filters' conjuncts; datasource pushdown stores accepted predicates in the datasource and keeps rejected ones above; column pruning cuts Schema.Fields and every parallel slice at corresponding positions and shifts TimeField iff behind the removed column, never offers the time field or group-by keys; isUsed consults every plan field that names a column and every whole-row consumer; and an `=` may become a join key only because the joins never match NULL keys.",
  "note": "Semantic equivalence of arbitrary rewritten plans (program equivalence), datasource-side predicate evaluation and run-time alignment of pruned schemas with file columns are not decided. Trusted: go/types, engine/absint.",
  "technique": "abstract interpretation of each rewrite on a symbolic plan with placement/conservation checks of the returned node",
 },
 "C18": {
  "text": "RecordEventTimeBuffer.Emit is interpreted over scripted sequences of the tree minimum (none / due with time < or = watermark / later): exactly the due items are released, smallest first, all their records, stopping at the first later item; AddRecord files records under their own event time in a tree ordered by Before. The event-time buffer node flushes up to a watermark before forwarding it, flushes everything after a successful source run and passes zero-event-time records through. In both joins the watermark handling of either input is interpreted for new {<,=,>} other side × candidate advances or not: the side's watermark is stored, the candidate is min(left,right), buffers are flushed up to exactly the forwarded value before it is forwarded, the last-forwarded value is updated; the one-input phase flushes then forwards; the final flush precedes the return. The triggering group-by triggers before forwarding. No node hands its metaSend to a child that it re-runs (per record or in a loop). max_diff_watermark emits strictly increasing watermarks.",
  "note": "Event-time arithmetic of emitted records in arbitrary pipelines and behaviour under every interleaving (C19) are not decided. Trusted: go/types, engine/absint, google/btree.",
  "technique": "finite-domain abstract interpretation with scripted container responses and event-order checks",
 },
 "C20": {
  "text": "The per-record callback of max_diff_watermark is interpreted for record time {<,=,>} current watermark × rounded time advancing or not: a record passes iff strictly above the watermark with its event time set to the time field first; the candidate is UnixNano/resolution*resolution; a watermark (rounded − max_diff) is emitted only on a strict advance with both bookkeeping variables updated — hence strictly increasing; source watermarks are swallowed; the resolution cannot be zero at the division.",
  "note": "Rounding arithmetic for times outside the int64 nanosecond range is not decided. Trusted: go/types, engine/absint.",
  "technique": "finite-domain abstract interpretation over time orderings",
 },
 "C21": {
  "text": "tumble's per-record callback is interpreted symbolically: window_start = truncate(time − offset, length) + offset with the same offset, window_end = window_start + length, both appended in order to the untouched values, the record forwarded once, metadata handed through; range's loop is `for i := start; i < end; i++` producing NewInt(i) as an addition with an unmodified counter; one poll round retracts the previous snapshot (with the previous time, only if there is one), resets the snapshot memory, runs the source (rows stamped with this round's time, emitted as additions, remembered) and then sends a watermark with this round's time; every table-valued-function argument is declared, type-asserted and read as the same kind.",
  "note": "time.Truncate arithmetic and wall-clock behaviour are not decided. Trusted: go/types, engine/absint.",
  "technique": "symbolic abstract interpretation of the callbacks + loop-shape and argument-kind table checks",
 },
 "C22": {
  "text": "The wrapper's protocol is decided on all paths: settle-before-forward on watermarks, buffer-only on records, final flush; both partition loops keep a record iff EventTime.After(watermark) and hand the kept ones over; the emission loop is interpreted per pending record class (crossed out / retraction / addition) × partner class (crossed out / addition / mismatch / match): crossed-out records are never emitted or consumed, an addition and its matching live retraction are crossed out together, everything else is emitted exactly once; no slice is made with a length and then only appended to.",
  "note": "Equality of the consolidated changelogs for every history follows by induction on the pending list from these per-record facts; the induction is not mechanised. Trusted: go/types, engine/absint.",
  "technique": "finite-domain abstract interpretation of nested loops by element class + make/append def-use rule",
 },
}

NOT_APPLICABLE = {
}
