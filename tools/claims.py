# Per-property claims. Keep in step with /verif/checker/props/cNN.go and DESIGN.md.
CLAIMS = {
 "C06": {
  "text": "Static error-flow analysis of every function on the query path: on every CFG path the error result of every call is propagated or examined (ERR1), blocks guarded by `err != nil` hand the error on (ERR3/ERR4), scan loops are followed by a checked Err() (ERR5) and error-carrying channel messages have their error field examined first (ERR6). This is a necessary condition of 'errors are never swallowed', decided for all paths rather than for sampled failures; it does not show that every failure raises an error in the first place.",
  "note": "Trusted: go/types, go/cfg, the reasoned allow table in props/c06.go (infallible writers, deferred Close, terminal output, fastjson accessors under a type test, failed-parse-yields-NULL). Third-party decoders are assumed to report their failures as errors.",
  "technique": "static error-flow analysis (AST + go/types + go/cfg must-dataflow)",
 },
}

NOT_APPLICABLE = {
}
