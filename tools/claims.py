# Per-property claims. Keep in step with /verif/checker/props/cNN.go and DESIGN.md.
CLAIMS = {
 "C06": {
  "text": "Static error-flow analysis of every function on the query path: on every CFG path the error result of every call is propagated or examined (ERR1), blocks guarded by `err != nil` hand the error on (ERR3/ERR4), scan loops are followed by a checked Err() (ERR5) and error-carrying channel messages have their error field examined first (ERR6). This is a necessary condition of 'errors are never swallowed', decided for all paths rather than for sampled failures; it does not show that every failure raises an error in the first place.",
  "note": "Trusted: go/types, go/cfg, the reasoned allow table in props/c06.go (infallible writers, deferred Close, terminal output, fastjson accessors under a type test, failed-parse-yields-NULL). Third-party decoders are assumed to report their failures as errors.",
  "technique": "static error-flow analysis (AST + go/types + go/cfg must-dataflow)",
 },
 "C09": {
  "text": "Finite-domain abstract interpretation of Value.Compare, Value.Equal, Value.hash and CompareValueSlices: every TypeID arm is evaluated under every abstract ordering of its two payloads (lt/eq/gt, NaN-unordered for floats, the four Boolean pairs), and the list-like arms and CompareValueSlices are explored as a product with the lexicographic reference automaton until the state pairs repeat. Each abstract case stands for all concrete values with that ordering, so the verdict covers NaN, signed zeros and extreme integers without sampling. Hash arms must read only Compare-invariant projections of the compared payload; every hashmap site must pair Compare-equality with Hash/HashManyValues and every value comparator must be a strict order compatible with Compare-equality.",
  "note": "Decides per-arm correctness (sign per ordering), which implies reflexivity/antisymmetry; transitivity is argued from each arm being the standard order of a totally ordered carrier. Trusted: go/types, the interpreter in engine/absint, third-party btree/hashmap honouring their comparator contracts.",
  "technique": "finite-domain abstract interpretation over the AST (path-sensitive, product with reference automaton for loops)",
 },
 "C11": {
  "text": "AND/OR are decided for every arity and operand order by exploring the loop of (*And).Evaluate / (*Or).Evaluate as a product with the Kleene reference automaton (operand classes TRUE/FALSE/NULL/error) until the (implementation state, reference state) pairs repeat; (*FunctionCall).Evaluate is shown to return NULL without calling the function whenever a null-checked argument is NULL; the strictness table is read from the FunctionMap literal (comparisons, arithmetic, string and conversion functions Strict; IS [NOT] NULL non-strict and Boolean-only, evaluated for NULL and non-NULL arguments); NOT by truth table; the Filter callback is evaluated for predicate TRUE/FALSE/NULL/non-Boolean/error; the typechecker's and the materializer's strict-null predicates are compared by truth table over the type relation.",
  "note": "Does not decide the values comparison functions return on non-NULL arguments (C09/C13). Trusted: go/types, the interpreter in engine/absint, the expected strictness table in props/c11.go.",
  "technique": "finite-domain abstract interpretation (loop × reference-automaton product) + table extraction from composite literals",
 },
}

NOT_APPLICABLE = {
}
