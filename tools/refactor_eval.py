#!/usr/bin/env python3
"""refactor_eval.py DIR... — apply each DIR/r*/patch.diff (a behaviour-preserving change written by a sub-agent) to
/repo, build, run every check without writing evidence, revert. Any VIOLATION/UNDECIDED is a false alarm candidate.
For the checker author's robustness testing only; nothing registered uses it."""
import subprocess, sys, os, glob, json
env = dict(os.environ, GOFLAGS='-mod=mod', GOPROXY='off', GOSUMDB='off', GOTOOLCHAIN='local', OCTOVERIF_NOEVIDENCE='1')
env.pop('GOWORK', None)
st = subprocess.run(['git', 'status', '--porcelain'], cwd='/repo', capture_output=True, text=True).stdout.strip()
if st:
    sys.exit('/repo is dirty: ' + st)
res = {}
for d in sys.argv[1:]:
    pds = [os.path.join(d, 'patch.diff')] if os.path.exists(os.path.join(d, 'patch.diff')) else sorted(glob.glob(os.path.join(d, 'r*', 'patch.diff')))
    for pd in pds:
        name = pd.replace('/tmp/wt/','').replace('/_out','').replace('/patch.diff','')
        a = subprocess.run(['git', 'apply', pd], cwd='/repo', capture_output=True, text=True)
        if a.returncode != 0:
            print(name, 'PATCH DOES NOT APPLY', a.stderr[:200]); continue
        try:
            b = subprocess.run(['go', 'build', './...'], cwd='/repo', env=env, capture_output=True, text=True)
            if b.returncode != 0:
                print(name, 'DOES NOT BUILD', b.stderr[:200]); continue
            r = subprocess.run([os.environ.get('OCTOVERIF_BIN', '/verif/bin/octoverif'), 'all'], env=env, capture_output=True, text=True)
            alarms = [l for l in r.stdout.splitlines() if not l.startswith('KNOWN') and not l.startswith('VIOLATION') and 'tier=' not in l and not l.startswith('STALE')]
            props = sorted({l.split('property=')[1].split()[0] for l in r.stdout.splitlines() if l.startswith('VIOLATION')})
            print(name, 'ALARM ' + ','.join(props) if props else 'quiet')
            for l in alarms[:int(os.environ.get('NALARM','6'))]:
                print('    ', l[:330])
            res[name] = alarms
        finally:
            subprocess.run(['git', 'checkout', '--', '.'], cwd='/repo')
            subprocess.run(['git', 'clean', '-fdq'], cwd='/repo')
json.dump(res, open('/tmp/refactor_eval.json', 'w'), indent=1)
