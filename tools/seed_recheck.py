#!/usr/bin/env python3
"""Re-runs every registered check against each stored seeded change (patch applied to /repo,
reverted straight afterwards) and refreshes meta.json. Prints a detection table."""
import glob, json, os, subprocess, sys
env = dict(os.environ, GOFLAGS='-mod=mod', GOPROXY='off', GOSUMDB='off', GOTOOLCHAIN='local', OCTOVERIF_NOEVIDENCE='1')
only = sys.argv[1:]
st = subprocess.run(['git', '-C', '/repo', 'status', '--porcelain'], capture_output=True, text=True).stdout.strip()
if st:
    sys.exit('/repo is dirty: ' + st)
rows = []
for d in sorted(glob.glob('/verif/seeded/*')):
    mid = os.path.basename(d)
    if only and mid not in only:
        continue
    meta = json.load(open(os.path.join(d, 'meta.json')))
    ap = subprocess.run(['git', '-C', '/repo', 'apply', os.path.join(d, 'patch.diff')], capture_output=True, text=True)
    if ap.returncode != 0:
        rows.append((mid, meta['property'], 'PATCH DOES NOT APPLY', ''))
        continue
    try:
        b = subprocess.run(['go', 'build', './...'], cwd='/repo', env=env, capture_output=True, text=True)
        chk = subprocess.run(['/verif/bin/octoverif', 'all'], env=env, capture_output=True, text=True)
    finally:
        subprocess.run(['git', '-C', '/repo', 'checkout', '--', '.'])
    flagged = {}
    for line in chk.stdout.splitlines():
        if line.startswith('VIOLATION'):
            pid = line.split('property=')[1].split()[0]
            flagged[pid] = flagged.get(pid, 0) + 1
    reports = [l[:400] for l in chk.stdout.splitlines() if not l.startswith('VIOLATION') and 'tier=' not in l and not l.startswith('KNOWN') and not l.startswith('STALE')]
    meta['checks_flagging'] = flagged
    meta['detected'] = bool(flagged)
    meta['detected_by_own_property'] = meta['property'] in flagged
    meta['first_reports'] = reports[:4]
    meta['builds'] = b.returncode == 0
    json.dump(meta, open(os.path.join(d, 'meta.json'), 'w'), indent=1)
    rows.append((mid, meta['property'], 'own' if meta['detected_by_own_property'] else ('other' if flagged else 'MISSED'), ','.join(sorted(flagged))))
for r in rows:
    print('%-8s %-4s %-8s %s' % r)
