#!/usr/bin/env python3
"""seed_eval.py SRC_DIR ID PROPERTY --put demo_file:dest_dir ... --cmd 'go test …' [--needs '…']
Confirms a seeded change (compiles, suite passes, demo passes without / fails with the change) in a
scratch worktree of /repo, runs every registered octoverif check against it (patch applied to /repo,
reverted straight afterwards), and stores it as /verif/seeded/ID/."""
import argparse, json, os, shutil, subprocess, sys, glob
ap = argparse.ArgumentParser()
ap.add_argument('src'); ap.add_argument('id'); ap.add_argument('prop')
ap.add_argument('--put', action='append', default=[])
ap.add_argument('--cmd', required=True)
ap.add_argument('--needs', default='')
ap.add_argument('--what', default='')
a = ap.parse_args()
env = dict(os.environ, GOFLAGS='-mod=mod', GOPROXY='off', GOSUMDB='off', GOTOOLCHAIN='local', OCTOSQL_NO_TELEMETRY='1')
env.pop('GOWORK', None)
def sh(cmd, cwd, check=False):
    r = subprocess.run(cmd, cwd=cwd, env=env, shell=True, capture_output=True, text=True)
    if check and r.returncode != 0:
        print(r.stdout[-2000:], r.stderr[-2000:]); sys.exit('FAILED: ' + cmd)
    return r
sw = '/tmp/sw_' + a.id
subprocess.run(['git', '-C', '/repo', 'worktree', 'remove', '--force', sw], capture_output=True)
sh(f'git -C /repo worktree add -q --detach {sw} HEAD', '/', check=True)
result = {'id': a.id, 'property': a.prop, 'needs': a.needs, 'what': a.what, 'demo_cmd': a.cmd}
try:
    patch = os.path.join(a.src, 'patch.diff')
    for put in a.put:
        f, dest = put.split(':')
        os.makedirs(os.path.join(sw, dest), exist_ok=True)
        shutil.copy(os.path.join(a.src, 'demo', f), os.path.join(sw, dest, os.path.basename(f)))
    r0 = sh(a.cmd, sw)
    result['demo_without_change'] = 'pass' if r0.returncode == 0 else 'FAIL'
    ap_ = sh(f'git apply {patch}', sw)
    if ap_.returncode != 0:
        ap_ = sh(f'git apply --3way {patch}', sw)
    if ap_.returncode != 0:
        result['applies'] = False
        print(json.dumps(result, indent=1)); print(ap_.stderr[-800:]); sys.exit(1)
    result['applies'] = True
    # the applied form of the patch against the current tree
    cur = sh('git diff -- . ":(exclude)*_test.go"', sw).stdout
    b = sh('go build ./...', sw)
    result['builds'] = b.returncode == 0
    t = sh('go test -vet=off -count=1 ./... 2>&1 | grep -v "no test files" | grep -v "^ok" || true', sw)
    # the demo test itself lives in the tree: exclude its own failure lines from the suite verdict by running the baseline list
    r1 = sh(a.cmd, sw)
    result['demo_with_change'] = 'fail' if r1.returncode != 0 else 'PASS(!)'
    result['demo_fail_excerpt'] = (r1.stdout + r1.stderr)[-600:]
    # existing suite with the change but without the demo files
    for put in a.put:
        f, dest = put.split(':')
        os.remove(os.path.join(sw, dest, os.path.basename(f)))
    t = sh('go test -vet=off -count=1 ./... 2>&1 | grep -v "no test files" | grep -v "^ok" || true', sw)
    result['existing_suite_with_change'] = 'pass' if t.stdout.strip() == '' else 'FAIL: ' + t.stdout[-400:]
    # run the checks against /repo with the change
    open('/tmp/seed_cur.diff', 'w').write(cur)
    st = sh('git status --porcelain', '/repo').stdout.strip()
    if st:
        sys.exit('/repo is dirty: ' + st)
    sh('git apply /tmp/seed_cur.diff', '/repo', check=True)
    try:
        chk = subprocess.run(['/verif/bin/octoverif', 'all'], env=dict(env, OCTOVERIF_NOEVIDENCE='1'), capture_output=True, text=True)
    finally:
        sh('git checkout -- .', '/repo')
        os.remove('/tmp/seed_cur.diff')
    flagged = {}
    for line in chk.stdout.splitlines():
        if line.startswith('VIOLATION'):
            pid = line.split('property=')[1].split()[0]
            flagged[pid] = flagged.get(pid, 0) + 1
    result['checks_flagging'] = flagged
    result['detected'] = bool(flagged)
    viol = [l for l in chk.stdout.splitlines() if not l.startswith('VIOLATION') and not l.startswith('KNOWN') and ('ABS' in l or ':' in l) and ('tier=' not in l)]
    result['first_reports'] = [l[:400] for l in viol[:4]]
    out = os.path.join('/verif/seeded', a.id)
    if os.path.isdir(out):
        shutil.rmtree(out)
    os.makedirs(os.path.join(out, 'demo'))
    open(os.path.join(out, 'patch.diff'), 'w').write(cur)
    for f in glob.glob(os.path.join(a.src, 'demo', '*')):
        if os.path.isfile(f) and os.path.getsize(f) < 200000:
            shutil.copy(f, os.path.join(out, 'demo'))
    if os.path.exists(os.path.join(a.src, 'README.md')):
        shutil.copy(os.path.join(a.src, 'README.md'), os.path.join(out, 'README.md'))
    result['ran'] = ['go build ./...', 'go test -vet=off -count=1 ./... (existing suite, with change)', a.cmd + ' (without and with change)', '/verif/bin/octoverif all (patch applied to /repo, reverted)']
    result['demo_placement'] = a.put
    json.dump(result, open(os.path.join(out, 'meta.json'), 'w'), indent=1)
    print(json.dumps({k: v for k, v in result.items() if k not in ('demo_fail_excerpt', 'ran')}, indent=1))
finally:
    subprocess.run(['git', '-C', '/repo', 'worktree', 'remove', '--force', sw], capture_output=True)
