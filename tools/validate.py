#!/usr/bin/env python3
import json, glob, sys, jsonschema
jsonschema.validate(json.load(open('/verif/MANIFEST.json')), json.load(open('/root/.vp/MANIFEST.schema.json')))
es = json.load(open('/root/.vp/EVIDENCE.schema.json'))
n = 0
for f in sorted(glob.glob('/verif/evidence/C*.json')):
    jsonschema.validate(json.load(open(f)), es); n += 1
print('manifest valid;', n, 'evidence files valid')
