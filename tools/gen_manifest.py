#!/usr/bin/env python3
"""Generates /verif/MANIFEST.json from the per-property table below.
A property without an entry in CLAIMS goes to not_applicable with its reason."""
import json, os, sys
HERE = os.path.dirname(os.path.abspath(__file__))
sys.path.insert(0, HERE)
from claims import CLAIMS, NOT_APPLICABLE

ids = [json.loads(l)["id"] for l in open(os.path.join(HERE, "..", "properties.jsonl"))]
goenv = "GOFLAGS=-mod=mod GOPROXY=off GOSUMDB=off GOTOOLCHAIN=local GOWORK=off"
manifest = {
    "version": 1,
    "setup_cmd": f"cd /verif/checker && env {goenv} go build -o /verif/bin/octoverif ./cmd/octoverif",
    "hooks": {
        "guard": "verif",
        "enable": "no hooks: the checks are static analyses of /repo's working tree; nothing is instrumented and no build tag is needed",
        "baseline_off_cmd": "cd /repo && env GOPROXY=off GOSUMDB=off GOTOOLCHAIN=local go test -mod=mod -json -vet=off -count=1 -timeout 25m ./...",
        "source_commits": [],
        "add_only": True,
    },
    "engines": [{
        "name": "octoverif", "path": "/verif/checker",
        "serves_properties": sorted(CLAIMS),
        "kind_free_text": "repository-specific static analyses over go/ast + go/types + go/cfg (error-flow, discriminant/payload agreement, must-flow ordering, finite-domain abstract interpretation of comparators and logic, sibling mirroring, table checks); loads /repo's working tree with go/packages on every run; nothing under /repo is executed",
    }],
    "checks": [],
    "not_applicable": [],
    "notes": "All claims are at level 'other': structural necessary conditions of each property, decided for every path of the enumerated sites. See DESIGN.md. Known findings: /verif/known_findings.json. Evaluated both ways: ~170 seeded breaking changes (/verif/seeded, every one reported by the check of the property it was written against) and 120+ behaviour-preserving refactorings (/verif/refactors, every one silent after the corrections of DESIGN.md §7.8; the first-evaluation alarm rates of the fresh rounds are reported there).",
}
for pid in ids:
    if pid in CLAIMS:
        c = CLAIMS[pid]
        manifest["checks"].append({
            "property_id": pid,
            "quick_cmd": f"/verif/bin/octoverif check {pid} --tier quick",
            "thorough_cmd": f"/verif/bin/octoverif check {pid} --tier thorough",
            "evidence_file": f"/verif/evidence/{pid}.json",
            "replay_cmd_template": "/verif/bin/octoverif explain {path}",
            "engine": "octoverif",
            "level_claimed": {"category": "other", "text": c["text"], "design_ref": c.get("design_ref", "DESIGN.md §3 " + pid)},
            "level_note": c["note"],
            "technique": c["technique"],
        })
    else:
        manifest["not_applicable"].append({"property_id": pid, "reason": NOT_APPLICABLE.get(pid, "no sound structural rule has been built for this property yet (static analysis only); see DESIGN.md §5")})
json.dump(manifest, open(os.path.join(HERE, "..", "MANIFEST.json"), "w"), indent=1)
print("checks:", len(manifest["checks"]), "not_applicable:", len(manifest["not_applicable"]))
