#!/usr/bin/env python3
"""kf_fixed.py PROP COMMIT KEY WHAT — record a repaired genuine defect in /verif/known_findings.json."""
import json, sys
prop, commit, key, what = sys.argv[1:5]
p = '/verif/known_findings.json'
d = json.load(open(p))
d['findings'].append({"property": prop, "key": key, "what": what, "status": "fixed", "commit": commit})
d['_comment'].append(f"fixed: property={prop} {commit} {what}")
json.dump(d, open(p, 'w'), indent=1, ensure_ascii=False)
print('ok', len(d['findings']))
