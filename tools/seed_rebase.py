#!/usr/bin/env python3
"""seed_rebase.py ID (FILE OLD NEW)+ — re-create /verif/seeded/ID/patch.diff against /repo's current tree by applying
the same textual mutation again (used after a repo fix moved the lines a stored patch touches). The working tree is
restored afterwards."""
import subprocess, sys
sid = sys.argv[1]
trip = sys.argv[2:]
assert len(trip) % 3 == 0 and trip
saved = {}
try:
    for i in range(0, len(trip), 3):
        path, old, new = trip[i:i+3]
        full = '/repo/' + path
        s = open(full).read()
        saved.setdefault(full, s)
        assert s.count(old) == 1, (path, s.count(old), old[:60])
        open(full, 'w').write(s.replace(old, new, 1))
    b = subprocess.run(['go', 'build', './...'], cwd='/repo', capture_output=True, text=True,
                       env=dict(__import__('os').environ, GOFLAGS='-mod=mod', GOPROXY='off', GOSUMDB='off'))
    if b.returncode != 0:
        print('DOES NOT BUILD', b.stderr[:400]); sys.exit(2)
    d = subprocess.run(['git', 'diff'] + [p[len('/repo/'):] for p in saved], cwd='/repo', capture_output=True, text=True).stdout
    open(f'/verif/seeded/{sid}/patch.diff', 'w').write(d)
    print(sid, 'rebased', len(d), 'bytes')
finally:
    for full, s in saved.items():
        open(full, 'w').write(s)
