#!/usr/bin/env python3
"""trymut.py PROP FILE OLD NEW [COUNT] — apply a textual mutation to /repo's working
tree, check that it still builds, run the property's quick check, revert. For the
checker author's own sanity tests only (nothing registered uses it)."""
import subprocess, sys, os
prop, path, old, new = sys.argv[1:5]
nth = int(sys.argv[5]) if len(sys.argv) > 5 else 1
full = os.path.join('/repo', path)
s = open(full).read()
if s.count(old) < nth:
    print('PATTERN NOT FOUND', s.count(old)); sys.exit(3)
idx = -1
for _ in range(nth):
    idx = s.index(old, idx + 1)
open(full, 'w').write(s[:idx] + new + s[idx + len(old):])
env = dict(os.environ, GOFLAGS='-mod=mod', GOPROXY='off', GOSUMDB='off', GOTOOLCHAIN='local', OCTOVERIF_NOEVIDENCE='1')
try:
    b = subprocess.run(['go', 'build', './...'], cwd='/repo', env=env, capture_output=True, text=True)
    if b.returncode != 0:
        print('MUTANT DOES NOT BUILD:', b.stderr[:400]); sys.exit(4)
    for pr in prop.split(','):
        r = subprocess.run(['/verif/bin/octoverif', 'check', pr], env=env, capture_output=True, text=True)
        lines = [l for l in r.stdout.splitlines() if not l.startswith('VIOLATION')]
        print(f'{pr}: rc={r.returncode}', '| ' + ' || '.join(l[:300] for l in lines[:4]))
finally:
    open(full, 'w').write(s)  # restore the working-tree content (which may hold uncommitted work)
