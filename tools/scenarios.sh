#!/bin/bash
# Triage helper (NOT a registered check): runs octosql's own snapshot scenarios
# (tests/scenarios, not part of the baseline suite) on a scratch copy of /repo's
# working tree, to confirm that a "fix:" commit does not change behaviour the
# project's own snapshots pin.  Scratch copy and binaries are removed afterwards.
export GOFLAGS=-mod=mod GOPROXY=off GOSUMDB=off GOTOOLCHAIN=local
set -e
D=/tmp/sw_scn_$$
rm -rf $D; mkdir -p $D/bin
rsync -a --exclude .git /repo/ $D/src/
cd $D/src
go build -o $D/bin/octosql . && go build -o $D/bin/tester ./tests/tester
set +e
PATH=$D/bin:$PATH timeout 900 $D/bin/tester ci > $D/out.txt 2>&1
rc=$?
grep -v '^[a-z_]*/[a-z_0-9/]*$' $D/out.txt | head -${1:-80}
echo "scenarios exit=$rc ($(grep -c '^[a-z_]*/[a-z_0-9/]*$' $D/out.txt) cases)"
cd /; rm -rf $D
exit $rc
