#!/bin/bash
# run octosql's own test suite on /repo (triage aid; not a registered check)
cd /repo && GOFLAGS=-mod=mod GOPROXY=off GOSUMDB=off go test -vet=off -count=1 ./... 2>&1 | grep -v "no test files" | grep -v "^ok" | head -20
echo "suite exit (non-ok lines above)"
