package core

import (
	_ "embed"
	"encoding/json"
	"go/ast"
	"go/parser"
	"go/token"
	"os"
	"path/filepath"
	"strings"
)

// Alpha-normalisation. Many rules speak about a function's receiver, parameters and locals by the names they had on
// the tree the rules were written against ("node", "values", "record", "toUndo" …). Renaming any of them is the most
// common harmless edit, and must not change a verdict. So before type-checking, every function's declared variables
// are renamed, in memory only, to the names recorded for that function in baseline_names.json — matched by order of
// declaration, and only when the function declares exactly as many variables as it did then (otherwise it is left as
// it is and the rules see the source names). Nothing is compared with the table: it only gives names.
//
//go:embed baseline_names.json
var baselineNamesRaw []byte

var baselineNames map[string][]string

func init() {
	baselineNames = map[string][]string{}
	_ = json.Unmarshal(baselineNamesRaw, &baselineNames)
}

// FuncKeyOf: "relpkg::F" or "relpkg::(*T).M".
func funcKeyOf(relPkg string, fd *ast.FuncDecl) string {
	name := fd.Name.Name
	if fd.Recv != nil && len(fd.Recv.List) == 1 {
		name = "(" + recvText(fd.Recv.List[0].Type) + ")." + name
	}
	return relPkg + "::" + name
}

func recvText(e ast.Expr) string {
	switch t := e.(type) {
	case *ast.StarExpr:
		return "*" + recvText(t.X)
	case *ast.Ident:
		return t.Name
	case *ast.IndexExpr:
		return recvText(t.X)
	case *ast.IndexListExpr:
		return recvText(t.X)
	}
	return "?"
}

type declKey struct {
	decl interface{}
	name string
}

// declaredVars lists the identifiers that declare a variable inside fd, in source order (receiver, parameters,
// results, then everything in the body, literals' parameters included).
func declaredVars(fd ast.Node) []*ast.Ident {
	var out []*ast.Ident
	seen := map[*ast.Ident]bool{}
	add := func(id *ast.Ident) {
		if id == nil || id.Name == "_" || seen[id] || id.Obj == nil || id.Obj.Kind != ast.Var {
			return
		}
		if id.Obj.Pos() != id.Pos() {
			return // a use, not the declaring occurrence
		}
		seen[id] = true
		out = append(out, id)
	}
	ast.Inspect(fd, func(n ast.Node) bool {
		if id, ok := n.(*ast.Ident); ok {
			add(id)
		}
		return true
	})
	return out
}

func normaliseFunc(fd ast.Node, names []string) bool {
	decls := declaredVars(fd)
	if len(decls) != len(names) {
		return false
	}
	ren := map[declKey]string{}
	changed := false
	for i, id := range decls {
		if id.Name != names[i] {
			ren[declKey{id.Obj.Decl, id.Name}] = names[i]
			changed = true
		}
	}
	if !changed {
		return false
	}
	ast.Inspect(fd, func(n ast.Node) bool {
		id, ok := n.(*ast.Ident)
		if !ok || id.Obj == nil || id.Obj.Kind != ast.Var {
			return true
		}
		if nn, ok := ren[declKey{id.Obj.Decl, id.Name}]; ok {
			id.Name = nn
		}
		return true
	})
	return true
}

// alphaParseFile is installed as packages.Config.ParseFile.
func alphaParseFile(root string, renamed *int) func(fset *token.FileSet, filename string, src []byte) (*ast.File, error) {
	return func(fset *token.FileSet, filename string, src []byte) (*ast.File, error) {
		f, err := parser.ParseFile(fset, filename, src, parser.ParseComments)
		if err != nil || f == nil {
			return f, err
		}
		rel, rerr := filepath.Rel(root, filepath.Dir(filename))
		if rerr != nil || strings.HasPrefix(rel, "..") || os.Getenv("OCTOVERIF_NOALPHA") != "" || strings.HasSuffix(filename, "_test.go") {
			return f, nil
		}
		if rel == "." {
			rel = ""
		}
		for _, d := range f.Decls {
			if fd, ok := d.(*ast.FuncDecl); ok && fd.Body != nil {
				if names, ok := baselineNames[funcKeyOf(filepath.ToSlash(rel), fd)]; ok {
					if normaliseFunc(fd, names) {
						*renamed++
					}
				}
			}
			// package-level variables initialised with function literals (cobra commands, descriptor tables)
			if gd, ok := d.(*ast.GenDecl); ok && gd.Tok == token.VAR {
				for _, sp := range gd.Specs {
					if vs, ok := sp.(*ast.ValueSpec); ok && len(vs.Names) == 1 && len(vs.Values) == 1 {
						if names, ok := baselineNames[filepath.ToSlash(rel)+"::var "+vs.Names[0].Name]; ok {
							if normaliseFunc(vs.Values[0], names) {
								*renamed++
							}
						}
					}
				}
			}
		}
		return f, nil
	}
}

// GenBaselineNames writes the names table for the tree at root (parsed without normalisation).
func GenBaselineNames(root, out string) (int, error) {
	table := map[string][]string{}
	fset := token.NewFileSet()
	err := filepath.Walk(root, func(path string, info os.FileInfo, err error) error {
		if err != nil {
			return err
		}
		if info.IsDir() {
			if b := info.Name(); b == ".git" || b == "vendor" || b == "testdata" {
				return filepath.SkipDir
			}
			return nil
		}
		if !strings.HasSuffix(path, ".go") || strings.HasSuffix(path, "_test.go") || strings.HasSuffix(path, ".pb.go") {
			return nil
		}
		f, perr := parser.ParseFile(fset, path, nil, 0)
		if perr != nil {
			return nil
		}
		rel, _ := filepath.Rel(root, filepath.Dir(path))
		if rel == "." {
			rel = ""
		}
		for _, d := range f.Decls {
			if fd, ok := d.(*ast.FuncDecl); ok && fd.Body != nil {
				var names []string
				for _, id := range declaredVars(fd) {
					names = append(names, id.Name)
				}
				if len(names) > 0 {
					table[funcKeyOf(filepath.ToSlash(rel), fd)] = names
				}
			}
			if gd, ok := d.(*ast.GenDecl); ok && gd.Tok == token.VAR {
				for _, sp := range gd.Specs {
					if vs, ok := sp.(*ast.ValueSpec); ok && len(vs.Names) == 1 && len(vs.Values) == 1 {
						var names []string
						for _, id := range declaredVars(vs.Values[0]) {
							names = append(names, id.Name)
						}
						if len(names) > 0 {
							table[filepath.ToSlash(rel)+"::var "+vs.Names[0].Name] = names
						}
					}
				}
			}
		}
		return nil
	})
	if err != nil {
		return 0, err
	}
	b, _ := json.MarshalIndent(table, "", " ")
	return len(table), os.WriteFile(out, b, 0644)
}
