// Package core holds the loader, the obligation/verdict bookkeeping, the
// known-findings protocol and the evidence writer shared by every rule.
package core

import (
	"fmt"
	"go/ast"
	"go/token"
	"go/types"
	"os"
	"path/filepath"
	"sort"
	"strings"

	"golang.org/x/tools/go/packages"
)

const ModPath = "github.com/cube2222/octosql"

// Program is the type-checked view of /repo's working tree.
type Program struct {
	Root   string
	// AlphaRenamed counts the functions whose variables were given their baseline names in memory (see alpha.go).
	AlphaRenamed int
	Fset   *token.FileSet
	Pkgs   []*packages.Package
	byPath map[string]*packages.Package
	GOARCH string
}

// RepoRoot returns the tree that is analysed: /repo, unless OCTOVERIF_REPO
// names a scratch worktree (used only while testing the checker itself).
func RepoRoot() string {
	if r := os.Getenv("OCTOVERIF_REPO"); r != "" {
		return r
	}
	return "/repo"
}

func goEnv(goarch string) []string {
	var env []string
	for _, kv := range os.Environ() {
		k := kv
		if i := strings.IndexByte(kv, '='); i >= 0 {
			k = kv[:i]
		}
		switch k {
		case "GOFLAGS", "GOPROXY", "GOSUMDB", "GOTOOLCHAIN", "GOWORK", "GOARCH", "GOOS", "GO111MODULE":
			continue
		}
		env = append(env, kv)
	}
	env = append(env, "GOFLAGS=-mod=mod", "GOPROXY=off", "GOSUMDB=off", "GOTOOLCHAIN=local", "GOWORK=off", "GO111MODULE=on")
	// goarch is "" (host), "<arch>" or "<os>/<arch>"
	if i := strings.IndexByte(goarch, '/'); i >= 0 {
		env = append(env, "GOOS="+goarch[:i], "GOARCH="+goarch[i+1:], "CGO_ENABLED=0")
	} else if goarch != "" {
		env = append(env, "GOARCH="+goarch)
	}
	return env
}

// Load type-checks every package of the module from source. Dependencies come
// from export data. A load with fewer than minPkgs packages or with any type
// error is not a verdict: the caller exits with status 2.
func Load(goarch string, overlay map[string][]byte) (*Program, error) {
	root := RepoRoot()
	fset := token.NewFileSet()
	cfg := &packages.Config{
		Mode:    packages.NeedName | packages.NeedFiles | packages.NeedCompiledGoFiles | packages.NeedImports | packages.NeedTypes | packages.NeedTypesSizes | packages.NeedSyntax | packages.NeedTypesInfo,
		Dir:     root,
		Env:     goEnv(goarch),
		Fset:    fset,
		Tests:   false,
		Overlay: overlay,
	}
	renamed := 0
	cfg.ParseFile = alphaParseFile(root, &renamed)
	pkgs, err := packages.Load(cfg, "./...")
	if err != nil {
		return nil, fmt.Errorf("packages.Load: %w", err)
	}
	if renamed > 0 {
		// the in-memory renaming must never be the reason a tree does not type-check: fall back to the source names
		bad := false
		for _, pkg := range pkgs {
			if len(pkg.Errors) > 0 {
				bad = true
			}
		}
		if bad {
			cfg.ParseFile = nil
			cfg.Fset = token.NewFileSet()
			fset = cfg.Fset
			renamed = 0
			pkgs, err = packages.Load(cfg, "./...")
			if err != nil {
				return nil, fmt.Errorf("packages.Load: %w", err)
			}
		}
	}
	p := &Program{Root: root, Fset: fset, byPath: map[string]*packages.Package{}, GOARCH: goarch, AlphaRenamed: renamed}
	var errs []string
	for _, pkg := range pkgs {
		for _, e := range pkg.Errors {
			errs = append(errs, e.Error())
		}
		p.byPath[pkg.PkgPath] = pkg
		p.Pkgs = append(p.Pkgs, pkg)
	}
	sort.Slice(p.Pkgs, func(i, j int) bool { return p.Pkgs[i].PkgPath < p.Pkgs[j].PkgPath })
	if len(errs) > 0 {
		if len(errs) > 10 {
			errs = errs[:10]
		}
		return nil, fmt.Errorf("%d package errors, e.g.:\n  %s", len(errs), strings.Join(errs, "\n  "))
	}
	const minPkgs = 39
	if len(p.Pkgs) < minPkgs {
		return nil, fmt.Errorf("only %d packages loaded from %s (expected >= %d)", len(p.Pkgs), root, minPkgs)
	}
	return p, nil
}

// Pkg returns the package with the given path relative to the module root
// ("execution/nodes"), or nil.
func (p *Program) Pkg(rel string) *packages.Package {
	if rel == "" || rel == "." {
		return p.byPath[ModPath]
	}
	return p.byPath[ModPath+"/"+rel]
}

// Pos renders a position relative to the repository root.
func (p *Program) Pos(pos token.Pos) string {
	if !pos.IsValid() {
		return "-"
	}
	ps := p.Fset.Position(pos)
	rel, err := filepath.Rel(p.Root, ps.Filename)
	if err != nil {
		rel = ps.Filename
	}
	return fmt.Sprintf("%s:%d:%d", rel, ps.Line, ps.Column)
}

// FuncRef is a function declaration together with its package.
type FuncRef struct {
	Pkg  *packages.Package
	Decl *ast.FuncDecl
	Obj  *types.Func
	// Synth is set for package-level variable initialisers, which are presented
	// as a synthetic function "init$<var>" so that the literals inside are analysed.
	Synth string
}

// Name is the qualified name used in obligation keys.
func (p *Program) FName(f *FuncRef) string {
	if f.Obj != nil {
		return p.QName(f.Obj)
	}
	rel := Rel(f.Pkg)
	if rel == "" {
		rel = "main"
	}
	return rel + "." + f.Synth
}

func (f *FuncRef) Info() *types.Info { return f.Pkg.TypesInfo }

// QName is "pkg.(*T).M" / "pkg.T.M" / "pkg.F" with pkg relative to the module.
func (p *Program) QName(fn *types.Func) string {
	if fn == nil {
		return "?"
	}
	pk := ""
	if fn.Pkg() != nil {
		pk = strings.TrimPrefix(strings.TrimPrefix(fn.Pkg().Path(), ModPath), "/")
		if pk == "" {
			pk = "main"
		}
	}
	sig := fn.Type().(*types.Signature)
	if r := sig.Recv(); r != nil {
		t := r.Type()
		ptr := false
		if pt, ok := t.(*types.Pointer); ok {
			t = pt.Elem()
			ptr = true
		}
		name := "?"
		if n, ok := t.(*types.Named); ok {
			name = n.Obj().Name()
		}
		if ptr {
			return fmt.Sprintf("%s.(*%s).%s", pk, name, fn.Name())
		}
		return fmt.Sprintf("%s.%s.%s", pk, name, fn.Name())
	}
	return pk + "." + fn.Name()
}

// Func finds a top-level function or method. name is "F", "T.M" or "(*T).M".
func (p *Program) Func(rel, name string) *FuncRef {
	pkg := p.Pkg(rel)
	if pkg == nil {
		return nil
	}
	recv := ""
	meth := name
	if i := strings.LastIndexByte(name, '.'); i >= 0 {
		recv = strings.Trim(name[:i], "()*")
		meth = name[i+1:]
	}
	for _, f := range pkg.Syntax {
		for _, d := range f.Decls {
			fd, ok := d.(*ast.FuncDecl)
			if !ok || fd.Name.Name != meth {
				continue
			}
			r := ""
			if fd.Recv != nil && len(fd.Recv.List) == 1 {
				r = recvTypeName(fd.Recv.List[0].Type)
			}
			if r != recv {
				continue
			}
			obj, _ := pkg.TypesInfo.Defs[fd.Name].(*types.Func)
			return &FuncRef{Pkg: pkg, Decl: fd, Obj: obj}
		}
	}
	return nil
}

func recvTypeName(e ast.Expr) string {
	for {
		switch x := e.(type) {
		case *ast.StarExpr:
			e = x.X
		case *ast.ParenExpr:
			e = x.X
		case *ast.IndexExpr:
			e = x.X
		case *ast.Ident:
			return x.Name
		default:
			return ""
		}
	}
}

// AllFuncs lists every function declaration (with body) of the module's packages,
// optionally restricted to packages whose relative path has one of the prefixes.
func (p *Program) AllFuncs(prefixes ...string) []*FuncRef {
	var out []*FuncRef
	for _, pkg := range p.Pkgs {
		rel := strings.TrimPrefix(strings.TrimPrefix(pkg.PkgPath, ModPath), "/")
		if len(prefixes) > 0 {
			ok := false
			for _, pre := range prefixes {
				if rel == pre || strings.HasPrefix(rel, pre+"/") || (pre == "." && rel == "") {
					ok = true
				}
			}
			if !ok {
				continue
			}
		}
		for _, f := range pkg.Syntax {
			for _, d := range f.Decls {
				if fd, ok := d.(*ast.FuncDecl); ok && fd.Body != nil {
					obj, _ := pkg.TypesInfo.Defs[fd.Name].(*types.Func)
					out = append(out, &FuncRef{Pkg: pkg, Decl: fd, Obj: obj})
				}
				if gd, ok := d.(*ast.GenDecl); ok && gd.Tok == token.VAR {
					for _, sp := range gd.Specs {
						vs := sp.(*ast.ValueSpec)
						for i, v := range vs.Values {
							hasLit := false
							ast.Inspect(v, func(n ast.Node) bool {
								if _, ok := n.(*ast.FuncLit); ok {
									hasLit = true
								}
								return !hasLit
							})
							if !hasLit {
								continue
							}
							name := "_"
							if i < len(vs.Names) {
								name = vs.Names[i].Name
							}
							synth := &ast.FuncDecl{Name: ast.NewIdent("init$" + name), Type: &ast.FuncType{Params: &ast.FieldList{}},
								Body: &ast.BlockStmt{Lbrace: v.Pos(), List: []ast.Stmt{&ast.ExprStmt{X: v}}, Rbrace: v.End()}}
							out = append(out, &FuncRef{Pkg: pkg, Decl: synth, Synth: "init$" + name})
						}
					}
				}
			}
		}
	}
	return out
}

// Rel returns the package path relative to the module.
func Rel(pkg *packages.Package) string {
	return strings.TrimPrefix(strings.TrimPrefix(pkg.PkgPath, ModPath), "/")
}

// NamedType looks up a named type by relative package and name.
func (p *Program) NamedType(rel, name string) *types.Named {
	pkg := p.Pkg(rel)
	if pkg == nil || pkg.Types == nil {
		return nil
	}
	o := pkg.Types.Scope().Lookup(name)
	if o == nil {
		return nil
	}
	n, _ := o.Type().(*types.Named)
	return n
}
