package core

import (
	"encoding/json"
	"fmt"
	"go/token"
	"os"
	"path/filepath"
	"sort"
	"strings"
	"time"
)

type Verdict string

const (
	Discharged Verdict = "DISCHARGED"
	Violated   Verdict = "VIOLATED"
	Undecided  Verdict = "UNDECIDED"
)

// Obligation is one rule instance: a rule applied to one construct.
type Obligation struct {
	Rule    string  `json:"rule"`
	Key     string  `json:"key"` // rule + construct, never a line number
	Pos     string  `json:"pos"`
	Verdict Verdict `json:"verdict"`
	Detail  string  `json:"detail,omitempty"`
	// Cases is the number of abstract cases / paths / call sites inspected for
	// this obligation; an obligation with Cases>0 counts as non-trivial.
	Cases int `json:"cases"`
}

// Ctx collects the obligations of one property check.
type Ctx struct {
	Prog     *Program
	Prop     string
	Tier     string
	Obs      []Obligation
	Notes    []string
	floors   []floor
	Rules    map[string]string // rule id -> one-line description
	Funcs    map[string]bool   // functions analysed
	CallSite int
	NotCover []string
}

type floor struct {
	rule string
	min  int
	why  string
}

func NewCtx(p *Program, prop, tier string) *Ctx {
	return &Ctx{Prog: p, Prop: prop, Tier: tier, Rules: map[string]string{}, Funcs: map[string]bool{}}
}

func (c *Ctx) Rule(id, desc string) { c.Rules[id] = desc }

// Floor declares the hand-confirmed minimum number of instances of a rule.
// Resolving fewer is a failure: a rule matching nothing passes vacuously forever.
func (c *Ctx) Floor(rule string, min int, why string) {
	c.floors = append(c.floors, floor{rule, min, why})
}

func (c *Ctx) add(rule, construct string, pos token.Pos, v Verdict, cases int, detail string) {
	c.Obs = append(c.Obs, Obligation{Rule: rule, Key: rule + ":" + construct, Pos: c.Prog.Pos(pos), Verdict: v, Detail: detail, Cases: cases})
}

func (c *Ctx) OK(rule, construct string, pos token.Pos, cases int, detail string) {
	c.add(rule, construct, pos, Discharged, cases, detail)
}
func (c *Ctx) Bad(rule, construct string, pos token.Pos, cases int, detail string) {
	c.add(rule, construct, pos, Violated, cases, detail)
}
func (c *Ctx) Unknown(rule, construct string, pos token.Pos, detail string) {
	c.add(rule, construct, pos, Undecided, 0, detail)
}

// Decide adds a discharged or violated obligation depending on ok.
func (c *Ctx) Decide(ok bool, rule, construct string, pos token.Pos, cases int, okDetail, badDetail string) {
	if ok {
		c.OK(rule, construct, pos, cases, okDetail)
	} else {
		c.Bad(rule, construct, pos, cases, badDetail)
	}
}

func (c *Ctx) Note(format string, a ...any) { c.Notes = append(c.Notes, fmt.Sprintf(format, a...)) }
func (c *Ctx) SawFunc(name string)          { c.Funcs[name] = true }

// ---------------------------------------------------------------------------
// known findings

type Finding struct {
	Property string `json:"property"`
	Key      string `json:"key"`
	What     string `json:"what"`
	Witness  string `json:"witness,omitempty"`
	Status   string `json:"status"` // open | fixed
	Commit   string `json:"commit,omitempty"`
}

type findingsFile struct {
	Comment  []string  `json:"_comment"`
	Findings []Finding `json:"findings"`
}

func VerifDir() string {
	if d := os.Getenv("OCTOVERIF_DIR"); d != "" {
		return d
	}
	return "/verif"
}

func LoadFindings() ([]Finding, error) {
	b, err := os.ReadFile(filepath.Join(VerifDir(), "known_findings.json"))
	if err != nil {
		if os.IsNotExist(err) {
			return nil, nil
		}
		return nil, err
	}
	var ff findingsFile
	if err := json.Unmarshal(b, &ff); err != nil {
		return nil, fmt.Errorf("known_findings.json: %w", err)
	}
	return ff.Findings, nil
}

// ---------------------------------------------------------------------------
// finishing a check: verdict lines, replay files, evidence

type evidence struct {
	PropertyID  string         `json:"property_id"`
	Tier        string         `json:"tier"`
	Seed        int            `json:"seed"`
	Level       string         `json:"level"`
	Coverage    map[string]any `json:"coverage"`
	Assumptions []string       `json:"assumptions"`
	WallS       float64        `json:"wall_s"`
	Violations  int            `json:"violations"`
}

// Finish prints the verdict lines, writes replay files and the evidence file and
// returns the process exit status.
func (c *Ctx) Finish(start time.Time, seed int, explanation string, assumptions []string) int {
	// floors
	count := map[string]int{}
	for _, o := range c.Obs {
		count[o.Rule]++
	}
	for _, f := range c.floors {
		if count[f.rule] < f.min {
			c.Obs = append(c.Obs, Obligation{Rule: f.rule, Key: f.rule + ":<floor>", Pos: "-", Verdict: Undecided,
				Detail: fmt.Sprintf("rule resolved %d instances, hand-confirmed floor is %d (%s): anchors not found — the check cannot say the property holds", count[f.rule], f.min, f.why)})
		}
	}
	sort.SliceStable(c.Obs, func(i, j int) bool {
		if c.Obs[i].Rule != c.Obs[j].Rule {
			return c.Obs[i].Rule < c.Obs[j].Rule
		}
		return c.Obs[i].Key < c.Obs[j].Key
	})
	// duplicate keys get a stable ordinal suffix so that keys stay unique
	seen := map[string]int{}
	for i := range c.Obs {
		k := c.Obs[i].Key
		seen[k]++
		if seen[k] > 1 {
			c.Obs[i].Key = fmt.Sprintf("%s#%d", k, seen[k])
		}
	}

	findings, ferr := LoadFindings()
	if ferr != nil {
		fmt.Printf("ERROR: %v\n", ferr)
		return 2
	}
	open := map[string]Finding{}
	for _, f := range findings {
		if f.Property == c.Prop && f.Status == "open" {
			open[f.Key] = f
		}
	}

	noEv := os.Getenv("OCTOVERIF_NOEVIDENCE") != ""
	replayDir := filepath.Join(VerifDir(), "evidence", "replay")
	if noEv {
		replayDir = os.TempDir()
	}
	os.MkdirAll(replayDir, 0o755)
	// remove stale replay files of this property
	if old, _ := filepath.Glob(filepath.Join(replayDir, c.Prop+"-*.json")); old != nil {
		for _, f := range old {
			os.Remove(f)
		}
	}

	nviol, nknown, ndis, nontriv, cases := 0, 0, 0, 0, 0
	var kfLines []string
	usedKF := map[string]bool{}
	for _, o := range c.Obs {
		cases += o.Cases
		if o.Cases > 0 {
			nontriv++
		}
		switch o.Verdict {
		case Discharged:
			ndis++
			if f, ok := open[o.Key]; ok {
				fmt.Printf("STALE-FINDING: property=%s %s is listed as open but the obligation is discharged (%s)\n", c.Prop, f.Key, f.What)
				usedKF[o.Key] = true
			}
		default:
			if f, ok := open[o.Key]; ok && o.Verdict == Violated {
				nknown++
				usedKF[o.Key] = true
				kfLines = append(kfLines, fmt.Sprintf("KNOWN-FINDING: property=%s %s at %s — %s", c.Prop, o.Key, o.Pos, f.What))
				continue
			}
			nviol++
			path := filepath.Join(replayDir, fmt.Sprintf("%s-%d.json", c.Prop, nviol))
			b, _ := json.MarshalIndent(map[string]any{"property": c.Prop, "obligation": o, "tier": c.Tier,
				"how_to_replay": "octoverif explain " + path + "  (reloads /repo and re-evaluates this obligation)"}, "", " ")
			os.WriteFile(path, b, 0o644)
			tag := ""
			if o.Verdict == Undecided {
				tag = " [UNDECIDED]"
			}
			fmt.Printf("%s%s %s: %s\n", o.Pos, tag, o.Key, o.Detail)
			fmt.Printf("VIOLATION property=%s replay=%s\n", c.Prop, path)
		}
	}
	for _, l := range kfLines {
		fmt.Println(l)
	}
	for k, f := range open {
		if !usedKF[k] {
			fmt.Printf("STALE-FINDING: property=%s %s is listed as open but no obligation has that key (%s)\n", c.Prop, k, f.What)
		}
	}

	// evidence
	var samples []Obligation
	perRule := map[string]int{}
	for _, o := range c.Obs {
		if perRule[o.Rule] < 3 && len(samples) < 24 {
			samples = append(samples, o)
			perRule[o.Rule]++
		}
	}
	ruleList := []string{}
	for id, d := range c.Rules {
		ruleList = append(ruleList, fmt.Sprintf("%s (%d instances): %s", id, count[id], d))
	}
	sort.Strings(ruleList)
	fns := make([]string, 0, len(c.Funcs))
	for f := range c.Funcs {
		fns = append(fns, f)
	}
	sort.Strings(fns)
	if assumptions == nil {
		assumptions = []string{"go/types and go/cfg model the program faithfully", "the frozen rule tables in /verif/checker/props are what DESIGN.md states"}
	}
	if c.Notes == nil {
		c.Notes = []string{}
	}
	if len(explanation) == 0 {
		explanation = "structural necessary conditions decided on all paths of the enumerated sites"
	}
	if len(c.NotCover) > 0 {
		explanation += " NOT DECIDED: " + strings.Join(c.NotCover, "; ")
	}
	ev := evidence{PropertyID: c.Prop, Tier: c.Tier, Seed: seed, Level: "other",
		Coverage: map[string]any{
			"explanation":         explanation,
			"rules":               ruleList,
			"obligations":         len(c.Obs),
			"discharged":          ndis,
			"known_findings":      nknown,
			"violated":            nviol,
			"evaluations":         cases,
			"distinct_nontrivial": nontriv,
			"rule":                "an obligation is one rule applied to one construct (keyed rule:construct); evaluations = abstract cases, paths or call sites inspected across all obligations; an obligation is non-trivial when it inspected at least one",
			"packages":            len(c.Prog.Pkgs),
			"functions_analysed":  fns,
			"samples":             samples,
			"notes":               c.Notes,
			"checker_cmd":         "/verif/bin/octoverif check " + c.Prop + " --tier " + c.Tier,
			"trusted_base":        []string{"go/types", "go/ast", "golang.org/x/tools/go/packages v0.29.0", "golang.org/x/tools/go/cfg", "the rule tables under /verif/checker/props"},
			"repo_root":           c.Prog.Root,
			"exhaustive":          false,
		},
		Assumptions: assumptions,
		WallS:       time.Since(start).Seconds(),
		Violations:  nviol,
	}
	b, _ := json.MarshalIndent(ev, "", " ")
	evDir := filepath.Join(VerifDir(), "evidence")
	os.MkdirAll(evDir, 0o755)
	if noEv {
		// explain mode: do not overwrite the evidence of the real run
	} else if err := os.WriteFile(filepath.Join(evDir, c.Prop+".json"), b, 0o644); err != nil {
		fmt.Printf("ERROR: cannot write evidence: %v\n", err)
		return 2
	}
	fmt.Printf("%s tier=%s obligations=%d discharged=%d known=%d violations=%d cases=%d wall=%.1fs\n",
		c.Prop, c.Tier, len(c.Obs), ndis, nknown, nviol, cases, time.Since(start).Seconds())
	if nviol > 0 {
		return 1
	}
	return 0
}
