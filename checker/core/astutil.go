package core

import (
	"bytes"
	"go/ast"
	"go/printer"
	"go/token"
	"go/types"
	"strings"

	"golang.org/x/tools/go/types/typeutil"
)

var errorType = types.Universe.Lookup("error").Type()

func IsErrorType(t types.Type) bool {
	return t != nil && types.Identical(t, errorType)
}

// LastIsError reports whether a call's result type is error or a tuple ending in error,
// and the index of that result.
func LastIsError(t types.Type) (int, bool) {
	switch x := t.(type) {
	case *types.Tuple:
		if x.Len() == 0 {
			return 0, false
		}
		if IsErrorType(x.At(x.Len() - 1).Type()) {
			return x.Len() - 1, true
		}
		return 0, false
	default:
		if IsErrorType(t) {
			return 0, true
		}
	}
	return 0, false
}

func Callee(info *types.Info, call *ast.CallExpr) types.Object {
	return typeutil.Callee(info, call)
}

// CalleeName gives a stable, readable name for the callee of a call:
// "pkg.Func", "pkg.(*T).M", "pkg.I.M" for interface methods, or the
// expression text for calls of function values.
func (p *Program) CalleeName(info *types.Info, call *ast.CallExpr) string {
	if o := Callee(info, call); o != nil {
		if fn, ok := o.(*types.Func); ok {
			return p.QNameAny(fn)
		}
		if v, ok := o.(*types.Var); ok {
			return "value:" + v.Name()
		}
		return o.Name()
	}
	return "expr:" + ExprStr(call.Fun)
}

// QNameAny is QName for functions of any package (full import path for foreign ones).
func (p *Program) QNameAny(fn *types.Func) string {
	if fn.Pkg() != nil && (fn.Pkg().Path() == ModPath || strings.HasPrefix(fn.Pkg().Path(), ModPath+"/")) {
		return p.QName(fn)
	}
	sig := fn.Type().(*types.Signature)
	pk := ""
	if fn.Pkg() != nil {
		pk = fn.Pkg().Path()
	}
	if r := sig.Recv(); r != nil {
		t := r.Type()
		ptr := ""
		if pt, ok := t.(*types.Pointer); ok {
			t = pt.Elem()
			ptr = "*"
		}
		name := t.String()
		if n, ok := t.(*types.Named); ok {
			name = n.Obj().Name()
			if n.Obj().Pkg() != nil {
				pk = n.Obj().Pkg().Path()
			}
		}
		if ptr == "" {
			return pk + "." + name + "." + fn.Name()
		}
		return pk + ".(*" + name + ")." + fn.Name()
	}
	return pk + "." + fn.Name()
}

func ExprStr(e ast.Node) string {
	if e == nil {
		return ""
	}
	var b bytes.Buffer
	printer.Fprint(&b, token.NewFileSet(), e)
	s := b.String()
	if i := strings.IndexByte(s, '\n'); i >= 0 {
		s = s[:i] + "…"
	}
	return s
}

func Unparen(e ast.Expr) ast.Expr {
	for {
		p, ok := e.(*ast.ParenExpr)
		if !ok {
			return e
		}
		e = p.X
	}
}

func IsNilIdent(info *types.Info, e ast.Expr) bool {
	id, ok := Unparen(e).(*ast.Ident)
	if !ok {
		return false
	}
	_, isNil := info.Uses[id].(*types.Nil)
	return isNil
}

// WalkStack calls f for every node with the stack of its ancestors (root first,
// not including the node itself). If f returns false the subtree is skipped.
func WalkStack(root ast.Node, f func(n ast.Node, stack []ast.Node) bool) {
	var stack []ast.Node
	ast.Inspect(root, func(n ast.Node) bool {
		if n == nil {
			stack = stack[:len(stack)-1]
			return true
		}
		ok := f(n, stack)
		if ok {
			stack = append(stack, n)
		}
		return ok
	})
}

// InnermostFunc returns the innermost *ast.FuncLit on the stack, or nil.
func InnermostFuncLit(stack []ast.Node) *ast.FuncLit {
	for i := len(stack) - 1; i >= 0; i-- {
		if fl, ok := stack[i].(*ast.FuncLit); ok {
			return fl
		}
	}
	return nil
}

// ReadsObj reports whether node n contains an identifier that uses obj other
// than as the bare left-hand side of a plain assignment.
func ReadsObj(info *types.Info, n ast.Node, obj types.Object) bool {
	if n == nil {
		return false
	}
	lhs := map[*ast.Ident]bool{}
	ast.Inspect(n, func(m ast.Node) bool {
		if as, ok := m.(*ast.AssignStmt); ok && (as.Tok == token.ASSIGN || as.Tok == token.DEFINE) {
			for _, l := range as.Lhs {
				if id, ok := l.(*ast.Ident); ok {
					lhs[id] = true
				}
			}
		}
		return true
	})
	found := false
	ast.Inspect(n, func(m ast.Node) bool {
		if id, ok := m.(*ast.Ident); ok && !lhs[id] && info.Uses[id] == obj {
			found = true
		}
		return !found
	})
	return found
}

// WritesObj reports whether n assigns to obj as a bare identifier.
func WritesObj(info *types.Info, n ast.Node, obj types.Object) bool {
	found := false
	ast.Inspect(n, func(m ast.Node) bool {
		if _, ok := m.(*ast.FuncLit); ok {
			return false
		}
		if as, ok := m.(*ast.AssignStmt); ok {
			for _, l := range as.Lhs {
				if id, ok := l.(*ast.Ident); ok {
					if info.Uses[id] == obj || info.Defs[id] == obj {
						found = true
					}
				}
			}
		}
		return !found
	})
	return found
}

func InScope(rel string, prefixes ...string) bool {
	for _, pre := range prefixes {
		if rel == pre || strings.HasPrefix(rel, pre+"/") {
			return true
		}
	}
	return false
}

// FullStr prints a node completely (ExprStr cuts at the first line).
func FullStr(e ast.Node) string {
	if e == nil {
		return ""
	}
	var b bytes.Buffer
	printer.Fprint(&b, token.NewFileSet(), e)
	return b.String()
}
