// renamer: robustness aid for the checker's author (not a registered check). It copies nothing itself: it rewrites,
// in place, the Go files of the module found at the directory given as first argument (a scratch copy of /repo),
// renaming every local variable and parameter x to xQ (receivers included), which preserves behaviour exactly.
// Running octoverif on the result shows which rules depend on identifier names.
package main

import (
	"bytes"
	"fmt"
	"go/ast"
	"go/format"
	"go/token"
	"go/types"
	"os"
	"strings"

	"golang.org/x/tools/go/packages"
)

func main() {
	dir := os.Args[1]
	only := ""
	if len(os.Args) > 2 {
		only = os.Args[2]
	}
	cfg := &packages.Config{Mode: packages.LoadSyntax, Dir: dir, Env: append(os.Environ(), "GOFLAGS=-mod=mod", "GOPROXY=off", "GOSUMDB=off", "GOWORK=off")}
	pkgs, err := packages.Load(cfg, "./...")
	if err != nil {
		panic(err)
	}
	n := 0
	for _, pkg := range pkgs {
		if strings.Contains(pkg.PkgPath, "/parser/sqlparser") {
			continue
		}
		if only != "" && !strings.Contains(pkg.PkgPath, only) {
			continue
		}
		for i, f := range pkg.Syntax {
			name := pkg.CompiledGoFiles[i]
			if strings.HasSuffix(name, ".pb.go") || strings.HasSuffix(name, "_test.go") {
				continue
			}
			changed := false
			ast.Inspect(f, func(nd ast.Node) bool {
				if ts, ok := nd.(*ast.TypeSwitchStmt); ok {
					// the symbol of `switch x := y.(type)` has no object of its own (one implicit object per clause)
					if as, ok := ts.Assign.(*ast.AssignStmt); ok && len(as.Lhs) == 1 {
						if id, ok := as.Lhs[0].(*ast.Ident); ok && id.Name != "_" && !strings.HasSuffix(id.Name, "Q") {
							id.Name += "Q"
						}
					}
				}
				id, ok := nd.(*ast.Ident)
				if !ok || id.Name == "_" {
					return true
				}
				obj := pkg.TypesInfo.Defs[id]
				if obj == nil {
					obj = pkg.TypesInfo.Uses[id]
				}
				v, ok := obj.(*types.Var)
				if !ok || v.IsField() || v.Pkg() == nil || v.Parent() == nil || v.Parent() == v.Pkg().Scope() || v.Parent() == types.Universe {
					return true
				}
				if v.Pkg() != pkg.Types {
					return true
				}
				if strings.HasSuffix(id.Name, "Q") && id.Name == v.Name()+"Q" {
					return true
				}
				id.Name = v.Name() + "Q"
				changed = true
				n++
				return true
			})
			if !changed {
				continue
			}
			var buf bytes.Buffer
			if err := format.Node(&buf, pkg.Fset, f); err != nil {
				panic(err)
			}
			if err := os.WriteFile(name, buf.Bytes(), 0644); err != nil {
				panic(err)
			}
		}
	}
	fmt.Println("renamed identifier occurrences:", n)
	_ = token.NoPos
}
