// octoverif decides structural necessary conditions of the octosql properties
// C01…C30 from /repo's current source. Nothing under /repo is executed.
package main

import (
	"encoding/json"
	"flag"
	"fmt"
	"os"
	"sort"
	"strconv"
	"strings"
	"time"

	"octoverif/core"
	"octoverif/props"
)

func usage() {
	fmt.Fprintln(os.Stderr, "usage: octoverif check <Cnn> [--tier quick|thorough] | all [--tier …] | explain <replay.json> | list")
	os.Exit(2)
}

func main() {
	if len(os.Args) < 2 {
		usage()
	}
	switch os.Args[1] {
	case "gen-names":
		// maintenance of the checker itself: record the variable names of the tree the rules are written against
		n, err := core.GenBaselineNames(core.RepoRoot(), "/verif/checker/core/baseline_names.json")
		if err != nil {
			fmt.Fprintln(os.Stderr, err)
			os.Exit(2)
		}
		fmt.Println("functions recorded:", n)
	case "list":
		ids := make([]string, 0)
		for id := range props.Registry {
			ids = append(ids, id)
		}
		sort.Strings(ids)
		fmt.Println(strings.Join(ids, "\n"))
	case "check":
		if len(os.Args) < 3 {
			usage()
		}
		id := os.Args[2]
		fs := flag.NewFlagSet("check", flag.ExitOnError)
		tier := fs.String("tier", envOr("VERIF_TIER", "quick"), "quick|thorough")
		only := fs.String("only", "", "print only obligations whose key contains this string (explain)")
		verbose := fs.Bool("v", false, "print every obligation")
		fs.Parse(os.Args[3:])
		os.Exit(runOne(id, *tier, *only, *verbose))
	case "all":
		fs := flag.NewFlagSet("all", flag.ExitOnError)
		tier := fs.String("tier", envOr("VERIF_TIER", "quick"), "quick|thorough")
		fs.Parse(os.Args[2:])
		ids := make([]string, 0)
		for id := range props.Registry {
			ids = append(ids, id)
		}
		sort.Strings(ids)
		prog := mustLoad("")
		rc := 0
		for _, id := range ids {
			if r := runWith(prog, id, *tier, "", false, time.Now()); r > rc {
				rc = r
			}
		}
		os.Exit(rc)
	case "explain":
		if len(os.Args) < 3 {
			usage()
		}
		b, err := os.ReadFile(os.Args[2])
		if err != nil {
			fmt.Fprintln(os.Stderr, err)
			os.Exit(2)
		}
		var r struct {
			Property   string          `json:"property"`
			Tier       string          `json:"tier"`
			Obligation core.Obligation `json:"obligation"`
		}
		if err := json.Unmarshal(b, &r); err != nil {
			fmt.Fprintln(os.Stderr, err)
			os.Exit(2)
		}
		fmt.Printf("replaying %s obligation %s (recorded at %s)\n", r.Property, r.Obligation.Key, r.Obligation.Pos)
		os.Setenv("OCTOVERIF_NOEVIDENCE", "1")
		os.Exit(runOne(r.Property, r.Tier, r.Obligation.Key, true))
	default:
		usage()
	}
}

func envOr(k, d string) string {
	if v := os.Getenv(k); v != "" {
		return v
	}
	return d
}

func mustLoad(goarch string) *core.Program {
	prog, err := core.Load(goarch, nil)
	if err != nil {
		fmt.Printf("ERROR: cannot load %s: %v\n", core.RepoRoot(), err)
		os.Exit(2)
	}
	return prog
}

func runOne(id, tier, only string, verbose bool) int {
	if _, ok := props.Registry[id]; !ok {
		fmt.Printf("ERROR: no check registered for %s\n", id)
		return 2
	}
	start := time.Now()
	return runWith(mustLoad(""), id, tier, only, verbose, start)
}

func runWith(prog *core.Program, id, tier, only string, verbose bool, start time.Time) (rc int) {
	ch := props.Registry[id]
	c := core.NewCtx(prog, id, tier)
	c.NotCover = ch.NotDecided
	func() {
		defer func() {
			if r := recover(); r != nil {
				// a checker panic is never "property holds"
				c.Unknown("INTERNAL", fmt.Sprint(r), 0, fmt.Sprintf("checker panic: %v", r))
				if os.Getenv("OCTOVERIF_DEBUG") != "" {
					panic(r)
				}
			}
		}()
		ch.Run(c)
	}()
	if tier == "thorough" && only == "" {
		// further configurations: the same obligations over the program as type-checked for a 32-bit target (32-bit
		// int) and for another operating system (other build-constrained files); anything not discharged there that
		// is discharged in the default configuration is added under its own key
		for _, cfg := range []string{"386", "windows/amd64"} {
			cfg := cfg
			func() {
				defer func() {
					if r := recover(); r != nil {
						c.Unknown("INTERNAL", cfg+" pass: "+fmt.Sprint(r), 0, fmt.Sprintf("checker panic: %v", r))
					}
				}()
				prog2, err := core.Load(cfg, nil)
				if err != nil {
					c.Unknown("INTERNAL", cfg+" load", 0, err.Error())
					return
				}
				c2 := core.NewCtx(prog2, id, tier)
				ch.Run(c2)
				bad := map[string]bool{}
				for _, o := range c.Obs {
					if o.Verdict != core.Discharged {
						bad[o.Key] = true
					}
				}
				added := 0
				for _, o := range c2.Obs {
					if o.Verdict != core.Discharged && !bad[o.Key] {
						o.Key += " [" + cfg + "]"
						c.Obs = append(c.Obs, o)
						added++
					}
				}
				c.Note(fmt.Sprintf("thorough: pass for %s evaluated %d obligations; %d differ from the default configuration", cfg, len(c2.Obs), added))
			}()
		}
	}
	if verbose || only != "" {
		for _, o := range c.Obs {
			if only == "" || strings.Contains(o.Key, only) {
				fmt.Printf("  %-10s %s %s  [%d] %s\n", o.Verdict, o.Pos, o.Key, o.Cases, o.Detail)
			}
		}
	}
	seed, _ := strconv.Atoi(os.Getenv("VERIF_SEED"))
	return c.Finish(start, seed, ch.Explanation, ch.Assumptions)
}
