package props

import (
	"fmt"
	"go/ast"
	"go/constant"
	"go/parser"
	"go/token"
	"go/types"
	"path/filepath"
	"regexp"
	"strings"
	"sync"

	"octoverif/core"
	"octoverif/engine/absint"
)

// C23 — file datasources return exactly the file's rows.
//
// The behaviour quantifies over file contents and schedules; what is decided here are the structural conditions every
// one of those runs depends on:
//
//	SPLIT   the lines source's split function, interpreted for (separator found / not found) × (at EOF / not): a found
//	        separator yields the text before it and advances past the whole separator; the last unterminated line is
//	        returned at EOF; otherwise more data is requested.
//	LINENO  lines: `number` counts records from 0, incremented once per produced record.
//	SCANBUF json: bytes handed out by the scanner are copied before they outlive the iteration.
//	BATCH   json reader: every job handed to the workers is counted (linesRead += len(job.lines)) in the same select arm
//	        that took an output token; a fresh job follows every full batch; the partial last batch is flushed; the line
//	        counter advances once per scanned line; the scanner's error is what `done` receives.
//	REORDER json consumer: a parsed line is filed at (line − startIndex), the queue is extended with nil up to that slot,
//	        the head is produced and popped while present and startIndex advances with every pop; the loop ends only when
//	        the reader is done and everything read was produced; one token is released per received result batch.
//	STDIN   the previewed portion is replayed before the rest of stdin (both open modes); the previewing reader tees
//	        exactly the bytes it returns, under the mutex.
//	PQ      parquet: the projected columns configured for reading are the ones the reconstruction expects; group
//	        reconstruction keeps one function per schema field.
//	CSVROW  csv: the reused record slice is not retained past its iteration; header and separator handling agree between
//	        inference and execution.
//	ERR5    scan/read loops surface the reader's error (shared with C06).
func init() {
	register(&Check{ID: "C23", Run: runC23,
		Explanation: "SPLIT: the lines split function is interpreted for separator found/not found × at EOF/not: token = text before the separator, advance = index + len(separator); final unterminated line at EOF; else request more. " +
			"LINENO: line numbers start at 0 and advance once per record. SCANBUF: scanner bytes are copied before being queued. " +
			"BATCH: each job sent is counted in the same select arm that took a token, full batches are followed by a fresh job, the tail batch is flushed, done receives the scanner error. " +
			"REORDER: slot = line − startIndex with nil fill, produce-and-pop the head while present with startIndex++ per pop, termination only when the reader is done and startIndex == linesRead, one token released per result batch. " +
			"STDIN: previewed bytes are replayed before the remaining stdin in both modes and the previewing reader tees exactly what it returns under the mutex. " +
			"PQ: parquet projection and reconstruction use the same field list; one reconstruct function per group field. CSVROW: the reused csv record is not retained; header/separator agree between inference and execution.",
		NotDecided: []string{
			"that the produced values equal the file's contents for every input (quantifies over runtime data: parsers of encoding/csv, fastjson, parquet-go are taken as given)",
			"schedule-independence of the JSON worker pool beyond the reorder-queue invariants above (no interleaving is explored)",
			"the default \"\\n\" separator uses bufio.ScanLines, which also strips a trailing \\r",
		},
		Assumptions: []string{"encoding/csv, bufio.Scanner, fastjson and parquet-go behave as documented", "option values are non-empty (the FROM-clause option parser rejects `sep=`)"},
	})
}

func runC23(c *core.Ctx) {
	c.Rule("SCANLIM", "json: preview and reader accept the same line length")
	checkScannerLimits(c, "SCANLIM")
	c.Rule("PQOPT", "parquet files are opened with options the pinned library honours")
	checkParquetOpenOptions(c, "PQOPT")
	c.Rule("CSVPARSE", "csv: inference and execution parse cells with the same parsers")
	checkCSVParserAgreement(c, "CSVPARSE")
	c.Rule("FLOATEXACT", "datasources parse floats exactly")
	checkExactFloatParsing(c, "FLOATEXACT")
	c.Rule("SPLIT", "lines: split exactly at the configured separator")
	c.Rule("LINENO", "lines: numbering from 0, once per record")
	c.Rule("SCANBUF", "scanner bytes are copied before they are queued")
	c.Rule("BATCH", "json reader: every batch is sent, counted and flushed")
	c.Rule("REORDER", "json consumer: reorder queue by line number")
	c.Rule("STDIN", "stdin preview is replayed before the rest")
	c.Rule("PQ", "parquet projection/reconstruction agree")
	c.Rule("CSVROW", "csv: reused record not retained; header/separator agree")
	checkLinesSplit(c)
	checkLinesNumbering(c)
	checkJSONReader(c)
	checkJSONConsumer(c)
	checkStdin(c)
	checkParquet(c)
	checkCSVRows(c)
}

// ---------------------------------------------------------------- lines

func checkLinesSplit(c *core.Ctx) {
	p := c.Prog
	fn := p.Func("datasources/lines", "(*DatasourceExecuting).Run")
	key := "datasources/lines.(*DatasourceExecuting).Run/split"
	if fn == nil {
		c.Unknown("SPLIT", key, 0, "anchor not found")
		return
	}
	c.SawFunc("datasources/lines.(*DatasourceExecuting).Run")
	info := fn.Info()
	var lit *ast.FuncLit
	// for a split function made by a factory: the factory and the arguments it was called with
	var factory *ast.FuncLit
	var factoryArgs []ast.Expr
	ast.Inspect(fn.Decl.Body, func(n ast.Node) bool {
		if call, ok := n.(*ast.CallExpr); ok && p.CalleeName(info, call) == "bufio.(*Scanner).Split" && len(call.Args) == 1 {
			if fc, ok := core.Unparen(call.Args[0]).(*ast.CallExpr); !ok {
				if l := funcValueLit(p, fn, call.Args[0]); l != nil {
					lit = l
				}
			} else {
				// a factory of the same package: `sc.Split(splitOnSeparator(d.separator))` with
				// `func splitOnSeparator(sep string) bufio.SplitFunc { return func(…) … }`
				if f := funcValueLit(p, fn, fc.Fun); f != nil && len(f.Body.List) > 0 {
					if rs, ok := f.Body.List[len(f.Body.List)-1].(*ast.ReturnStmt); ok && len(rs.Results) == 1 {
						if l, ok := core.Unparen(rs.Results[0]).(*ast.FuncLit); ok {
							lit, factory, factoryArgs = l, f, fc.Args
						}
					}
				}
			}
		}
		return true
	})
	if lit == nil {
		c.Unknown("SPLIT", key, fn.Decl.Pos(), "no sc.Split(func…) literal found")
		return
	}
	if len(lit.Type.Params.List) < 2 {
		c.Unknown("SPLIT", key, lit.Pos(), "unexpected split function signature")
		return
	}
	dataName, eofName := lit.Type.Params.List[0].Names[0].Name, lit.Type.Params.List[1].Names[0].Name
	for _, sc := range []struct {
		name         string
		found, atEOF bool
		empty        bool
	}{
		{"separator found", true, false, false},
		{"separator found at EOF", true, true, false},
		{"no separator, more data may come", false, false, false},
		{"no separator, at EOF with data", false, true, false},
		{"at EOF without data", false, true, true},
	} {
		sc := sc
		in := newInterp(p, fn)
		sepArg := ""
		in.Hooks.Ident = func(st *absint.State, obj types.Object) (absint.Val, bool) {
			if obj.Name() == eofName {
				return absint.Bool(sc.atEOF), true
			}
			return nil, false
		}
		in.Hooks.Call = func(st *absint.State, call *ast.CallExpr, callee string, recv absint.Val, args []absint.Val) (absint.Val, bool) {
			switch callee {
			case "bytes.Index":
				if len(args) == 2 {
					sepArg = args[1].Canon()
				}
				if sc.found {
					return absint.S("IDX"), true
				}
				return absint.Int(-1), true
			case "bytes.Cut":
				// before, after, found := bytes.Cut(data, sep): before is data[0:IDX]
				if len(args) == 2 {
					sepArg = args[1].Canon()
					if sc.found {
						return absint.Tuple{Elems: []absint.Val{absint.S(args[0].Canon() + "[0:IDX]"), absint.S(args[0].Canon() + "[IDX+len(sep):]"), absint.Bool(true)}}, true
					}
					return absint.Tuple{Elems: []absint.Val{args[0], absint.Nil{}, absint.Bool(false)}}, true
				}
			}
			return nil, false
		}
		in.Hooks.Cond = func(st *absint.State, atom string) (bool, bool) {
			switch {
			case strings.Contains(atom, "len("+dataName+")") && strings.Contains(atom, "== 0") || strings.Contains(atom, "0 == len("+dataName+")"):
				return sc.empty, true
			case strings.Contains(atom, "IDX"):
				// IDX ≥ 0 when found
				if strings.Contains(atom, "<") {
					// (IDX < 0) is false, (0 <= IDX) is true …
					if strings.HasPrefix(atom, "(IDX <") {
						return false, true
					}
					return true, true
				}
			}
			return false, false
		}
		outs, err := runLit(in, lit, func(st *absint.State, bind func(string, absint.Val)) { bind(eofName, absint.Bool(sc.atEOF)) }, "")
		ckey := key + "/" + sc.name
		if err != nil {
			c.Unknown("SPLIT", ckey, lit.Pos(), err.Error())
			continue
		}
		bad := ""
		for _, o := range outs {
			if o.Kind != "return" || len(o.Values) != 3 {
				bad = "unexpected outcome " + o.String()
				continue
			}
			adv, tok, e := o.Values[0].Canon(), o.Values[1].Canon(), o.Values[2]
			adv = strings.ReplaceAll(adv, "len("+dataName+"[0:IDX])", "IDX") // the length of the piece before the separator
			if !absint.IsNilVal(e) {
				bad = "the split function returns an error: " + o.Show(e)
				continue
			}
			switch {
			case sc.empty:
				if adv != "0" || !absint.IsNilVal(o.Values[1]) {
					bad = fmt.Sprintf("at EOF without data nothing must be returned; returns (%s, %s)", adv, tok)
				}
			case sc.found:
				sep := strings.TrimSuffix(strings.TrimPrefix(sepArg, "[]byte("), ")")
				wantAdv := []string{"(IDX + len(" + sep + "))", "(len(" + sep + ") + IDX)", "(IDX + len(" + sepArg + "))", "(len(" + sepArg + ") + IDX)"}
				okAdv := false
				for _, w := range wantAdv {
					if adv == w {
						okAdv = true
					}
				}
				if !okAdv {
					bad = fmt.Sprintf("after a separator found at index IDX the scanner must advance by IDX + len(separator) (separator is %s); it advances by %s: a multi-byte separator leaks into the next line", sepArg, adv)
				}
				if tok != dataName+"[0:IDX]" && tok != dataName+"[:IDX]" {
					bad = fmt.Sprintf("the line is the text before the separator, %s[0:IDX]; it is %s", dataName, tok)
				}
			case sc.atEOF:
				if adv != "len("+dataName+")" || tok != dataName {
					bad = fmt.Sprintf("at EOF the remaining unterminated text is the last line: want (len(%s), %s), got (%s, %s)", dataName, dataName, adv, tok)
				}
			default:
				if adv != "0" || !absint.IsNilVal(o.Values[1]) {
					bad = fmt.Sprintf("without a separator and not at EOF more data must be requested (0, nil); returns (%s, %s)", adv, tok)
				}
			}
		}
		if bad == "" && len(outs) == 0 {
			bad = "no outcome"
		}
		c.Decide(bad == "", "SPLIT", ckey, lit.Pos(), len(outs), "advance/token as required", bad)
	}
	// the separator searched for is the configured one: the second argument of bytes.Index, followed through
	// conversions, single-definition locals of the factory and the factory's parameters to the call site
	var resolveSep func(e ast.Expr, depth int) string
	resolveSep = func(e ast.Expr, depth int) string {
		e = core.Unparen(e)
		if depth > 5 {
			return core.ExprStr(e)
		}
		switch x := e.(type) {
		case *ast.CallExpr:
			if len(x.Args) == 1 && core.ExprStr(x.Fun) == "[]byte" {
				return resolveSep(x.Args[0], depth+1)
			}
		case *ast.Ident:
			obj, _ := info.Uses[x].(*types.Var)
			if obj == nil || factory == nil {
				break
			}
			k := 0
			for _, f := range factory.Type.Params.List {
				for _, nm := range f.Names {
					if info.Defs[nm] == obj && k < len(factoryArgs) {
						return core.ExprStr(factoryArgs[k])
					}
					k++
				}
			}
			if def := singleDef(info, factory.Body, obj); def != nil {
				return resolveSep(def, depth+1)
			}
		}
		return core.ExprStr(e)
	}
	sepOK := false
	ast.Inspect(lit.Body, func(n ast.Node) bool {
		if call, ok := n.(*ast.CallExpr); ok && (p.CalleeName(info, call) == "bytes.Index" || p.CalleeName(info, call) == "bytes.Cut") && len(call.Args) == 2 {
			if strings.Contains(resolveSep(call.Args[1], 0), ".separator") && core.ExprStr(call.Args[0]) == dataName {
				sepOK = true
			}
		}
		return true
	})
	c.Decide(sepOK, "SPLIT", key+"/separator", lit.Pos(), 1, "searches the configured separator in the scanner's data", "the split function must search the scanned data for the configured separator (bytes.Index(data, []byte(d.separator)))")
}

func isIncrement(s ast.Stmt, obj types.Object, info *types.Info) bool {
	switch x := s.(type) {
	case *ast.IncDecStmt:
		if id, ok := x.X.(*ast.Ident); ok && x.Tok == token.INC && info.ObjectOf(id) == obj {
			return true
		}
	case *ast.AssignStmt:
		if len(x.Lhs) == 1 && len(x.Rhs) == 1 && x.Tok == token.ADD_ASSIGN {
			if id, ok := x.Lhs[0].(*ast.Ident); ok && info.ObjectOf(id) == obj && core.ExprStr(x.Rhs[0]) == "1" {
				return true
			}
		}
	}
	return false
}

// countIncrements counts unconditional increments of obj directly in the statement list (not nested in if/for).
func countIncrements(list []ast.Stmt, obj types.Object, info *types.Info) (direct, nested int) {
	for _, s := range list {
		if isIncrement(s, obj, info) {
			direct++
			continue
		}
		ast.Inspect(s, func(n ast.Node) bool {
			if st, ok := n.(ast.Stmt); ok && isIncrement(st, obj, info) {
				nested++
			}
			return true
		})
	}
	return
}

func checkLinesNumbering(c *core.Ctx) {
	p := c.Prog
	fn := p.Func("datasources/lines", "(*DatasourceExecuting).Run")
	key := "datasources/lines.(*DatasourceExecuting).Run/numbering"
	if fn == nil {
		c.Unknown("LINENO", key, 0, "anchor not found")
		return
	}
	info := fn.Info()
	// the scan loop
	var loop *ast.ForStmt
	ast.Inspect(fn.Decl.Body, func(n ast.Node) bool {
		if fs, ok := n.(*ast.ForStmt); ok && fs.Cond != nil {
			if call, ok := fs.Cond.(*ast.CallExpr); ok && p.CalleeName(info, call) == "bufio.(*Scanner).Scan" {
				loop = fs
			}
		}
		return true
	})
	if loop == nil {
		c.Unknown("LINENO", key, fn.Decl.Pos(), "no `for sc.Scan()` loop found")
		return
	}
	// One iteration (body, then the post statement) is interpreted with the counter symbolic, once for a field named
	// "number" and once for a field named "text": the number stored is the counter's value at the start of the
	// iteration, the text is the scanner's, and on every path that goes on the counter ends one higher.
	iter := &ast.BlockStmt{List: append([]ast.Stmt{}, loop.Body.List...)}
	if loop.Post != nil {
		iter.List = append(iter.List, loop.Post)
	}
	ids := typeIDs(p)
	counterName, textOK, bad := "", false, ""
	paths := 0
	for _, field := range []string{"number", "text"} {
		field := field
		in := newInterp(p, fn)
		in.Hooks.Loop = func(st *absint.State, l ast.Stmt) *absint.LoopSpec {
			return &absint.LoopSpec{Cases: []string{field}, MaxIter: 1, MinIter: 1, RefStep: func(ref, cs string) string { return ref }}
		}
		in.Hooks.Cond = func(st *absint.State, atom string) (bool, bool) {
			for _, f := range []string{"number", "text"} {
				if strings.Contains(atom, `"`+f+`"`) && strings.Contains(atom, " == ") {
					return f == field, true
				}
			}
			return false, false
		}
		in.Hooks.Call = chainCall(recordCtorHook, func(st *absint.State, call *ast.CallExpr, callee string, recv absint.Val, args []absint.Val) (absint.Val, bool) {
			switch callee {
			case "bufio.(*Scanner).Text":
				return absint.S("SCANNED-TEXT"), true
			case "value:produce":
				st.Emit("PRODUCE", call.Pos(), args...)
				return absint.Nil{}, true
			case "octosql.NewInt", "octosql.NewString":
				if len(args) == 1 {
					st.Emit("FIELD:"+callee, call.Pos(), args[0])
				}
			}
			return nil, false
		}, ctorHook(ids), errorfHook)
		outs, err := in.Run(&ast.FuncType{Params: &ast.FieldList{}, Results: fn.Decl.Type.Results}, nil, iter, nil, "")
		if err != nil {
			c.Unknown("LINENO", key, loop.Pos(), err.Error())
			return
		}
		for _, o := range outs {
			if o.Kind == "return" {
				continue // an error leaves the function
			}
			paths++
			produced := 0
			for _, e := range o.Events {
				switch e.Name {
				case "PRODUCE":
					produced++
				case "FIELD:octosql.NewInt":
					if field == "number" {
						counterName = e.Args[0].Canon()
					}
				case "FIELD:octosql.NewString":
					if field == "text" {
						textOK = e.Args[0].Canon() == "SCANNED-TEXT"
					}
				}
			}
			if produced != 1 {
				bad = fmt.Sprintf("one record per scanned line must be produced (%d on a path)", produced)
			}
		}
	}
	initZero, incOnce := false, false
	if counterName != "" && regexp.MustCompile(`^\w+$`).MatchString(counterName) {
		// the counter's definition is the constant 0
		ast.Inspect(fn.Decl.Body, func(n ast.Node) bool {
			if as, ok := n.(*ast.AssignStmt); ok && as.Tok == token.DEFINE && len(as.Lhs) == len(as.Rhs) {
				for i, l := range as.Lhs {
					if id, ok := l.(*ast.Ident); ok && id.Name == counterName {
						if tv, ok := info.Types[as.Rhs[i]]; ok && tv.Value != nil && tv.Value.Kind() == constant.Int && constant.Sign(tv.Value) == 0 {
							initZero = true
						}
					}
				}
			}
			return true
		})
		// after the iteration it is one higher, on every path that goes on (the counter is the variable of that
		// name declared in this function — a helper's parameter may carry the same name)
		var counterObj types.Object
		ast.Inspect(fn.Decl.Body, func(n ast.Node) bool {
			if id, ok := n.(*ast.Ident); ok && id.Name == counterName {
				if o := info.Defs[id]; o != nil && counterObj == nil {
					counterObj = o
				}
			}
			return true
		})
		in := newInterp(p, fn)
		in.Hooks.Loop = func(st *absint.State, l ast.Stmt) *absint.LoopSpec {
			return &absint.LoopSpec{Cases: []string{"f"}, MaxIter: 1, RefStep: func(ref, cs string) string { return ref }}
		}
		in.Hooks.Store = func(st *absint.State, obj types.Object, v absint.Val) {
			if obj == counterObj && v != nil {
				st.Emit("COUNTER", token.NoPos, v)
			}
		}
		in.Hooks.Call = chainCall(recordCtorHook, func(st *absint.State, call *ast.CallExpr, callee string, recv absint.Val, args []absint.Val) (absint.Val, bool) {
			if callee == "value:produce" {
				return absint.Nil{}, true
			}
			return nil, false
		}, ctorHook(ids), errorfHook)
		outs, err := in.Run(&ast.FuncType{Params: &ast.FieldList{}, Results: fn.Decl.Type.Results}, nil, iter, nil, "")
		incOnce = err == nil && len(outs) > 0 && counterObj != nil
		for _, o := range outs {
			if o.Kind == "return" {
				continue
			}
			last := ""
			for _, e := range o.Events {
				if e.Name == "COUNTER" {
					last = e.Args[0].Canon()
				}
			}
			if last != "("+counterName+" + 1)" && last != "(1 + "+counterName+")" {
				incOnce = false
				if last != "" {
					bad = "after a line the counter is " + last
				} else {
					bad = "after a line the counter is unchanged"
				}
			}
		}
	}
	c.Decide(bad == "" && counterName != "" && initZero && incOnce && textOK, "LINENO", key, loop.Pos(), paths,
		"number starts at 0 and advances once per record; text is the scanned line",
		fmt.Sprintf("the lines source must number records from 0, advancing the counter exactly once per scanned line after the record is produced, and carry sc.Text() as text (number taken from %q, starts at zero=%v, advances by one per line=%v, text from scanner=%v) %s", counterName, initZero, incOnce, textOK, bad))
}

// ---------------------------------------------------------------- json reader

// goLit returns the first `go func() {…}()` literal of a function.
func goLits(body *ast.BlockStmt) []*ast.FuncLit {
	var out []*ast.FuncLit
	ast.Inspect(body, func(n ast.Node) bool {
		if g, ok := n.(*ast.GoStmt); ok {
			if l, ok := g.Call.Fun.(*ast.FuncLit); ok {
				out = append(out, l)
			} else if l := namedGoBody(g.Call); l != nil {
				out = append(out, l)
			}
		}
		return true
	})
	return out
}

// namedGoBody: for `go f(…)` with f a function or method declared in the module, f's declaration presented as a
// literal (one node per declaration) — a goroutine body is a goroutine body whether it is written in place or named.
func namedGoBody(call *ast.CallExpr) *ast.FuncLit {
	goBodyMu.Lock()
	defer goBodyMu.Unlock()
	var id *ast.Ident
	switch f := core.Unparen(call.Fun).(type) {
	case *ast.Ident:
		id = f
	case *ast.SelectorExpr:
		id = f.Sel
	}
	if id == nil {
		return nil
	}
	for prog, idx := range helperDecls {
		_ = prog
		for fobj, fr := range idx {
			if fobj.Name() != id.Name || fr.Decl.Body == nil {
				continue
			}
			if fr.Info().Uses[id] == fobj {
				if l, ok := goBodyLits[fr.Decl]; ok {
					return l
				}
				l := &ast.FuncLit{Type: fr.Decl.Type, Body: fr.Decl.Body}
				goBodyLits[fr.Decl] = l
				return l
			}
		}
	}
	return nil
}

var (
	goBodyLits = map[*ast.FuncDecl]*ast.FuncLit{}
	goBodyMu   sync.Mutex
)

func checkJSONReader(c *core.Ctx) {
	p := c.Prog
	helperInline(p, "", nil) // declaration index (named goroutine bodies)
	fn := p.Func("datasources/json", "(*DatasourceExecuting).Run")
	key := "datasources/json.(*DatasourceExecuting).Run/reader"
	if fn == nil {
		c.Unknown("BATCH", key, 0, "anchor not found")
		return
	}
	c.SawFunc("datasources/json.(*DatasourceExecuting).Run")
	info := fn.Info()
	var reader *ast.FuncLit
	var scan *ast.ForStmt
	for _, l := range goLits(fn.Decl.Body) {
		ast.Inspect(l.Body, func(n ast.Node) bool {
			if fs, ok := n.(*ast.ForStmt); ok && fs.Cond != nil {
				if call, ok := fs.Cond.(*ast.CallExpr); ok && p.CalleeName(info, call) == "bufio.(*Scanner).Scan" {
					reader, scan = l, fs
				}
			}
			return true
		})
	}
	if reader == nil {
		c.Unknown("BATCH", key, fn.Decl.Pos(), "no reader goroutine with a `for sc.Scan()` loop found")
		return
	}
	// SCANBUF: every use of sc.Bytes() in the loop is an argument of len() or the source of copy()
	nBytes, badBytes := 0, ""
	core.WalkStack(scan.Body, func(nd ast.Node, stack []ast.Node) bool {
		call, ok := nd.(*ast.CallExpr)
		if !ok || p.CalleeName(info, call) != "bufio.(*Scanner).Bytes" {
			return true
		}
		nBytes++
		okUse := false
		if len(stack) >= 1 {
			if parent, ok := stack[len(stack)-1].(*ast.CallExpr); ok {
				switch core.ExprStr(parent.Fun) {
				case "len":
					okUse = true
				case "copy":
					okUse = len(parent.Args) == 2 && parent.Args[1] == ast.Expr(call)
				case "append":
					// append([]byte(nil), sc.Bytes()...) copies
					okUse = len(parent.Args) == 2 && parent.Args[1] == ast.Expr(call) && parent.Ellipsis.IsValid() && strings.HasPrefix(core.ExprStr(parent.Args[0]), "[]byte")
				case "string":
					okUse = true
				}
			}
		}
		if !okUse {
			badBytes = p.Pos(call.Pos())
		}
		return true
	})
	c.Decide(nBytes >= 1 && badBytes == "", "SCANBUF", key, scan.Pos(), nBytes, "sc.Bytes() only measured or copied",
		fmt.Sprintf("the scanner reuses its buffer: sc.Bytes() must be copied before it is queued for the workers (use at %s keeps the scanner's own slice)", badBytes))

	// BATCH: the reader is interpreted in three pieces — one iteration of the scan loop with the batch becoming full /
	// not full, and the statements after the loop with a non-empty / empty last batch. The select statements fork into
	// their arms. What is observed: sends of a job (a value of the job type) to the workers, the select arm they sit
	// in, the count of lines read, the job variable being replaced by a fresh job, the send on the done channel.
	// Helpers (closures or functions) the reader hands the work to are followed.
	isJobType := func(t types.Type) bool {
		n, ok := t.(*types.Named)
		return ok && n.Obj().Name() == "jobIn"
	}
	// the job variable of the reader: the local of the job type declared directly in the reader
	var jobObj types.Object
	for _, st := range reader.Body.List {
		ast.Inspect(st, func(n ast.Node) bool {
			if _, isLit := n.(*ast.FuncLit); isLit {
				return false
			}
			if id, ok := n.(*ast.Ident); ok && jobObj == nil {
				if o := info.Defs[id]; o != nil && isJobType(o.Type()) {
					jobObj = o
				}
			}
			return true
		})
	}
	if jobObj == nil {
		c.Unknown("BATCH", key, scan.Pos(), "the reader declares no variable of the job type")
		return
	}
	jobVar := jobObj.Name()
	lenAtom := func(atom string, full bool) (bool, bool) {
		// (A op B) with len(…) on one side: the batch's length against its capacity, or against zero
		m := regexp.MustCompile(`^\((.*) (==|<|<=) (.*)\)$`).FindStringSubmatch(atom)
		if m == nil {
			return false, false
		}
		lLeft, lRight := strings.HasPrefix(m[1], "len("), strings.HasPrefix(m[3], "len(")
		if lLeft == lRight {
			return false, false
		}
		// full / non-empty: the length equals the bound it is compared with from below (len == size, 0 < len);
		// otherwise it is strictly on the small side (len < size, len == 0)
		other := m[3]
		if lRight {
			other = m[1]
		}
		zero := other == "0"
		switch {
		case zero && lRight: // (0 op len)
			switch m[2] {
			case "==":
				return !full, true
			case "<":
				return full, true
			default:
				return true, true
			}
		case zero: // (len op 0)
			switch m[2] {
			case "==", "<=":
				return !full, true
			default:
				return false, true
			}
		case lLeft: // (len op size)
			switch m[2] {
			case "==":
				return full, true
			case "<":
				return !full, true
			default:
				return true, true
			}
		default: // (size op len)
			switch m[2] {
			case "==", "<=":
				return full, true
			default:
				return false, true
			}
		}
	}
	type piece struct {
		name  string
		block *ast.BlockStmt
		full  bool
	}
	iter := &ast.BlockStmt{List: append([]ast.Stmt{}, scan.Body.List...)}
	if scan.Post != nil {
		iter.List = append(iter.List, scan.Post)
	}
	tail := &ast.BlockStmt{}
	for _, st := range reader.Body.List {
		if st.Pos() > scan.End() {
			tail.List = append(tail.List, st)
		}
	}
	var counterName string
	sendsBad, batchBad, doneBad, counterBad := "", "", "", ""
	nSends, nPaths := 0, 0
	doneSeen := false
	for _, pc := range []piece{{"iteration, batch full", iter, true}, {"iteration, batch not full", iter, false}, {"after the loop, lines left", tail, true}, {"after the loop, nothing left", tail, false}} {
		pc := pc
		in := newInterp(p, fn)
		in.MaxPaths = 4000
		in.Hooks.Cond = func(st *absint.State, atom string) (bool, bool) { return lenAtom(atom, pc.full) }
		in.Hooks.Store = func(st *absint.State, obj types.Object, v absint.Val) {
			if v == nil {
				return
			}
			switch {
			case obj == jobObj:
				st.Emit("JOBSET", token.NoPos, v)
			case obj.Pos() < reader.Pos() || obj.Pos() > reader.End():
				// a variable of the enclosing function written by the reader: the count of lines read
				st.Emit("COUNT "+obj.Name(), token.NoPos, v)
			default:
				st.Emit("LOCAL "+obj.Name(), token.NoPos, v)
			}
		}
		in.Hooks.Call = chainCall(func(st *absint.State, call *ast.CallExpr, callee string, recv absint.Val, args []absint.Val) (absint.Val, bool) {
			switch callee {
			case "bufio.(*Scanner).Err":
				return absint.S("SCANNER-ERR"), true
			case "bufio.(*Scanner).Bytes":
				return absint.S("SCANNED-BYTES"), true
			}
			return nil, false
		}, errorfHook)
		outs, err := in.Run(&ast.FuncType{Params: &ast.FieldList{}}, nil, pc.block, nil, "")
		if err != nil {
			c.Unknown("BATCH", key+"/"+pc.name, scan.Pos(), err.Error())
			return
		}
		for _, o := range outs {
			nPaths++
			arm := "" // the select arm the path is in: "send", "recv", "default" or ""
			workSends := 0
			counted, fresh := false, false
			var lastLocal = map[string]string{}
			for _, e := range o.Events {
				switch {
				case strings.HasPrefix(e.Name, "select "):
					cm := strings.TrimPrefix(e.Name, "select ")
					switch {
					case cm == "default":
						arm = "default"
					case strings.Contains(cm, "<-") && !strings.HasPrefix(strings.TrimSpace(cm), "<-") && !strings.Contains(cm, "= <-") && !strings.Contains(cm, ":= <-"):
						arm = "send"
					default:
						arm = "recv"
					}
				case strings.HasPrefix(e.Name, "send ") && len(e.Args) == 1:
					v := e.Args[0].Canon()
					switch {
					case v == jobVar || strings.HasPrefix(v, "{"+jobVar) || o.Field(e.Args[0], "lines") != nil || v == "job":
						workSends++
						nSends++
						if arm != "send" {
							sendsBad = fmt.Sprintf("%s: a job is handed to the workers outside the select arm that reserves an output token (the pool can lock up)", pc.name)
						}
					case v == "SCANNER-ERR":
						doneSeen = true
						if workSends == 0 && pc.block == tail && pc.full && arm != "recv" {
							doneBad = "done is signalled although the last batch was not handed to the workers"
						}
					}
				case strings.HasPrefix(e.Name, "COUNT ") && workSends > 0:
					if strings.Contains(e.Args[0].Canon(), "len(") {
						counted = true
					}
				case e.Name == "JOBSET" && workSends > 0:
					// a fresh job: its line and data slices are made empty
					fresh = true
					for _, f := range []string{"lines", "data"} {
						fv := o.Field(e.Args[0], f)
						if fv == nil || !strings.HasPrefix(fv.Canon(), "make@") {
							fresh = false
							continue
						}
						okMake := false
						for _, e2 := range o.Events {
							if e2.Name == "make" && fmt.Sprintf("make@%d", e2.Pos) == fv.Canon() && len(e2.Args) >= 2 && e2.Args[1].Canon() == "0" {
								okMake = true
							}
						}
						if !okMake {
							fresh = false
						}
					}
				case strings.HasPrefix(e.Name, "LOCAL "):
					lastLocal[strings.TrimPrefix(e.Name, "LOCAL ")] = e.Args[0].Canon()
				case strings.HasPrefix(e.Name, "append "+jobVar+".") && pc.block == iter && len(e.Args) == 1:
					// the line number filed with the line: a plain counter variable
					if a := e.Args[0].Canon(); regexp.MustCompile(`^\w+$`).MatchString(a) && !strings.HasPrefix(a, "make") && counterName == "" {
						if t := strings.TrimPrefix(e.Name, "append "+jobVar+"."); t == "lines" {
							counterName = a
						}
					}
				}
			}
			cancelled := arm == "recv" || arm == "default"
			switch {
			case pc.full && !cancelled && workSends != 1:
				sendsBad = fmt.Sprintf("%s: the batch must be handed to the workers exactly once (%d sends): the lines would be lost", pc.name, workSends)
			case pc.full && !cancelled && !counted:
				sendsBad = fmt.Sprintf("%s: a job is handed to the workers without adding the number of its lines to the count of lines read: the consumer stops before these lines are produced", pc.name)
			case pc.full && cancelled && (workSends != 0 || o.Kind != "return"):
				sendsBad = fmt.Sprintf("%s: when the run is cancelled the reader must stop without handing the job over", pc.name)
			case !pc.full && workSends != 0:
				batchBad = fmt.Sprintf("%s: a job is handed to the workers (%d sends)", pc.name, workSends)
			}
			if pc.block == iter && pc.full && !cancelled && !fresh {
				batchBad = "after a full batch is sent a fresh job with empty line/data slices must be started"
			}
			if pc.block == iter && o.Kind != "return" && counterName != "" {
				if v := lastLocal[counterName]; v != "("+counterName+" + 1)" && v != "(1 + "+counterName+")" {
					counterBad = fmt.Sprintf("%s: after a scanned line the line number is %q", pc.name, v)
				}
			}
			if pc.block == tail && o.Kind != "return" || (pc.block == tail && !cancelled) {
				// the path that runs to the end reports the scanner's error last
				last := ""
				for _, e := range o.Events {
					if strings.HasPrefix(e.Name, "send ") && len(e.Args) == 1 {
						last = e.Args[0].Canon()
					}
				}
				if last != "SCANNER-ERR" {
					doneBad = "the reader must end by reporting the scanner's error on the done channel, after the last batch was sent"
				}
			}
		}
	}
	if counterName == "" && counterBad == "" {
		counterBad = "the line number filed with each line is not a counter variable"
	}
	if !doneSeen && doneBad == "" {
		doneBad = "the scanner's error is never reported"
	}
	c.Decide(counterBad == "", "BATCH", key+"/line counter", scan.Pos(), nPaths, "advances once per scanned line",
		"the line number must advance exactly once per scanned line: the consumer files results by this number; "+counterBad)
	c.Decide(sendsBad == "", "BATCH", key+"/sends", reader.Pos(), nSends, "token, send, count — in the loop and for the tail batch", sendsBad)
	c.Decide(batchBad == "", "BATCH", key+"/batches", reader.Pos(), nPaths, "fresh job after a full batch; tail flushed iff non-empty", batchBad)
	c.Decide(doneBad == "", "BATCH", key+"/done", reader.Pos(), 1, "done receives sc.Err() after the last batch", doneBad)
}

// ---------------------------------------------------------------- json consumer

func checkJSONConsumer(c *core.Ctx) {
	p := c.Prog
	fn := p.Func("datasources/json", "(*DatasourceExecuting).Run")
	key := "datasources/json.(*DatasourceExecuting).Run/consumer"
	if fn == nil {
		c.Unknown("REORDER", key, 0, "anchor not found")
		return
	}
	info := fn.Info()
	// the emission loop: for len(Q) > 0 && Q[0] != nil
	var emit *ast.ForStmt
	var qName string
	ast.Inspect(fn.Decl.Body, func(n ast.Node) bool {
		fs, ok := n.(*ast.ForStmt)
		if !ok || fs.Cond == nil {
			return true
		}
		be, ok := fs.Cond.(*ast.BinaryExpr)
		if !ok || be.Op != token.LAND {
			return true
		}
		l, r := core.ExprStr(be.X), core.ExprStr(be.Y)
		if strings.HasPrefix(l, "len(") && strings.HasSuffix(l, ") > 0") && strings.HasSuffix(r, "[0] != nil") {
			q := strings.TrimSuffix(strings.TrimPrefix(l, "len("), ") > 0")
			if r == q+"[0] != nil" {
				emit, qName = fs, q
			}
		}
		return true
	})
	if emit == nil {
		c.Unknown("REORDER", key, fn.Decl.Pos(), "no `for len(queue) > 0 && queue[0] != nil` loop found (length test first, then the head)")
		return
	}
	// in the emission loop: produce(*head), queue = queue[1:], S++ ; all unconditional (the produce may return its error)
	var sObj types.Object
	popped, produced := 0, false
	headVar := ""
	for _, s := range emit.Body.List {
		switch x := s.(type) {
		case *ast.AssignStmt:
			if len(x.Lhs) == 1 && len(x.Rhs) == 1 {
				l, r := core.ExprStr(x.Lhs[0]), core.ExprStr(x.Rhs[0])
				if l == qName && r == qName+"[1:]" {
					popped++
				}
				if r == qName+"[0]" && x.Tok == token.DEFINE {
					headVar = l
				}
			}
		case *ast.IncDecStmt:
			if id, ok := x.X.(*ast.Ident); ok && x.Tok == token.INC {
				sObj = info.ObjectOf(id)
			}
		case *ast.IfStmt:
			ast.Inspect(x, func(m ast.Node) bool {
				if call, ok := m.(*ast.CallExpr); ok && p.CalleeName(info, call) == "value:produce" && len(call.Args) == 2 {
					a := core.ExprStr(call.Args[1])
					if a == "*"+qName+"[0]" || (headVar != "" && a == "*"+headVar) {
						produced = true
					}
				}
				return true
			})
		}
	}
	direct, nested := 0, 0
	if sObj != nil {
		direct, nested = countIncrements(emit.Body.List, sObj, info)
	}
	c.Decide(produced && popped == 1 && direct == 1 && nested == 0, "REORDER", key+"/emit", emit.Pos(), 3, "produce head, pop it, advance the start index",
		fmt.Sprintf("while the queue's head is present it must be produced, popped (queue = queue[1:]) and the start index advanced, once each per iteration (produced head=%v, pops=%d, start-index increments=%d conditional=%d)", produced, popped, direct, nested))
	if sObj == nil {
		return
	}
	sName := sObj.Name()
	// the enclosing per-result loop: fill + placement
	var resLoop *ast.RangeStmt
	core.WalkStack(fn.Decl.Body, func(nd ast.Node, stack []ast.Node) bool {
		if nd == ast.Node(emit) {
			for i := len(stack) - 1; i >= 0; i-- {
				if rs, ok := stack[i].(*ast.RangeStmt); ok {
					resLoop = rs
					break
				}
			}
		}
		return true
	})
	if resLoop == nil {
		c.Unknown("REORDER", key+"/place", emit.Pos(), "the emission loop is not inside the loop over a result batch")
		return
	}
	slot := ""
	placeOK, fillOK, errFirst := false, false, false
	stage := 0
	for _, s := range resLoop.Body.List {
		switch x := s.(type) {
		case *ast.IfStmt:
			// if err := out.err; err != nil { return … } before anything is filed
			if stage == 0 && strings.Contains(core.FullStr(x), ".err") {
				ret := false
				for _, b := range x.Body.List {
					if _, ok := b.(*ast.ReturnStmt); ok {
						ret = true
					}
				}
				errFirst = ret
			}
		case *ast.ForStmt:
			if x == emit {
				stage = 3
				continue
			}
			cs := core.ExprStr(x.Cond)
			if strings.HasPrefix(cs, "len("+qName+") <= ") && len(x.Body.List) == 1 {
				slot = strings.TrimPrefix(cs, "len("+qName+") <= ")
				if as, ok := x.Body.List[0].(*ast.AssignStmt); ok && core.ExprStr(as.Lhs[0]) == qName && core.ExprStr(as.Rhs[0]) == "append("+qName+", nil)" {
					fillOK = true
					stage = 1
				}
			}
		case *ast.AssignStmt:
			if stage == 1 && len(x.Lhs) == 1 && core.ExprStr(x.Lhs[0]) == qName+"["+slot+"]" && strings.HasPrefix(core.ExprStr(x.Rhs[0]), "&") && strings.HasSuffix(core.ExprStr(x.Rhs[0]), ".record") {
				placeOK = true
				stage = 2
			}
		}
	}
	slotOK := strings.HasSuffix(slot, ".line-"+sName) || strings.HasSuffix(slot, ".line - "+sName)
	c.Decide(errFirst && fillOK && placeOK && slotOK && stage == 3, "REORDER", key+"/place", resLoop.Pos(), 4, "error first; fill with nil up to line − start; file the record there; then emit",
		fmt.Sprintf("a parsed line must be checked for its error, the queue extended with nil up to slot (line − %s), the record filed in exactly that slot, and only then the head emitted (error first=%v, fill=%v, slot=%q ok=%v, placed=%v, emit last=%v)", sName, errFirst, fillOK, slot, slotOK, placeOK, stage == 3))
	// the range variable must be copied per iteration when its address is taken: out := outJobs[i]
	copyOK := false
	if len(resLoop.Body.List) > 0 {
		if as, ok := resLoop.Body.List[0].(*ast.AssignStmt); ok && as.Tok == token.DEFINE {
			if _, ok := as.Rhs[0].(*ast.IndexExpr); ok {
				copyOK = true
			}
		}
	}
	c.Decide(copyOK, "REORDER", key+"/own copy", resLoop.Pos(), 1, "each result is copied into its own variable before its address is queued",
		"the queue stores &out.record: `out` must be a fresh per-iteration copy of the result, or every queued pointer refers to the same record")

	// termination and tokens: the select
	var sel *ast.SelectStmt
	core.WalkStack(fn.Decl.Body, func(nd ast.Node, stack []ast.Node) bool {
		if nd == ast.Node(resLoop) {
			for i := len(stack) - 1; i >= 0; i-- {
				if s, ok := stack[i].(*ast.SelectStmt); ok {
					sel = s
					break
				}
			}
		}
		return true
	})
	if sel == nil {
		c.Unknown("REORDER", key+"/termination", resLoop.Pos(), "the result loop is not inside a select")
		return
	}
	// The select is interpreted arm by arm (each arm is a path), for the reader-done flag true / false on entry and
	// the start index equal / not equal to the number of lines read. The produce loop may be left (break to its label)
	// only on a path on which the flag is true — initially, or because this arm received a nil error from the done
	// channel — and everything read was produced; and on such a path it must be left. Names come from the code: the
	// done channel is the one the reader reports the scanner's error on, the token channel the one it sends on in its
	// select, the flag the variable the done arm sets to true.
	doneCh, tokenCh := "", ""
	for _, l := range goLits(fn.Decl.Body) {
		ast.Inspect(l.Body, func(n ast.Node) bool {
			switch x := n.(type) {
			case *ast.SendStmt:
				if call, ok := x.Value.(*ast.CallExpr); ok && p.CalleeName(info, call) == "bufio.(*Scanner).Err" {
					doneCh = core.ExprStr(x.Chan)
				}
			case *ast.CommClause:
				if ss, ok := x.Comm.(*ast.SendStmt); ok {
					tokenCh = core.ExprStr(ss.Chan)
				}
			}
			return true
		})
	}
	var doneArm, resArm *ast.CommClause
	for _, cl := range sel.Body.List {
		cc := cl.(*ast.CommClause)
		if cc.Comm != nil && doneCh != "" && strings.Contains(core.FullStr(cc.Comm), "<-"+doneCh) {
			doneArm = cc
		}
		ast.Inspect(cc, func(n ast.Node) bool {
			if n == ast.Node(resLoop) {
				resArm = cc
			}
			return true
		})
	}
	var flagObj types.Object
	if doneArm != nil {
		for _, st := range doneArm.Body {
			if as, ok := st.(*ast.AssignStmt); ok && as.Tok == token.ASSIGN && len(as.Lhs) == 1 && len(as.Rhs) == 1 && core.ExprStr(as.Rhs[0]) == "true" {
				if id, ok := as.Lhs[0].(*ast.Ident); ok {
					flagObj = info.ObjectOf(id)
				}
			}
		}
	}
	if doneArm == nil || resArm == nil || flagObj == nil || tokenCh == "" {
		c.Unknown("REORDER", key+"/termination", sel.Pos(), fmt.Sprintf("the arms of the consumer's select could not be identified (done channel %q, token channel %q, result arm %v, done flag %v)", doneCh, tokenCh, resArm != nil, flagObj != nil))
		return
	}
	// the flag is written nowhere else
	badTerm := ""
	ast.Inspect(fn.Decl.Body, func(n ast.Node) bool {
		if as, ok := n.(*ast.AssignStmt); ok && as.Tok == token.ASSIGN {
			for _, l := range as.Lhs {
				if id, ok := l.(*ast.Ident); ok && info.ObjectOf(id) == flagObj && (as.Pos() < doneArm.Pos() || as.Pos() > doneArm.End()) {
					badTerm = fmt.Sprintf("%s: the reader-done flag is set outside the arm that receives from the done channel", p.Pos(as.Pos()))
				}
			}
		}
		return true
	})
	var linesObj types.Object
	for _, l := range goLits(fn.Decl.Body) {
		ast.Inspect(l.Body, func(nd ast.Node) bool {
			if as, ok := nd.(*ast.AssignStmt); ok && as.Tok == token.ADD_ASSIGN && len(as.Lhs) == 1 {
				if id, ok := as.Lhs[0].(*ast.Ident); ok {
					if v, ok := info.ObjectOf(id).(*types.Var); ok && (v.Pos() < l.Pos() || v.Pos() > l.End()) {
						linesObj = v
					}
				}
			}
			return true
		})
	}
	termPaths, tokenPaths := 0, 0
	for _, flagIn := range []bool{false, true} {
		for _, allProduced := range []bool{false, true} {
			if badTerm != "" || linesObj == nil {
				break
			}
			flagIn, allProduced := flagIn, allProduced
			in := newInterp(p, fn)
			in.MaxPaths = 6000
			in.Hooks.Ident = func(st *absint.State, obj types.Object) (absint.Val, bool) {
				if obj == flagObj {
					return absint.Bool(flagIn), true
				}
				return nil, false
			}
			in.Hooks.Loop = func(st *absint.State, loop ast.Stmt) *absint.LoopSpec {
				return &absint.LoopSpec{Cases: []string{"r"}, MaxIter: 1, RefStep: func(ref, cs string) string { return ref }}
			}
			eqAtom := func(atom string) bool {
				return strings.Contains(atom, " == ") && mentions(atom, sName) && mentions(atom, linesObj.Name())
			}
			in.Hooks.Cond = func(st *absint.State, atom string) (bool, bool) {
				if eqAtom(atom) {
					st.Emit("TESTED", token.NoPos)
					return allProduced, true
				}
				return false, false
			}
			in.Hooks.Call = chainCall(func(st *absint.State, call *ast.CallExpr, callee string, recv absint.Val, args []absint.Val) (absint.Val, bool) {
				if callee == "value:produce" {
					return absint.Nil{}, true
				}
				return nil, false
			}, errorfHook)
			outs, err := in.Run(&ast.FuncType{Params: &ast.FieldList{}, Results: fn.Decl.Type.Results}, nil, &ast.BlockStmt{List: []ast.Stmt{sel}}, nil, "")
			if err != nil {
				c.Unknown("REORDER", key+"/termination", sel.Pos(), err.Error())
				return
			}
			for _, o := range outs {
				arm := ""
				tokens := 0
				for _, e := range o.Events {
					if strings.HasPrefix(e.Name, "select ") && arm == "" {
						arm = strings.TrimPrefix(e.Name, "select ")
					}
					if e.Name == "recv "+tokenCh {
						tokens++
					}
				}
				inDone := strings.Contains(arm, "<-"+doneCh)
				inRes := !inDone && resArm.Comm != nil && arm == core.FullStr(resArm.Comm)
				if !inDone && !inRes {
					continue
				}
				termPaths++
				flagNow := flagIn
				if v, ok := o.Env[flagObj.Name()]; ok && v != nil {
					if absint.IsTrue(v) {
						flagNow = true
					} else if absint.IsFalse(v) {
						flagNow = false
					}
				}
				left := o.Kind == "break" && o.Label != ""
				what := fmt.Sprintf("arm `%s`, reader done on entry=%v, everything read produced=%v", arm, flagIn, allProduced)
				switch {
				case o.Kind == "return":
					// an error (of a line, of the reader, of produce) ends the run
				case left && !(flagNow && allProduced):
					badTerm = "the produce loop is left although " + map[bool]string{true: "not every line read was produced", false: "the reader is not known to be done"}[flagNow] + " (" + what + ")"
				case !left && flagNow && allProduced:
					badTerm = "the reader is done and every line read was produced, yet the produce loop goes on: nothing will wake it (" + what + ")"
				}
				if inRes && o.Kind != "return" {
					tokenPaths++
					if tokens != 1 {
						badTerm = fmt.Sprintf("one output token must be released per result batch (%d released; %s)", tokens, what)
					}
				}
				if inDone && o.Kind != "return" && !flagNow {
					badTerm = "after a nil error from the done channel the reader-done flag must be set (" + what + ")"
				}
			}
		}
	}
	if badTerm == "" && (termPaths == 0 || tokenPaths == 0) {
		badTerm = "the result arm and the done arm of the consumer's select were not explored"
	}
	c.Decide(badTerm == "", "REORDER", key+"/termination", sel.Pos(), termPaths, "done && startIndex == linesRead in both arms; token released per batch", badTerm)
}

// ---------------------------------------------------------------- stdin

func checkStdin(c *core.Ctx) {
	p := c.Prog
	fn := p.Func("execution/files", "openStdin")
	key := "execution/files.openStdin"
	if fn == nil {
		c.Unknown("STDIN", key, 0, "anchor not found")
		return
	}
	c.SawFunc(key)
	info := fn.Info()
	n, bad := 0, ""
	ast.Inspect(fn.Decl.Body, func(nd ast.Node) bool {
		call, ok := nd.(*ast.CallExpr)
		if !ok || p.CalleeName(info, call) != "io.MultiReader" {
			return true
		}
		n++
		if len(call.Args) != 2 {
			bad = fmt.Sprintf("%s: expected the previewed bytes followed by the remaining stdin", p.Pos(call.Pos()))
			return true
		}
		first, ok1 := call.Args[0].(*ast.CallExpr)
		if !ok1 || p.CalleeName(info, first) != "bytes.NewReader" || !strings.Contains(strings.ToLower(core.ExprStr(first.Args[0])), "preview") {
			bad = fmt.Sprintf("%s: the first reader must replay the previewed bytes, it is %s", p.Pos(call.Pos()), core.ExprStr(call.Args[0]))
		}
		second := core.ExprStr(call.Args[1])
		if second != "os.Stdin" && !strings.Contains(second, "stdinPreviewingReader") {
			bad = fmt.Sprintf("%s: the second reader must be the rest of stdin, it is %s", p.Pos(call.Pos()), second)
		}
		return true
	})
	c.Decide(n == 2 && bad == "", "STDIN", key+"/order", fn.Decl.Pos(), n, "previewed bytes first, then the rest of stdin (both modes)", "stdin must be read as the previewed portion followed by the rest: "+bad+fmt.Sprintf(" (MultiReader calls=%d)", n))
	// the preview copy holds the whole buffer: what the preview-mode MultiReader replays is a private copy of all of
	// the buffer's bytes — make+copy, append to an empty slice, bytes.Clone / slices.Clone, or a round trip through string
	copyOK := false
	wholeCopy := func(e ast.Expr) bool {
		e = core.Unparen(e)
		call, ok := e.(*ast.CallExpr)
		if !ok {
			return false
		}
		fun := core.ExprStr(call.Fun)
		isBytes := func(x ast.Expr) bool { return strings.HasSuffix(core.ExprStr(core.Unparen(x)), ".Bytes()") }
		switch {
		case fun == "append" && len(call.Args) == 2 && call.Ellipsis.IsValid() && isBytes(call.Args[1]):
			a0 := core.ExprStr(call.Args[0])
			return a0 == "[]byte(nil)" || a0 == "[]byte{}" || strings.HasPrefix(a0, "make([]byte, 0")
		case (fun == "bytes.Clone" || fun == "slices.Clone") && len(call.Args) == 1:
			return isBytes(call.Args[0])
		case fun == "[]byte" && len(call.Args) == 1:
			in := core.ExprStr(core.Unparen(call.Args[0]))
			return strings.HasSuffix(in, ".String()") || (strings.HasPrefix(in, "string(") && strings.HasSuffix(in, ".Bytes())"))
		}
		return false
	}
	ast.Inspect(fn.Decl.Body, func(nd ast.Node) bool {
		call, ok := nd.(*ast.CallExpr)
		if !ok || p.CalleeName(info, call) != "io.MultiReader" || len(call.Args) != 2 || !strings.Contains(core.ExprStr(call.Args[1]), "stdinPreviewingReader") {
			return true
		}
		first, ok := call.Args[0].(*ast.CallExpr)
		if !ok || len(first.Args) != 1 {
			return true
		}
		src := core.Unparen(first.Args[0])
		if wholeCopy(src) {
			copyOK = true
			return true
		}
		id, ok := src.(*ast.Ident)
		if !ok {
			return true
		}
		obj, _ := info.Uses[id].(*types.Var)
		if obj == nil {
			return true
		}
		def := singleDef(info, fn.Decl.Body, obj)
		if def == nil {
			return true
		}
		if wholeCopy(def) {
			copyOK = true
			return true
		}
		// make([]byte, B.Len()) filled by copy(dst, B.Bytes())
		if mk, ok := core.Unparen(def).(*ast.CallExpr); ok && core.ExprStr(mk.Fun) == "make" && len(mk.Args) == 2 && strings.HasSuffix(core.ExprStr(mk.Args[1]), ".Len()") {
			buf := strings.TrimSuffix(core.ExprStr(mk.Args[1]), ".Len()")
			ast.Inspect(fn.Decl.Body, func(m ast.Node) bool {
				if cp, ok := m.(*ast.CallExpr); ok && core.ExprStr(cp.Fun) == "copy" && len(cp.Args) == 2 && core.ExprStr(cp.Args[0]) == id.Name && core.ExprStr(cp.Args[1]) == buf+".Bytes()" {
					copyOK = true
				}
				return true
			})
		}
		return true
	})
	c.Decide(copyOK, "STDIN", key+"/preview copy", fn.Decl.Pos(), 1, "the replayed copy holds the whole previewed buffer", "in preview mode the replayed portion must be a copy of the whole previewed buffer (make([]byte, previewedBuffer.Len()); copy(…, previewedBuffer.Bytes()))")

	// the previewing reader
	rd := p.Func("execution/files", "(*stdinPreviewingReader).Read")
	rkey := "execution/files.(*stdinPreviewingReader).Read"
	if rd == nil {
		c.Unknown("STDIN", rkey, 0, "anchor not found")
		return
	}
	c.SawFunc(rkey)
	in := newInterp(p, rd)
	pname := rd.Decl.Type.Params.List[0].Names[0].Name
	in.Hooks.Call = func(st *absint.State, call *ast.CallExpr, callee string, recv absint.Val, args []absint.Val) (absint.Val, bool) {
		switch callee {
		case "os.(*File).Read":
			st.Emit("READ", call.Pos(), args...)
			return absint.Tuple{Elems: []absint.Val{absint.S("N"), absint.S("ERR")}}, true
		case "sync.(*Mutex).Lock":
			st.Emit("LOCK", call.Pos())
			return absint.Nil{}, true
		case "sync.(*Mutex).Unlock":
			st.Emit("UNLOCK", call.Pos())
			return absint.Nil{}, true
		case "bytes.(*Buffer).Write":
			st.Emit("TEE", call.Pos(), args...)
			return absint.Tuple{Elems: []absint.Val{absint.S("W"), absint.Nil{}}}, true
		}
		return nil, false
	}
	outs, err := runDecl(in, rd, nil, "")
	if err != nil {
		c.Unknown("STDIN", rkey, rd.Decl.Pos(), err.Error())
		return
	}
	rbad := ""
	for _, o := range outs {
		var seq []string
		for _, e := range o.Events {
			switch e.Name {
			case "READ":
				seq = append(seq, "READ("+e.Args[0].Canon()+")")
			case "TEE":
				seq = append(seq, "TEE("+e.Args[0].Canon()+")")
			case "LOCK", "UNLOCK":
				seq = append(seq, e.Name)
			}
		}
		got := strings.Join(seq, " ")
		want := fmt.Sprintf("READ(%s) LOCK TEE(%s[:N]) UNLOCK", pname, pname)
		want2 := fmt.Sprintf("READ(%s) LOCK TEE(%s[0:N]) UNLOCK", pname, pname)
		if got != want && got != want2 {
			rbad = fmt.Sprintf("the previewing reader must read into %s, then — holding the mutex — append exactly the bytes read (%s[:n]) to the preview buffer; it does: %s", pname, pname, got)
		}
		if o.Kind != "return" || len(o.Values) != 2 || o.Values[0].Canon() != "N" || o.Values[1].Canon() != "ERR" {
			rbad = "the previewing reader must return stdin's own (n, err): " + o.String()
		}
	}
	if len(outs) == 0 {
		rbad = "no outcome"
	}
	c.Decide(rbad == "", "STDIN", rkey, rd.Decl.Pos(), len(outs), "read, tee p[:n] under the mutex, return (n, err)", rbad)
}

// ---------------------------------------------------------------- parquet

func checkParquet(c *core.Ctx) {
	p := c.Prog
	fn := p.Func("datasources/parquet", "(*DatasourceExecuting).Run")
	key := "datasources/parquet.(*DatasourceExecuting).Run"
	if fn == nil {
		c.Unknown("PQ", key, 0, "anchor not found")
		return
	}
	c.SawFunc(key)
	info := fn.Info()
	var projArg, reconArg string
	var projPos, readerPos token.Pos
	ast.Inspect(fn.Decl.Body, func(n ast.Node) bool {
		call, ok := n.(*ast.CallExpr)
		if !ok {
			return true
		}
		switch name := p.CalleeName(info, call); {
		case strings.HasSuffix(name, "parquet-go.(*Schema).MakeColumnReadRowFunc") && len(call.Args) == 1:
			projArg, projPos = core.ExprStr(call.Args[0]), call.Pos()
		case name == "datasources/parquet.reconstructFuncOfSchemaFields" && len(call.Args) == 2:
			reconArg = core.ExprStr(call.Args[1])
		case strings.HasSuffix(name, "parquet-go.NewReader"):
			readerPos = call.Pos()
		}
		return true
	})
	c.Decide(projArg != "" && projArg == reconArg && projPos < readerPos, "PQ", key+"/projection", fn.Decl.Pos(), 2, "the columns configured for reading are the ones reconstruction expects, set before the reader is created",
		fmt.Sprintf("rows must be read with exactly the projected columns the reconstruction walks (MakeColumnReadRowFunc(%s) before NewReader, reconstructFuncOfSchemaFields(…, %s))", projArg, reconArg))
	// usedFields[i] = d.fields[i].Name
	// slot k of the projection gets the name of schema field k: `proj[k] = x.fields[k].Name`, or the element of a
	// `for k, f := range x.fields` loop
	namesOK := false
	ast.Inspect(fn.Decl.Body, func(n ast.Node) bool {
		var k, elem, ranged string
		var body *ast.BlockStmt
		switch l := n.(type) {
		case *ast.RangeStmt:
			if l.Key == nil {
				return true
			}
			k, ranged, body = core.ExprStr(l.Key), core.ExprStr(l.X), l.Body
			if l.Value != nil {
				elem = core.ExprStr(l.Value)
			}
		case *ast.ForStmt:
			if as, ok := l.Init.(*ast.AssignStmt); ok && len(as.Lhs) == 1 {
				k, body = core.ExprStr(as.Lhs[0]), l.Body
			}
		}
		if body == nil || k == "" || k == "_" {
			return true
		}
		ast.Inspect(body, func(m ast.Node) bool {
			as, ok := m.(*ast.AssignStmt)
			if !ok || len(as.Lhs) != 1 || len(as.Rhs) != 1 || core.ExprStr(as.Lhs[0]) != projArg+"["+k+"]" {
				return true
			}
			rhs := core.ExprStr(as.Rhs[0])
			if strings.HasSuffix(rhs, ".fields["+k+"].Name") || (elem != "" && elem != "_" && rhs == elem+".Name" && strings.HasSuffix(ranged, ".fields")) {
				namesOK = true
			}
			return true
		})
		return true
	})
	c.Decide(namesOK, "PQ", key+"/field names", fn.Decl.Pos(), 1, "projected names are the schema's field names, position by position", "the projected column list must be the names of the schema fields, in the same positions")

	// a node that is absent in a row still occupies its columns: skipping it advances the row by the node's width
	nSkip, badSkip := 0, ""
	for _, fr := range p.AllFuncs("datasources/parquet") {
		width := ""
		if fr.Decl.Type.Params != nil {
			for _, f := range fr.Decl.Type.Params.List {
				for _, nm := range f.Names {
					if nm.Name == "rowLength" {
						width = nm.Name
					}
				}
			}
		}
		ast.Inspect(fr.Decl.Body, func(n ast.Node) bool {
			if as, ok := n.(*ast.AssignStmt); ok && as.Tok == token.DEFINE && len(as.Lhs) == 1 && len(as.Rhs) == 1 {
				if be, ok := as.Rhs[0].(*ast.BinaryExpr); ok && be.Op == token.SUB && core.ExprStr(be.X) == "nextColumnIndex" && core.ExprStr(be.Y) == "columnIndex" {
					width = core.ExprStr(as.Lhs[0])
				}
			}
			return true
		})
		if width == "" {
			continue
		}
		ast.Inspect(fr.Decl.Body, func(n ast.Node) bool {
			rs, ok := n.(*ast.ReturnStmt)
			if !ok || len(rs.Results) == 0 {
				return true
			}
			se, ok := rs.Results[0].(*ast.SliceExpr)
			if !ok || core.ExprStr(se.X) != "row" {
				return true
			}
			nSkip++
			if se.Low == nil || core.ExprStr(se.Low) != width || se.High != nil {
				badSkip = fmt.Sprintf("%s: %s returns %s", p.Pos(rs.Pos()), p.FName(fr), core.ExprStr(se))
			}
			return true
		})
	}
	c.Decide(nSkip >= 2 && badSkip == "", "PQ", "datasources/parquet/skip absent node", 0, nSkip, "an absent optional/repeated node advances the row by the node's column count",
		fmt.Sprintf("a node that is NULL/empty in a row must be skipped by its whole width (row[rowLength:], rowLength = nextColumnIndex − columnIndex), or the following columns are read from the wrong position: %s (sites=%d)", badSkip, nSkip))
	// group reconstruction: every field contributes a function (no field skipped)
	for _, name := range []string{"reconstructFuncOfGroup"} {
		g := p.Func("datasources/parquet", name)
		gkey := "datasources/parquet." + name
		if g == nil {
			c.Unknown("PQ", gkey, 0, "anchor not found")
			continue
		}
		c.SawFunc(gkey)
		var loop *ast.RangeStmt
		ast.Inspect(g.Decl.Body, func(n ast.Node) bool {
			if rs, ok := n.(*ast.RangeStmt); ok && loop == nil {
				loop = rs
			}
			return true
		})
		if loop == nil {
			c.Unknown("PQ", gkey, g.Decl.Pos(), "no loop over the group's fields")
			continue
		}
		direct, cond := 0, 0
		for _, s := range loop.Body.List {
			if as, ok := s.(*ast.AssignStmt); ok && len(as.Rhs) == 1 {
				if call, ok := as.Rhs[0].(*ast.CallExpr); ok && core.ExprStr(call.Fun) == "append" && core.ExprStr(as.Lhs[0]) == "funcs" {
					direct++
					continue
				}
			}
			ast.Inspect(s, func(n ast.Node) bool {
				if as, ok := n.(*ast.AssignStmt); ok && len(as.Rhs) == 1 && core.ExprStr(as.Lhs[0]) == "funcs" {
					cond++
				}
				return true
			})
		}
		// the struct has one slot per field
		slots := false
		ast.Inspect(g.Decl.Body, func(n ast.Node) bool {
			if kv, ok := n.(*ast.KeyValueExpr); ok && core.ExprStr(kv.Key) == "Struct" {
				if core.ExprStr(kv.Value) == "make([]octosql.Value, len("+core.ExprStr(loop.X)+"))" {
					slots = true
				}
			}
			return true
		})
		c.Decide(direct == 1 && cond == 0 && slots, "PQ", gkey, loop.Pos(), 2, "one reconstruct function and one struct slot per group field",
			fmt.Sprintf("a nested group must be rebuilt from all of its fields: one function appended per field, unconditionally, and one struct slot per field (unconditional appends=%d, conditional=%d, slots per field=%v); a skipped field shifts every following column", direct, cond, slots))
	}
}

// ---------------------------------------------------------------- csv

func checkCSVRows(c *core.Ctx) {
	p := c.Prog
	type side struct {
		fn            *core.FuncRef
		key           string
		comma, header string
		reuse         bool
	}
	var sides []side
	for _, spec := range [][2]string{{"datasources/csv", "Creator"}, {"datasources/csv", "(*DatasourceExecuting).Run"}} {
		fn := p.Func(spec[0], spec[1])
		key := spec[0] + "." + spec[1]
		if fn == nil {
			c.Unknown("CSVROW", key, 0, "anchor not found")
			return
		}
		c.SawFunc(key)
		info := fn.Info()
		sd := side{fn: fn, key: key}
		// decoder settings
		ast.Inspect(fn.Decl.Body, func(n ast.Node) bool {
			as, ok := n.(*ast.AssignStmt)
			if !ok || len(as.Lhs) != 1 || len(as.Rhs) != 1 {
				return true
			}
			l := core.ExprStr(as.Lhs[0])
			switch {
			case strings.HasSuffix(l, ".Comma"):
				sd.comma = strings.TrimPrefix(core.ExprStr(as.Rhs[0]), "d.")
			case strings.HasSuffix(l, ".ReuseRecord"):
				sd.reuse = core.ExprStr(as.Rhs[0]) == "true"
			}
			return true
		})
		// header: `if <header> { … decoder.Read() … }` before the row loop
		ast.Inspect(fn.Decl.Body, func(n ast.Node) bool {
			is, ok := n.(*ast.IfStmt)
			if !ok || sd.header != "" {
				return true
			}
			reads := false
			ast.Inspect(is.Body, func(m ast.Node) bool {
				if call, ok := m.(*ast.CallExpr); ok && p.CalleeName(info, call) == "encoding/csv.(*Reader).Read" {
					reads = true
				}
				return true
			})
			if reads {
				sd.header = strings.TrimPrefix(core.ExprStr(is.Cond), "d.")
			}
			return true
		})
		// retention of the reused record: the variable assigned from decoder.Read() must not be stored whole
		if sd.reuse {
			bad := ""
			nRead := 0
			ast.Inspect(fn.Decl.Body, func(n ast.Node) bool {
				as, ok := n.(*ast.AssignStmt)
				if !ok || len(as.Rhs) != 1 || len(as.Lhs) != 2 {
					return true
				}
				call, ok := as.Rhs[0].(*ast.CallExpr)
				if !ok || p.CalleeName(info, call) != "encoding/csv.(*Reader).Read" {
					return true
				}
				id, ok := as.Lhs[0].(*ast.Ident)
				if !ok || id.Name == "_" {
					return true
				}
				nRead++
				rowObj := info.ObjectOf(id)
				// any use of the row variable other than indexing, len(), ranging or as the source of copy()
				core.WalkStack(fn.Decl.Body, func(nd ast.Node, stack []ast.Node) bool {
					use, ok := nd.(*ast.Ident)
					if !ok || info.Uses[use] != rowObj || len(stack) == 0 {
						return true
					}
					switch parent := stack[len(stack)-1].(type) {
					case *ast.IndexExpr:
						if parent.X == ast.Expr(use) {
							return true
						}
					case *ast.RangeStmt:
						if parent.X == ast.Expr(use) {
							return true
						}
					case *ast.CallExpr:
						f := core.ExprStr(parent.Fun)
						if f == "len" || (f == "copy" && len(parent.Args) == 2 && parent.Args[1] == ast.Expr(use)) {
							return true
						}
					}
					bad = fmt.Sprintf("%s: the record slice returned by Read() is reused by the decoder (ReuseRecord) but is kept as a whole here; copy it", p.Pos(use.Pos()))
					return true
				})
				return true
			})
			c.Decide(bad == "" && nRead >= 1, "CSVROW", key+"/reused record", fn.Decl.Pos(), nRead, "the reused record is only indexed, measured, ranged over or copied", bad)
		}
		sides = append(sides, sd)
	}
	// the cell loop reads the file column of each used field and writes the output slot of the same step
	if loop := csvCellLoop(p, sides[1].fn); loop != nil {
		info := sides[1].fn.Info()
		bad := ""
		keyObj, valObj := types.Object(nil), types.Object(nil)
		if id, ok := loop.Key.(*ast.Ident); ok {
			keyObj = info.ObjectOf(id)
		}
		if id, ok := loop.Value.(*ast.Ident); ok && loop.Value != nil {
			valObj = info.ObjectOf(id)
		}
		if keyObj == nil || valObj == nil {
			bad = "the cell loop must range over the file column indices to read with both position and column index (`for i, columnIndex := range indicesToRead`)"
		} else {
			reads := 0
			ast.Inspect(loop.Body, func(n ast.Node) bool {
				ix, ok := n.(*ast.IndexExpr)
				if !ok {
					return true
				}
				xt := info.TypeOf(ix.X)
				if xt == nil || xt.String() != "[]string" {
					return true
				}
				reads++
				if id, ok := ix.Index.(*ast.Ident); !ok || info.ObjectOf(id) != valObj {
					bad = fmt.Sprintf("%s: the cell text is read as %s; it must be the file column of the field being filled (%s[%s])", p.Pos(ix.Pos()), core.ExprStr(ix), core.ExprStr(ix.X), valObj.Name())
				}
				return true
			})
			if reads == 0 && bad == "" {
				bad = "the cell loop does not read the decoded record"
			}
			// the ranged slice holds positions of fileFieldNames that are used
			src := core.ExprStr(loop.X)
			built := false
			ast.Inspect(sides[1].fn.Decl.Body, func(n ast.Node) bool {
				rs, ok := n.(*ast.RangeStmt)
				if !ok || !strings.HasSuffix(core.ExprStr(rs.X), ".fileFieldNames") || rs.Key == nil {
					return true
				}
				k := core.ExprStr(rs.Key)
				ast.Inspect(rs.Body, func(m ast.Node) bool {
					if as, ok := m.(*ast.AssignStmt); ok && len(as.Lhs) == 1 && core.ExprStr(as.Lhs[0]) == src && core.ExprStr(as.Rhs[0]) == "append("+src+", "+k+")" {
						built = true
					}
					return true
				})
				return true
			})
			if !built && bad == "" {
				bad = fmt.Sprintf("%s must collect the positions of the used names within the file's field names", src)
			}
		}
		c.Decide(bad == "", "CSVROW", sides[1].key+"/cell columns", loop.Pos(), 2, "cell text from the used field's file column, collected from the file's field names", bad)
	} else {
		c.Unknown("CSVROW", sides[1].key+"/cell columns", 0, "cell loop not found")
	}
	checkCSVUniqueNames(c, "CSVROW")
	a, b := sides[0], sides[1]
	c.Decide(a.comma != "" && a.comma == b.comma && a.header != "" && a.header == b.header, "CSVROW", "datasources/csv/inference↔execution", a.fn.Decl.Pos(), 2,
		"same separator and the same header decision when inferring and when reading",
		fmt.Sprintf("schema inference and execution must split rows with the same separator and skip a header row under the same condition (separator: %q vs %q, header: %q vs %q)", a.comma, b.comma, a.header, b.header))
	// Materialize hands the creator's settings on
	m := p.Func("datasources/csv", "(*impl).Materialize")
	if m == nil {
		c.Unknown("CSVROW", "datasources/csv.(*impl).Materialize", 0, "anchor not found")
		return
	}
	passed := map[string]string{}
	ast.Inspect(m.Decl.Body, func(n ast.Node) bool {
		if kv, ok := n.(*ast.KeyValueExpr); ok {
			passed[core.ExprStr(kv.Key)] = core.ExprStr(kv.Value)
		}
		return true
	})
	okPass := passed["header"] == "i.header" && passed["separator"] == "i.separator" && passed["fileFieldNames"] == "i.fileFieldNames" && passed["path"] == "i.path"
	c.Decide(okPass, "CSVROW", "datasources/csv.(*impl).Materialize", m.Decl.Pos(), 4, "path, header flag, separator and file field names are handed on unchanged",
		fmt.Sprintf("the executing node must get the path, header flag, separator and file field names the schema was inferred with (%v)", passed))
}

// checkCSVUniqueNames: positions in the pruned field list are matched with file columns by name, so the names must be
// unique (shared by C23 and C04: the failure only shows once unused columns are pruned).
func checkCSVUniqueNames(c *core.Ctx, rule string) {
	fn := c.Prog.Func("datasources/csv", "Creator")
	if fn == nil {
		c.Unknown(rule, "datasources/csv.Creator/unique column names", 0, "anchor not found")
		return
	}
	p := c.Prog
	unique := false
	// the walk over the header's names: in Creator itself (a repeated name returns an error), or in a helper that is
	// handed the names and reports the repetition to Creator, which then returns an error
	for _, bf := range helperClosureBound(p, fn) {
		bf := bf
		info := bf.fn.Info()
		ast.Inspect(bf.fn.Decl.Body, func(n ast.Node) bool {
			rs, ok := n.(*ast.RangeStmt)
			if !ok || resolveText(core.ExprStr(rs.X), bf.binds) != "fieldNames" || rs.Value == nil {
				return true
			}
			v := core.ExprStr(rs.Value)
			rejects, records := "", ""
			for _, st := range rs.Body.List {
				switch st := st.(type) {
				case *ast.IfStmt:
					ix, ok := st.Cond.(*ast.IndexExpr)
					if !ok || core.ExprStr(ix.Index) != v || st.Else != nil || len(st.Body.List) == 0 {
						continue
					}
					if _, isMap := info.TypeOf(ix.X).Underlying().(*types.Map); !isMap {
						continue
					}
					ret, ok := st.Body.List[len(st.Body.List)-1].(*ast.ReturnStmt)
					if !ok || len(ret.Results) == 0 {
						continue
					}
					if bf.fn == fn {
						if core.ExprStr(ret.Results[len(ret.Results)-1]) != "nil" {
							rejects = core.ExprStr(ix.X)
						}
					} else if creatorRejectsOn(p, fn, bf.fn) {
						rejects = core.ExprStr(ix.X)
					}
				case *ast.AssignStmt:
					if len(st.Lhs) == 1 && len(st.Rhs) == 1 && core.ExprStr(st.Rhs[0]) == "true" {
						if ix, ok := st.Lhs[0].(*ast.IndexExpr); ok && core.ExprStr(ix.Index) == v {
							records = core.ExprStr(ix.X)
						}
					}
				}
			}
			if rejects != "" && rejects == records {
				unique = true
			}
			return true
		})
	}
	c.Decide(unique, rule, "datasources/csv.Creator/unique column names", fn.Decl.Pos(), 1, "a header naming a column twice is rejected",
		"the reader selects file columns by name and fills slot i from the i-th selected column: with a repeated header name more columns are selected than the pruned schema has fields (index out of range), so the creator must reject a header that names a column twice")
}

// creatorRejectsOn: root returns a non-nil error under a test of what helper reported (`if x, found := helper(…);
// found { return …, err }`, or the result assigned first and tested next).
func creatorRejectsOn(p *core.Program, root, helper *core.FuncRef) bool {
	info := root.Info()
	found := false
	ast.Inspect(root.Decl.Body, func(n ast.Node) bool {
		is, ok := n.(*ast.IfStmt)
		if !ok || len(is.Body.List) == 0 {
			return true
		}
		calls := false
		inspectAll([]ast.Node{is.Init, is.Cond}, func(m ast.Node) bool {
			if call, ok := m.(*ast.CallExpr); ok && core.Callee(info, call) == types.Object(helper.Obj) {
				calls = true
			}
			return true
		})
		if !calls {
			return true
		}
		if ret, ok := is.Body.List[len(is.Body.List)-1].(*ast.ReturnStmt); ok && len(ret.Results) > 0 && core.ExprStr(ret.Results[len(ret.Results)-1]) != "nil" {
			found = true
		}
		return true
	})
	return found
}

// inexactFloatParsers: library routines that do not return the float64 nearest to the decimal text. fastfloat.Parse
// scales the mantissa with a float multiplication by a power of ten (exact only without an exponent part and with
// few digits), and fastjson's number accessors are built on it: 65.162e-1 reads as 6.516200000000001.
var inexactFloatParsers = map[string]string{
	"github.com/valyala/fastjson/fastfloat.Parse":           "multiplies the mantissa by a float power of ten",
	"github.com/valyala/fastjson/fastfloat.ParseBestEffort": "same arithmetic as Parse, and swallows syntax errors",
	"(*github.com/valyala/fastjson.Value).Float64":          "calls fastfloat.Parse on the number's text",
	"(*github.com/valyala/fastjson.Value).GetFloat64":       "calls fastfloat.ParseBestEffort on the number's text",
	"(*github.com/valyala/fastjson.Object).GetFloat64":      "calls fastfloat.ParseBestEffort on the number's text",
}

// checkExactFloatParsing (FLOATEXACT): a datasource turns the text of a number into the float64 nearest to it — the
// value "the row contains", the one schema inference (strconv) saw and the one -o json prints back. No datasource may
// produce its Float values with one of the library's inexact parsers.
func checkExactFloatParsing(c *core.Ctx, rule string) {
	p := c.Prog
	n, calls := 0, 0
	for _, fr := range p.AllFuncs("datasources") {
		info := fr.Info()
		name := p.FName(fr)
		ast.Inspect(fr.Decl.Body, func(nd ast.Node) bool {
			call, ok := nd.(*ast.CallExpr)
			if !ok {
				return true
			}
			calls++
			f, ok := core.Callee(info, call).(*types.Func)
			if !ok || f.Pkg() == nil {
				return true
			}
			full := f.FullName()
			why, bad := inexactFloatParsers[full]
			if !bad {
				return true
			}
			n++
			c.SawFunc(name)
			c.Bad(rule, name+"→"+full, call.Pos(), 1, fmt.Sprintf("%s is not an exact decimal-to-float conversion (it %s): a cell such as 65.162e-1 is read as 6.516200000000001, `where a = 6.5162` misses the row, and floats octosql printed itself with -o json change when read back; parse with strconv.ParseFloat", full, why))
			return true
		})
	}
	c.OK(rule, "calls in package datasources", 0, calls, fmt.Sprintf("%d calls scanned, %d reach an inexact float parser", calls, n))
	c.Floor(rule, 1, "datasource call sites scanned")
}

// checkParquetOpenOptions (PQOPT): octosql opens parquet files with "skip the page index, skip the bloom filters".
// In the pinned parquet-go fork a *FileConfig passed as an option is a no-op — its ConfigureFile copies the *argument*
// onto itself instead of the receiver's fields — so the page index is read anyway, and the page index reader indexes
// RowGroups[0]: a file without row groups (an empty table) panics. The rule reads the resolved dependency's source:
// if ConfigureFile ignores its receiver, no call may pass a *FileConfig as an option.
func checkParquetOpenOptions(c *core.Ctx, rule string) {
	p := c.Prog
	pkg := p.Pkg("datasources/parquet")
	key := "datasources/parquet/OpenFile options"
	if pkg == nil {
		c.Unknown(rule, key, 0, "package not found")
		return
	}
	dep := pkg.Imports["github.com/segmentio/parquet-go"]
	if dep == nil {
		c.Unknown(rule, key, 0, "parquet-go dependency not resolved")
		return
	}
	// does (*FileConfig).ConfigureFile read its receiver?
	honoured, found := false, false
	fset := token.NewFileSet()
	for _, gf := range dep.GoFiles {
		if filepath.Base(gf) != "config.go" {
			continue
		}
		f, err := parser.ParseFile(fset, gf, nil, 0)
		if err != nil {
			continue
		}
		for _, d := range f.Decls {
			fd, ok := d.(*ast.FuncDecl)
			if !ok || fd.Name.Name != "ConfigureFile" || fd.Recv == nil || len(fd.Recv.List) != 1 || len(fd.Recv.List[0].Names) != 1 {
				continue
			}
			if core.ExprStr(fd.Recv.List[0].Type) != "*FileConfig" {
				continue
			}
			found = true
			recv := fd.Recv.List[0].Names[0].Name
			ast.Inspect(fd.Body, func(n ast.Node) bool {
				if se, ok := n.(*ast.SelectorExpr); ok && core.ExprStr(se.X) == recv {
					honoured = true
				}
				return true
			})
		}
	}
	if !found {
		c.Unknown(rule, key, 0, "(*FileConfig).ConfigureFile not found in the dependency's config.go")
		return
	}
	n, bad := 0, ""
	for _, fr := range p.AllFuncs("datasources/parquet") {
		info := fr.Info()
		ast.Inspect(fr.Decl.Body, func(nd ast.Node) bool {
			call, ok := nd.(*ast.CallExpr)
			if !ok || !strings.HasSuffix(p.CalleeName(info, call), "parquet-go.OpenFile") {
				return true
			}
			n++
			c.SawFunc(p.FName(fr))
			for _, a := range call.Args[min(2, len(call.Args)):] {
				if t := info.TypeOf(a); t != nil && strings.HasSuffix(t.String(), "parquet-go.FileConfig") && !honoured && bad == "" {
					bad = fmt.Sprintf("%s: a *parquet.FileConfig is passed as an option, but the pinned library's (*FileConfig).ConfigureFile never reads its receiver, so SkipPageIndex/SkipBloomFilters are ignored: the page index is read, and for a file without row groups (an empty table) its reader indexes RowGroups[0] and panics — pass parquet.SkipPageIndex(true), parquet.SkipBloomFilters(true)", p.Pos(call.Pos()))
				}
			}
			return true
		})
	}
	c.Decide(bad == "" && n >= 2, rule, key, 0, n, "the options are in a form the pinned library honours", bad)
}

// checkScannerLimits (SCANLIM): the json source scans the file twice — the first 100 lines for the schema, then all
// lines for the rows — and both scanners must accept the same line length, or whether a row can be read depends on
// where in the file it stands (a 2 MB line is fine as row 151 and fatal as row 1 with a hard-coded 1 MiB preview limit).
func checkScannerLimits(c *core.Ctx, rule string) {
	p := c.Prog
	key := "datasources/json inference↔execution/line length limit"
	limits := map[string]string{}
	var pos token.Pos
	for _, name := range []string{"Creator", "(*DatasourceExecuting).Run"} {
		fn := p.Func("datasources/json", name)
		if fn == nil {
			c.Unknown(rule, key, 0, name+" not found")
			return
		}
		c.SawFunc("datasources/json." + name)
		info := fn.Info()
		ast.Inspect(fn.Decl.Body, func(n ast.Node) bool {
			call, ok := n.(*ast.CallExpr)
			if !ok || len(call.Args) != 2 || p.CalleeName(info, call) != "bufio.(*Scanner).Buffer" {
				return true
			}
			limits[name] = core.ExprStr(call.Args[1])
			if tv := info.Types[call.Args[1]]; tv.Value != nil {
				limits[name] = tv.Value.ExactString()
			}
			pos = call.Pos()
			return true
		})
	}
	a, b := limits["Creator"], limits["(*DatasourceExecuting).Run"]
	c.Decide(a != "" && a == b, rule, key, pos, 2, "the schema preview and the row reader accept the same line length",
		fmt.Sprintf("the schema preview scans with a line limit of %q and the row reader with %q: a line between the two limits is readable after the previewed rows and fatal (bufio.Scanner: token too long) among them", a, b))
}
