package props

import (
	"fmt"
	"go/ast"
	"go/constant"
	"go/types"
	"os"
	"path/filepath"
	"regexp"
	"sort"
	"strings"

	"octoverif/core"
)

// checkRawTextFields (FMT8): a string-typed field of a syntax node that the grammar fills with free text — the bytes
// of an ID or STRING token (`string($n)`), or the text of an identifier nonterminal (`$n.String()`) — may hold
// anything a back-quoted identifier or a quoted string can hold: keywords, spaces, quotes. A printer that writes such
// a field through a bare %s prints text the tokenizer reads differently (`interval 1 `select“ → "interval 1 select",
// `collate 'x y'` → "collate x y", which re-parses as `collate x` with the alias y). Node-typed fields are FMT6's.
func checkRawTextFields(c *core.Ctx, rule string, formats map[*types.Named]*ast.FuncDecl) {
	p := c.Prog
	pkg := p.Pkg("parser/sqlparser")
	if pkg == nil || len(pkg.GoFiles) == 0 {
		c.Unknown(rule, "parser/sqlparser", 0, "package not found")
		return
	}
	src, err := os.ReadFile(filepath.Join(filepath.Dir(pkg.GoFiles[0]), "sql.y"))
	if err != nil {
		c.Unknown(rule, "parser/sqlparser/sql.y", 0, err.Error())
		return
	}
	text := string(src)
	prods := parseYacc(text)
	info := pkg.TypesInfo
	// declared value types of grammar symbols
	symType := map[string]string{}
	declRe := regexp.MustCompile(`(?m)^%(?:type|token|left|right|nonassoc)\s+<(\w+)>\s+(.*)$`)
	for _, m := range declRe.FindAllStringSubmatch(text, -1) {
		for _, s := range strings.Fields(m[2]) {
			symType[s] = m[1]
		}
	}
	freeTokens := map[string]bool{"ID": true, "STRING": true}
	identTypes := map[string]bool{"colIdent": true, "tableIdent": true}
	dollar := regexp.MustCompile(`\$(\d+)`)
	// freeExpr: does the action expression carry free text, given the production's symbols?
	var freeNT map[string]string
	freeExpr := func(expr string, symbols []string) string {
		for _, m := range dollar.FindAllStringSubmatch(expr, -1) {
			n := 0
			fmt.Sscanf(m[1], "%d", &n)
			if n < 1 || n > len(symbols) {
				continue
			}
			s := symbols[n-1]
			switch {
			case freeTokens[s] && strings.Contains(expr, "string($"+m[1]+")"):
				return "the bytes of the " + s + " token"
			case identTypes[symType[s]] && regexp.MustCompile(`\$`+m[1]+`\.(String|Lowered|CompliantName)\(\)`).MatchString(expr):
				return "the text of the identifier " + s
			case freeNT[s] != "" && regexp.MustCompile(`\$`+m[1]+`\b`).MatchString(expr):
				return s + " (" + freeNT[s] + ")"
			}
		}
		return ""
	}
	// string-valued nonterminals that hand on free text
	freeNT = map[string]string{}
	for changed := true; changed; {
		changed = false
		for _, pr := range prods {
			if freeNT[pr.lhs] != "" || (symType[pr.lhs] != "str" && symType[pr.lhs] != "bytes") {
				continue
			}
			if i := strings.Index(pr.action, "$$"); i >= 0 {
				rhs := pr.action[i:]
				if j := strings.Index(rhs, "="); j >= 0 {
					if why := freeExpr(rhs[j+1:], pr.symbols); why != "" {
						freeNT[pr.lhs] = why
						changed = true
					}
				}
			}
		}
	}
	// fields filled with free text: Type.Field -> why
	free := map[string]string{}
	litRe := regexp.MustCompile(`&?([A-Z]\w*)\{`)
	for _, pr := range prods {
		for _, loc := range litRe.FindAllStringSubmatchIndex(pr.action, -1) {
			tname := pr.action[loc[2]:loc[3]]
			body := pr.action[loc[1]:]
			depth, end := 1, -1
			for i := 0; i < len(body) && end < 0; i++ {
				switch body[i] {
				case '{', '(':
					depth++
				case '}', ')':
					depth--
					if depth == 0 {
						end = i
					}
				}
			}
			if end < 0 {
				continue
			}
			body = body[:end]
			d, start := 0, 0
			var parts []string
			for i := 0; i < len(body); i++ {
				switch body[i] {
				case '(', '{', '[':
					d++
				case ')', '}', ']':
					d--
				case ',':
					if d == 0 {
						parts = append(parts, body[start:i])
						start = i + 1
					}
				}
			}
			parts = append(parts, body[start:])
			for _, part := range parts {
				kv := strings.SplitN(part, ":", 2)
				if len(kv) != 2 {
					continue
				}
				if why := freeExpr(kv[1], pr.symbols); why != "" {
					k := tname + "." + strings.TrimSpace(kv[0])
					if free[k] == "" {
						free[k] = fmt.Sprintf("%s (sql.y:%d)", why, pr.line)
					}
				}
			}
		}
	}
	// printers: string-typed receiver fields passed to a bare %s
	type site struct {
		pos  ast.Node
		verb string
	}
	raw := map[string]ast.Node{}
	nFields := 0
	for n, fd := range formats {
		if len(fd.Recv.List[0].Names) == 0 {
			continue
		}
		recv := info.Defs[fd.Recv.List[0].Names[0]]
		ast.Inspect(fd.Body, func(x ast.Node) bool {
			call, ok := x.(*ast.CallExpr)
			if !ok || len(call.Args) < 2 {
				return true
			}
			se, ok := call.Fun.(*ast.SelectorExpr)
			if !ok || se.Sel.Name != "Myprintf" {
				return true
			}
			tv := info.Types[call.Args[0]]
			if tv.Value == nil || tv.Value.Kind() != constant.String {
				return true
			}
			format := constant.StringVal(tv.Value)
			var verbs []byte
			for i := 0; i+1 < len(format); i++ {
				if format[i] == '%' {
					verbs = append(verbs, format[i+1])
					i++
				}
			}
			args := call.Args[1:]
			for i, v := range verbs {
				if v != 's' || i >= len(args) {
					continue
				}
				sel, ok := core.Unparen(args[i]).(*ast.SelectorExpr)
				if !ok {
					continue
				}
				id, ok := sel.X.(*ast.Ident)
				if !ok || info.Uses[id] != recv {
					continue
				}
				if b, ok := info.TypeOf(sel).Underlying().(*types.Basic); !ok || b.Info()&types.IsString == 0 {
					continue
				}
				nFields++
				k := n.Obj().Name() + "." + sel.Sel.Name
				if _, dup := raw[k]; !dup {
					raw[k] = call
				}
			}
			return true
		})
	}
	var keys []string
	for k := range raw {
		keys = append(keys, k)
	}
	sort.Strings(keys)
	checked := 0
	for _, k := range keys {
		why, isFree := free[k]
		if !isFree {
			continue
		}
		checked++
		c.Bad(rule, k+" printed raw", raw[k].Pos(), 1, fmt.Sprintf("the grammar fills %s with %s, and the printer writes it through a bare %%s: a keyword, a space or a quote in it comes out unquoted and the printed statement parses differently or not at all", k, why))
	}
	c.OK(rule, "string fields printed through %s", 0, nFields, fmt.Sprintf("%d string-typed receiver fields go through a bare %%s, %d of them hold free text per the grammar; %d fields hold free text in all", len(raw), checked, len(free)))
	c.Floor(rule, 1, "printers scanned")
}
