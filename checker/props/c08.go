package props

import (
	"fmt"
	"go/ast"
	"go/token"
	"go/types"
	"regexp"
	"strings"

	"octoverif/core"
	"octoverif/engine/absint"
)

func init() {
	register(&Check{ID: "C08", Run: runC08,
		Explanation: "UNI3: for every function descriptor with a static result type, the constructors at the successful returns of its body are within the declared OutputType (pass-through arguments contribute their declared argument type) — in particular a function that can return NULL must declare it. UNI7: the same for aggregates. " +
			"MIR4: the type checker marks a strict call's output nullable under exactly the predicate under which Materialize inserts the runtime NULL check. " +
			"ASSERT: every place that wraps an expression in a runtime TypeAssertion records as static type the intersection of the asserted target type with the expression's type — target and static type are built from the same expression — and strict functions assert the nullable target; unions are never built by hand outside package octosql (TypeSum keeps them sorted, which Materialize relies on). " +
			"RT: TypeAssertion.Evaluate passes a value iff its TypeID is among the expected ones and fails otherwise; TypeCast.Evaluate yields the value iff its TypeID equals the target and NULL otherwise; Materialize derives the expected TypeIDs from every alternative of the target type. " +
			"LOOPREF: no address of a per-loop variable is stored in a variable that outlives the iteration (the module's Go version shares one variable per loop).",
		NotDecided: []string{"soundness of every typing judgement (overload resolution, TypeFn bodies with computed result types)", "that datasources deliver values matching their schema (C24)"},
	})
}

// checkDynamicNullability (UNI3d): a descriptor whose result type is computed by TypeFn and whose
// body can return NULL must compute a nullable type on every successful TypeFn path.
func checkDynamicNullability(c *core.Ctx) {
	t := loadFunctions(c, "UNI3")
	if t == nil {
		return
	}
	for _, d := range t.descs {
		if d.TypeFn == nil || d.Function == nil {
			continue
		}
		if _, static := t.outputKinds(d); static {
			continue
		}
		// does the body return NULL without an error?
		returnsNull := false
		for _, rs := range returnsOfLit(d.Function) {
			if len(rs.Results) == 2 && core.IsNilIdent(t.info, rs.Results[1]) {
				s := core.ExprStr(rs.Results[0])
				if s == "octosql.NewNull()" || s == "octosql.ZeroValue" || s == "octosql.Value{}" {
					returnsNull = true
				}
			}
		}
		key := "functions." + d.Key() + "/dynamic result type"
		if !returnsNull {
			c.OK("UNI3", key, d.TypeFn.Pos(), 1, "body never returns NULL")
			continue
		}
		// Is NULL only returned because an element of a collection argument is NULL? Interpret the body with every
		// element of every collection argument non-NULL: if no NULL return is left, NULL results come from NULL elements
		// only, and the computed type has to admit NULL exactly when an element type does.
		ids := typeIDs(c.Prog)
		elemArg := -1
		{
			bi := newLitInterp(c.Prog, t.info, "functions")
			bi.Hooks.Loop = func(st *absint.State, loop ast.Stmt) *absint.LoopSpec {
				return &absint.LoopSpec{Cases: []string{"e"}, MaxIter: 2, RefStep: func(ref, cs string) string { return ref }}
			}
			bi.Hooks.Field = func(st *absint.State, base absint.Val, sel string) (absint.Val, bool) {
				if sel != "TypeID" {
					return nil, false
				}
				if m := elemOfArgRE.FindStringSubmatch(base.Canon()); m != nil {
					k := int(m[1][0] - '0')
					if elemArg == -1 || elemArg == k {
						elemArg = k
						return absint.Int(ids["TypeIDInt"]), true
					}
				}
				return nil, false
			}
			bi.Hooks.Call = chainCall(ctorHook(ids), errorfHook)
			bouts, berr := runLit(bi, d.Function, nil, "")
			nullLeft := berr != nil
			for _, o := range bouts {
				if o.Kind == "return" && len(o.Values) == 2 && absint.IsNilVal(o.Values[1]) && valueClass(o, ids, o.Values[0]) == "NULL" {
					nullLeft = true
				}
				if o.Kind != "return" {
					nullLeft = true
				}
			}
			if nullLeft {
				elemArg = -1
			}
		}
		var pname string
		if len(d.TypeFn.Type.Params.List) == 1 && len(d.TypeFn.Type.Params.List[0].Names) == 1 {
			pname = d.TypeFn.Type.Params.List[0].Names[0].Name
		}
		is, isnt := lookupConst(c.Prog, "octosql", "TypeRelationIs"), lookupConst(c.Prog, "octosql", "TypeRelationIsnt")
		bad := ""
		n, total := 0, 0
		scenarios := []string{"any"}
		if elemArg >= 0 && pname != "" {
			scenarios = []string{"an element type admits NULL", "no element type admits NULL"}
		}
		for _, sc := range scenarios {
			sc := sc
			elemPrefix := fmt.Sprintf("%s[%d]", pname, elemArg)
			in := newLitInterp(c.Prog, t.info, "functions")
			loopSeen := false
			in.Hooks.Loop = func(st *absint.State, loop ast.Stmt) *absint.LoopSpec {
				if sc == "any" {
					return nil
				}
				if rs, ok := loop.(*ast.RangeStmt); !ok || !strings.HasPrefix(core.ExprStr(rs.X), elemPrefix+".") {
					return nil
				}
				loopSeen = true
				cases := []string{"ELEM-NOTNULL"}
				if sc == "an element type admits NULL" {
					cases = []string{"ELEM-NULLABLE", "ELEM-NOTNULL"}
				}
				return &absint.LoopSpec{Cases: cases, MaxIter: 2, RefStep: func(ref, cs string) string { return ref }}
			}
			in.Hooks.Cond = func(st *absint.State, atom string) (bool, bool) {
				if sc == "an element type admits NULL" && (atom == "("+elemPrefix+".List.Element != nil)" || atom == "(nil != "+elemPrefix+".List.Element)") {
					return true, true // a list whose element type admits NULL has an element type
				}
				if sc == "an element type admits NULL" && (atom == "("+elemPrefix+".List.Element == nil)" || atom == "(nil == "+elemPrefix+".List.Element)") {
					return false, true
				}
				return false, false
			}
			in.Hooks.Call = func(st *absint.State, call *ast.CallExpr, callee string, recv absint.Val, args []absint.Val) (absint.Val, bool) {
				if callee == "octosql.TypeSum" && len(args) == 2 {
					return absint.S("TypeSum(" + args[0].Canon() + "," + args[1].Canon() + ")"), true
				}
				if sc != "any" && callee == "octosql.Type.Is" && len(args) == 1 && recv.Canon() == "octosql.Null" {
					inLoop := st.IterNow == "ELEM-NULLABLE" || st.IterNow == "ELEM-NOTNULL"
					ofElem := strings.Contains(args[0].Canon(), elemPrefix+".")
					if !inLoop && !ofElem {
						return nil, false
					}
					nullable := st.IterNow == "ELEM-NULLABLE" || (!inLoop && sc == "an element type admits NULL")
					if nullable {
						st.Emit("SAW-NULLABLE-ELEMENT", call.Pos())
						return is, true
					}
					return isnt, true
				}
				return nil, false
			}
			outs, err := runLit(in, d.TypeFn, nil, "")
			if err != nil {
				c.Unknown("UNI3", key, d.TypeFn.Pos(), err.Error())
				bad = "-"
				break
			}
			total += len(outs)
			for _, o := range outs {
				if o.Kind != "return" || len(o.Values) != 2 || !absint.IsTrue(o.Values[1]) {
					continue
				}
				n++
				ty := o.Values[0].Canon()
				admits := strings.Contains(ty, "octosql.Null")
				switch sc {
				case "any":
					if !admits {
						bad = "the function body can return NULL, but a successful TypeFn path computes the result type " + ty + ", which does not admit NULL"
					}
				case "an element type admits NULL":
					// a path that met a nullable element type (or, for a list, the one element type) must admit NULL
					met := false
					for _, e := range o.Events {
						if e.Name == "SAW-NULLABLE-ELEMENT" {
							met = true
						}
					}
					for _, tr := range o.Trace {
						if tr == "ELEM-NULLABLE" {
							met = true
						}
					}
					if (met || !loopSeen) && !admits {
						bad = fmt.Sprintf("the function body returns NULL when an element of argument %d is NULL, but with an element type that admits NULL the TypeFn computes %s, which does not admit NULL", elemArg, ty)
					}
				}
			}
		}
		if bad == "-" {
			continue
		}
		why := "every computed result type admits NULL"
		if elemArg >= 0 {
			why = fmt.Sprintf("NULL is returned only for a NULL element of argument %d; the computed type admits NULL whenever an element type does", elemArg)
		}
		c.Decide(bad == "" && n > 0, "UNI3", key, d.TypeFn.Pos(), total, why, bad)
	}
}

var elemOfArgRE = regexp.MustCompile(`^values\[(\d)\]\.(?:List|Tuple|Struct)\[`)

func traceHas(tr []string, s string) bool {
	for _, t := range tr {
		if t == s {
			return true
		}
	}
	return false
}

func runC08(c *core.Ctx) {
	c.Rule("COALT", "COALESCE's static type admits NULL unless an argument provably never is NULL")
	checkCoalesceType(c, "COALT")
	c.Rule("TOPLIMIT", "the outermost LIMIT is typechecked without the record schema and against Int")
	checkTopLevelLimit(c, "TOPLIMIT")
	c.Rule("MAYBE", "maybe-fitting arguments are asserted at run time; type-function overloads are not matched by arity")
	checkMaybeLoops(c, "MAYBE")
	c.Rule("NULLT", "AND/OR are nullable iff an operand is")
	checkConnectiveTypes(c, "NULLT")
	c.Rule("PADT", "outer join pads with nullable column types")
	checkOuterJoinPadding(c, "PADT")
	c.Rule("OVL", "overload candidates are tried independently")
	checkOverloadLoops(c, "OVL")
	ids := typeIDs(c.Prog)
	c.Rule("UNI3", "function bodies construct values of the declared result type")
	c.Rule("UNI7", "aggregate Trigger constructs the declared OutputType")
	c.Rule("MIR4", "typecheck and materialize agree on which arguments get a null check")
	c.Rule("ASSERT", "runtime type assertions: static type = target ∩ expression type; nullable target for strict functions; unions built with TypeSum")
	c.Rule("RT", "TypeAssertion/TypeCast runtime behaviour")
	c.Rule("LOOPREF", "no pointer to a shared loop variable escapes its iteration")
	checkOutputConstructors(c, "UNI3")
	checkAggregateOutputTypes(c)
	checkStrictMirror(c)
	checkAssertionSites(c)
	checkAssertionFlow(c)
	checkDynamicNullability(c)
	checkAssertionRuntime(c, ids)
	checkLoopRefs(c, "LOOPREF", []string{"octosql", "logical", "physical", "execution", "functions", "aggregates", "optimizer"})
}

// resolveAlias: if e is an identifier defined exactly once in fn by `x := rhs`, return rhs.
func resolveAlias(info *types.Info, fn *core.FuncRef, e ast.Expr) ast.Expr {
	id, ok := core.Unparen(e).(*ast.Ident)
	if !ok {
		return e
	}
	obj := info.Uses[id]
	if obj == nil {
		return e
	}
	var rhs ast.Expr
	n := 0
	ast.Inspect(fn.Decl.Body, func(m ast.Node) bool {
		as, ok := m.(*ast.AssignStmt)
		if !ok {
			return true
		}
		for i, l := range as.Lhs {
			if lid, ok := l.(*ast.Ident); ok && (info.Defs[lid] == obj || info.Uses[lid] == obj) {
				n++
				if len(as.Rhs) == len(as.Lhs) {
					rhs = as.Rhs[i]
				}
			}
		}
		return true
	})
	if n == 1 && rhs != nil {
		return rhs
	}
	return e
}

func checkAssertionSites(c *core.Ctx) {
	p := c.Prog
	n := 0
	for _, fn := range p.AllFuncs("logical") {
		info := fn.Info()
		ord := 0
		ast.Inspect(fn.Decl.Body, func(nd ast.Node) bool {
			cl, ok := nd.(*ast.CompositeLit)
			if !ok {
				return true
			}
			tv, ok := info.Types[cl]
			if !ok || !strings.HasSuffix(tv.Type.String(), "physical.Expression") {
				return true
			}
			var typ, target, inner ast.Expr
			isAssert := false
			for _, el := range cl.Elts {
				kv, ok := el.(*ast.KeyValueExpr)
				if !ok {
					continue
				}
				switch kv.Key.(*ast.Ident).Name {
				case "ExpressionType":
					isAssert = strings.HasSuffix(core.ExprStr(kv.Value), "ExpressionTypeTypeAssertion")
				case "Type":
					typ = kv.Value
				case "TypeAssertion":
					ast.Inspect(kv.Value, func(m ast.Node) bool {
						if kv2, ok := m.(*ast.KeyValueExpr); ok {
							switch core.ExprStr(kv2.Key) {
							case "TargetType":
								target = kv2.Value
							case "Expression":
								inner = kv2.Value
							}
						}
						return true
					})
				}
			}
			if !isAssert {
				return true
			}
			n++
			ord++
			key := fmt.Sprintf("%s/TypeAssertion#%d", p.FName(fn), ord)
			c.SawFunc(p.FName(fn))
			if typ == nil || target == nil || inner == nil {
				c.Unknown("ASSERT", key, cl.Pos(), "Type, TargetType or Expression missing from the literal")
				return true
			}
			tStr := core.ExprStr(target)
			rt := core.Unparen(resolveAlias(info, fn, typ))
			bad := ""
			switch {
			case core.ExprStr(typ) == tStr:
				// static type = target type (a superset of what passes)
			default:
				// *octosql.TypeIntersection(X, inner.Type) with X ≡ target
				if st, ok := rt.(*ast.StarExpr); ok {
					rt = core.Unparen(st.X)
				}
				call, ok := rt.(*ast.CallExpr)
				if !ok || p.CalleeName(info, call) != "octosql.TypeIntersection" || len(call.Args) != 2 {
					bad = "the static type of the asserted expression is neither the target type nor TypeIntersection(target, expression type): " + core.ExprStr(typ)
					break
				}
				a0, a1 := core.ExprStr(call.Args[0]), core.ExprStr(call.Args[1])
				in := core.ExprStr(inner) + ".Type"
				var x string
				switch {
				case a1 == in:
					x = a0
				case a0 == in:
					x = a1
				default:
					bad = "TypeIntersection is not taken with the type of the asserted expression (" + in + "): " + core.ExprStr(call)
				}
				if bad == "" && x != tStr {
					bad = fmt.Sprintf("the runtime assertion lets through values of type %s but the recorded static type is the intersection with %s — the two must be the same type, otherwise values pass the assertion that the static type excludes (or NULLs the static type admits are rejected at run time)", tStr, x)
				}
			}
			c.Decide(bad == "", "ASSERT", key, cl.Pos(), 1, "static type = TargetType ∩ expression type", bad)
			return true
		})
	}
	if n < 4 {
		c.Unknown("ASSERT", "<sites>", 0, fmt.Sprintf("only %d TypeAssertion construction sites found in package logical (4 expected)", n))
	}
	// strict functions assert the nullable target
	if fn := p.Func("logical", "(*FunctionExpression).Typecheck"); fn != nil {
		found := false
		ast.Inspect(fn.Decl.Body, func(nd ast.Node) bool {
			is, ok := nd.(*ast.IfStmt)
			if !ok || !strings.HasSuffix(core.ExprStr(is.Cond), ".Strict") || len(is.Body.List) != 1 {
				return true
			}
			as, ok := is.Body.List[0].(*ast.AssignStmt)
			if !ok || len(as.Rhs) != 1 {
				return true
			}
			call, ok := as.Rhs[0].(*ast.CallExpr)
			if ok && p.CalleeName(fn.Info(), call) == "octosql.TypeSum" && len(call.Args) == 2 {
				l := core.ExprStr(as.Lhs[0])
				a, b := core.ExprStr(call.Args[0]), core.ExprStr(call.Args[1])
				if l == "targetType" || strings.Contains(strings.ToLower(l), "target") {
					if (a == l && b == "octosql.Null") || (b == l && a == "octosql.Null") {
						found = true
					}
				}
			}
			return true
		})
		c.Decide(found, "ASSERT", "logical.(*FunctionExpression).Typecheck/strict target nullable", fn.Decl.Pos(), 1, "Strict ⇒ target := TypeSum(target, Null)", "for a Strict function the asserted target type must admit NULL (the NULL check happens after the assertion); no `if descriptor.Strict { targetType = TypeSum(targetType, Null) }` found")
	} else {
		c.Unknown("ASSERT", "logical.(*FunctionExpression).Typecheck", 0, "anchor not found")
	}
	// unions are never built by hand outside package octosql
	for _, fn := range p.AllFuncs() {
		rel := core.Rel(fn.Pkg)
		if rel == "octosql" || !onQueryPath(rel) || strings.HasSuffix(p.Fset.Position(fn.Decl.Pos()).Filename, ".pb.go") || rel == "plugins/internal/plugins" {
			continue
		}
		info := fn.Info()
		ast.Inspect(fn.Decl.Body, func(nd ast.Node) bool {
			cl, ok := nd.(*ast.CompositeLit)
			if !ok {
				return true
			}
			tv, ok := info.Types[cl]
			if !ok || tv.Type.String() != core.ModPath+"/octosql.Type" {
				return true
			}
			for _, el := range cl.Elts {
				if kv, ok := el.(*ast.KeyValueExpr); ok && core.ExprStr(kv.Key) == "TypeID" && strings.HasSuffix(core.ExprStr(kv.Value), "TypeIDUnion") {
					c.Bad("ASSERT", p.FName(fn)+"/hand-built union", cl.Pos(), 1, "a union type is built with a literal instead of octosql.TypeSum: TypeSum keeps the alternatives sorted by TypeID (NULL first) and deduplicated, which Materialize (Union.Alternatives[1] of a nullable object) and Type.Is rely on")
				}
			}
			return true
		})
	}
	// positional reads of a union's alternatives rely on that normal form: allowed only at index 1 of a nullable object
	c.Note("physical.(*Expression).Materialize reads Object.Type.Union.Alternatives[1] for a nullable object; sound only while every union is built by TypeSum (checked above)")
}

func checkAssertionRuntime(c *core.Ctx, ids map[string]int64) {
	p := c.Prog
	// TypeAssertion.Evaluate
	if fn := p.Func("execution", "(*TypeAssertion).Evaluate"); fn != nil {
		c.SawFunc("execution.(*TypeAssertion).Evaluate")
		key := "execution.(*TypeAssertion).Evaluate"
		in := newInterp(p, fn)
		in.Hooks.Loop = func(st *absint.State, loop ast.Stmt) *absint.LoopSpec {
			return &absint.LoopSpec{Cases: []string{"match", "other"}, RefStep: func(ref, cs string) string {
				if cs == "match" && ref == "" {
					return "matched"
				}
				if ref == "matched" {
					return "matched!"
				}
				return ref
			}}
		}
		in.Hooks.Call = chainCall(func(st *absint.State, call *ast.CallExpr, callee string, recv absint.Val, args []absint.Val) (absint.Val, bool) {
			if callee == "execution.Expression.Evaluate" {
				return absint.Tuple{Elems: []absint.Val{absint.S("VALUE"), absint.Nil{}}}, true
			}
			return nil, false
		}, errorfHook)
		in.Hooks.Cond = func(st *absint.State, atom string) (bool, bool) {
			if strings.Contains(atom, "VALUE.TypeID") && strings.Contains(atom, " == ") && st.IterNow != "" {
				return st.IterNow == "match", true
			}
			return false, false
		}
		outs, err := runDecl(in, fn, nil, "")
		bad := ""
		if err != nil {
			bad = err.Error()
		}
		nret := 0
		for _, o := range outs {
			if o.Kind != "return" || len(o.Values) != 2 {
				continue
			}
			nret++
			switch {
			case o.Ref == "matched":
				if o.Values[0].Canon() != "VALUE" || isNonNilErr(o.Values[1]) {
					bad = "a value whose TypeID is expected must be passed through unchanged: " + o.String()
				}
			case strings.HasPrefix(o.Ref, "exit:") && !strings.Contains(o.Ref, "matched"):
				if !isNonNilErr(o.Values[1]) {
					bad = "a value whose TypeID is not among the expected ones must fail the assertion: " + o.String()
				}
			case strings.Contains(o.Ref, "matched!") || o.Ref == "exit:matched":
				bad = "the scan continues after a match: " + o.String()
			default:
				if !isNonNilErr(o.Values[1]) && o.Ref == "" {
					bad = "returns a value before comparing any expected TypeID: " + o.String()
				}
			}
		}
		c.Decide(bad == "" && nret >= 2, "RT", key, fn.Decl.Pos(), len(outs), "value iff TypeID expected, else error", bad)
	} else {
		c.Unknown("RT", "execution.(*TypeAssertion).Evaluate", 0, "anchor not found")
	}
	// TypeCast.Evaluate
	if fn := p.Func("execution", "(*TypeCast).Evaluate"); fn != nil {
		c.SawFunc("execution.(*TypeCast).Evaluate")
		for _, same := range []bool{true, false} {
			same := same
			in := newInterp(p, fn)
			in.Hooks.Call = chainCall(func(st *absint.State, call *ast.CallExpr, callee string, recv absint.Val, args []absint.Val) (absint.Val, bool) {
				if callee == "execution.Expression.Evaluate" {
					return absint.Tuple{Elems: []absint.Val{absint.S("VALUE"), absint.Nil{}}}, true
				}
				return nil, false
			}, ctorHook(ids), errorfHook)
			in.Hooks.Cond = func(st *absint.State, atom string) (bool, bool) {
				if strings.Contains(atom, "VALUE.TypeID") && strings.Contains(atom, " == ") {
					return same, true
				}
				return false, false
			}
			outs, err := runDecl(in, fn, nil, "")
			key := fmt.Sprintf("execution.(*TypeCast).Evaluate/TypeID equals target=%v", same)
			bad := ""
			if err != nil {
				bad = err.Error()
			}
			for _, o := range outs {
				if o.Kind != "return" || len(o.Values) != 2 || isNonNilErr(o.Values[1]) {
					bad = "unexpected " + o.String()
					continue
				}
				if same && o.Values[0].Canon() != "VALUE" {
					bad = "a value of the target type must be passed through: " + o.String()
				}
				if !same && valueClass(o, ids, o.Values[0]) != "NULL" {
					bad = "a value of another type must be cast to NULL: " + o.String()
				}
			}
			c.Decide(bad == "" && len(outs) > 0, "RT", key, fn.Decl.Pos(), len(outs), "", bad)
		}
	} else {
		c.Unknown("RT", "execution.(*TypeCast).Evaluate", 0, "anchor not found")
	}
	// Materialize: expected TypeIDs cover every alternative of the target type
	if fn := p.Func("physical", "(*Expression).Materialize"); fn != nil {
		info := fn.Info()
		ok := false
		ast.Inspect(fn.Decl.Body, func(nd ast.Node) bool {
			cc, isCC := nd.(*ast.CaseClause)
			if !isCC || len(cc.List) != 1 || !strings.HasSuffix(core.ExprStr(cc.List[0]), "ExpressionTypeTypeAssertion") {
				return true
			}
			// the arm is interpreted for a union target and for a plain one: what NewTypeAssertion receives must be
			// [TargetType.TypeID], or a slice as long as the alternatives holding each alternative's TypeID
			single, loop, uni := false, false, true
			for _, isUnion := range []bool{false, true} {
				isUnion := isUnion
				in := newInterp(p, fn)
				in.MaxPaths = 2000
				in.ErrorsNil = true
				in.Hooks.Loop = func(st *absint.State, l ast.Stmt) *absint.LoopSpec {
					return &absint.LoopSpec{Cases: []string{"alt"}, MaxIter: 1, MinIter: 1, RefStep: func(ref, cs string) string { return ref }}
				}
				in.Hooks.Field = func(st *absint.State, base absint.Val, sel string) (absint.Val, bool) {
					if sel == "TypeID" && strings.HasSuffix(base.Canon(), "TargetType") {
						if isUnion {
							return absint.Int(ids["TypeIDUnion"]), true
						}
						return absint.S("TARGET-TYPEID"), true
					}
					return nil, false
				}
				in.Hooks.Cond = func(st *absint.State, atom string) (bool, bool) {
					if strings.Contains(atom, "TARGET-TYPEID") && strings.Contains(atom, " == ") {
						return false, true // a plain type's TypeID is not TypeIDUnion
					}
					return false, false
				}
				var got absint.Val
				var gotState *absint.State
				in.Hooks.Call = func(st *absint.State, call *ast.CallExpr, callee string, recv absint.Val, args []absint.Val) (absint.Val, bool) {
					if callee == "execution.NewTypeAssertion" && len(args) >= 1 {
						got, gotState = args[0], st
						st.Emit("ASSERTION", call.Pos(), args[0])
						return absint.S("ASSERTION"), true
					}
					return nil, false
				}
				outs, err := in.Run(&ast.FuncType{Params: &ast.FieldList{}, Results: fn.Decl.Type.Results}, nil, &ast.BlockStmt{List: cc.Body}, nil, "")
				if err != nil || len(outs) == 0 || got == nil {
					uni = false
					continue
				}
				_ = gotState
				if !isUnion {
					if l, ok := got.(absint.List); ok && len(l.Elems) == 1 && l.Elems[0].Canon() == "TARGET-TYPEID" {
						single = true
					}
					continue
				}
				// union: a slice made with the alternatives' count, each position given that alternative's TypeID
				for _, o := range outs {
					madeLen, stored := "", ""
					for _, e := range o.Events {
						switch {
						case e.Name == "make" && len(e.Args) >= 2 && fmt.Sprintf("make@%d", e.Pos) == got.Canon():
							madeLen = e.Args[1].Canon()
						case strings.HasPrefix(e.Name, "store "+got.Canon()+"[") && len(e.Args) == 1:
							stored = e.Args[0].Canon()
						case strings.HasPrefix(e.Name, "append") && len(e.Args) >= 1:
							stored = e.Args[len(e.Args)-1].Canon()
						}
					}
					okLen := strings.HasPrefix(madeLen, "len(") && strings.HasSuffix(madeLen, "TargetType.Union.Alternatives)") || madeLen == "" && strings.HasPrefix(got.Canon(), "append(")
					if okLen && strings.Contains(stored, "TargetType.Union.Alternatives[") && strings.HasSuffix(stored, ".TypeID") {
						loop = true
					}
				}
			}
			ok = single && loop && uni
			_ = info
			return false
		})
		c.Decide(ok, "RT", "physical.(*Expression).Materialize/TypeAssertion expected TypeIDs", fn.Decl.Pos(), 1, "non-union: [TargetType.TypeID]; union: every alternative's TypeID", "the expected TypeIDs handed to the runtime assertion are not {TargetType.TypeID} / every alternative of a union target")
	}
}

// checkLoopRefs: `&v` of a loop variable stored into something declared outside the loop.
func checkLoopRefs(c *core.Ctx, rule string, pkgs []string) {
	p := c.Prog
	n := 0
	for _, fn := range p.AllFuncs(pkgs...) {
		info := fn.Info()
		var loops []ast.Stmt
		ast.Inspect(fn.Decl.Body, func(nd ast.Node) bool {
			switch nd.(type) {
			case *ast.RangeStmt, *ast.ForStmt:
				loops = append(loops, nd.(ast.Stmt))
			}
			return true
		})
		for _, loop := range loops {
			n++
			vars := map[types.Object]bool{}
			switch x := loop.(type) {
			case *ast.RangeStmt:
				if x.Tok == token.DEFINE {
					for _, e := range []ast.Expr{x.Key, x.Value} {
						if id, ok := e.(*ast.Ident); ok && id.Name != "_" {
							if o := info.Defs[id]; o != nil {
								vars[o] = true
							}
						}
					}
				}
			case *ast.ForStmt:
				if as, ok := x.Init.(*ast.AssignStmt); ok && as.Tok == token.DEFINE {
					for _, l := range as.Lhs {
						if id, ok := l.(*ast.Ident); ok {
							if o := info.Defs[id]; o != nil {
								vars[o] = true
							}
						}
					}
				}
			}
			if len(vars) == 0 {
				continue
			}
			ast.Inspect(loop, func(nd ast.Node) bool {
				as, ok := nd.(*ast.AssignStmt)
				if !ok || as.Tok != token.ASSIGN {
					return true
				}
				for i, r := range as.Rhs {
					ue, ok := core.Unparen(r).(*ast.UnaryExpr)
					if !ok || ue.Op != token.AND || i >= len(as.Lhs) {
						continue
					}
					id, ok := ue.X.(*ast.Ident)
					if !ok || !vars[info.Uses[id]] {
						continue
					}
					// the target lives outside the loop?
					if lid, ok := as.Lhs[i].(*ast.Ident); ok {
						if lo := info.Uses[lid]; lo != nil && (lo.Pos() < loop.Pos() || lo.Pos() > loop.End()) {
							c.Bad(rule, fmt.Sprintf("%s/&%s stored in %s", p.FName(fn), id.Name, lid.Name), as.Pos(), 1,
								fmt.Sprintf("`%s = &%s` keeps a pointer to the loop variable after the iteration; with this module's Go version (go < 1.22) all iterations share one variable, so the pointed-to value changes when the loop advances", lid.Name, id.Name))
						}
					}
				}
				return true
			})
		}
	}
	if n < 10 {
		c.Unknown(rule, "<loops>", 0, "too few loops analysed")
	} else {
		c.OK(rule, "<all loops>", 0, n, fmt.Sprintf("%d loops: no pointer to a loop variable escapes, other than the reported ones", n))
	}
}

// checkAssertionFlow (ASSERT, flow-sensitive): the code that builds a runtime TypeAssertion is
// interpreted and the constructed expression inspected: its static type must be the asserted
// target type intersected with the inner expression's type — with the values the variables hold
// at the point of construction, not merely the same variable names.
func checkAssertionFlow(c *core.Ctx) {
	p := c.Prog
	maybe := lookupConst(p, "octosql", "TypeRelationMaybe")
	taConst := lookupConst(p, "physical", "ExpressionTypeTypeAssertion")
	type site struct {
		fn           string
		strict       bool // vary descriptor.Strict
		needNullable bool
	}
	for _, s := range []site{{"(*FunctionExpression).Typecheck", true, false}, {"(*GroupBy).Typecheck", false, true}, {"TypecheckExpression", false, false}} {
		fn := p.Func("logical", s.fn)
		key := "logical." + s.fn + "/constructed assertion"
		if fn == nil {
			c.Unknown("ASSERT", key, 0, "anchor not found")
			continue
		}
		// the literal and its innermost enclosing loop; when a maintainer moved the overload resolution into a
		// helper, the literal is looked for (and interpreted) there
		var unit ast.Stmt
		found := false
		for _, cand := range helperClosure(p, fn) {
			hasLit := false
			ast.Inspect(cand.Decl.Body, func(nd ast.Node) bool {
				if kv, ok := nd.(*ast.KeyValueExpr); ok && core.ExprStr(kv.Key) == "ExpressionType" && strings.HasSuffix(core.ExprStr(kv.Value), "ExpressionTypeTypeAssertion") {
					hasLit = true
				}
				return true
			})
			if hasLit {
				fn = cand
				break
			}
		}
		info := fn.Info()
		core.WalkStack(fn.Decl.Body, func(nd ast.Node, stack []ast.Node) bool {
			cl, ok := nd.(*ast.CompositeLit)
			if !ok || found {
				return true
			}
			isTA := false
			for _, el := range cl.Elts {
				if kv, ok := el.(*ast.KeyValueExpr); ok && core.ExprStr(kv.Key) == "ExpressionType" && strings.HasSuffix(core.ExprStr(kv.Value), "ExpressionTypeTypeAssertion") {
					isTA = true
				}
			}
			if !isTA {
				return true
			}
			found = true
			for i := len(stack) - 1; i >= 0; i-- {
				switch x := stack[i].(type) {
				case *ast.ForStmt:
					unit = x
				case *ast.RangeStmt:
					unit = x
				}
				if unit != nil {
					break
				}
			}
			return true
		})
		if !found {
			c.Unknown("ASSERT", key, fn.Decl.Pos(), "no TypeAssertion literal found")
			continue
		}
		stricts := []bool{false}
		if s.strict {
			stricts = []bool{false, true}
		}
		for _, strict := range stricts {
			strict := strict
			in := newInterp(p, fn)
			in.MaxPaths = 8000
			in.Hooks.Loop = func(st *absint.State, loop ast.Stmt) *absint.LoopSpec {
				return &absint.LoopSpec{Cases: []string{"it"}, MaxIter: 1, RefStep: func(ref, cs string) string { return ref }}
			}
			in.Hooks.Field = func(st *absint.State, base absint.Val, sel string) (absint.Val, bool) {
				if sel == "Strict" {
					return absint.Bool(strict), true
				}
				return nil, false
			}
			in.Hooks.Index = func(st *absint.State, x, i absint.Val) (absint.Val, bool) {
				if x.Canon() == "isMaybe" {
					return absint.Bool(true), true
				}
				return nil, false
			}
			in.Hooks.Call = func(st *absint.State, call *ast.CallExpr, callee string, recv absint.Val, args []absint.Val) (absint.Val, bool) {
				switch callee {
				case "octosql.Type.Is":
					return maybe, true
				case "logical.Expression.Typecheck":
					return absint.S("EXPR"), true
				}
				return nil, false
			}
			var outs []*absint.Outcome
			var err error
			if unit != nil {
				outs, err = in.Run(&ast.FuncType{Params: &ast.FieldList{}}, nil, &ast.BlockStmt{List: []ast.Stmt{unit}}, nil, "")
			} else {
				outs, err = runDecl(in, fn, nil, "")
			}
			ckey := key
			if s.strict {
				ckey = fmt.Sprintf("%s/Strict=%v", key, strict)
			}
			if err != nil {
				c.Unknown("ASSERT", ckey, fn.Decl.Pos(), err.Error())
				continue
			}
			bad := ""
			seen := 0
			for _, o := range outs {
				var objs []absint.Val
				for _, e := range o.Events {
					if strings.HasPrefix(e.Name, "store ") && len(e.Args) == 1 {
						objs = append(objs, e.Args[0])
					}
				}
				if o.Kind == "return" {
					objs = append(objs, o.Values...)
				}
				for _, ob := range objs {
					et := o.Field(ob, "ExpressionType")
					if et == nil || et.Canon() != taConst.Canon() {
						continue
					}
					seen++
					ta := o.Field(ob, "TypeAssertion")
					T := o.Field(ta, "TargetType")
					E := o.Field(ta, "Expression")
					Y := o.Field(ob, "Type")
					if T == nil || E == nil || Y == nil {
						bad = "incomplete assertion expression"
						continue
					}
					t, y, e := T.Canon(), Y.Canon(), E.Canon()+".Type"
					okType := y == t || y == "*octosql.TypeIntersection("+t+","+e+")" || y == "*octosql.TypeIntersection("+e+","+t+")"
					if !okType {
						bad = fmt.Sprintf("at the point of construction the runtime assertion admits %s but the static type recorded is %s; it must be the intersection of exactly that target with the expression's type (values pass the assertion that the static type — and hence the NULL check and the reported column type — does not account for)", t, y)
					}
					if s.strict {
						arg := strings.TrimSuffix(strings.TrimSuffix(t, ",octosql.Null)"), ")")
						_ = arg
						nullable := strings.Contains(t, "octosql.Null")
						if strict && !nullable {
							bad = "a Strict function's asserted target must admit NULL (the NULL check runs after the assertion); target is " + t
						}
						if !strict && nullable {
							bad = "a non-strict function's asserted target must be the declared argument type; target is " + t
						}
					}
					if s.needNullable && !strings.Contains(t, "octosql.Null") {
						bad = "aggregate arguments may be NULL (they are skipped): the asserted target must admit NULL; target is " + t
					}
				}
			}
			if bad == "" && seen == 0 {
				bad = "the construction of the assertion was not reached"
			}
			c.Decide(bad == "", "ASSERT", ckey, fn.Decl.Pos(), len(outs), "static type = target ∩ expression type at construction", bad)
		}
		_ = info
	}
}
