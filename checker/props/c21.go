package props

import (
	"fmt"
	"go/ast"
	"go/constant"
	"go/token"
	"go/types"
	"regexp"
	"sort"
	"strings"

	"octoverif/core"
	"octoverif/engine/absint"
)

func init() {
	register(&Check{ID: "C21", Run: runC21,
		Explanation: "TUMBLE: the per-record callback of tumble is interpreted symbolically: window_start = ((time − offset) truncated to the window length) + offset with the same offset subtracted and added back, window_end = window_start + window length, both appended in that order after the untouched input values, the record forwarded once, metadata handed through. " +
			"RANGE: the loop of range is `for i := start; i < end; i++` producing exactly NewInt(i) as a plain (non-retraction) record per iteration. " +
			"POLL: one round of poll is interpreted: the previous snapshot is retracted (only when there is one, each row with the previous round's time), then the source is run — every row stamped with this round's time, emitted as an addition and remembered — then a watermark with this round's time is sent; the snapshot memory is reset before the source runs. " +
			"TVFKIND: every named argument of every table-valued function is declared, type-asserted, and read (in OutputSchema and Materialize) as the same kind (expression / table / descriptor).",
		NotDecided: []string{"window arithmetic of time.Truncate for all times, lengths and offsets", "poll's wall-clock behaviour"},
	})
}

func runC21(c *core.Ctx) {
	c.Rule("TUMBLE", "tumble window arithmetic shape and pass-through")
	c.Rule("RANGE", "range emits start..end-1 ascending, once each")
	c.Rule("POLL", "poll round: retract previous snapshot → emit current → watermark")
	c.Rule("TVFKIND", "TVF arguments are declared and accessed as the same kind")
	checkTumble(c)
	checkRange(c)
	checkPoll(c)
	checkTVFArgumentKinds(c, "TVFKIND")
}

func checkTumble(c *core.Ctx) {
	p := c.Prog
	ids := typeIDs(p)
	fn := p.Func("table_valued_functions", "(*tumble).Run")
	key := "table_valued_functions.(*tumble).Run"
	if fn == nil {
		c.Unknown("TUMBLE", key, 0, "anchor not found")
		return
	}
	c.SawFunc(key)
	rcs := nodeRunCalls(p, fn)
	if len(rcs) != 1 || rcs[0].Produce == nil {
		c.Unknown("TUMBLE", key, fn.Decl.Pos(), "expected one source.Run with a literal produce callback")
		return
	}
	// metadata handed through unchanged
	info := fn.Info()
	msOK := false
	if id, ok := core.Unparen(rcs[0].Call.Args[2]).(*ast.Ident); ok {
		last := fn.Decl.Type.Params.List[len(fn.Decl.Type.Params.List)-1]
		if len(last.Names) > 0 && info.Uses[id] == info.Defs[last.Names[len(last.Names)-1]] {
			msOK = true
		}
	}
	c.Decide(msOK, "TUMBLE", key+"/metadata", rcs[0].Call.Pos(), 1, "watermarks pass unchanged", "tumble must hand its metaSend to the source unchanged (watermarks pass through)")
	// a window length that is not positive never reaches the source: time.Truncate(d) returns its receiver for d <= 0,
	// so window_end = time + length <= time and no record lies inside its own window
	// names are taken from the code: the receiver, the callback's record parameter, the variables holding the
	// evaluated window length and offset
	recvName, recName := "t", "record"
	if fn.Decl.Recv != nil && len(fn.Decl.Recv.List) == 1 && len(fn.Decl.Recv.List[0].Names) == 1 {
		recvName = fn.Decl.Recv.List[0].Names[0].Name
	}
	if pl := rcs[0].Produce.Type.Params.List; len(pl) == 2 && len(pl[1].Names) == 1 {
		recName = pl[1].Names[0].Name
	}
	lenVar, offVar := evaluatedFieldVar(fn, recvName, "windowLength"), evaluatedFieldVar(fn, recvName, "offset")
	if lenVar == "" || offVar == "" {
		c.Unknown("TUMBLE", key+"/window", fn.Decl.Pos(), "the window length and the offset are not evaluated into variables (x, err := t.windowLength.Evaluate(ctx))")
		return
	}
	{
		d := lenVar + ".Duration"
		gi := newInterp(p, fn)
		gi.ErrorsNil = true
		gi.Hooks.Cond = func(st *absint.State, atom string) (bool, bool) {
			atom = regexp.MustCompile(`execution\.Expression\.Evaluate\(`+regexp.QuoteMeta(recvName)+`\.windowLength,\w+\)\.0\.Duration`).ReplaceAllString(atom, d)
			switch atom {
			case "(0 == " + d + ")", "(" + d + " == 0)", "(" + d + " <= 0)", "(0 >= " + d + ")", "(" + d + " < 1)", "(1 > " + d + ")":
				return true, true
			case "(" + d + " > 0)", "(0 < " + d + ")", "(" + d + " >= 1)", "(1 <= " + d + ")", "(" + d + " != 0)", "(0 != " + d + ")":
				return false, true
			}
			return false, false
		}
		started := false
		gi.Hooks.Call = chainCall(func(st *absint.State, call *ast.CallExpr, callee string, recv absint.Val, args []absint.Val) (absint.Val, bool) {
			if call == rcs[0].Call {
				started = true
			}
			return nil, false
		}, errorfHook)
		gouts, gerr := runDecl(gi, fn, nil, "")
		if gerr != nil {
			c.Unknown("TUMBLE", key+"/window length positive", fn.Decl.Pos(), gerr.Error())
		} else {
			c.Decide(!started, "TUMBLE", key+"/window length positive", rcs[0].Call.Pos(), len(gouts), "with a window length of zero the source is never started",
				"a zero (or negative) window_length is used unchecked: time.Truncate(d) returns the time itself for d <= 0, so window_start = time and window_end = time + length — the record is not inside its window and window_end - window_start is not a positive length")
		}
	}
	in := newInterp(p, fn)
	tcall := func(name string, recv absint.Val, args []absint.Val) absint.Val {
		return absint.S(name + "(" + recv.Canon() + "," + args[0].Canon() + ")")
	}
	in.Hooks.Call = chainCall(func(st *absint.State, call *ast.CallExpr, callee string, recv absint.Val, args []absint.Val) (absint.Val, bool) {
		switch callee {
		case "time.Time.Add":
			return tcall("Add", recv, args), true
		case "time.Time.Truncate":
			return tcall("Truncate", recv, args), true
		case "value:produce":
			st.Emit("PRODUCE", call.Pos(), args...)
			return absint.Nil{}, true
		}
		return nil, false
	}, ctorHook(ids), errorfHook)
	outs, err := runLit(in, rcs[0].Produce, nil, "")
	if err != nil {
		c.Unknown("TUMBLE", key+"/window", rcs[0].Produce.Pos(), err.Error())
		return
	}
	bad := ""
	T := recName + ".Values[" + recvName + ".timeFieldIndex].Time"
	for _, o := range outs {
		var appended []absint.Val
		produced := 0
		for _, e := range o.Events {
			if strings.HasPrefix(e.Name, "append "+recName+".Values") {
				appended = e.Args
			}
			if e.Name == "PRODUCE" {
				produced++
				if len(e.Args) != 2 || e.Args[1].Canon() != recName {
					bad = "a record other than the (extended) input record is produced"
				}
			}
		}
		if produced != 1 {
			bad = fmt.Sprintf("each input record must be forwarded exactly once, forwarded %d times", produced)
		}
		if len(appended) != 2 {
			bad = "window_start and window_end must be appended to the record's values (2 values), appended: " + fmt.Sprint(len(appended))
			continue
		}
		ws, we := o.Field(appended[0], "Time"), o.Field(appended[1], "Time")
		if ws == nil || we == nil {
			bad = "the appended values are not times"
			continue
		}
		okStart := false
		for _, neg := range []string{"(-1 * " + offVar + ".Duration)", "(" + offVar + ".Duration * -1)", "(-" + offVar + ".Duration)"} {
			if ws.Canon() == "Add(Truncate(Add("+T+","+neg+"),"+lenVar+".Duration),"+offVar+".Duration)" {
				okStart = true
			}
		}
		if !okStart {
			bad = "window_start must be truncate(time − offset, window length) + offset; it is " + ws.Canon()
		}
		if we.Canon() != "Add("+ws.Canon()+","+lenVar+".Duration)" {
			bad = "window_end must be window_start + window length; it is " + we.Canon()
		}
	}
	c.Decide(bad == "" && len(outs) > 0, "TUMBLE", key+"/window", rcs[0].Produce.Pos(), len(outs), "start = trunc(t−o, L)+o; end = start+L; appended in that order", bad)
}

func checkRange(c *core.Ctx) {
	p := c.Prog
	fn := p.Func("table_valued_functions", "(*rangeNode).Run")
	key := "table_valued_functions.(*rangeNode).Run"
	if fn == nil {
		c.Unknown("RANGE", key, 0, "anchor not found")
		return
	}
	c.SawFunc(key)
	info := fn.Info()
	var loop *ast.ForStmt
	ast.Inspect(fn.Decl.Body, func(n ast.Node) bool {
		if fs, ok := n.(*ast.ForStmt); ok && loop == nil {
			loop = fs
		}
		return true
	})
	if loop == nil {
		c.Bad("RANGE", key, fn.Decl.Pos(), 1, "no counting loop found")
		return
	}
	bad := ""
	init, cond, post := core.ExprStr(loop.Init), core.ExprStr(loop.Cond), core.ExprStr(loop.Post)
	// the two evaluated bounds
	startVar, endVar := "", ""
	ast.Inspect(fn.Decl.Body, func(n ast.Node) bool {
		if as, ok := n.(*ast.AssignStmt); ok && len(as.Lhs) == 2 && len(as.Rhs) == 1 {
			if call, ok := as.Rhs[0].(*ast.CallExpr); ok && p.CalleeName(info, call) == "execution.Expression.Evaluate" {
				r := core.ExprStr(call.Fun)
				if strings.Contains(r, ".start.") {
					startVar = core.ExprStr(as.Lhs[0])
				}
				if strings.Contains(r, ".end.") {
					endVar = core.ExprStr(as.Lhs[0])
				}
			}
		}
		return true
	})
	iv := strings.SplitN(init, " ", 2)[0]
	if init != iv+" := "+startVar+".Int" {
		bad = "the counter must start at the start argument (`i := start.Int`); init is `" + init + "`"
	}
	if cond != iv+" < "+endVar+".Int" && cond != endVar+".Int > "+iv {
		bad = "the loop must run while i < end (half-open range); condition is `" + cond + "`"
	}
	if post != iv+"++" && post != iv+" += 1" && post != iv+" = "+iv+" + 1" {
		bad = "the counter must advance by one; post statement is `" + post + "`"
	}
	// body: on every path, one produce of a record holding exactly Int(counter), an addition. The body is interpreted
	// with the counter symbolic, so records built in a local or a helper count the same.
	{
		in := newInterp(p, fn)
		in.Hooks.Call = chainCall(recordCtorHook, ctorHook(typeIDs(p)), func(st *absint.State, call *ast.CallExpr, callee string, recv absint.Val, args []absint.Val) (absint.Val, bool) {
			if callee == "value:produce" {
				st.Emit("PRODUCE", call.Pos(), args...)
				return absint.Nil{}, true
			}
			return nil, false
		}, errorfHook)
		outs, err := in.Run(&ast.FuncType{Params: &ast.FieldList{}, Results: fn.Decl.Type.Results}, nil, loop.Body, nil, "")
		if err != nil {
			c.Unknown("RANGE", key, loop.Pos(), err.Error())
			return
		}
		for _, o := range outs {
			produces := 0
			for _, e := range o.Events {
				if e.Name != "PRODUCE" || len(e.Args) != 2 {
					continue
				}
				produces++
				vals, retr := o.Field(e.Args[1], "Values"), o.Field(e.Args[1], "Retraction")
				if vals == nil || retr == nil {
					bad = "range must produce execution.NewRecord(…); it produces " + o.Show(e.Args[1])
					continue
				}
				if l, ok := vals.(absint.List); !ok || len(l.Elems) != 1 || o.Field(l.Elems[0], "Int") == nil || o.Field(l.Elems[0], "Int").Canon() != iv {
					bad = "each record must hold exactly the counter as an Int: " + o.Show(vals)
				}
				if !absint.IsFalse(retr) {
					bad = "range emits additions, not retractions"
				}
			}
			if produces != 1 {
				bad = fmt.Sprintf("the loop body must produce exactly one record per iteration (%d produce calls on a path)", produces)
			}
		}
		if len(outs) == 0 {
			bad = "the loop body has no outcome"
		}
	}
	// the counter is not modified in the body
	ast.Inspect(loop.Body, func(n ast.Node) bool {
		switch x := n.(type) {
		case *ast.IncDecStmt:
			if core.ExprStr(x.X) == iv {
				bad = "the counter is modified inside the loop body"
			}
		case *ast.AssignStmt:
			for _, l := range x.Lhs {
				if core.ExprStr(l) == iv {
					bad = "the counter is modified inside the loop body"
				}
			}
		}
		return true
	})
	c.Decide(bad == "", "RANGE", key, loop.Pos(), 1, "for i := start; i < end; i++ { produce(NewInt(i)) }", bad)
}

func checkPoll(c *core.Ctx) {
	p := c.Prog
	ids := typeIDs(p)
	fn := p.Func("table_valued_functions", "(*poll).Run")
	key := "table_valued_functions.(*poll).Run"
	if fn == nil {
		c.Unknown("POLL", key, 0, "anchor not found")
		return
	}
	c.SawFunc(key)
	var round *ast.ForStmt
	ast.Inspect(fn.Decl.Body, func(n ast.Node) bool {
		if fs, ok := n.(*ast.ForStmt); ok && round == nil && fs.Cond == nil {
			round = fs
		}
		return true
	})
	if round == nil {
		c.Unknown("POLL", key, fn.Decl.Pos(), "no endless polling loop found")
		return
	}
	// Names come from the code. The round's *memory* is every variable of Run declared outside the polling loop and
	// written inside it (loose variables, or one state struct): the previous round's time is the one IsZero is asked
	// about, a remembered flag is a bare boolean read from the memory, a remembered row shares its position.
	info := fn.Info()
	memory := map[types.Object]bool{}
	ast.Inspect(round.Body, func(n ast.Node) bool {
		if as, ok := n.(*ast.AssignStmt); ok && as.Tok != token.DEFINE {
			for _, l := range as.Lhs {
				for {
					switch y := core.Unparen(l).(type) {
					case *ast.SelectorExpr:
						l = y.X
						continue
					case *ast.IndexExpr:
						l = y.X
						continue
					}
					break
				}
				if id, ok := core.Unparen(l).(*ast.Ident); ok {
					if o, ok := info.Uses[id].(*types.Var); ok && (o.Pos() < round.Pos() || o.Pos() > round.End()) && o.Pos() >= fn.Decl.Body.Pos() {
						memory[o] = true
					}
				}
			}
		}
		return true
	})
	memNames := []string{}
	for o := range memory {
		memNames = append(memNames, o.Name())
	}
	sort.Strings(memNames)
	inMemory := func(canon string) bool {
		for _, n := range memNames {
			if mentions(canon, n) || strings.HasPrefix(canon, n+".") || strings.HasPrefix(canon, n+"[") {
				return true
			}
		}
		return false
	}
	position := func(canon string) string { return regexp.MustCompile(`\w*@L\d+`).FindString(canon) }
	// fresh: a value that holds nothing of an earlier round — nil, this round's time, zero constants, or an object of such
	var fresh func(o *absint.Outcome, st *absint.State, v absint.Val, depth int) bool
	fresh = func(o *absint.Outcome, st *absint.State, v absint.Val, depth int) bool {
		if v == nil || depth > 3 {
			return false
		}
		if absint.IsNilVal(v) || absint.IsConst(v) || v.Canon() == "NOW" {
			return true
		}
		if r, ok := v.(absint.Ref); ok && st != nil {
			if ob := st.Obj(r); ob != nil {
				for _, fv := range ob.Fields {
					if !fresh(o, st, fv, depth+1) {
						return false
					}
				}
				return true
			}
		}
		return false
	}
	if len(memNames) == 0 {
		c.Unknown("POLL", key, round.Pos(), "the polling loop keeps no memory of the previous round")
		return
	}
	memoryTime := "" // the remembered time, as the round reads it (set to this round's time before the source runs)
	for _, sc := range []struct{ first, prevFlag bool }{{true, false}, {false, false}, {false, true}} {
		first, prevFlag := sc.first, sc.prevFlag
		in := newInterp(p, fn)
		in.Hooks.Loop = func(st *absint.State, loop ast.Stmt) *absint.LoopSpec {
			return &absint.LoopSpec{Cases: []string{"row"}, MaxIter: 1, RefStep: func(ref, cs string) string { return ref }}
		}
		// the flag the remembered record was emitted with in the previous round: a bare boolean read from the memory
		in.Hooks.Cond = func(st *absint.State, atom string) (bool, bool) {
			if !strings.ContainsAny(atom, " ()") && inMemory(atom) {
				st.Emit("FLAGREAD "+atom, token.NoPos)
				return prevFlag, true
			}
			return false, false
		}
		prevTime := ""
		in.Hooks.Call = chainCall(recordCtorHook, func(st *absint.State, call *ast.CallExpr, callee string, recv absint.Val, args []absint.Val) (absint.Val, bool) {
			switch callee {
			case "time.Now":
				return absint.S("NOW"), true
			case "time.Time.IsZero":
				if recv != nil && inMemory(recv.Canon()) {
					prevTime = recv.Canon()
				}
				return absint.Bool(first), true
			case "time.Sleep":
				st.Emit("SLEEP", call.Pos())
				return absint.S("void"), true
			case "value:produce":
				st.Emit("PRODUCE", call.Pos(), args...)
				return absint.Nil{}, true
			case "value:metaSend":
				st.Emit("METASEND", call.Pos(), args...)
				return absint.Nil{}, true
			case "execution.Node.Run":
				// the memory as the source finds it: everything must have been started afresh for this round
				stale := ""
				for o := range memory {
					v := st.Lookup(o.Name())
					if !fresh(nil, st, v, 0) {
						if v == nil {
							stale = o.Name() + " (untouched)"
						} else {
							stale = o.Name() + " = " + v.Canon()
						}
					}
				}
				st.Emit("SOURCE stale="+stale, call.Pos())
				return absint.Nil{}, true
			}
			return nil, false
		}, ctorHook(ids), errorfHook)
		outs, err := in.Run(&ast.FuncType{Params: &ast.FieldList{}}, nil, round.Body, nil, "")
		ckey := fmt.Sprintf("%s/round (first=%v)", key, first)
		if prevFlag {
			ckey += " after a round in which the source retracted"
		}
		if err != nil {
			c.Unknown("POLL", ckey, round.Pos(), err.Error())
			continue
		}
		bad := ""
		full := 0
		for _, o := range outs {
			if o.Kind == "return" {
				continue // error paths
			}
			seq := ""
			for _, e := range o.Events {
				switch {
				case e.Name == "PRODUCE":
					rec := e.Args[1]
					// every record of the previous round is undone: its values with the opposite flag
					rt := o.Field(rec, "Retraction")
					flagAtom := ""
					for _, fe := range o.Events {
						if strings.HasPrefix(fe.Name, "FLAGREAD ") {
							flagAtom = strings.TrimPrefix(fe.Name, "FLAGREAD ")
						}
					}
					want := absint.IsTrue
					if prevFlag {
						want = absint.IsFalse
					}
					vals := o.Field(rec, "Values")
					switch {
					case flagAtom == "":
						bad = "before the source runs, each record of the previous round must be undone with the opposite of the flag it was emitted with; the undo does not look at a remembered flag (it carries " + o.Show(rt) + ") — a constant flag turns a retraction made by the source itself into a second addition"
					case !want(rt):
						bad = fmt.Sprintf("before the source runs, each record of the previous round must be undone with the opposite of the flag it was emitted with: for a record emitted with retraction=%v the undo carries %s — a constant flag turns a retraction made by the source itself into a second addition", prevFlag, o.Show(rt))
					case vals == nil || !inMemory(vals.Canon()):
						bad = "the retraction must carry a row of the previous snapshot"
					case position(vals.Canon()) == "" || position(vals.Canon()) != position(flagAtom):
						bad = "the undo flag and the undone row must belong to the same remembered record (" + vals.Canon() + " vs " + flagAtom + ")"
					}
					if et := o.Field(rec, "EventTime"); et == nil || prevTime == "" || et.Canon() != prevTime {
						bad = "the retraction must carry the previous round's time"
					}
					seq += "R"
				case strings.HasPrefix(e.Name, "SOURCE"):
					seq += "S"
					if stale := strings.TrimPrefix(e.Name, "SOURCE stale="); stale != "" {
						bad = "the snapshot memory must be reset before the source is run again (" + stale + "): old rows would be retracted twice"
					}
				case e.Name == "METASEND":
					seq += "W"
					if w := o.Field(e.Args[1], "Watermark"); w == nil || w.Canon() != "NOW" {
						bad = "the watermark must carry this round's time"
					}
				case e.Name == "SLEEP":
					seq += "Z"
				}
			}
			// the time the next round will find: this round's
			if strings.Contains(seq, "S") && prevTime != "" {
				var v absint.Val
				if i := strings.Index(prevTime, "."); i > 0 {
					if base := o.Env[prevTime[:i]]; base != nil {
						v = o.Field(base, prevTime[i+1:])
					}
				} else {
					v = o.Env[prevTime]
				}
				if v == nil || v.Canon() != "NOW" {
					bad = "the remembered time (" + prevTime + ") is not advanced to this round's time"
				}
			}
			if prevTime != "" {
				memoryTime = prevTime
			}
			if strings.Contains(seq, "S") && prevTime == "" {
				bad = "the round does not ask whether there was a previous round (IsZero on the remembered time)"
			}
			norm := strings.ReplaceAll(seq, "R", "")
			if norm != "SWZ" {
				continue
			}
			full++
			if first && strings.Contains(seq, "R") {
				bad = "the first round has nothing to retract"
			}
			if strings.Contains(seq, "R") && !strings.HasPrefix(seq, "R") {
				bad = "retractions must precede the new snapshot: " + seq
			}
		}
		if bad == "" && full == 0 {
			bad = "no complete round (source → watermark → sleep) explored"
		}
		c.Decide(bad == "", "POLL", ckey, round.Pos(), len(outs), "retract previous → run source → watermark(now)", bad)
	}
	// the source callback: stamp, remember, emit
	rcs := nodeRunCalls(p, fn)
	if len(rcs) == 1 && rcs[0].Produce != nil {
		recName := "record"
		if pl := rcs[0].Produce.Type.Params.List; len(pl) == 2 && len(pl[1].Names) == 1 {
			recName = pl[1].Names[0].Name
		}
		// this round's time: the variable time.Now() is stored in
		nowName := ""
		ast.Inspect(round.Body, func(n ast.Node) bool {
			if as, ok := n.(*ast.AssignStmt); ok && len(as.Lhs) == 1 && len(as.Rhs) == 1 {
				if call, ok := as.Rhs[0].(*ast.CallExpr); ok && p.CalleeName(info, call) == "time.Now" {
					nowName = core.ExprStr(as.Lhs[0])
				}
			}
			return true
		})
		in := newInterp(p, fn)
		in.Hooks.Call = chainCall(recordCtorHook, func(st *absint.State, call *ast.CallExpr, callee string, recv absint.Val, args []absint.Val) (absint.Val, bool) {
			if callee == "value:produce" {
				st.Emit("PRODUCE", call.Pos(), args...)
				return absint.Nil{}, true
			}
			return nil, false
		}, ctorHook(ids), errorfHook)
		outs, err := runLit(in, rcs[0].Produce, nil, "")
		bad := ""
		if err != nil {
			bad = err.Error()
		}
		for _, o := range outs {
			var rec absint.Val
			stamp := ""
			copies := []string{}
			// what is appended to the memory: values (a copy) and the flag, loose or as fields of one row object
			var kept []absint.Val
			for _, e := range o.Events {
				switch {
				case e.Name == "PRODUCE":
					rec = e.Args[1]
				case strings.HasPrefix(e.Name, "append ") && inMemory(strings.TrimPrefix(e.Name, "append ")):
					for _, a := range e.Args {
						kept = append(kept, a)
						if r, ok := a.(absint.Ref); ok {
							_ = r
							for _, f := range []string{} {
								_ = f
							}
						}
					}
				case strings.HasPrefix(e.Name, "store make@") && strings.HasSuffix(e.Name, "[0]") && len(e.Args) == 1:
					if t := o.Field(e.Args[0], "Time"); t != nil {
						stamp = t.Canon()
					}
				case e.Name == "copy":
					copies = append(copies, e.Args[0].Canon()+" ← "+e.Args[1].Canon())
				}
			}
			// flatten row objects
			var keptCanon []string
			for _, k := range kept {
				keptCanon = append(keptCanon, o.Show(k))
			}
			all := strings.Join(keptCanon, " ")
			if rec == nil {
				bad = "the row is not emitted"
				continue
			}
			if rt := o.Field(rec, "Retraction"); rt == nil || rt.Canon() != recName+".Retraction" {
				bad = "a row is emitted with the flag the source gave it (record.Retraction): the source's own retractions must stay retractions; the flag is " + o.Show(rt)
			}
			if !strings.Contains(all, recName+".Retraction") {
				bad = "the flag the row was emitted with is not remembered for the next round"
			}
			// this round's time: the variable holding time.Now(), or the memory's time field, which the round has
			// set to it before the source runs (decided above)
			isNow := func(s string) bool { return s != "" && (s == nowName || s == memoryTime) }
			if et := o.Field(rec, "EventTime"); et == nil || !isNow(et.Canon()) {
				bad = "snapshot rows carry this round's time as event time"
			}
			if !isNow(stamp) {
				bad = "the first column must be this round's time (got " + stamp + ")"
			}
			if !strings.Contains(all, "make@") {
				bad = "the emitted row is not remembered for retraction in the next round (a private copy of its values)"
			}
			foundCopy := false
			for _, cp := range copies {
				if strings.Contains(cp, "[1:] ← "+recName+".Values") {
					foundCopy = true
				}
			}
			if !foundCopy {
				bad = "the source row's values must follow the time column (copy(values[1:], record.Values)); copies: " + strings.Join(copies, "; ")
			}
		}
		c.Decide(bad == "" && len(outs) > 0, "POLL", key+"/row", rcs[0].Produce.Pos(), len(outs), "time column + source values, the source's flag at `now`, remembered with its flag", bad)
	} else {
		c.Unknown("POLL", key+"/row", fn.Decl.Pos(), "source.Run callback not found")
	}
}

// checkTVFArgumentKinds (TVFKIND / UNI5).
func checkTVFArgumentKinds(c *core.Ctx, rule string) {
	p := c.Prog
	n := 0
	for _, fn := range p.AllFuncs("table_valued_functions") {
		if fn.Synth == "" {
			continue
		}
		info := fn.Info()
		// declared kinds
		kinds := map[string]string{}
		ast.Inspect(fn.Decl.Body, func(nd ast.Node) bool {
			kv, ok := nd.(*ast.KeyValueExpr)
			if !ok || core.ExprStr(kv.Key) != "Arguments" {
				return true
			}
			ml, ok := kv.Value.(*ast.CompositeLit)
			if !ok {
				return true
			}
			for _, el := range ml.Elts {
				akv, ok := el.(*ast.KeyValueExpr)
				if !ok {
					continue
				}
				tv, ok := info.Types[akv.Key]
				if !ok || tv.Value == nil {
					continue
				}
				name := constant.StringVal(tv.Value)
				al, ok := akv.Value.(*ast.CompositeLit)
				if !ok {
					continue
				}
				declared, payload := "", ""
				for _, f := range al.Elts {
					fkv, ok := f.(*ast.KeyValueExpr)
					if !ok {
						continue
					}
					switch k := core.ExprStr(fkv.Key); k {
					case "TableValuedFunctionArgumentMatcherType":
						declared = strings.TrimPrefix(core.ExprStr(fkv.Value), "physical.TableValuedFunctionArgumentType")
					case "Expression", "Table", "Descriptor":
						payload = k
					}
				}
				key := fmt.Sprintf("%s/%q", p.FName(fn), name)
				if declared == "" {
					continue
				}
				kinds[name] = declared
				n++
				c.Decide(payload == declared, rule, key+"/matcher", akv.Pos(), 1, "matcher kind "+declared, fmt.Sprintf("argument %q is declared as %s but its matcher payload is %s", name, declared, payload))
			}
			return true
		})
		if len(kinds) == 0 {
			continue
		}
		c.SawFunc(p.FName(fn))
		// accesses
		alias := map[types.Object]string{}
		argName := func(e ast.Expr) (string, bool) {
			ix, ok := core.Unparen(e).(*ast.IndexExpr)
			if !ok || core.ExprStr(ix.X) != "args" {
				return "", false
			}
			tv, ok := info.Types[ix.Index]
			if !ok || tv.Value == nil || tv.Value.Kind() != constant.String {
				return "", false
			}
			return constant.StringVal(tv.Value), true
		}
		ast.Inspect(fn.Decl.Body, func(nd ast.Node) bool {
			if as, ok := nd.(*ast.AssignStmt); ok && len(as.Rhs) == 1 {
				if name, ok := argName(as.Rhs[0]); ok {
					if id, ok := as.Lhs[0].(*ast.Ident); ok && id.Name != "_" {
						if o := info.Defs[id]; o != nil {
							alias[o] = name
						}
					}
				}
			}
			return true
		})
		ord := map[string]int{}
		report := func(name, used string, pos ast.Node, how string) {
			decl, ok := kinds[name]
			if !ok {
				return
			}
			ord[name+how]++
			key := fmt.Sprintf("%s/%q/%s#%d", p.FName(fn), name, how, ord[name+how])
			c.Decide(used == decl, rule, key, pos.Pos(), 1, "accessed as "+decl,
				fmt.Sprintf("argument %q is declared as a %s but %s as a %s: the %s payload of such an argument is nil (nil pointer dereference when the argument is given)", name, decl, how, used, used))
		}
		ast.Inspect(fn.Decl.Body, func(nd ast.Node) bool {
			switch x := nd.(type) {
			case *ast.TypeAssertExpr:
				if name, ok := argName(x.X); ok && x.Type != nil {
					t := core.ExprStr(x.Type)
					for _, k := range []string{"Expression", "Table", "Descriptor"} {
						if strings.HasSuffix(t, "TableValuedFunctionArgumentValue"+k) {
							report(name, k, x, "type-asserted")
						}
					}
				}
			case *ast.SelectorExpr:
				// args["n"].K / args["n"].Argument.K / alias.K
				base := core.Unparen(x.X)
				name, ok := argName(base)
				if !ok {
					if id, isID := base.(*ast.Ident); isID {
						name, ok = alias[info.Uses[id]]
					}
				}
				if ok && (x.Sel.Name == "Expression" || x.Sel.Name == "Table" || x.Sel.Name == "Descriptor") {
					report(name, x.Sel.Name, x, "read")
				}
				if inner, isSel := base.(*ast.SelectorExpr); isSel && inner.Sel.Name == "Argument" {
					if name2, ok2 := argName(inner.X); ok2 && (x.Sel.Name == "Expression" || x.Sel.Name == "Table" || x.Sel.Name == "Descriptor") {
						report(name2, x.Sel.Name, x, "read")
					}
				}
			}
			return true
		})
	}
	if n < 10 {
		c.Unknown(rule, "<arguments>", 0, fmt.Sprintf("only %d declared TVF arguments found (12 expected)", n))
	}
}
