package props

import (
	"fmt"
	"go/ast"
	"go/token"
	"strings"

	"octoverif/core"
	"octoverif/engine/absint"
	"octoverif/engine/mirror"
)

func init() {
	register(&Check{ID: "C15", Run: runC15,
		Explanation: "Per-operator conditions for a valid output changelog, each decided on all paths. " +
			"PASS: the one-in/one-out and one-in/many-out operators (Map, Unnest, InMemoryRecords, tumble, the Filter) emit records that carry the input record's retraction flag and event time unchanged, once per input (per list element for Unnest), with the values computed/copied in place. " +
			"ABS5: every operator that keeps multiplicities (Distinct, both ORDER BY containers, both group-bys, the DISTINCT/Min/Max/Array aggregates) moves its count by ±1 per record and keeps the item exactly while the count is positive; Distinct emits only on 0→1 and 1→0, so it never retracts an absent row. " +
			"ORD4/KEYRCV: the triggering group-by retracts the previously sent row of a key before emitting its new row and remembers exactly what it sent. " +
			"LAYOUT/PAD/LOOKUP: join outputs carry the incoming record's retraction flag, padding rows are retracted on the first match and re-emitted after the last retraction, the lookup join XORs the flags (shared with C02). " +
			"GUARD: the table printer treats a count below zero as a broken changelog (panic), i.e. the assumption 'never retract an absent row' is checked at the sink.",
		NotDecided: []string{"equality of each operator's consolidated output with the operator applied to the consolidated input, for every history (follows from the per-record facts by induction, not enumerated)"},
	})
}

func runC15(c *core.Ctx) {
	c.Rule("NONDET", "functions are functions of their arguments (a retraction recomputes the same values)")
	checkDeterministicFunctions(c, "NONDET")
	c.Rule("RETRFLAG", "a node that retracts rows of its own declares NoRetractions false")
	checkRetractionFlags(c, "RETRFLAG")
	ids := typeIDs(c.Prog)
	c.Rule("PASS", "pass-through of retraction flag and event time")
	c.Rule("ABS5", "multiplicity bookkeeping")
	c.Rule("ORD4", "retract the superseded row before emitting the new one")
	c.Rule("KEYRCV", "every record's key is reported to the trigger")
	c.Rule("LAYOUT", "join rows carry the right retraction flags")
	c.Rule("LOOKUP", "lookup join XORs retraction flags")
	c.Rule("GUARD", "the printer rejects a retraction of an absent row")
	checkPassThrough(c, ids)
	for _, s := range []msSite{
		{rel: "execution/nodes", fn: "(*Distinct).Run", callback: true, countField: "Count", emit: "produce"},
		{rel: "execution/nodes", fn: "(*OrderSensitiveTransform).Run", callback: true, countField: "Count"},
		{rel: "outputs/batch", fn: "(*OutputPrinter).Run", callback: true, countField: "Count"},
		{rel: "execution/nodes", fn: "(*SimpleGroupBy).Run", callback: true, countField: "OverallRecordCount"},
		{rel: "execution/nodes", fn: "(*CustomTriggerGroupBy).Run", callback: true, countField: "OverallRecordCount"},
		{rel: "aggregates", fn: "(*Distinct).Add", countField: "count", emit: "inner"},
	} {
		checkMultiset(c, "ABS5", s, ids)
	}
	c.Rule("ABS4", "ORDER BY containers identify a row by its keys and then all of its values")
	checkOrderByLess(c)
	checkTriggerRetraction(c, ids)
	checkKeyReceived(c, ids)
	checkJoinLayouts(c, ids)
	checkLookupJoin(c, ids)
	checkFilter(c, ids)
	// GUARD
	p := c.Prog
	if fn := p.Func("outputs/batch", "(*OutputPrinter).Run"); fn != nil {
		ok := false
		ast.Inspect(fn.Decl.Body, func(n ast.Node) bool {
			if is, isIf := n.(*ast.IfStmt); isIf && strings.HasSuffix(core.ExprStr(is.Cond), ".Count < 0") && len(is.Body.List) == 1 {
				if es, isES := is.Body.List[0].(*ast.ExprStmt); isES && strings.HasPrefix(core.ExprStr(es.X), "panic(") {
					ok = true
				}
			}
			return true
		})
		c.Decide(ok, "GUARD", "outputs/batch.(*OutputPrinter).Run/negative count", fn.Decl.Pos(), 1, "count < 0 ⇒ panic", "the printer no longer rejects a retraction that arrives before its value")
	}
}

// checkPassThrough: Map, Unnest, InMemoryRecords, tumble.
func checkPassThrough(c *core.Ctx, ids map[string]int64) {
	p := c.Prog
	type site struct {
		rel, fn  string
		callback bool
		record   string // canonical name of the input record
		perElem  bool
	}
	for _, s := range []site{
		{"execution/nodes", "(*Map).Run", true, "record", false},
		{"execution/nodes", "(*Unnest).Run", true, "record", true},
		{"execution/nodes", "(*InMemoryRecords).Run", false, "r.records[i@L1]", true},
	} {
		fn := p.Func(s.rel, s.fn)
		key := s.rel + "." + s.fn
		if fn == nil {
			c.Unknown("PASS", key, 0, "anchor not found")
			continue
		}
		c.SawFunc(key)
		in := newInterp(p, fn)
		in.MaxPaths = 6000
		in.Hooks.Loop = func(st *absint.State, loop ast.Stmt) *absint.LoopSpec {
			return &absint.LoopSpec{Cases: []string{"e"}, MaxIter: 1, RefStep: func(ref, cs string) string { return ref }}
		}
		in.Hooks.Call = chainCall(recordCtorHook, func(st *absint.State, call *ast.CallExpr, callee string, recv absint.Val, args []absint.Val) (absint.Val, bool) {
			switch callee {
			case "value:produce":
				st.Emit("PRODUCE", call.Pos(), args...)
				return absint.Nil{}, true
			case "execution.Expression.Evaluate":
				return absint.Tuple{Elems: []absint.Val{absint.S("EVAL(" + recv.Canon() + ")"), absint.Nil{}}}, true
			}
			return nil, false
		}, ctorHook(ids), errorfHook)
		var outs []*absint.Outcome
		var err error
		if s.callback {
			rcs := nodeRunCalls(p, fn)
			if len(rcs) != 1 || rcs[0].Produce == nil {
				c.Unknown("PASS", key, fn.Decl.Pos(), "expected one source.Run with a literal produce callback")
				continue
			}
			outs, err = runLit(in, rcs[0].Produce, nil, "")
		} else {
			outs, err = runDecl(in, fn, nil, "")
		}
		if err != nil {
			c.Unknown("PASS", key, fn.Decl.Pos(), err.Error())
			continue
		}
		bad := ""
		emitted := 0
		for _, o := range outs {
			for _, e := range o.Events {
				if e.Name != "PRODUCE" || len(e.Args) != 2 {
					continue
				}
				emitted++
				rec := e.Args[1]
				rt, et := o.Field(rec, "Retraction"), o.Field(rec, "EventTime")
				if rt == nil || et == nil {
					bad = "the emitted record is not built with NewRecord(values, retraction, eventTime)"
					continue
				}
				if rt.Canon() != s.record+".Retraction" {
					bad = "the emitted record's retraction flag is " + rt.Canon() + ", must be the input record's (" + s.record + ".Retraction): additions and retractions would no longer pair up downstream"
				}
				if et.Canon() != s.record+".EventTime" {
					bad = "the emitted record's event time is " + et.Canon() + ", must be the input record's"
				}
			}
		}
		if bad == "" && emitted == 0 {
			bad = "no emission explored"
		}
		c.Decide(bad == "", "PASS", key, fn.Decl.Pos(), len(outs), "retraction flag and event time passed through", bad)
	}
	// Map: the i-th output value is the i-th expression evaluated on the input record
	if fn := p.Func("execution/nodes", "(*Map).Run"); fn != nil {
		s := core.FullStr(fn.Decl.Body)
		ok := strings.Contains(s, "values[i] = value") && strings.Contains(s, "ctx.WithRecord(record)") || strings.Contains(s, "WithRecord(record)")
		c.Decide(ok, "PASS", "execution/nodes.(*Map).Run/values", fn.Decl.Pos(), 1, "values[i] = exprs[i] evaluated on the record", "Map must evaluate its i-th expression on the input record into the i-th output value")
	}
	// Unnest: copies the prefix, the element, the suffix
	if fn := p.Func("execution/nodes", "(*Unnest).Run"); fn != nil {
		s := core.FullStr(fn.Decl.Body)
		ok := strings.Contains(s, "copy(values, record.Values[:u.index])") && strings.Contains(s, "values[u.index] = list[i]") && strings.Contains(s, "copy(values[u.index+1:], record.Values[u.index+1:])")
		c.Decide(ok, "PASS", "execution/nodes.(*Unnest).Run/values", fn.Decl.Pos(), 1, "prefix, element, suffix", "Unnest must copy the columns before the list, put the element in the list's column and copy the columns after it")
	}
}

func init() {
	register(&Check{ID: "C19", Run: runC19,
		Explanation: "The property quantifies over interleavings chosen by Go's select and the scheduler; that core is NOT decided by static analysis. Decided are the structural conditions every schedule relies on: " +
			"JOINWM/ORD2: watermark handling in the two-input and one-input phases and the final flush (shared with C18); MIR1: left/right symmetry of the producer goroutines, select cases and buffer flushing; NULLKEY/LAYOUT/PAD: what a record does when it is processed (shared with C02). " +
			"PHASE: when one input ends, the survivor is selected consistently — open channel, own/other trees, own/other buffers and the watermark to continue from all belong to the side whose `done` flag says it is still running (both branches mirror each other), the buffers are flushed up to the survivor's watermark with the one-stream flag set, the own tree is dropped only once the finished side's buffer is empty, and records of the survivor are processed as coming from that side (amLeft = survivor is left).",
		NotDecided: []string{"consistency of the consolidated output at every watermark for every interleaving of the two inputs (schedule quantifier: needs a controlled scheduler or a model checker)", "goroutine leaks when the join returns early"},
	})
}

func runC19(c *core.Ctx) {
	c.Rule("ENDFLUSH", "the end-of-stream flush bound is above every event time")
	checkFlushBound(c, "ENDFLUSH")
	ids := typeIDs(c.Prog)
	c.Rule("JOINWM", "joins forward min(left,right) only when it advances, after flushing up to it")
	c.Rule("ORD2", "final flush before the successful return")
	c.Rule("MIR1", "left/right halves of the joins are mirror images")
	c.Rule("NULLKEY", "a key containing NULL is neither stored nor matched")
	c.Rule("LAYOUT", "output rows: left record first; retraction flags")
	c.Rule("PHASE", "one-input phase continues with the side that is still running")
	c.Rule("EMIT", "event-time buffer releases exactly the due items, in order")
	checkJoinWatermarks(c)
	checkJoinMirrors(c)
	checkJoinNullKeys(c, "NULLKEY")
	checkJoinLayouts(c, ids)
	checkBufferEmit(c)
	checkJoinPhase(c)
}

func checkJoinPhase(c *core.Ctx) {
	p := c.Prog
	for _, typ := range []string{"StreamJoin", "OuterJoin"} {
		fn := p.Func("execution/nodes", "(*"+typ+").Run")
		key := "execution/nodes.(*" + typ + ").Run"
		if fn == nil {
			c.Unknown("PHASE", key, 0, "anchor not found")
			continue
		}
		// the done flag: set to true exactly where the left channel is found closed
		var leftClosed, rightClosed string
		ast.Inspect(fn.Decl.Body, func(n ast.Node) bool {
			cc, ok := n.(*ast.CommClause)
			if !ok || cc.Comm == nil {
				return true
			}
			side := ""
			if strings.Contains(core.ExprStr(cc.Comm), "<-leftMessages") {
				side = "left"
			} else if strings.Contains(core.ExprStr(cc.Comm), "<-rightMessages") {
				side = "right"
			}
			if side == "" {
				return true
			}
			for _, st := range cc.Body {
				if is, ok := st.(*ast.IfStmt); ok && core.ExprStr(is.Cond) == "!ok" {
					for _, s2 := range is.Body.List {
						if as, ok := s2.(*ast.AssignStmt); ok && core.ExprStr(as.Lhs[0]) == "leftDone" {
							if side == "left" {
								leftClosed = core.ExprStr(as.Rhs[0])
							} else {
								rightClosed = core.ExprStr(as.Rhs[0])
							}
						}
					}
				}
			}
			return true
		})
		c.Decide(leftClosed == "true" && rightClosed == "false", "PHASE", key+"/done flag", fn.Decl.Pos(), 2, "leftDone = true when the left channel closes, false when the right one does", fmt.Sprintf("the flag recording which input ended must be true when the left channel is closed and false when the right one is; it is set to %q and %q", leftClosed, rightClosed))
		// the survivor selection
		var sel *ast.IfStmt
		ast.Inspect(fn.Decl.Body, func(n ast.Node) bool {
			if is, ok := n.(*ast.IfStmt); ok && core.ExprStr(is.Cond) == "!leftDone" && is.Else != nil && sel == nil {
				if strings.Contains(core.FullStr(is.Body), "openChannel") {
					sel = is
				}
			}
			return true
		})
		if sel == nil {
			c.Unknown("PHASE", key+"/survivor", fn.Decl.Pos(), "no `if !leftDone { openChannel = … } else { … }` found")
			continue
		}
		assign := map[string]string{}
		for _, st := range sel.Body.List {
			if as, ok := st.(*ast.AssignStmt); ok && len(as.Lhs) == 1 {
				assign[core.ExprStr(as.Lhs[0])] = core.ExprStr(as.Rhs[0])
			}
		}
		want := map[string]string{"openChannel": "leftMessages", "myRecords": "leftRecords", "myRecordBuffer": "leftRecordBuffer", "minWatermark": "leftWatermark", "otherRecords": "rightRecords", "otherRecordBuffer": "rightRecordBuffer"}
		bad := ""
		for k, w := range want {
			if _, has := assign[k]; !has && typ == "OuterJoin" && (k == "myRecords" || k == "otherRecords") {
				continue
			}
			if got, has := assign[k]; has && got != w {
				bad = fmt.Sprintf("with the left input still running (leftDone false) %s must be %s, is %s", k, w, got)
			}
		}
		if assign["openChannel"] == "" || assign["minWatermark"] == "" {
			bad = "the survivor branch does not select the open channel and the watermark to continue from"
		}
		if d := mirror.Compare(sel.Body, sel.Else, map[string]bool{"leftDone": true}); d != "" && bad == "" {
			bad = "the two survivor branches are not mirror images: " + d
		}
		c.Decide(bad == "", "PHASE", key+"/survivor", sel.Pos(), len(assign), "channel, trees, buffers and watermark of the running side", bad)
		// flush with the survivor's watermark before entering the one-input loop
		var tailLoop *ast.RangeStmt
		ast.Inspect(fn.Decl.Body, func(n ast.Node) bool {
			if rs, ok := n.(*ast.RangeStmt); ok && core.ExprStr(rs.X) == "openChannel" {
				tailLoop = rs
			}
			return true
		})
		if tailLoop == nil {
			c.Unknown("PHASE", key+"/one-input loop", fn.Decl.Pos(), "no `for msg := range openChannel` found")
			continue
		}
		okFlush := false
		ast.Inspect(fn.Decl.Body, func(n ast.Node) bool {
			if call, ok := n.(*ast.CallExpr); ok && core.ExprStr(call.Fun) == "processRecordsUpTo" && len(call.Args) >= 2 &&
				core.ExprStr(call.Args[1]) == "minWatermark" && call.Pos() > sel.End() && call.Pos() < tailLoop.Pos() {
				okFlush = true
			}
			return true
		})
		c.Decide(okFlush, "PHASE", key+"/flush on transition", sel.Pos(), 1, "processRecordsUpTo(ctx, minWatermark, …) before the one-input loop", "after one input ends both buffers must be flushed up to the survivor's watermark before the one-input loop starts")
		// records of the survivor are processed as coming from its side
		okSide := false
		ast.Inspect(tailLoop.Body, func(n ast.Node) bool {
			if call, ok := n.(*ast.CallExpr); ok && strings.HasSuffix(core.ExprStr(call.Fun), ".receiveRecord") {
				hasSide, hasRec := false, false
				for _, a := range call.Args {
					switch core.ExprStr(a) {
					case "!leftDone":
						hasSide = true
					case "msg.record":
						hasRec = true
					}
				}
				if hasSide && hasRec {
					okSide = true
				}
			}
			return true
		})
		c.Decide(okSide, "PHASE", key+"/tail records", tailLoop.Pos(), 1, "receiveRecord(…, amLeft = !leftDone, msg.record, …)", "in the one-input phase a record must be processed as coming from the surviving side (amLeft = !leftDone)")
		if typ == "StreamJoin" {
			// markOneStreamRemains only under otherRecordBuffer.Empty()
			n, guarded := 0, 0
			core.WalkStack(fn.Decl.Body, func(nd ast.Node, stack []ast.Node) bool {
				call, ok := nd.(*ast.CallExpr)
				if !ok || core.ExprStr(call.Fun) != "markOneStreamRemains" {
					return true
				}
				n++
				for i := len(stack) - 1; i >= 0; i-- {
					if is, ok := stack[i].(*ast.IfStmt); ok {
						if core.ExprStr(is.Cond) == "otherRecordBuffer.Empty()" {
							guarded++
						}
						break
					}
				}
				return true
			})
			// the "don't store my records any more" flag handed to the flush is false or the variable that only
			// markOneStreamRemains sets: a literal true would skip storing records the finished side's buffered records still have to meet
			nCalls, badArg := 0, ""
			ast.Inspect(fn.Decl.Body, func(nd ast.Node) bool {
				if call, ok := nd.(*ast.CallExpr); ok && core.ExprStr(call.Fun) == "processRecordsUpTo" && len(call.Args) == 3 {
					nCalls++
					if a := core.ExprStr(call.Args[2]); a != "false" && a != "oneStreamRemains" {
						badArg = fmt.Sprintf("%s passes %s", c.Prog.Pos(call.Pos()), a)
					}
				}
				return true
			})
			nSet, setOutside := 0, ""
			core.WalkStack(fn.Decl.Body, func(nd ast.Node, stack []ast.Node) bool {
				as, ok := nd.(*ast.AssignStmt)
				if !ok || len(as.Lhs) != 1 || core.ExprStr(as.Lhs[0]) != "oneStreamRemains" {
					return true
				}
				if as.Tok == token.DEFINE && core.ExprStr(as.Rhs[0]) == "false" {
					return true
				}
				nSet++
				inMark := false
				for i := len(stack) - 1; i >= 0; i-- {
					if fl, ok := stack[i].(*ast.FuncLit); ok {
						// the literal assigned to markOneStreamRemains
						if i > 0 {
							if pas, ok := stack[i-1].(*ast.AssignStmt); ok && len(pas.Lhs) == 1 && core.ExprStr(pas.Lhs[0]) == "markOneStreamRemains" && pas.Rhs[0] == ast.Expr(fl) {
								inMark = true
							}
						}
						break
					}
				}
				if !inMark {
					setOutside = c.Prog.Pos(as.Pos())
				}
				return true
			})
			c.Decide(nCalls >= 2 && badArg == "" && nSet >= 1 && setOutside == "", "PHASE", key+"/store flag", fn.Decl.Pos(), nCalls+nSet,
				"every flush passes `false` or the flag that only markOneStreamRemains raises",
				fmt.Sprintf("a flush may skip storing records in their own tree only once the finished side's buffer is empty: %s %s (calls=%d, sets=%d)", badArg, setOutside, nCalls, nSet))
			c.Decide(n >= 2 && n == guarded, "PHASE", key+"/drop own tree", fn.Decl.Pos(), n, "own records stop being stored only once the finished side's buffer is empty", fmt.Sprintf("markOneStreamRemains must only run under `if otherRecordBuffer.Empty()` (%d of %d calls are)", guarded, n))
		}
	}
}
