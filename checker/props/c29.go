package props

import (
	"fmt"
	"go/ast"
	"go/token"
	"go/types"
	"strings"

	"octoverif/core"
)

// C29 — query execution is free of data races and deadlocks.
//
// Absence of races and termination under every schedule are not decidable by the analyses in reach (no happens-before
// or lock-set engine is available here, and termination depends on the inputs). What is decided are structural
// necessary conditions, each of which — when broken — produces a race or a hang:
//
//	CLOSE   every goroutine that feeds a join's message channel closes that channel as its last, unconditional step
//	        (also after an error, which is sent first), so the consumer's receive loop ends.
//	SEL     in the JSON datasource every channel send made by the reader goroutine and by the parser workers sits in a
//	        select that also listens on the run's Done channel (or inside the arm of such a select that reserved a
//	        token), except the single send on the buffered `done` channel: cancellation (LIMIT, error) cannot leave them
//	        blocked holding the pool.
//	LOCAL   a fastjson.Parser (not safe for concurrent use) used inside a goroutine is declared inside that goroutine.
//	PUBLISH the reader's line count is read by the consumer only behind the flag set after receiving from `done`
//	        (`done && … == linesRead`, in this order), the only synchronisation between them.
//	SHARED  function implementations (callable from several goroutines at once) never write a map declared outside
//	        themselves; the caches they share are concurrency-safe types; the stdin counters are only touched through
//	        sync/atomic and the preview buffer only between Lock and Unlock.
func init() {
	register(&Check{ID: "C29", Run: runC29,
		Explanation: "CLOSE: every goroutine feeding a join's message channel closes it as its last, unconditional statement, after sending a possible error. " +
			"SEL: every send by the JSON reader goroutine and parser workers is in a select with the run's Done channel (or inside the arm of one that reserved a token), except the single send on the buffered done channel. " +
			"LOCAL: fastjson.Parser values used in goroutines are declared inside them. PUBLISH: the reader's line count is read only behind the done flag, in short-circuit order. " +
			"SHARED: function implementations never write maps declared outside themselves, their shared caches are concurrency-safe types, the stdin counters are only used through sync/atomic and the preview buffer only under its mutex.",
		NotDecided: []string{
			"absence of data races in general and termination under every schedule (no happens-before/lock-set analysis is in reach; these are structural necessary conditions)",
			"producer goroutines of a join that returned early stay blocked on their sends once the 10000-slot buffer fills (a goroutine leak the code marks TODO; the process still exits)",
		},
		Assumptions: []string{"ristretto caches and sync/atomic behave as documented"},
	})
}

func runC29(c *core.Ctx) {
	helperInline(c.Prog, "", nil) // declaration index (named goroutine bodies)
	c.Rule("LOOPCLOSURE", "no function literal that outlives its iteration uses a shared loop variable")
	checkLoopClosures(c, "LOOPCLOSURE", []string{"cmd", "plugins", "datasources", "execution", "logical", "physical", "optimizer", "outputs", "functions", "aggregates", "table_valued_functions", "config", "helpers", "parser", "octosql", "telemetry"})
	c.Rule("CLOSE", "join producer goroutines always close their channel last")
	c.Rule("SEL", "json goroutines send only under a select with Done")
	c.Rule("LOCAL", "fastjson.Parser is goroutine-local")
	c.Rule("PUBLISH", "line count read only behind the done flag")
	c.Rule("SHARED", "no unsynchronised shared mutable state in function implementations and stdin")
	checkJoinProducers(c)
	checkJSONSends(c)
	checkParserLocal(c)
	checkLinesReadPublish(c)
	checkSharedState(c)
}

func checkJoinProducers(c *core.Ctx) {
	p := c.Prog
	n := 0
	for _, typ := range []string{"StreamJoin", "OuterJoin"} {
		fn := p.Func("execution/nodes", "(*"+typ+").Run")
		key := "execution/nodes.(*" + typ + ").Run"
		if fn == nil {
			c.Unknown("CLOSE", key, 0, "anchor not found")
			continue
		}
		c.SawFunc(key)
		for gi, lit := range goLits(fn.Decl.Body) {
			// the channel this goroutine sends on
			ch := ""
			sends := 0
			ast.Inspect(lit.Body, func(nd ast.Node) bool {
				if ss, ok := nd.(*ast.SendStmt); ok {
					sends++
					if ch == "" {
						ch = core.ExprStr(ss.Chan)
					} else if ch != core.ExprStr(ss.Chan) {
						ch = "?"
					}
				}
				return true
			})
			if sends == 0 {
				continue
			}
			n++
			gkey := fmt.Sprintf("%s/goroutine %d (%s)", key, gi+1, ch)
			last := lit.Body.List[len(lit.Body.List)-1]
			closesLast := false
			if es, ok := last.(*ast.ExprStmt); ok {
				if call, ok := es.X.(*ast.CallExpr); ok && core.ExprStr(call.Fun) == "close" && len(call.Args) == 1 && core.ExprStr(call.Args[0]) == ch {
					closesLast = true
				}
			}
			// or deferred as the first statement
			if ds, ok := lit.Body.List[0].(*ast.DeferStmt); ok && core.ExprStr(ds.Call.Fun) == "close" && len(ds.Call.Args) == 1 && core.ExprStr(ds.Call.Args[0]) == ch {
				closesLast = true
			}
			// no return statement that skips the close (returns inside nested function literals do not count)
			earlyReturn := false
			for _, s := range lit.Body.List {
				ast.Inspect(s, func(nd ast.Node) bool {
					if _, ok := nd.(*ast.FuncLit); ok {
						return false
					}
					if _, ok := nd.(*ast.ReturnStmt); ok {
						earlyReturn = true
					}
					return true
				})
			}
			if _, ok := lit.Body.List[0].(*ast.DeferStmt); ok {
				earlyReturn = false
			}
			// the source's error is sent on the same channel
			errSent := false
			ast.Inspect(lit.Body, func(nd ast.Node) bool {
				if ss, ok := nd.(*ast.SendStmt); ok && strings.Contains(core.FullStr(ss.Value), "err:") {
					errSent = true
				}
				return true
			})
			c.Decide(ch != "?" && closesLast && !earlyReturn && errSent, "CLOSE", gkey, lit.Pos(), sends, "sends, reports the source's error, then closes the channel unconditionally",
				fmt.Sprintf("the goroutine feeding %s must send the source's error on it and close it as its last, unconditional step, or the join's receive loop never ends (closes last=%v, early return=%v, error sent=%v)", ch, closesLast, earlyReturn, errSent))
		}
	}
	c.Floor("CLOSE", 4, "two joins with two producer goroutines each")
	_ = n
	// a Run that waits for its producers must make their sends cancellable: after an early stop (LIMIT, error) nobody
	// receives any more, the producers block on their sends once the buffer is full, and the wait never returns
	for _, typ := range []string{"StreamJoin", "OuterJoin"} {
		fn := p.Func("execution/nodes", "(*"+typ+").Run")
		if fn == nil {
			continue
		}
		info := fn.Info()
		key := "execution/nodes.(*" + typ + ").Run/waits for producers"
		waits := token.NoPos
		ast.Inspect(fn.Decl.Body, func(nd ast.Node) bool {
			if call, ok := nd.(*ast.CallExpr); ok && p.CalleeName(info, call) == "sync.(*WaitGroup).Wait" {
				waits = call.Pos()
			}
			return true
		})
		if waits == token.NoPos {
			c.OK("CLOSE", key, fn.Decl.Pos(), 1, "Run does not wait for its producer goroutines, so their (plain) sends cannot keep it from returning")
			continue
		}
		bare := 0
		for _, lit := range goLits(fn.Decl.Body) {
			core.WalkStack(lit.Body, func(nd ast.Node, stack []ast.Node) bool {
				if ss, ok := nd.(*ast.SendStmt); ok && sendGuard(stack, ss) == "bare" {
					bare++
				}
				return true
			})
		}
		c.Decide(bare == 0, "CLOSE", key, waits, bare+1, "Run waits for its producers and all their sends are cancellable",
			fmt.Sprintf("Run waits (WaitGroup.Wait) for its producer goroutines, but %d of their sends are plain channel sends: after an early stop the producers block once the channel buffer is full and Run never returns", bare))
	}
}

// sendGuard classifies a send statement inside fn: "select+done", "in-arm", "bare".
func sendGuard(stack []ast.Node, ss *ast.SendStmt) string {
	hasDone := func(sel *ast.SelectStmt) bool {
		for _, cl := range sel.Body.List {
			cc := cl.(*ast.CommClause)
			if cc.Comm == nil {
				continue
			}
			if strings.Contains(core.ExprStr(cc.Comm), ".Done()") {
				return true
			}
		}
		return false
	}
	for i := len(stack) - 1; i >= 0; i-- {
		if cc, ok := stack[i].(*ast.CommClause); ok && i > 0 {
			// the select is two levels up (SelectStmt → BlockStmt → CommClause)
			for j := i - 1; j >= 0; j-- {
				if sel, ok := stack[j].(*ast.SelectStmt); ok {
					if !hasDone(sel) {
						break
					}
					if cc.Comm == ast.Stmt(ss) {
						return "select+done"
					}
					return "in-arm"
				}
			}
		}
		if _, ok := stack[i].(*ast.FuncLit); ok {
			break
		}
	}
	return "bare"
}

func checkJSONSends(c *core.Ctx) {
	p := c.Prog
	n := 0
	for _, fr := range p.AllFuncs("datasources/json") {
		name := p.FName(fr)
		for gi, lit := range goLits(fr.Decl.Body) {
			// channels made with a capacity in the enclosing function
			buffered := map[string]bool{}
			ast.Inspect(fr.Decl.Body, func(nd ast.Node) bool {
				if as, ok := nd.(*ast.AssignStmt); ok && len(as.Lhs) == 1 && len(as.Rhs) == 1 {
					if mk, ok := as.Rhs[0].(*ast.CallExpr); ok && core.ExprStr(mk.Fun) == "make" && len(mk.Args) == 2 && strings.HasPrefix(core.ExprStr(mk.Args[0]), "chan ") {
						buffered[core.ExprStr(as.Lhs[0])] = true
					}
				}
				return true
			})
			perChan := map[string]int{}
			core.WalkStack(lit.Body, func(nd ast.Node, stack []ast.Node) bool {
				if ss, ok := nd.(*ast.SendStmt); ok {
					perChan[core.ExprStr(ss.Chan)]++
				}
				return true
			})
			core.WalkStack(lit.Body, func(nd ast.Node, stack []ast.Node) bool {
				ss, ok := nd.(*ast.SendStmt)
				if !ok {
					return true
				}
				n++
				ch := core.ExprStr(ss.Chan)
				g := sendGuard(stack, ss)
				okSend := g != "bare"
				how := g
				if !okSend && buffered[ch] && perChan[ch] == 1 {
					// a single send on a buffered channel cannot block
					inLoop := false
					for _, s := range stack {
						switch s.(type) {
						case *ast.ForStmt, *ast.RangeStmt:
							inLoop = true
						}
					}
					if !inLoop {
						okSend, how = true, "single send on a buffered channel"
					}
				}
				c.Decide(okSend, "SEL", fmt.Sprintf("%s/goroutine %d/%s <- %s", name, gi+1, ch, firstWord(core.ExprStr(ss.Value))), ss.Pos(), 1, how,
					fmt.Sprintf("the send on %s can block forever once the query is cancelled (LIMIT reached, error): it must sit in a select that also receives from the run's Done channel", ch))
				return true
			})
		}
	}
	// the token scheme: a worker's result send never blocks because a token was reserved for it — which needs the
	// result channel to hold at least as many batches as there are tokens
	if fr := p.Func("datasources/json", "(*DatasourceExecuting).Run"); fr != nil {
		caps := map[string]string{}
		ast.Inspect(fr.Decl.Body, func(nd ast.Node) bool {
			if as, ok := nd.(*ast.AssignStmt); ok && len(as.Lhs) == 1 && len(as.Rhs) == 1 {
				if mk, ok := as.Rhs[0].(*ast.CallExpr); ok && core.ExprStr(mk.Fun) == "make" && strings.HasPrefix(core.ExprStr(mk.Args[0]), "chan ") {
					cp := "0"
					if len(mk.Args) == 2 {
						cp = core.ExprStr(mk.Args[1])
					}
					caps[core.ExprStr(as.Lhs[0])] = cp
				}
			}
			return true
		})
		tokenCh, resultCh := "", ""
		for name := range caps {
			if strings.Contains(strings.ToLower(name), "token") {
				tokenCh = name
			}
		}
		// the result channel is the one handed to the jobs
		ast.Inspect(fr.Decl.Body, func(nd ast.Node) bool {
			if kv, ok := nd.(*ast.KeyValueExpr); ok && core.ExprStr(kv.Key) == "outChan" {
				resultCh = core.ExprStr(kv.Value)
			}
			return true
		})
		tc, okT := atoiStr(caps[tokenCh])
		rc, okR := atoiStr(caps[resultCh])
		c.Decide(tokenCh != "" && resultCh != "" && okT && okR && tc > 0 && rc >= tc, "SEL", "datasources/json.(*DatasourceExecuting).Run/token capacity", fr.Decl.Pos(), 2,
			fmt.Sprintf("result channel holds %d batches for %d tokens", rc, tc),
			fmt.Sprintf("every parser job is admitted against a token so that the worker's result send cannot block: the result channel (%s, capacity %s) must hold at least as many batches as there are tokens (%s, capacity %s); otherwise all workers of the shared pool can park on one query's results while a nested read waits for a worker", resultCh, caps[resultCh], tokenCh, caps[tokenCh]))
	}
	c.Floor("SEL", 4, "reader goroutine (token, job, done) and parser workers (results)")
	_ = n
}

func firstWord(s string) string {
	if i := strings.IndexAny(s, "{( "); i > 0 {
		return s[:i]
	}
	return s
}

func checkParserLocal(c *core.Ctx) {
	p := c.Prog
	helperInline(p, "", nil) // the declaration index that resolves `go worker(…)` to worker's body
	n := 0
	for _, fr := range p.AllFuncs("datasources/json") {
		info := fr.Info()
		name := p.FName(fr)
		for _, lit := range goLits(fr.Decl.Body) {
			// every use of a parser variable inside the goroutine — a method call on it, or handing it (its address)
			// to a helper — must be of a variable declared inside that goroutine
			seen := map[types.Object]bool{}
			ast.Inspect(lit.Body, func(nd ast.Node) bool {
				id, ok := nd.(*ast.Ident)
				if !ok {
					return true
				}
				v, ok := info.Uses[id].(*types.Var)
				if !ok || v.IsField() || seen[v] || !strings.HasSuffix(strings.TrimPrefix(v.Type().String(), "*"), "fastjson.Parser") {
					return true
				}
				seen[v] = true
				n++
				local := v.Pos() >= lit.Pos() && v.Pos() <= lit.End()
				c.Decide(local, "LOCAL", fmt.Sprintf("%s/%s", name, id.Name), id.Pos(), 1, "the parser is declared inside the goroutine that uses it",
					fmt.Sprintf("fastjson.Parser %s is declared outside the goroutine that uses it: all workers share one parser, which is not safe for concurrent use (its values are reused by the next Parse)", id.Name))
				return true
			})
		}
	}
	c.Floor("LOCAL", 1, "the parser workers call ParseBytes")
	_ = n
}

func checkLinesReadPublish(c *core.Ctx) {
	p := c.Prog
	fn := p.Func("datasources/json", "(*DatasourceExecuting).Run")
	key := "datasources/json.(*DatasourceExecuting).Run"
	if fn == nil {
		c.Unknown("PUBLISH", key, 0, "anchor not found")
		return
	}
	info := fn.Info()
	// the counter: a local int written inside a goroutine and read outside
	var counter types.Object
	for _, lit := range goLits(fn.Decl.Body) {
		ast.Inspect(lit.Body, func(nd ast.Node) bool {
			if as, ok := nd.(*ast.AssignStmt); ok && as.Tok == token.ADD_ASSIGN && len(as.Lhs) == 1 {
				if id, ok := as.Lhs[0].(*ast.Ident); ok {
					if v, ok := info.ObjectOf(id).(*types.Var); ok && (v.Pos() < lit.Pos() || v.Pos() > lit.End()) {
						counter = v
					}
				}
			}
			return true
		})
	}
	if counter == nil {
		c.Unknown("PUBLISH", key, fn.Decl.Pos(), "no counter written by the reader goroutine and declared outside it")
		return
	}
	// the flag set after receiving from done
	flag := ""
	ast.Inspect(fn.Decl.Body, func(nd ast.Node) bool {
		cc, ok := nd.(*ast.CommClause)
		if !ok || cc.Comm == nil || !strings.Contains(core.ExprStr(cc.Comm), "<-done") {
			return true
		}
		for _, s := range cc.Body {
			if as, ok := s.(*ast.AssignStmt); ok && len(as.Lhs) == 1 && core.ExprStr(as.Rhs[0]) == "true" {
				flag = core.ExprStr(as.Lhs[0])
			}
		}
		return true
	})
	reads, bad := 0, ""
	inGo := func(pos token.Pos) bool {
		for _, lit := range goLits(fn.Decl.Body) {
			if pos >= lit.Pos() && pos <= lit.End() {
				return true
			}
		}
		return false
	}
	core.WalkStack(fn.Decl.Body, func(nd ast.Node, stack []ast.Node) bool {
		id, ok := nd.(*ast.Ident)
		if !ok || info.Uses[id] != counter || inGo(id.Pos()) {
			return true
		}
		reads++
		// must be in the right operand of `flag && …`
		guarded := false
		for i := len(stack) - 1; i >= 0; i-- {
			if be, ok := stack[i].(*ast.BinaryExpr); ok && be.Op == token.LAND && core.ExprStr(be.X) == flag && flag != "" {
				if id.Pos() >= be.Y.Pos() && id.End() <= be.Y.End() {
					guarded = true
				}
			}
		}
		// … or sit in the arm that has just received from the done channel: the receive orders it after the reader's writes
		for i := len(stack) - 1; i >= 0 && !guarded; i-- {
			if cc, ok := stack[i].(*ast.CommClause); ok && cc.Comm != nil && strings.Contains(core.ExprStr(cc.Comm), "<-done") {
				guarded = true
			}
		}
		if !guarded {
			bad = fmt.Sprintf("%s: %s is read without first testing %s", p.Pos(id.Pos()), counter.Name(), flag)
		}
		return true
	})
	c.Decide(flag != "" && reads >= 1 && bad == "", "PUBLISH", key+"/"+counter.Name(), fn.Decl.Pos(), reads, fmt.Sprintf("%d reads, all behind `%s &&`", reads, flag),
		fmt.Sprintf("%s is written by the reader goroutine; the consumer may read it only after the receive from done made %s true — `%s && … == %s`, in this order — otherwise it is a data race and the loop can stop early: %s", counter.Name(), flag, flag, counter.Name(), bad))
}

func checkSharedState(c *core.Ctx) {
	p := c.Prog
	// ---- function implementations
	n, bad := 0, ""
	caches := 0
	for _, fr := range p.AllFuncs("functions", "aggregates") {
		info := fr.Info()
		ast.Inspect(fr.Decl.Body, func(nd ast.Node) bool {
			kv, ok := nd.(*ast.KeyValueExpr)
			if !ok || core.ExprStr(kv.Key) != "Function" {
				return true
			}
			var lits []*ast.FuncLit
			ast.Inspect(kv.Value, func(m ast.Node) bool {
				if l, ok := m.(*ast.FuncLit); ok {
					lits = append(lits, l)
				}
				return true
			})
			if len(lits) == 0 {
				return true
			}
			// the implementation is the innermost literal with the ([]Value) (Value, error) shape; outer ones are factories
			impl := lits[len(lits)-1]
			for _, l := range lits {
				if l.Type.Results != nil && len(l.Type.Results.List) == 2 && l.Type.Params != nil && len(l.Type.Params.List) == 1 && strings.Contains(core.ExprStr(l.Type.Params.List[0].Type), "octosql.Value") {
					impl = l
					break
				}
			}
			n++
			ast.Inspect(impl.Body, func(m ast.Node) bool {
				var target ast.Expr
				switch x := m.(type) {
				case *ast.AssignStmt:
					for _, l := range x.Lhs {
						if ix, ok := l.(*ast.IndexExpr); ok {
							target = ix.X
						}
					}
				case *ast.CallExpr:
					if core.ExprStr(x.Fun) == "delete" && len(x.Args) == 2 {
						target = x.Args[0]
					}
				}
				if target == nil {
					return true
				}
				if _, isMap := info.TypeOf(target).Underlying().(*types.Map); !isMap {
					return true
				}
				if id, ok := target.(*ast.Ident); ok {
					if v, ok := info.ObjectOf(id).(*types.Var); ok && (v.Pos() < impl.Pos() || v.Pos() > impl.End()) {
						bad = fmt.Sprintf("%s: map %s is declared outside the function implementation and written inside it", p.Pos(m.Pos()), id.Name)
					}
				}
				return true
			})
			// captured caches must be concurrency-safe
			ast.Inspect(impl.Body, func(m ast.Node) bool {
				se, ok := m.(*ast.SelectorExpr)
				if !ok {
					return true
				}
				id, ok := se.X.(*ast.Ident)
				if !ok {
					return true
				}
				v, ok := info.ObjectOf(id).(*types.Var)
				if !ok || (v.Pos() >= impl.Pos() && v.Pos() <= impl.End()) || v.IsField() {
					return true
				}
				if se.Sel.Name == "Set" || se.Sel.Name == "Get" || se.Sel.Name == "Store" || se.Sel.Name == "Load" {
					ts := v.Type().String()
					caches++
					if !strings.Contains(ts, "ristretto.Cache") && !strings.Contains(ts, "sync.Map") {
						bad = fmt.Sprintf("%s: shared cache %s has type %s, which is not safe for concurrent use", p.Pos(se.Pos()), id.Name, ts)
					}
				}
				return true
			})
			return true
		})
	}
	c.Decide(bad == "" && n >= 50, "SHARED", "functions/function implementations", 0, n, fmt.Sprintf("%d implementations write no outer map; %d shared-cache accesses are on concurrency-safe types", n, caches),
		"function implementations run on several goroutines at once (join inputs, parallel sources): "+bad+fmt.Sprintf(" (implementations analysed: %d)", n))

	// ---- stdin counters and buffer
	pkg := p.Pkg("execution/files")
	if pkg == nil {
		c.Unknown("SHARED", "execution/files", 0, "package not found")
		return
	}
	info := pkg.TypesInfo
	var counters []types.Object
	for _, name := range pkg.Types.Scope().Names() {
		if v, ok := pkg.Types.Scope().Lookup(name).(*types.Var); ok {
			if b, ok := v.Type().Underlying().(*types.Basic); ok && b.Kind() == types.Int64 {
				counters = append(counters, v)
			}
		}
	}
	uses, badUse := 0, ""
	for _, f := range pkg.Syntax {
		core.WalkStack(f, func(nd ast.Node, stack []ast.Node) bool {
			id, ok := nd.(*ast.Ident)
			if !ok {
				return true
			}
			for _, cobj := range counters {
				if info.Uses[id] != cobj {
					continue
				}
				uses++
				okUse := false
				if len(stack) >= 2 {
					if ue, ok := stack[len(stack)-1].(*ast.UnaryExpr); ok && ue.Op == token.AND {
						if call, ok := stack[len(stack)-2].(*ast.CallExpr); ok && strings.HasPrefix(p.CalleeName(info, call), "sync/atomic.") {
							okUse = true
						}
					}
				}
				if !okUse {
					badUse = fmt.Sprintf("%s: %s is used outside sync/atomic", p.Pos(id.Pos()), id.Name)
				}
			}
			return true
		})
	}
	c.Decide(len(counters) >= 1 && uses >= 2 && badUse == "", "SHARED", "execution/files/stdin counters", 0, uses, fmt.Sprintf("%d uses, all through sync/atomic", uses),
		"the stdin reader counters are shared between opens and must only be touched through sync/atomic: "+badUse)
}

func atoiStr(s string) (int, bool) {
	n := 0
	if s == "" {
		return 0, false
	}
	for _, ch := range s {
		if ch < '0' || ch > '9' {
			return 0, false
		}
		n = n*10 + int(ch-'0')
	}
	return n, true
}
