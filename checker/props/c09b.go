package props

import (
	"fmt"
	"go/ast"
	"go/types"
	"regexp"
	"strings"

	"octoverif/core"
	"octoverif/engine/absint"
)

// compareHook answers calls of (octosql.Value).Compare with a fixed result.
func compareHook(result int64) func(st *absint.State, call *ast.CallExpr, callee string, recv absint.Val, args []absint.Val) (absint.Val, bool) {
	return func(st *absint.State, call *ast.CallExpr, callee string, recv absint.Val, args []absint.Val) (absint.Val, bool) {
		if callee == "octosql.Value.Compare" {
			st.Emit("Compare", call.Pos(), recv, args[0])
			return absint.Int(result), true
		}
		return nil, false
	}
}

func assertOK(st *absint.State, v absint.Val, typ string) (absint.Val, bool, bool) {
	return v, true, true
}

func checkEqual(c *core.Ctx, ids map[string]int64) {
	p := c.Prog
	fn := p.Func("octosql", "Value.Equal")
	if fn == nil {
		c.Unknown("EQ", "octosql.Value.Equal", 0, "anchor not found")
		return
	}
	c.SawFunc("octosql.Value.Equal")
	recvName := fn.Decl.Recv.List[0].Names[0].Name
	argName := fn.Decl.Type.Params.List[0].Names[0].Name
	null := ids["TypeIDNull"]
	cases, bad := 0, ""
	for _, an := range sortedKeys(ids) {
		for _, bn := range sortedKeys(ids) {
			for _, comp := range []int64{-1, 0, 1} {
				if (ids[an] == ids[bn]) != (comp == 0) && ids[an] != ids[bn] {
					continue // different TypeIDs never compare equal (ABS1 cross-type)
				}
				in := newInterp(p, fn)
				in.Hooks.Field = typeIDHook(map[string]absint.Val{recvName: absint.Int(ids[an]), argName: absint.Int(ids[bn])})
				in.Hooks.Call = compareHook(comp)
				outs, err := runDecl(in, fn, nil, "")
				if err != nil {
					c.Unknown("EQ", "octosql.Value.Equal", fn.Decl.Pos(), err.Error())
					return
				}
				want := !(ids[an] == null && ids[bn] == null) && comp == 0
				cases += len(outs)
				if ok, why := allReturnBool(outs, want); !ok && bad == "" {
					bad = fmt.Sprintf("%s vs %s with Compare=%d: %s", an, bn, comp, why)
				}
			}
		}
	}
	c.Decide(bad == "", "EQ", "octosql.Value.Equal", fn.Decl.Pos(), cases, "false for NULL=NULL, Compare==0 otherwise", bad)
}

func checkCompareValueSlices(c *core.Ctx) {
	p := c.Prog
	fn := p.Func("execution", "CompareValueSlices")
	if fn == nil {
		c.Unknown("ABS1L", "execution.CompareValueSlices", 0, "anchor not found")
		return
	}
	c.SawFunc("execution.CompareValueSlices")
	a := fn.Decl.Type.Params.List[0].Names[0].Name
	b := fn.Decl.Type.Params.List[0].Names[1].Name
	for _, lenRel := range []absint.Rel{absint.LT, absint.EQ, absint.GT} {
		key := "execution.CompareValueSlices/len " + string(lenRel)
		outs, err := lexRun(p, fn, nil, a, b, lenRel, "octosql.Value.Compare")
		if err != nil {
			c.Unknown("ABS1L", key, fn.Decl.Pos(), err.Error())
			continue
		}
		ok, why := lexCheck(outs, func(o *absint.Outcome) (int64, bool) {
			if len(o.Values) != 1 {
				return 0, false
			}
			if absint.IsTrue(o.Values[0]) {
				return 1, true
			}
			if absint.IsFalse(o.Values[0]) {
				return 0, true
			}
			return 0, false
		}, map[string]int64{"endA": 1, "endB": 0, "lt": 1, "gt": 0}, 0, lenRel)
		c.Decide(ok, "ABS1L", key, fn.Decl.Pos(), len(outs), "strict lexicographic less-than", why)
	}
}

var timeInstantProjection = regexp.MustCompile(`^time\.Time\.Unix(Nano|Milli|Micro)?\([a-zA-Z_]+\.Time\)$`)

func checkHash(c *core.Ctx, ids map[string]int64) {
	p := c.Prog
	fn := p.Func("octosql", "Value.hash")
	if fn == nil {
		c.Unknown("TAB5", "octosql.Value.hash", 0, "anchor not found")
		return
	}
	c.SawFunc("octosql.Value.hash")
	recv := fn.Decl.Recv.List[0].Names[0].Name
	hparam := fn.Decl.Type.Params.List[0].Names[0].Name
	payloads := []string{"Int", "Float", "Boolean", "Str", "Time", "Duration", "List", "Struct", "Tuple"}
	armPayload := map[string]string{"TypeIDNull": "", "TypeIDInt": "Int", "TypeIDFloat": "Float", "TypeIDBoolean": "Boolean", "TypeIDString": "Str", "TypeIDTime": "Time", "TypeIDDuration": "Duration", "TypeIDList": "List", "TypeIDStruct": "Struct", "TypeIDTuple": "Tuple"}

	hashObj := fn.Obj
	run := func(tid string, cond func(atom string) (bool, bool), call func(callee string, args []absint.Val) (absint.Val, bool), boolean *bool) ([]*absint.Outcome, error) {
		in := newInterp(p, fn)
		in.Hooks.Field = func(st *absint.State, base absint.Val, sel string) (absint.Val, bool) {
			if base.Canon() == recv && sel == "TypeID" {
				return absint.Int(ids[tid]), true
			}
			if base.Canon() == recv && sel == "Boolean" && boolean != nil {
				return absint.Bool(*boolean), true
			}
			return nil, false
		}
		in.Hooks.Cond = func(st *absint.State, atom string) (bool, bool) {
			if cond != nil {
				return cond(atom)
			}
			return false, false
		}
		in.Hooks.Call = func(st *absint.State, cl *ast.CallExpr, callee string, r absint.Val, args []absint.Val) (absint.Val, bool) {
			// the recursive call on an element: record it and return a fixed abstract hash
			// state so that the loop state repeats
			if fo, ok := core.Callee(fn.Info(), cl).(*types.Func); ok && fo == hashObj {
				st.Emit("octosql.Value.hash", cl.Pos(), append([]absint.Val{r}, args...)...)
				return absint.S(hparam + "*"), true
			}
			if call != nil {
				return call(callee, args)
			}
			return nil, false
		}
		return runDecl(in, fn, nil, "")
	}
	// mentions lists the payload fields of the receiver that a canonical term depends on
	mentions := func(s string) map[string]bool {
		out := map[string]bool{}
		for _, f := range payloads {
			if regexp.MustCompile(`\b` + recv + `\.` + f + `\b`).MatchString(s) {
				out[f] = true
			}
		}
		return out
	}
	hashedTerms := func(o *absint.Outcome) []string {
		var ts []string
		for _, e := range o.Events {
			if strings.Contains(e.Name, "fnv1a.Add") || strings.HasSuffix(e.Name, "Value.hash") {
				for _, a := range e.Args[1:] {
					if a != nil {
						ts = append(ts, a.Canon())
					}
				}
				if strings.HasSuffix(e.Name, "Value.hash") && e.Args[0] != nil {
					ts = append(ts, e.Args[0].Canon())
				}
			}
		}
		return ts
	}
	for _, tid := range sortedKeys(armPayload) {
		want := armPayload[tid]
		key := "octosql.Value.hash/" + tid
		switch tid {
		case "TypeIDFloat":
			// classes of Compare-equal floats whose bit patterns differ: ±0 and the NaNs
			type cls struct {
				name          string
				isZero, isNaN bool
			}
			bad, n := "", 0
			for _, k := range []cls{{"zero (+0/-0)", true, false}, {"NaN", false, true}, {"other", false, false}} {
				k := k
				f := recv + ".Float"
				outs, err := run(tid, func(atom string) (bool, bool) {
					switch atom {
					case "(0 == " + f + ")":
						return k.isZero, true
					case "(" + f + " == " + f + ")":
						return !k.isNaN, true
					}
					return false, false
				}, func(callee string, args []absint.Val) (absint.Val, bool) {
					switch callee {
					case "math.IsNaN":
						if len(args) == 1 && args[0].Canon() == f {
							return absint.Bool(k.isNaN), true
						}
						return absint.Bool(false), true
					case "math.NaN":
						return absint.S("NaN"), true
					}
					return nil, false
				}, nil)
				if err != nil {
					c.Unknown("TAB5", key, fn.Decl.Pos(), err.Error())
					bad = "-"
					break
				}
				n += len(outs)
				for _, o := range outs {
					dep := false
					for _, t := range hashedTerms(o) {
						if mentions(t)["Float"] {
							dep = true
						}
						for f2 := range mentions(t) {
							if f2 != "Float" {
								bad = "Float arm hashes payload " + f2
							}
						}
					}
					if (k.isZero || k.isNaN) && dep && bad == "" {
						bad = fmt.Sprintf("for the class %s the hash depends on the bit pattern of %s (%s), but all members of the class compare equal — equal values hash differently", k.name, f, strings.Join(hashedTerms(o), ", "))
					}
					if !k.isZero && !k.isNaN && !dep && bad == "" {
						bad = "ordinary floats are not hashed by their value"
					}
				}
			}
			if bad != "-" {
				c.Decide(bad == "", "TAB5", key, fn.Decl.Pos(), n, "±0 and NaN are canonicalised before hashing", bad)
			}
		case "TypeIDBoolean":
			t, f := true, false
			o1, e1 := run(tid, nil, nil, &t)
			o2, e2 := run(tid, nil, nil, &f)
			if e1 != nil || e2 != nil || len(o1) != 1 || len(o2) != 1 {
				c.Unknown("TAB5", key, fn.Decl.Pos(), fmt.Sprint(e1, e2, len(o1), len(o2)))
				continue
			}
			a, b := strings.Join(hashedTerms(o1[0]), ","), strings.Join(hashedTerms(o2[0]), ",")
			c.Decide(a != b && a != "" && b != "", "TAB5", key, fn.Decl.Pos(), 2, "true and false hash to different constants ("+a+" / "+b+")", "true and false are hashed identically or not at all: "+a+" / "+b)
		default:
			outs, err := run(tid, nil, nil, nil)
			if err != nil {
				c.Unknown("TAB5", key, fn.Decl.Pos(), err.Error())
				continue
			}
			bad := ""
			used := false
			for _, o := range outs {
				if o.Kind == "panic" {
					bad = "arm panics: " + o.String()
				}
				for _, t := range hashedTerms(o) {
					for f := range mentions(t) {
						if f != want {
							bad = fmt.Sprintf("arm %s hashes payload field %s (Compare looks at %s)", tid, f, want)
						} else {
							used = true
							if tid == "TypeIDTime" && !timeInstantProjection.MatchString(t) {
								bad = "Time must be hashed through its instant (Unix*), got " + t
							}
						}
					}
				}
				if o.Kind == "return" && len(o.Values) == 1 && !strings.Contains(o.Values[0].Canon(), hparam) && !strings.Contains(o.Values[0].Canon(), "hash") {
					bad = "the incoming hash state is not threaded through: returns " + o.Values[0].Canon()
				}
			}
			switch tid {
			case "TypeIDInt", "TypeIDString", "TypeIDTime", "TypeIDDuration":
				if !used && bad == "" {
					bad = "payload " + want + " is not hashed at all"
				}
			case "TypeIDList", "TypeIDStruct", "TypeIDTuple":
				if !used {
					c.Note("hash arm %s does not hash its elements (consistent with Compare, but every such value collides)", tid)
				}
			}
			c.Decide(bad == "", "TAB5", key, fn.Decl.Pos(), len(outs), "reads only "+want, bad)
		}
	}
	c.Floor("TAB5", 10, "10 concrete TypeID arms of Value.hash")
	// Hash and HashManyValues must delegate to hash
	for _, name := range []string{"Value.Hash", "HashManyValues"} {
		f := p.Func("octosql", name)
		if f == nil {
			c.Unknown("TAB5", "octosql."+name, 0, "anchor not found")
			continue
		}
		calls := false
		ast.Inspect(f.Decl.Body, func(n ast.Node) bool {
			if call, ok := n.(*ast.CallExpr); ok {
				if fo, ok := core.Callee(f.Info(), call).(*types.Func); ok && fo == fn.Obj {
					calls = true
				}
			}
			return true
		})
		c.Decide(calls, "TAB5", "octosql."+name+" delegates to hash", f.Decl.Pos(), 1, "", "does not call (Value).hash")
	}
}

// checkContainerUsers: hashmap sites pair Compare-equality with Hash, and every
// comparator in the repository is a function of Compare/CompareValueSlices that is
// irreflexive on Compare-equal values and asymmetric otherwise.
func checkContainerUsers(c *core.Ctx) {
	p := c.Prog
	nHash := checkHashmapSites(c, nil)
	if nHash < 3 {
		c.Unknown("USERS", "<hashmap sites>", 0, fmt.Sprintf("only %d hashmap.New sites found (Distinct, SimpleGroupBy, aggregates.Distinct expected)", nHash))
	}
	checkValueComparators(c)
	_ = p
}

// checkHashmapSites: every hashmap.New site pairs an equality built from Compare == 0
// with Hash/HashManyValues of the whole key. only restricts to enclosing functions by name.
func checkHashmapSites(c *core.Ctx, only map[string]bool) int {
	p := c.Prog
	nHash := 0
	for _, fn := range p.AllFuncs("execution", "aggregates", "outputs") {
		if only != nil && !only[p.FName(fn)] {
			continue
		}
		info := fn.Info()
		ast.Inspect(fn.Decl.Body, func(n ast.Node) bool {
			call, ok := n.(*ast.CallExpr)
			if !ok {
				return true
			}
			fo, ok := core.Callee(info, call).(*types.Func)
			if !ok || fo.Pkg() == nil || fo.Pkg().Path() != "github.com/zyedidia/generic/hashmap" || fo.Name() != "New" || len(call.Args) != 3 {
				return true
			}
			nHash++
			key := p.FName(fn) + "/hashmap.New"
			eq := funcValueLit(p, fn, call.Args[1])
			hs := funcValueLit(p, fn, call.Args[2])
			// the hash function itself handed over (octosql.HashManyValues) is the whole-key hash by definition
			hashIsLibrary := false
			if hf, ok := core.Callee(info, &ast.CallExpr{Fun: call.Args[2]}).(*types.Func); ok && hf.Pkg() != nil && hf.Pkg().Path() == core.ModPath+"/octosql" && (hf.Name() == "HashManyValues" || hf.Name() == "Hash") {
				hashIsLibrary = true
			}
			if eq == nil || (hs == nil && !hashIsLibrary) {
				c.Unknown("USERS", key, call.Pos(), "equality/hash arguments cannot be resolved to function bodies")
				return true
			}
			// equality: result true iff every Compare is 0
			bad, cases := "", 0
			for _, comp := range []int64{-1, 0, 1} {
				in := newInterp(p, fn)
				in.Hooks.Call = compareHook(comp)
				outs, err := runLit(in, eq, nil, "")
				if err != nil {
					c.Unknown("USERS", key+"/eq", call.Pos(), err.Error())
					return true
				}
				cases += len(outs)
				sawCompare := false
				for _, o := range outs {
					if o.Kind == "loop" {
						continue
					}
					compared := false
					for _, e := range o.Events {
						if e.Name == "Compare" {
							compared, sawCompare = true, true
						}
					}
					if !compared {
						// empty key: vacuous truth is the only acceptable answer
						if o.Kind != "return" || !absint.IsTrue(o.Values[0]) {
							bad = "without any element compared the keys must be equal: " + o.String()
						}
						continue
					}
					if o.Kind != "return" || len(o.Values) != 1 || (comp == 0) != absint.IsTrue(o.Values[0]) || (comp != 0) != absint.IsFalse(o.Values[0]) {
						bad = fmt.Sprintf("with Compare=%d the equality returns %s", comp, o.String())
					}
				}
				if !sawCompare {
					bad = "equality does not use (Value).Compare"
				}
			}
			c.Decide(bad == "", "USERS", key+"/eq", call.Pos(), cases, "equality ⇔ all Compare == 0", bad)
			// hash: must return Hash()/HashManyValues of its parameter
			if hashIsLibrary {
				c.OK("USERS", key+"/hash", call.Pos(), 1, "the key hash function itself is handed over")
				return true
			}
			in := newInterp(p, fn)
			outs, err := runLit(in, hs, nil, "")
			okHash := err == nil && len(outs) == 1 && outs[0].Kind == "return"
			if okHash {
				v := outs[0].Values[0].Canon()
				param := hs.Type.Params.List[0].Names[0].Name
				okHash = v == "octosql.HashManyValues("+param+")" || v == "octosql.Value.Hash("+param+")"
			}
			c.Decide(okHash, "USERS", key+"/hash", call.Pos(), 1, "hash of the whole key via Value.Hash/HashManyValues", "hash function is not Hash/HashManyValues of the key: "+showOutcomes(outs))
			return true
		})
	}
	return nHash
}

func checkValueComparators(c *core.Ctx) {
	p := c.Prog
	// comparators on values
	type cmpSite struct{ rel, name string }
	_ = cmpSite{}
	aggLess := treeItemLessMethods(p, "aggregates")
	if len(aggLess) == 0 {
		c.Unknown("USERS", "aggregates.<Less methods>", 0, "no Less(btree.Item) method found in the aggregates package")
	}
	for _, fn := range aggLess {
		key := p.FName(fn)
		res := map[int64]string{}
		n := 0
		var err error
		for _, comp := range []int64{-1, 0, 1} {
			in := newInterp(p, fn)
			in.Hooks.Call = compareHook(comp)
			in.Hooks.Assert = assertOK
			var outs []*absint.Outcome
			outs, err = runDecl(in, fn, nil, "")
			if err != nil {
				break
			}
			n += len(outs)
			if len(outs) != 1 || outs[0].Kind != "return" {
				err = fmt.Errorf("outcomes: %s", showOutcomes(outs))
				break
			}
			res[comp] = outs[0].Values[0].Canon()
		}
		if err != nil {
			c.Unknown("USERS", key, fn.Decl.Pos(), err.Error())
			continue
		}
		ok := res[0] == "false" && res[-1] != res[1] && (res[-1] == "true" || res[1] == "true")
		c.Decide(ok, "USERS", key, fn.Decl.Pos(), n, "irreflexive on Compare-equal values, asymmetric otherwise", fmt.Sprintf("Less for Compare=-1/0/1 gives %s/%s/%s: not a strict order compatible with Compare-equality", res[-1], res[0], res[1]))
	}
	// tbtree comparators on join keys and GroupKey.Less delegate to CompareValueSlices
	nDeleg := 0
	cvs := p.Func("execution", "CompareValueSlices")
	for _, fn := range p.AllFuncs("execution") {
		info := fn.Info()
		check := func(body *ast.BlockStmt, key string, pos ast.Node) {
			// a comparator over GroupKeys: single return of CompareValueSlices(a.GroupKey, b.GroupKey) in argument order
			if len(body.List) == 0 {
				return
			}
			rs, ok := body.List[len(body.List)-1].(*ast.ReturnStmt)
			if !ok || len(rs.Results) != 1 {
				return
			}
			call, ok := core.Unparen(rs.Results[0]).(*ast.CallExpr)
			if !ok {
				return
			}
			if fo, ok := core.Callee(info, call).(*types.Func); ok && cvs != nil && fo == cvs.Obj {
				nDeleg++
				c.OK("USERS", key, pos.Pos(), 1, "delegates to CompareValueSlices")
			}
		}
		if fn.Decl.Name.Name == "Less" && fn.Decl.Recv != nil {
			check(fn.Decl.Body, p.FName(fn), fn.Decl)
		}
		for i, fl := range findFuncLits(fn.Decl.Body) {
			if fl.Type.Results != nil && len(fl.Type.Results.List) == 1 && fl.Type.Params != nil && fl.Type.Params.NumFields() == 2 {
				check(fl.Body, fmt.Sprintf("%s/lit%d", p.FName(fn), i), fl)
			}
		}
	}
	// every tree of items keyed by a slice of values is ordered by CompareValueSlices over that key, arguments in
	// order: judged per construction site (a constructor shared by several trees is one site)
	nTrees := 0
	for _, fn := range p.AllFuncs("execution") {
		fn := fn
		info := fn.Info()
		ord := 0
		ast.Inspect(fn.Decl.Body, func(n ast.Node) bool {
			call, ok := n.(*ast.CallExpr)
			if !ok || len(call.Args) == 0 {
				return true
			}
			cn := p.CalleeName(info, call)
			if !strings.HasSuffix(cn, "btree.NewGenericOptions") && !strings.HasSuffix(cn, "btree.NewGeneric") {
				return true
			}
			ord++
			key := fmt.Sprintf("%s/tree#%d", p.FName(fn), ord)
			lit := funcValueLit(p, fn, call.Args[0])
			if lit == nil || lit.Type.Params.NumFields() != 2 {
				c.Unknown("USERS", key, call.Pos(), "the tree's comparator cannot be resolved to a function")
				return true
			}
			var names []string
			for _, f := range lit.Type.Params.List {
				for _, nm := range f.Names {
					names = append(names, nm.Name)
				}
			}
			// only trees whose items carry a key of values
			hasValueKey := false
			if t := info.TypeOf(lit.Type.Params.List[0].Type); t != nil {
				if pt, ok := t.Underlying().(*types.Pointer); ok {
					t = pt.Elem()
				}
				if st, ok := t.Underlying().(*types.Struct); ok {
					for i := 0; i < st.NumFields(); i++ {
						if strings.HasSuffix(st.Field(i).Type().String(), "octosql.Value") && strings.HasPrefix(st.Field(i).Type().String(), "[]") || strings.HasSuffix(st.Field(i).Type().String(), ".GroupKey") {
							hasValueKey = true
						}
					}
				}
			}
			if !hasValueKey || len(names) != 2 {
				return true
			}
			nTrees++
			good, got := false, ""
			if len(lit.Body.List) > 0 {
				if rs, ok := lit.Body.List[len(lit.Body.List)-1].(*ast.ReturnStmt); ok && len(rs.Results) == 1 {
					got = core.ExprStr(rs.Results[0])
					if cc, ok := core.Unparen(rs.Results[0]).(*ast.CallExpr); ok && len(cc.Args) == 2 {
						if fo, ok := core.Callee(info, cc).(*types.Func); ok && cvs != nil && fo == cvs.Obj {
							a0, a1 := core.ExprStr(cc.Args[0]), core.ExprStr(cc.Args[1])
							good = len(lit.Body.List) == 1 && strings.HasPrefix(a0, names[0]+".") && strings.HasPrefix(a1, names[1]+".") && strings.TrimPrefix(a0, names[0]) == strings.TrimPrefix(a1, names[1])
						}
					}
				}
			}
			c.Decide(good, "USERS", key, call.Pos(), 1, "ordered by CompareValueSlices(a.key, b.key)",
				"a tree of items keyed by values must be ordered by CompareValueSlices over the two keys, in argument order (less(a, b) = CompareValueSlices(a.key, b.key)); it is ordered by "+got)
			return true
		})
	}
	if nDeleg < 1 || nTrees < 3 {
		c.Unknown("USERS", "<CompareValueSlices delegations>", 0, fmt.Sprintf("only %d comparators delegating to CompareValueSlices and %d trees keyed by values found (GroupKey.Less, join key trees and per-key record trees expected)", nDeleg, nTrees))
	}
	// who-may-compare: no reflect.DeepEqual on values
	for _, fn := range p.AllFuncs("execution", "aggregates", "functions", "outputs", "octosql") {
		info := fn.Info()
		ast.Inspect(fn.Decl.Body, func(n ast.Node) bool {
			if call, ok := n.(*ast.CallExpr); ok {
				if fo, ok := core.Callee(info, call).(*types.Func); ok && fo.FullName() == "reflect.DeepEqual" {
					c.Bad("USERS", p.FName(fn)+"/reflect.DeepEqual", call.Pos(), 1, "values compared with reflect.DeepEqual instead of Compare")
				}
			}
			return true
		})
	}
}
