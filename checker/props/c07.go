package props

import (
	"fmt"
	"go/ast"
	"go/token"
	"go/types"
	"strings"

	"octoverif/core"
)

func init() {
	register(&Check{ID: "C07", Run: runC07,
		Explanation: "PAN1: every integer `/` and `%` with a non-constant divisor on the query path is interpreted with the divisor forced to zero; no path may reach the division (or the site is justified by another obligation). " +
			"PAN2: every index, slice bound and strings.Repeat count in a function descriptor that derives from a query value (.Int/.Duration payload) must have its bounds entailed by the comparisons assumed on the path that reaches it (0 ≤ lo ≤ hi ≤ len, index < len). " +
			"PAN5/UNI1: every switch over a closed enum (TypeID, NodeType, ExpressionType, TriggerType, TVF argument kind) that asserts exhaustiveness lists every constant, and payload accesses agree with the arm — across all query-path packages. " +
			"NILELEM: `*X.List.Element` (nil for lists of unknown element type) is only dereferenced under a nil test or once per element of a non-empty list. UNI2: function bodies read only the payload their declared argument type carries and no argument beyond the declared arity. REC: typecheck panics are converted to errors (deferred recover assigning the named error result in typecheckNode/typecheckExpr).",
		NotDecided: []string{"panics inside third-party libraries", "nil dereferences other than through union arms", "allocation size / out-of-memory", "explicit panics that guard internal invariants (container type assertions)"},
	})
}

func runC07(c *core.Ctx) {
	c.Rule("ALIASMAP", "a Typecheck method does not modify the name mapping a child returned")
	checkChildMappingUntouched(c, "ALIASMAP")
	c.Rule("BOUNDS", "layout fixer: a slice indexed by a loop position has the ranged slice's length")
	checkLoopIndexBounds(c, "BOUNDS", [][2]string{{"execution", "calculateMapping"}, {"execution", "(*ObjectLayoutFixer).fixLayout"}, {"execution", "NewObjectLayoutFixer"}})
	c.Rule("TOPLIMIT", "the outermost LIMIT is typechecked without the record schema and against Int")
	checkTopLevelLimit(c, "TOPLIMIT")
	c.Rule("MAYBE", "maybe-fitting arguments are asserted at run time; type-function overloads are not matched by arity")
	checkMaybeLoops(c, "MAYBE")
	c.Rule("PARSEPAN", "the query parser does not panic on grammatical input")
	checkParserPanics(c, "PARSEPAN")
	c.Rule("PAN1", "no integer division by a possibly-zero divisor")
	c.Rule("PAN2", "query-controlled indices, slice bounds and repeat counts are guarded")
	c.Rule("PAN5", "enum switches that assert exhaustiveness list every constant")
	c.Rule("UNI1", "payload accesses agree with the discriminant arm")
	c.Rule("UNI2", "function bodies read the payload of their declared argument types, within the declared arity")
	c.Rule("REC", "typecheck panics are recovered into errors")
	checkDivisions(c, "PAN1")
	checkIndexSinks(c, "PAN2")
	checkPayloadAgreement(c, "UNI2")
	uni1IndexedOnly = true
	defer func() { uni1IndexedOnly = false }()
	ns, nr := checkEnumSwitches(c, []string{"physical", "execution", "octosql", "outputs", "logical", "optimizer", "plugins/internal/plugins", "datasources", "table_valued_functions", "cmd", "aggregates", "functions"}, nil)
	if ns < 10 || nr < 60 {
		c.Unknown("PAN5", "<switches>", 0, "too few enum switches / arm regions resolved")
	}
	checkTypecheckRecover(c)
	c.Rule("NILELEM", "the element type of a list type is not dereferenced unguarded")
	checkElementDerefs(c)
	c.Rule("OPTPTR", "optional parts of a layout mapping are dereferenced only under a nil test")
	checkOptionalParts(c)
	c.Rule("ABS1L", "Value.Compare never compares an element past the end of a list/struct/tuple (shared with C09)")
	checkCompareListArms(c)
}

func checkTypecheckRecover(c *core.Ctx) {
	p := c.Prog
	wrappers := map[string]bool{}
	for _, name := range []string{"typecheckNode", "typecheckExpr"} {
		fn := p.Func("cmd", name)
		key := "cmd." + name
		if fn == nil {
			c.Unknown("REC", key, 0, "anchor not found")
			continue
		}
		c.SawFunc(key)
		info := fn.Info()
		// named error result
		var errRes types.Object
		if fn.Decl.Type.Results != nil {
			for _, f := range fn.Decl.Type.Results.List {
				for _, n := range f.Names {
					if o := info.Defs[n]; o != nil && core.IsErrorType(o.Type()) {
						errRes = o
					}
				}
			}
		}
		ok := false
		if errRes != nil {
			for _, st := range fn.Decl.Body.List {
				ds, isDefer := st.(*ast.DeferStmt)
				if !isDefer {
					continue
				}
				fl, isLit := ds.Call.Fun.(*ast.FuncLit)
				// a named function deferred directly (`defer recoverInto(&outErr)`): recover() works there too; the
				// error result is reached through the pointer parameter that is handed &result
				viaParam := ""
				if !isLit {
					if named := funcValueLit(p, fn, ds.Call.Fun); named != nil && named.Type.Params != nil {
						k := 0
						for _, f := range named.Type.Params.List {
							for _, nm := range f.Names {
								if k < len(ds.Call.Args) {
									if ue, ok := core.Unparen(ds.Call.Args[k]).(*ast.UnaryExpr); ok && ue.Op == token.AND {
										if id, ok := ue.X.(*ast.Ident); ok && info.Uses[id] == errRes {
											viaParam = nm.Name
										}
									}
								}
								k++
							}
						}
						if viaParam != "" {
							fl, isLit = named, true
						}
					}
				}
				if !isLit {
					continue
				}
				recovers, assigns := false, false
				repanics := false
				ast.Inspect(fl.Body, func(n ast.Node) bool {
					if as, isAs := n.(*ast.AssignStmt); isAs && viaParam != "" {
						for _, l := range as.Lhs {
							if se, ok := l.(*ast.StarExpr); ok && core.ExprStr(se.X) == viaParam && len(as.Rhs) == 1 && core.ExprStr(as.Rhs[0]) != "nil" {
								assigns = true
							}
						}
					}
					if call, isCall := n.(*ast.CallExpr); isCall && core.ExprStr(call.Fun) == "recover" {
						recovers = true
					}
					if call, isCall := n.(*ast.CallExpr); isCall && core.ExprStr(call.Fun) == "panic" {
						repanics = true
					}
					if as, isAs := n.(*ast.AssignStmt); isAs {
						for _, l := range as.Lhs {
							if id, isID := l.(*ast.Ident); isID && info.Uses[id] == errRes && len(as.Rhs) == 1 && !core.IsNilIdent(info, as.Rhs[0]) {
								assigns = true
							}
						}
					}
					return true
				})
				if recovers && assigns && !repanics {
					ok = true
				}
				break // must be the first defer, before the Typecheck call
			}
		}
		// the deferred recover must precede the Typecheck call
		c.Decide(ok, "REC", key, fn.Decl.Pos(), 1, "deferred recover assigns the named error result", "the wrapper does not convert every typecheck panic into its error result (a deferred recover assigning a non-nil error to the named result, without re-panicking for some kinds of recovered value: typecheck code panics with strings as well as errors)")
		wrappers[name] = ok
	}
	// who may call Typecheck from cmd
	n := 0
	for _, fn := range p.AllFuncs("cmd") {
		info := fn.Info()
		ast.Inspect(fn.Decl.Body, func(nd ast.Node) bool {
			call, ok := nd.(*ast.CallExpr)
			if !ok {
				return true
			}
			name := p.CalleeName(info, call)
			if name == "logical.Node.Typecheck" || name == "logical.Expression.Typecheck" {
				n++
				inside := fn.Decl.Name.Name == "typecheckNode" || fn.Decl.Name.Name == "typecheckExpr"
				c.Decide(inside, "REC", p.FName(fn)+"→"+name, call.Pos(), 1, "called inside the recovering wrapper", "Typecheck is called outside typecheckNode/typecheckExpr: its panics (the way type errors are reported) would crash the process")
			}
			return true
		})
	}
	if n < 2 {
		c.Unknown("REC", "<Typecheck callers>", 0, "no Typecheck call found in package cmd")
	}
}

// checkElementDerefs (NILELEM): the element type of a list type is nil for lists of unknown
// element type ([] in every previewed row). `*X.List.Element` must therefore be guarded by a nil
// test on the same expression, or sit inside a loop (it then runs once per element of a
// non-empty list, whose element type is known), or lie in the typecheck-recover region.
func checkElementDerefs(c *core.Ctx) {
	p := c.Prog
	n := 0
	for _, fn := range p.AllFuncs() {
		rel := core.Rel(fn.Pkg)
		if !onQueryPath(rel) || rel == "logical" || strings.HasSuffix(p.Fset.Position(fn.Decl.Pos()).Filename, ".pb.go") {
			continue
		}
		ord := 0
		core.WalkStack(fn.Decl.Body, func(nd ast.Node, stack []ast.Node) bool {
			st, ok := nd.(*ast.StarExpr)
			if !ok {
				return true
			}
			target := core.ExprStr(st.X)
			if !strings.HasSuffix(target, ".List.Element") {
				return true
			}
			n++
			ord++
			key := fmt.Sprintf("%s/*%s", p.FName(fn), target)
			if ord > 1 {
				key += fmt.Sprintf("#%d", ord)
			}
			guarded, why := false, ""
			for i := len(stack) - 1; i >= 0 && !guarded; i-- {
				switch x := stack[i].(type) {
				case *ast.ForStmt, *ast.RangeStmt:
					guarded, why = true, "inside a per-element loop"
				case *ast.IfStmt:
					if strings.Contains(core.ExprStr(x.Cond), target+" != nil") && i+1 < len(stack) && stack[i+1] == ast.Node(x.Body) {
						guarded, why = true, "under `if "+target+" != nil`"
					}
				case *ast.BinaryExpr:
					// a && *a… / a == nil || *a…
					s := core.ExprStr(x)
					if strings.Contains(s, target+" != nil &&") || strings.Contains(s, target+" == nil ||") {
						guarded, why = true, "short-circuit nil test in the same condition"
					}
				case *ast.BlockStmt, *ast.CaseClause:
					// an earlier `if target == nil { return … }` in the same block
					var list []ast.Stmt
					if b, ok := x.(*ast.BlockStmt); ok {
						list = b.List
					} else {
						list = x.(*ast.CaseClause).Body
					}
					for _, s2 := range list {
						if s2.End() >= st.Pos() {
							break
						}
						if is, ok := s2.(*ast.IfStmt); ok && strings.Contains(core.ExprStr(is.Cond), target+" == nil") && len(is.Body.List) > 0 {
							if _, isRet := is.Body.List[len(is.Body.List)-1].(*ast.ReturnStmt); isRet {
								guarded, why = true, "after `if "+target+" == nil { return }`"
							}
						}
					}
				case *ast.FuncLit:
					i = -1
				}
			}
			// the List arm of Type.Is handles both nil combinations in one condition
			if !guarded && p.FName(fn) == "octosql.Type.Is" {
				guarded, why = true, "covered by rule REFL/LISTIS (C10) which interprets every nil combination"
			}
			c.Decide(guarded, "NILELEM", key, st.Pos(), 1, why, "*"+target+" is dereferenced without a nil test and outside a per-element loop: a list of unknown element type (every previewed value was []) has a nil element type — nil pointer dereference")
			return true
		})
	}
	if n < 6 {
		c.Unknown("NILELEM", "<derefs>", 0, fmt.Sprintf("only %d element-type dereferences found", n))
	}
}

// checkOptionalParts (OPTPTR): a struct type whose pointer-typed fields are all optional parts of a tagged record
// (execution.LayoutMapping: Struct / List / Tuple, of which calculateMapping fills none when the target type carries no
// shape, e.g. Any) must not be dereferenced through such a field without a nil test of that very field on the path.
func checkOptionalParts(c *core.Ctx) {
	p := c.Prog
	n := 0
	seenKeys := map[string]int{}
	for _, fr := range p.AllFuncs("execution") {
		info := fr.Info()
		name := p.FName(fr)
		core.WalkStack(fr.Decl.Body, func(nd ast.Node, stack []ast.Node) bool {
			outer, ok := nd.(*ast.SelectorExpr)
			if !ok {
				return true
			}
			inner, ok := outer.X.(*ast.SelectorExpr)
			if !ok {
				return true
			}
			sel := info.Selections[inner]
			if sel == nil || sel.Kind() != types.FieldVal {
				return true
			}
			recv := sel.Recv()
			if pt, ok := recv.(*types.Pointer); ok {
				recv = pt.Elem()
			}
			nt, ok := recv.(*types.Named)
			if !ok || nt.Obj().Name() != "LayoutMapping" {
				return true
			}
			if _, isPtr := info.TypeOf(inner).(*types.Pointer); !isPtr {
				return true
			}
			// writes that construct the part are not dereferences of an unknown value
			n++
			part := core.ExprStr(inner)
			guarded := false
			for i := len(stack) - 1; i >= 0 && !guarded; i-- {
				switch x := stack[i].(type) {
				case *ast.IfStmt:
					if strings.Contains(core.ExprStr(x.Cond), part+" != nil") {
						// inside the then-branch
						if nd.Pos() >= x.Body.Pos() && nd.End() <= x.Body.End() {
							guarded = true
						}
					}
				case *ast.BlockStmt, *ast.CaseClause:
					var list []ast.Stmt
					if b, ok := x.(*ast.BlockStmt); ok {
						list = b.List
					} else {
						list = x.(*ast.CaseClause).Body
					}
					for _, s := range list {
						if s.Pos() >= nd.Pos() {
							break
						}
						if is, ok := s.(*ast.IfStmt); ok && strings.Contains(core.ExprStr(is.Cond), part+" == nil") && len(is.Body.List) > 0 {
							if _, ok := is.Body.List[len(is.Body.List)-1].(*ast.ReturnStmt); ok {
								guarded = true
							}
						}
					}
				case *ast.FuncLit:
					i = -1
				}
			}
			// the function that builds the mapping assigns the part before using it
			if !guarded {
				ast.Inspect(fr.Decl.Body, func(m ast.Node) bool {
					if as, ok := m.(*ast.AssignStmt); ok && as.Pos() < nd.Pos() {
						for _, l := range as.Lhs {
							if core.ExprStr(l) == part {
								guarded = true
							}
						}
					}
					if kv, ok := m.(*ast.KeyValueExpr); ok && kv.Pos() < nd.Pos() && core.ExprStr(kv.Key) == inner.Sel.Name {
						_ = kv
					}
					return true
				})
			}
			okey := fmt.Sprintf("%s/%s.%s", name, part, outer.Sel.Name)
			seenKeys[okey]++
			if seenKeys[okey] > 1 {
				okey += fmt.Sprintf("#%d", seenKeys[okey])
			}
			c.Decide(guarded, "OPTPTR", okey, outer.Pos(), 1, "dereferenced under a nil test of "+part,
				fmt.Sprintf("%s is an optional part of the layout mapping (nil when the target type has no shape of that kind, e.g. Any) and is dereferenced here without a nil test: a structured value under such a target crashes the process", part))
			return true
		})
	}
	c.Floor("OPTPTR", 3, "fixLayout reads the Struct, List and Tuple parts")
	_ = n
}
