package props

import (
	"go/ast"
	"go/types"

	"octoverif/core"
)

func init() {
	register(&Check{ID: "C07", Run: runC07,
		Explanation: "PAN1: every integer `/` and `%` with a non-constant divisor on the query path is interpreted with the divisor forced to zero; no path may reach the division (or the site is justified by another obligation). " +
			"PAN2: every index, slice bound and strings.Repeat count in a function descriptor that derives from a query value (.Int/.Duration payload) must have its bounds entailed by the comparisons assumed on the path that reaches it (0 ≤ lo ≤ hi ≤ len, index < len). " +
			"PAN5/UNI1: every switch over a closed enum (TypeID, NodeType, ExpressionType, TriggerType, TVF argument kind) that asserts exhaustiveness lists every constant, and payload accesses agree with the arm — across all query-path packages. " +
			"UNI2: function bodies read only the payload their declared argument type carries and no argument beyond the declared arity. REC: typecheck panics are converted to errors (deferred recover assigning the named error result in typecheckNode/typecheckExpr).",
		NotDecided: []string{"panics inside third-party libraries", "nil dereferences other than through union arms", "allocation size / out-of-memory", "explicit panics that guard internal invariants (container type assertions)"},
	})
}

func runC07(c *core.Ctx) {
	c.Rule("PAN1", "no integer division by a possibly-zero divisor")
	c.Rule("PAN2", "query-controlled indices, slice bounds and repeat counts are guarded")
	c.Rule("PAN5", "enum switches that assert exhaustiveness list every constant")
	c.Rule("UNI1", "payload accesses agree with the discriminant arm")
	c.Rule("UNI2", "function bodies read the payload of their declared argument types, within the declared arity")
	c.Rule("REC", "typecheck panics are recovered into errors")
	checkDivisions(c, "PAN1")
	checkIndexSinks(c, "PAN2")
	checkPayloadAgreement(c, "UNI2")
	uni1IndexedOnly = true
	defer func() { uni1IndexedOnly = false }()
	ns, nr := checkEnumSwitches(c, []string{"physical", "execution", "octosql", "outputs", "logical", "optimizer", "plugins/internal/plugins", "datasources", "table_valued_functions", "cmd", "aggregates", "functions"}, nil)
	if ns < 10 || nr < 60 {
		c.Unknown("PAN5", "<switches>", 0, "too few enum switches / arm regions resolved")
	}
	checkTypecheckRecover(c)
}

func checkTypecheckRecover(c *core.Ctx) {
	p := c.Prog
	wrappers := map[string]bool{}
	for _, name := range []string{"typecheckNode", "typecheckExpr"} {
		fn := p.Func("cmd", name)
		key := "cmd." + name
		if fn == nil {
			c.Unknown("REC", key, 0, "anchor not found")
			continue
		}
		c.SawFunc(key)
		info := fn.Info()
		// named error result
		var errRes types.Object
		if fn.Decl.Type.Results != nil {
			for _, f := range fn.Decl.Type.Results.List {
				for _, n := range f.Names {
					if o := info.Defs[n]; o != nil && core.IsErrorType(o.Type()) {
						errRes = o
					}
				}
			}
		}
		ok := false
		if errRes != nil {
			for _, st := range fn.Decl.Body.List {
				ds, isDefer := st.(*ast.DeferStmt)
				if !isDefer {
					continue
				}
				fl, isLit := ds.Call.Fun.(*ast.FuncLit)
				if !isLit {
					continue
				}
				recovers, assigns := false, false
				ast.Inspect(fl.Body, func(n ast.Node) bool {
					if call, isCall := n.(*ast.CallExpr); isCall && core.ExprStr(call.Fun) == "recover" {
						recovers = true
					}
					if as, isAs := n.(*ast.AssignStmt); isAs {
						for _, l := range as.Lhs {
							if id, isID := l.(*ast.Ident); isID && info.Uses[id] == errRes && len(as.Rhs) == 1 && !core.IsNilIdent(info, as.Rhs[0]) {
								assigns = true
							}
						}
					}
					return true
				})
				if recovers && assigns {
					ok = true
				}
				break // must be the first defer, before the Typecheck call
			}
		}
		// the deferred recover must precede the Typecheck call
		c.Decide(ok, "REC", key, fn.Decl.Pos(), 1, "deferred recover assigns the named error result", "the wrapper does not convert a typecheck panic into its error result (deferred recover assigning a non-nil error to the named result)")
		wrappers[name] = ok
	}
	// who may call Typecheck from cmd
	n := 0
	for _, fn := range p.AllFuncs("cmd") {
		info := fn.Info()
		ast.Inspect(fn.Decl.Body, func(nd ast.Node) bool {
			call, ok := nd.(*ast.CallExpr)
			if !ok {
				return true
			}
			name := p.CalleeName(info, call)
			if name == "logical.Node.Typecheck" || name == "logical.Expression.Typecheck" {
				n++
				inside := fn.Decl.Name.Name == "typecheckNode" || fn.Decl.Name.Name == "typecheckExpr"
				c.Decide(inside, "REC", p.FName(fn)+"→"+name, call.Pos(), 1, "called inside the recovering wrapper", "Typecheck is called outside typecheckNode/typecheckExpr: its panics (the way type errors are reported) would crash the process")
			}
			return true
		})
	}
	if n < 2 {
		c.Unknown("REC", "<Typecheck callers>", 0, "no Typecheck call found in package cmd")
	}
}
