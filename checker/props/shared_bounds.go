package props

import (
	"fmt"
	"go/ast"
	"go/token"
	"go/types"
	"strings"

	"octoverif/core"
)

// sameLengthByConstruction: pairs of slices that are always built with the same length, so a loop over one may index
// the other. One line of reason each.
var sameLengthByConstruction = map[[2]string]string{
	{"mapping.Struct.SourceIndex", "mapping.Struct.SourceMapping"}: "calculateMapping makes both with len(targetType.Struct.Fields) and stores them together",
}

// checkLoopIndexBounds (BOUNDS): in the named functions, a slice indexed with a loop variable is the slice the loop
// ranges over, a slice made with that slice's length (or the other way round), a pair listed as built together, or the
// index sits under an explicit `i < len(slice)` test. Anything else is an index that is in range only if two unrelated
// lengths happen to agree — the layout fixer indexed the source tuple's elements while ranging over the target's.
func checkLoopIndexBounds(c *core.Ctx, rule string, specs [][2]string) {
	p := c.Prog
	total := 0
	for _, spec := range specs {
		fn := p.Func(spec[0], spec[1])
		key := spec[0] + "." + spec[1]
		if fn == nil {
			c.Unknown(rule, key, 0, "anchor not found")
			continue
		}
		c.SawFunc(key)
		info := fn.Info()
		// made[x] = "Z" for `x := make([]T, len(Z))`
		made := map[types.Object]string{}
		ast.Inspect(fn.Decl.Body, func(n ast.Node) bool {
			as, ok := n.(*ast.AssignStmt)
			if !ok || as.Tok != token.DEFINE || len(as.Lhs) != 1 || len(as.Rhs) != 1 {
				return true
			}
			id, ok := as.Lhs[0].(*ast.Ident)
			if !ok {
				return true
			}
			call, ok := as.Rhs[0].(*ast.CallExpr)
			if !ok || core.ExprStr(call.Fun) != "make" || len(call.Args) != 2 {
				return true
			}
			if l, ok := call.Args[1].(*ast.CallExpr); ok && core.ExprStr(l.Fun) == "len" && len(l.Args) == 1 {
				made[info.Defs[id]] = core.ExprStr(l.Args[0])
			}
			return true
		})
		lenClass := func(e ast.Expr) []string {
			out := []string{core.ExprStr(e)}
			if id, ok := core.Unparen(e).(*ast.Ident); ok {
				if z, ok := made[info.Uses[id]]; ok {
					out = append(out, z)
				}
			}
			return out
		}
		n := 0
		core.WalkStack(fn.Decl.Body, func(nd ast.Node, stack []ast.Node) bool {
			ix, ok := nd.(*ast.IndexExpr)
			if !ok {
				return true
			}
			iid, ok := core.Unparen(ix.Index).(*ast.Ident)
			if !ok {
				return true
			}
			if _, isSlice := info.TypeOf(ix.X).Underlying().(*types.Slice); !isSlice {
				return true
			}
			iobj := info.Uses[iid]
			// the loop that defines the index variable
			var loopOver ast.Expr
			for i := len(stack) - 1; i >= 0 && loopOver == nil; i-- {
				if rs, ok := stack[i].(*ast.RangeStmt); ok && rs.Key != nil {
					if kid, ok := rs.Key.(*ast.Ident); ok && info.Defs[kid] == iobj && rs.Value == nil || ok && info.Defs[kid] == iobj {
						loopOver = rs.X
					}
				}
			}
			if loopOver == nil {
				return true // not a range index (classic for loops carry their own bound; out of this rule's reach)
			}
			n++
			total++
			x := core.ExprStr(ix.X)
			okIdx, why := false, ""
			xs := lenClass(ix.X)
			for _, a := range lenClass(loopOver) {
				for _, b := range xs {
					if a == b {
						okIdx, why = true, "same length as the ranged slice"
					}
					if r, ok := sameLengthByConstruction[[2]string{a, b}]; ok {
						okIdx, why = true, r
					}
					if r, ok := sameLengthByConstruction[[2]string{b, a}]; ok {
						okIdx, why = true, r
					}
				}
			}
			if !okIdx {
				for i := len(stack) - 1; i >= 0; i-- {
					if is, ok := stack[i].(*ast.IfStmt); ok {
						cs := core.ExprStr(is.Cond)
						if strings.Contains(cs, iid.Name+" < len("+x+")") || strings.Contains(cs, "len("+x+") > "+iid.Name) {
							// the index must be in the then-branch
							if i+1 < len(stack) && stack[i+1] == ast.Node(is.Body) {
								okIdx, why = true, "under an explicit length test"
							}
						}
					}
				}
			}
			ckey := fmt.Sprintf("%s/%s[%s] in a loop over %s", key, x, iid.Name, core.ExprStr(loopOver))
			c.Decide(okIdx, rule, ckey, ix.Pos(), 1, why,
				fmt.Sprintf("%s is indexed with the position in %s, but nothing relates the two lengths: when %s is shorter the index is out of range (COALESCE((a, b), (a, b, 1)) gives a 3-element target and a 2-element source)", x, core.ExprStr(loopOver), x))
			return true
		})
		_ = n
	}
	c.Floor(rule, 6, "loop-indexed slices of the layout fixer")
	_ = total
}
