package props

import (
	"fmt"
	"go/ast"
	"go/token"
	"go/types"
	"os"
	"path/filepath"
	"regexp"
	"strings"

	"octoverif/core"
)

// sameLengthByConstruction: pairs of slices that are always built with the same length, so a loop over one may index
// the other. One line of reason each.
var sameLengthByConstruction = map[[2]string]string{
	{"mapping.Struct.SourceIndex", "mapping.Struct.SourceMapping"}: "calculateMapping makes both with len(targetType.Struct.Fields) and stores them together",
}

// checkLoopIndexBounds (BOUNDS): in the named functions, a slice indexed with a loop variable is the slice the loop
// ranges over, a slice made with that slice's length (or the other way round), a pair listed as built together, or the
// index sits under an explicit `i < len(slice)` test. Anything else is an index that is in range only if two unrelated
// lengths happen to agree — the layout fixer indexed the source tuple's elements while ranging over the target's.
func checkLoopIndexBounds(c *core.Ctx, rule string, specs [][2]string) {
	p := c.Prog
	total := 0
	for _, spec := range specs {
		fn := p.Func(spec[0], spec[1])
		key := spec[0] + "." + spec[1]
		if fn == nil {
			c.Unknown(rule, key, 0, "anchor not found")
			continue
		}
		c.SawFunc(key)
		info := fn.Info()
		// made[x] = "Z" for `x := make([]T, len(Z))`
		made := map[types.Object]string{}
		ast.Inspect(fn.Decl.Body, func(n ast.Node) bool {
			as, ok := n.(*ast.AssignStmt)
			if !ok || as.Tok != token.DEFINE || len(as.Lhs) != 1 || len(as.Rhs) != 1 {
				return true
			}
			id, ok := as.Lhs[0].(*ast.Ident)
			if !ok {
				return true
			}
			call, ok := as.Rhs[0].(*ast.CallExpr)
			if !ok || core.ExprStr(call.Fun) != "make" || len(call.Args) != 2 {
				return true
			}
			if l, ok := call.Args[1].(*ast.CallExpr); ok && core.ExprStr(l.Fun) == "len" && len(l.Args) == 1 {
				made[info.Defs[id]] = core.ExprStr(l.Args[0])
			}
			return true
		})
		lenClass := func(e ast.Expr) []string {
			out := []string{core.ExprStr(e)}
			if id, ok := core.Unparen(e).(*ast.Ident); ok {
				if z, ok := made[info.Uses[id]]; ok {
					out = append(out, z)
				}
			}
			return out
		}
		n := 0
		core.WalkStack(fn.Decl.Body, func(nd ast.Node, stack []ast.Node) bool {
			ix, ok := nd.(*ast.IndexExpr)
			if !ok {
				return true
			}
			iid, ok := core.Unparen(ix.Index).(*ast.Ident)
			if !ok {
				return true
			}
			if _, isSlice := info.TypeOf(ix.X).Underlying().(*types.Slice); !isSlice {
				return true
			}
			iobj := info.Uses[iid]
			// the loop that defines the index variable
			var loopOver ast.Expr
			for i := len(stack) - 1; i >= 0 && loopOver == nil; i-- {
				if rs, ok := stack[i].(*ast.RangeStmt); ok && rs.Key != nil {
					if kid, ok := rs.Key.(*ast.Ident); ok && info.Defs[kid] == iobj && rs.Value == nil || ok && info.Defs[kid] == iobj {
						loopOver = rs.X
					}
				}
			}
			if loopOver == nil {
				return true // not a range index (classic for loops carry their own bound; out of this rule's reach)
			}
			n++
			total++
			x := core.ExprStr(ix.X)
			okIdx, why := false, ""
			xs := lenClass(ix.X)
			for _, a := range lenClass(loopOver) {
				for _, b := range xs {
					if a == b {
						okIdx, why = true, "same length as the ranged slice"
					}
					if r, ok := sameLengthByConstruction[[2]string{a, b}]; ok {
						okIdx, why = true, r
					}
					if r, ok := sameLengthByConstruction[[2]string{b, a}]; ok {
						okIdx, why = true, r
					}
				}
			}
			if !okIdx {
				for i := len(stack) - 1; i >= 0; i-- {
					if is, ok := stack[i].(*ast.IfStmt); ok {
						cs := core.ExprStr(is.Cond)
						if strings.Contains(cs, iid.Name+" < len("+x+")") || strings.Contains(cs, "len("+x+") > "+iid.Name) {
							// the index must be in the then-branch
							if i+1 < len(stack) && stack[i+1] == ast.Node(is.Body) {
								okIdx, why = true, "under an explicit length test"
							}
						}
					}
				}
			}
			ckey := fmt.Sprintf("%s/%s[%s] in a loop over %s", key, x, iid.Name, core.ExprStr(loopOver))
			c.Decide(okIdx, rule, ckey, ix.Pos(), 1, why,
				fmt.Sprintf("%s is indexed with the position in %s, but nothing relates the two lengths: when %s is shorter the index is out of range (COALESCE((a, b), (a, b, 1)) gives a 3-element target and a 2-element source)", x, core.ExprStr(loopOver), x))
			return true
		})
		_ = n
	}
	c.Floor(rule, 6, "loop-indexed slices of the layout fixer")
	_ = total
}

// checkLoopClosures (LOOPCLOSURE): the module's Go version (go.mod: go < 1.22) gives a loop ONE variable per loop, not
// per iteration. A function literal that mentions a loop variable and outlives the iteration — stored in a map, slice,
// field or outer variable, started with `go`, or deferred — therefore sees the value of the *last* iteration when it
// finally runs (every file extension handled by the last plugin the map iteration visited), and a goroutine reads it
// while the loop writes it. Such a literal needs its own copy (`v := v` inside the loop, or a parameter).
func checkLoopClosures(c *core.Ctx, rule string, pkgs []string) {
	p := c.Prog
	// Go version of the module under analysis
	if gm, err := os.ReadFile(filepath.Join(p.Root, "go.mod")); err == nil {
		if m := regexp.MustCompile(`(?m)^go\s+1\.(\d+)`).FindStringSubmatch(string(gm)); m != nil {
			minor := 0
			fmt.Sscanf(m[1], "%d", &minor)
			if minor >= 22 {
				c.OK(rule, "<go.mod>", 0, 1, "go >= 1.22: loop variables are per iteration")
				return
			}
		}
	}
	loops, lits := 0, 0
	for _, fn := range p.AllFuncs(pkgs...) {
		info := fn.Info()
		name := p.FName(fn)
		core.WalkStack(fn.Decl.Body, func(nd ast.Node, stack []ast.Node) bool {
			lit, ok := nd.(*ast.FuncLit)
			if !ok {
				return true
			}
			// loop variables of every enclosing loop (within this function, not beyond an enclosing literal)
			vars := map[types.Object]ast.Stmt{}
			for i := len(stack) - 1; i >= 0; i-- {
				if _, isLit := stack[i].(*ast.FuncLit); isLit {
					break
				}
				switch x := stack[i].(type) {
				case *ast.RangeStmt:
					if x.Tok == token.DEFINE {
						for _, e := range []ast.Expr{x.Key, x.Value} {
							if id, ok := e.(*ast.Ident); ok && id.Name != "_" {
								if o := info.Defs[id]; o != nil {
									vars[o] = x
								}
							}
						}
					}
				case *ast.ForStmt:
					if as, ok := x.Init.(*ast.AssignStmt); ok && as.Tok == token.DEFINE {
						for _, l := range as.Lhs {
							if id, ok := l.(*ast.Ident); ok {
								if o := info.Defs[id]; o != nil {
									vars[o] = x
								}
							}
						}
					}
				}
			}
			if len(vars) == 0 {
				return true
			}
			loops++
			var captured []string
			ast.Inspect(lit.Body, func(m ast.Node) bool {
				if id, ok := m.(*ast.Ident); ok {
					if _, isLoopVar := vars[info.Uses[id]]; isLoopVar {
						dup := false
						for _, s := range captured {
							if s == id.Name {
								dup = true
							}
						}
						if !dup {
							captured = append(captured, id.Name)
						}
					}
				}
				return true
			})
			if len(captured) == 0 {
				return true
			}
			lits++
			// does the literal outlive the iteration?
			how := ""
			parent := stack[len(stack)-1]
			switch pr := parent.(type) {
			case *ast.AssignStmt:
				for i, r := range pr.Rhs {
					if r != ast.Expr(lit) || i >= len(pr.Lhs) {
						continue
					}
					switch l := pr.Lhs[i].(type) {
					case *ast.IndexExpr:
						how = "stored in " + core.ExprStr(l.X)
					case *ast.SelectorExpr:
						how = "stored in " + core.ExprStr(l)
					case *ast.Ident:
						if o := info.Uses[l]; o != nil {
							for _, loop := range vars {
								if o.Pos() < loop.Pos() || o.Pos() > loop.End() {
									how = "stored in " + l.Name + ", declared outside the loop"
								}
							}
						}
					}
				}
			case *ast.KeyValueExpr, *ast.CompositeLit:
				how = "stored in a composite value"
			case *ast.CallExpr:
				if pr.Fun == ast.Expr(lit) {
					// called on the spot: `go func(){…}()` / `defer func(){…}()` / plain call
					if len(stack) >= 2 {
						switch stack[len(stack)-2].(type) {
						case *ast.GoStmt:
							how = "started as a goroutine"
						case *ast.DeferStmt:
							how = "deferred until the function returns"
						}
					}
				} else if core.ExprStr(pr.Fun) == "append" {
					how = "appended to a slice"
				}
			case *ast.ReturnStmt:
				how = "returned"
			}
			if how == "" {
				return true
			}
			c.SawFunc(name)
			c.Bad(rule, fmt.Sprintf("%s/closure over %s", name, strings.Join(captured, ", ")), lit.Pos(), 1,
				fmt.Sprintf("a function literal that uses the loop variable(s) %s is %s; with this module's Go version all iterations share one variable, so when the literal runs it sees the last iteration's value (and a goroutine reads it while the loop writes it) — copy the variable inside the loop", strings.Join(captured, ", "), how))
			return true
		})
	}
	c.OK(rule, "function literals inside loops in "+strings.Join(pkgs, ", "), 0, loops, fmt.Sprintf("%d literals inside loops, %d mention a loop variable; the escaping ones are reported", loops, lits))
	c.Floor(rule, 1, "literals scanned")
}

// printfLike: position of the format argument of printf-style functions.
var printfLike = map[string]int{
	"fmt.Printf": 0, "fmt.Sprintf": 0, "fmt.Errorf": 0, "fmt.Fprintf": 1,
	"log.Printf": 0, "log.Fatalf": 0, "log.Panicf": 0,
	"github.com/pkg/errors.Errorf": 0, "github.com/pkg/errors.Wrapf": 1,
}

// checkFormatStrings (FMTSTR): the format argument of a printf-style call is a constant. A format built from data
// (`fmt.Fprintf(w, record.String()+"\n")`) interprets every % in the data as a verb: the value 'x%b' prints as
// 'x%!b(MISSING)' — the printed row is not the row.
func checkFormatStrings(c *core.Ctx, rule string, pkgs []string) {
	p := c.Prog
	calls := 0
	for _, fn := range p.AllFuncs(pkgs...) {
		info := fn.Info()
		name := p.FName(fn)
		n := 0
		ast.Inspect(fn.Decl.Body, func(nd ast.Node) bool {
			call, ok := nd.(*ast.CallExpr)
			if !ok {
				return true
			}
			f, ok := core.Callee(info, call).(*types.Func)
			if !ok || f.Pkg() == nil {
				return true
			}
			idx, isPrintf := printfLike[f.Pkg().Path()+"."+f.Name()]
			if !isPrintf || idx >= len(call.Args) {
				return true
			}
			calls++
			if tv := info.Types[call.Args[idx]]; tv.Value != nil {
				return true
			}
			// a printf wrapper: the format is a parameter of an unexported function, and every caller hands a
			// constant to that parameter
			if k := paramIndex(fn, info, call.Args[idx]); k >= 0 && fn.Obj != nil && !fn.Obj.Exported() {
				callers := staticCallers(p, fn)
				allConst := len(callers) > 0
				for _, cs := range callers {
					if k >= len(cs.call.Args) || cs.call.Ellipsis.IsValid() {
						allConst = false
						continue
					}
					if tv := cs.fn.Info().Types[cs.call.Args[k]]; tv.Value == nil {
						allConst = false
					}
				}
				if allConst {
					return true
				}
			}
			n++
			c.SawFunc(name)
			c.Bad(rule, fmt.Sprintf("%s→%s.%s#%d", name, f.Pkg().Name(), f.Name(), n), call.Pos(), 1,
				fmt.Sprintf("the format argument %s is not a constant: any %% in the text it carries is read as a verb (a value 'x%%b' comes out as 'x%%!b(MISSING)'); print data with a constant format or with Fprint/Fprintln", core.ExprStr(call.Args[idx])))
			return true
		})
	}
	c.OK(rule, "printf-style calls in "+strings.Join(pkgs, ", "), 0, calls, fmt.Sprintf("%d printf-style calls scanned", calls))
	c.Floor(rule, 1, "printf-style calls scanned")
}
