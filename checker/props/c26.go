package props

import (
	"fmt"
	"go/ast"
	"go/token"
	"go/types"
	"reflect"
	"sort"
	"strings"

	"octoverif/core"
	"octoverif/engine/absint"
)

// C26 — the plugin protocol carries data and predicates without change.
//
//	CODEC   the two directions of the value codec and of the type codec are arm-by-arm inverses: same case labels, the
//	        proto field one side writes is the one the other reads, the native payload one side reads is the one the
//	        other writes, timestamp/duration conversions and recursion are paired.
//	MSG     record, metadata, schema, schema-field and variable-context messages: each native field is written to one
//	        proto field and read back from the same one, and every field of the native struct is carried; context frames
//	        are appended innermost-first and rebuilt from the last frame inwards.
//	REPOP   RepopulatePhysicalExpressionFunctions, interpreted per case (not a call / unknown name / no descriptor matches /
//	        a descriptor matches): the implementation is restored from a descriptor agreeing in arity, strictness, output
//	        type and every argument type, and in every other function-call case the result is reported as not ok.
//	JSONRT  the type graph of physical.Expression (what encoding/json walks) holds no func/chan/interface/unexported
//	        field that is not excluded; the excluded fields are exactly those REPOP restores; sub-queries never reach the
//	        encoder (filtered by containsSubquery, which looks at every sub-expression).
//	USE     expressions decoded from the wire are replaced by their repopulated form, and a failed repopulation is
//	        handled, before they reach the optimizer (host) or Materialize (plugin).
//	PAN5    the codec switches list every TypeID.
func init() {
	register(&Check{ID: "C26", Run: runC26,
		Explanation: "CODEC: the value and type codecs are arm-by-arm inverses (labels, proto field written/read, native payload read/written, paired conversions and recursion). " +
			"MSG: record, metadata, schema, field and variable-context messages carry every native field through one proto field and back; frames innermost-first, rebuilt from the last. " +
			"REPOP: function implementations are restored only from a descriptor agreeing in arity, strictness, output and argument types; every other function-call case reports not-ok. " +
			"JSONRT: the JSON-encoded type graph of physical.Expression has no unencodable or silently dropped field besides the ones REPOP restores; sub-queries are filtered before encoding. " +
			"USE: decoded expressions are replaced by their repopulated form with failure handled before use. PAN5: codec switches are exhaustive.",
		NotDecided: []string{
			"equality of a table's rows served by a plugin with the same data queried natively (end-to-end behaviour of plugin binaries)",
			"that evaluation of a predicate gives the same result on both sides for every value (follows from CODEC+REPOP+JSONRT given the same function table on both sides; float NaN/Inf constants make json.Marshal fail and are not decided)",
			"protobuf/gRPC and encoding/json themselves",
		},
		Assumptions: []string{"host and plugin are built from the same functions.FunctionMap"},
	})
}

func runC26(c *core.Ctx) {
	c.Rule("LOOPCLOSURE", "no function literal that outlives its iteration uses a shared loop variable")
	checkLoopClosures(c, "LOOPCLOSURE", []string{"cmd", "plugins", "datasources", "execution", "logical", "physical", "optimizer", "outputs", "functions", "aggregates", "table_valued_functions", "config", "helpers", "parser", "octosql", "telemetry"})
	c.Rule("CODEC", "value/type codecs are arm-by-arm inverses")
	c.Rule("MSG", "message codecs carry every native field there and back")
	c.Rule("REPOP", "implementations restored only from a fully matching descriptor; otherwise not ok")
	c.Rule("JSONRT", "the JSON-encoded expression type graph loses nothing but what REPOP restores")
	c.Rule("USE", "decoded expressions are repopulated (failure handled) before use")
	c.Rule("PAN5", "codec switches are exhaustive")
	c.Rule("WIRESTR", "string values travel as bytes")
	checkWireStringFields(c)
	checkCodecPair(c, "NativeValueToProto", "(*Value).ToNativeValue")
	checkCodecPair(c, "NativeTypeToProto", "(*Type).ToNativeType")
	checkMessagePairs(c)
	checkRepopulate(c)
	checkExpressionJSON(c)
	checkRepopulatedUse(c)
	checkEnumSwitches(c, []string{"plugins/internal/plugins"}, func(name string) bool {
		return strings.Contains(name, "ToProto") || strings.Contains(name, "ToNative")
	})
	c.Floor("PAN5", 4, "value and type codecs switch over TypeID in both directions")
}

const pluginsPkg = "plugins/internal/plugins"

type codecArm struct {
	labels       string
	writes       []string // fields of `out` assigned
	reads        []string // first field selected from the input
	convs        []string
	recursive    bool
	pos          token.Pos
	nonEmptyBody bool
}

// codecArms extracts, per case clause of the function's TypeID switch, what is written to `out` and read from the input.
func codecArms(p *core.Program, fn *core.FuncRef, input string, self string) (map[string]*codecArm, string) {
	info := fn.Info()
	var sw *ast.SwitchStmt
	ast.Inspect(fn.Decl.Body, func(n ast.Node) bool {
		if s, ok := n.(*ast.SwitchStmt); ok && sw == nil {
			sw = s
		}
		return true
	})
	if sw == nil {
		return nil, "no switch found"
	}
	arms := map[string]*codecArm{}
	for _, cl := range sw.Body.List {
		cc := cl.(*ast.CaseClause)
		if cc.List == nil {
			continue
		}
		var ls []string
		for _, e := range cc.List {
			s := core.ExprStr(e)
			ls = append(ls, s[strings.LastIndex(s, ".")+1:])
		}
		sort.Strings(ls)
		arm := &codecArm{labels: strings.Join(ls, ","), pos: cc.Pos(), nonEmptyBody: len(cc.Body) > 0}
		seenW, seenR, seenC := map[string]bool{}, map[string]bool{}, map[string]bool{}
		for _, st := range cc.Body {
			ast.Inspect(st, func(n ast.Node) bool {
				switch x := n.(type) {
				case *ast.AssignStmt:
					for _, l := range x.Lhs {
						if se, ok := l.(*ast.SelectorExpr); ok {
							root, path := selectorRoot(se)
							if root == "out" && len(path) > 0 && !seenW[path[0]] {
								seenW[path[0]] = true
								arm.writes = append(arm.writes, path[0])
							}
						}
					}
				case *ast.SelectorExpr:
					root, path := selectorRoot(x)
					if root == input && len(path) > 0 && !seenR[path[0]] {
						seenR[path[0]] = true
						arm.reads = append(arm.reads, path[0])
					}
				case *ast.CallExpr:
					name := p.CalleeName(info, x)
					switch {
					case name == self:
						arm.recursive = true
					case strings.HasSuffix(name, "timestamppb.New"), strings.Contains(name, "timestamppb") && strings.HasSuffix(name, ".AsTime"):
						if !seenC["time"] {
							seenC["time"] = true
							arm.convs = append(arm.convs, "time")
						}
					case strings.HasSuffix(name, "durationpb.New"), strings.Contains(name, "durationpb") && strings.HasSuffix(name, ".AsDuration"):
						if !seenC["duration"] {
							seenC["duration"] = true
							arm.convs = append(arm.convs, "duration")
						}
					}
				}
				return true
			})
		}
		sort.Strings(arm.writes)
		sort.Strings(arm.reads)
		arms[arm.labels] = arm
	}
	return arms, ""
}

func selectorRoot(se *ast.SelectorExpr) (string, []string) {
	var path []string
	var cur ast.Expr = se
	for {
		switch x := cur.(type) {
		case *ast.SelectorExpr:
			path = append([]string{x.Sel.Name}, path...)
			cur = x.X
		case *ast.IndexExpr:
			cur = x.X
		case *ast.StarExpr:
			cur = x.X
		case *ast.ParenExpr:
			cur = x.X
		case *ast.Ident:
			return x.Name, path
		default:
			return "", nil
		}
	}
}

func checkCodecPair(c *core.Ctx, toProto, toNative string) {
	p := c.Prog
	a, b := p.Func(pluginsPkg, toProto), p.Func(pluginsPkg, toNative)
	key := pluginsPkg + "." + toProto + "↔" + toNative
	if a == nil || b == nil {
		c.Unknown("CODEC", key, 0, "anchor not found")
		return
	}
	c.SawFunc(pluginsPkg + "." + toProto)
	c.SawFunc(pluginsPkg + "." + toNative)
	inA := a.Decl.Type.Params.List[0].Names[0].Name
	inB := b.Decl.Recv.List[0].Names[0].Name
	armsA, e1 := codecArms(p, a, inA, pluginsPkg+"."+toProto)
	armsB, e2 := codecArms(p, b, inB, pluginsPkg+"."+toNative)
	if e1 != "" || e2 != "" {
		c.Unknown("CODEC", key, a.Decl.Pos(), e1+e2)
		return
	}
	// the TypeID itself
	tidA := strings.Contains(core.FullStr(a.Decl.Body), "TypeId: int32("+inA+".TypeID)")
	tidB := strings.Contains(core.FullStr(b.Decl.Body), "TypeID: octosql.TypeID("+inB+".TypeId)")
	c.Decide(tidA && tidB, "CODEC", key+"/type id", a.Decl.Pos(), 2, "the TypeID is carried both ways", "the TypeID must be written as int32(v.TypeID) and read back as octosql.TypeID(x.TypeId)")
	var labels []string
	for l := range armsA {
		labels = append(labels, l)
	}
	for l := range armsB {
		if armsA[l] == nil {
			labels = append(labels, l)
		}
	}
	sort.Strings(labels)
	for _, l := range labels {
		x, y := armsA[l], armsB[l]
		akey := key + "/case " + l
		if x == nil || y == nil {
			pos := token.NoPos
			if x != nil {
				pos = x.pos
			} else {
				pos = y.pos
			}
			c.Bad("CODEC", akey, pos, 1, "the two directions group the TypeIDs differently: `case "+l+"` exists in one of them only, so some kind is encoded by one rule and decoded by another")
			continue
		}
		bad := ""
		switch {
		case !reflect.DeepEqual(x.writes, y.reads):
			bad = fmt.Sprintf("%s writes proto field(s) %v, %s reads %v", toProto, x.writes, toNative, y.reads)
		case !reflect.DeepEqual(x.reads, y.writes):
			bad = fmt.Sprintf("%s reads native field(s) %v, %s writes %v", toProto, x.reads, toNative, y.writes)
		case !reflect.DeepEqual(x.convs, y.convs):
			bad = fmt.Sprintf("conversions differ: %v vs %v (timestamppb.New ↔ AsTime, durationpb.New ↔ AsDuration)", x.convs, y.convs)
		case x.recursive != y.recursive:
			bad = fmt.Sprintf("only one direction recurses into the elements (%v vs %v)", x.recursive, y.recursive)
		}
		c.Decide(bad == "", "CODEC", akey, x.pos, 1, fmt.Sprintf("proto %v ↔ native %v", x.writes, x.reads), "the two directions are not inverse for this kind: "+bad)
	}
	c.Floor("CODEC", 15, "value codec has 10 arms, type codec 5, plus the type ids")
}

// ---------------------------------------------------------------- messages

type litMap map[string][]string // literal key -> native/proto fields its value is computed from

// literalSources: for the composite literal of the result, which fields of the input each key is computed from.
func literalSources(fn *core.FuncRef, input string, resultType string) litMap {
	// local variable -> input fields used to compute it
	locals := map[string]map[string]bool{}
	note := func(v string, e ast.Node) {
		ast.Inspect(e, func(n ast.Node) bool {
			if se, ok := n.(*ast.SelectorExpr); ok {
				root, path := selectorRoot(se)
				if root == input && len(path) > 0 {
					if locals[v] == nil {
						locals[v] = map[string]bool{}
					}
					locals[v][path[0]] = true
					return false
				}
			}
			if id, ok := n.(*ast.Ident); ok && locals[id.Name] != nil && id.Name != v {
				for f := range locals[id.Name] {
					if locals[v] == nil {
						locals[v] = map[string]bool{}
					}
					locals[v][f] = true
				}
			}
			return true
		})
	}
	for pass := 0; pass < 3; pass++ {
		ast.Inspect(fn.Decl.Body, func(n ast.Node) bool {
			if as, ok := n.(*ast.AssignStmt); ok {
				for i, l := range as.Lhs {
					root := ""
					switch x := l.(type) {
					case *ast.Ident:
						root = x.Name
					case *ast.IndexExpr:
						if id, ok := x.X.(*ast.Ident); ok {
							root = id.Name
						}
					}
					if root != "" && i < len(as.Rhs) {
						note(root, as.Rhs[i])
					} else if root != "" && len(as.Rhs) == 1 {
						note(root, as.Rhs[0])
					}
				}
			}
			return true
		})
	}
	out := litMap{}
	ast.Inspect(fn.Decl.Body, func(n ast.Node) bool {
		cl, ok := n.(*ast.CompositeLit)
		if !ok || !strings.HasSuffix(core.ExprStr(cl.Type), resultType) {
			return true
		}
		for _, el := range cl.Elts {
			kv, ok := el.(*ast.KeyValueExpr)
			if !ok {
				continue
			}
			k := core.ExprStr(kv.Key)
			set := map[string]bool{}
			ast.Inspect(kv.Value, func(m ast.Node) bool {
				if se, ok := m.(*ast.SelectorExpr); ok {
					root, path := selectorRoot(se)
					if root == input && len(path) > 0 {
						set[path[0]] = true
						return false
					}
				}
				if id, ok := m.(*ast.Ident); ok {
					for f := range locals[id.Name] {
						set[f] = true
					}
				}
				return true
			})
			var fs []string
			for f := range set {
				fs = append(fs, f)
			}
			sort.Strings(fs)
			out[k] = fs
		}
		return false
	})
	return out
}

func checkMessagePairs(c *core.Ctx) {
	p := c.Prog
	type pair struct {
		toProto, toNative  string
		protoT, nativeT    string
		nativePkg, nativeN string
		skip               map[string]bool
	}
	pairs := []pair{
		{"NativeRecordToProto", "(*Record).ToNativeRecord", "Record", "execution.Record", "execution", "Record", nil},
		{"NativeMetadataMessageToProto", "(*MetadataMessage).ToNativeMetadataMessage", "MetadataMessage", "execution.MetadataMessage", "execution", "MetadataMessage", nil},
		{"NativeSchemaToProto", "(*Schema).ToNativeSchema", "Schema", "physical.Schema", "physical", "Schema", nil},
	}
	for _, pr := range pairs {
		a, b := p.Func(pluginsPkg, pr.toProto), p.Func(pluginsPkg, pr.toNative)
		key := pluginsPkg + "." + pr.toProto + "↔" + pr.toNative
		if a == nil || b == nil {
			c.Unknown("MSG", key, 0, "anchor not found")
			continue
		}
		c.SawFunc(pluginsPkg + "." + pr.toProto)
		c.SawFunc(pluginsPkg + "." + pr.toNative)
		inA := a.Decl.Type.Params.List[0].Names[0].Name
		inB := b.Decl.Recv.List[0].Names[0].Name
		la := literalSources(a, inA, pr.protoT)
		lb := literalSources(b, inB, pr.nativeT)
		bad := ""
		// forward: proto key K ← native fields; back: native key N ← proto fields; must invert
		for k, ns := range la {
			if len(ns) != 1 {
				bad = fmt.Sprintf("proto field %s is computed from native fields %v (expected exactly one)", k, ns)
				continue
			}
			back := lb[ns[0]]
			if len(back) != 1 || back[0] != k {
				bad = fmt.Sprintf("native field %s is sent as proto field %s but read back from %v", ns[0], k, back)
			}
		}
		// every field of the native struct is carried
		var missing []string
		if np := p.Pkg(pr.nativePkg); np != nil {
			if tn, ok := np.Types.Scope().Lookup(pr.nativeN).(*types.TypeName); ok {
				if st, ok := tn.Type().Underlying().(*types.Struct); ok {
					for i := 0; i < st.NumFields(); i++ {
						f := st.Field(i).Name()
						if _, ok := lb[f]; !ok {
							missing = append(missing, f)
						}
						sent := false
						for _, ns := range la {
							for _, n := range ns {
								if n == f {
									sent = true
								}
							}
						}
						if !sent {
							missing = append(missing, f+" (not sent)")
						}
					}
				}
			}
		}
		if bad == "" && len(missing) > 0 {
			bad = fmt.Sprintf("field(s) %v of %s do not make the round trip", missing, pr.nativeT)
		}
		if bad == "" && len(la) == 0 {
			bad = "no composite literal of the message type found"
		}
		c.Decide(bad == "", "MSG", key, a.Decl.Pos(), len(la), fmt.Sprintf("%d fields there and back", len(la)), bad)
	}
	// schema fields inside schema and contexts: Name/Type both ways
	for _, name := range []string{"NativeSchemaToProto", "(*Schema).ToNativeSchema", "NativePhysicalVariableContextToProto", "(*PhysicalVariableContext).ToNativePhysicalVariableContext"} {
		fn := p.Func(pluginsPkg, name)
		if fn == nil {
			c.Unknown("MSG", pluginsPkg+"."+name+"/schema field", 0, "anchor not found")
			continue
		}
		ok := false
		ast.Inspect(fn.Decl.Body, func(n ast.Node) bool {
			cl, isLit := n.(*ast.CompositeLit)
			if !isLit || !strings.HasSuffix(core.ExprStr(cl.Type), "SchemaField") {
				return true
			}
			nameOK, typeOK := false, false
			for _, el := range cl.Elts {
				if kv, isKV := el.(*ast.KeyValueExpr); isKV {
					v := core.ExprStr(kv.Value)
					switch core.ExprStr(kv.Key) {
					case "Name":
						nameOK = strings.HasSuffix(v, "].Name")
					case "Type":
						typeOK = strings.Contains(v, "].Type")
					}
				}
			}
			ok = nameOK && typeOK
			return true
		})
		c.Decide(ok, "MSG", pluginsPkg+"."+name+"/schema field", fn.Decl.Pos(), 2, "field i keeps its name and (converted) type", "a schema field must keep its own name and its own type (Name ← [i].Name, Type ← [i].Type)")
	}
	// frame order
	for _, pr := range [][2]string{{"NativePhysicalVariableContextToProto", "(*PhysicalVariableContext).ToNativePhysicalVariableContext"}, {"NativeExecutionVariableContextToProto", "(*ExecutionVariableContext).ToNativeExecutionVariableContext"}} {
		a, b := p.Func(pluginsPkg, pr[0]), p.Func(pluginsPkg, pr[1])
		key := pluginsPkg + "." + pr[0] + "↔" + pr[1] + "/frame order"
		if a == nil || b == nil {
			c.Unknown("MSG", key, 0, "anchor not found")
			continue
		}
		c.SawFunc(pluginsPkg + "." + pr[0])
		c.SawFunc(pluginsPkg + "." + pr[1])
		in := a.Decl.Type.Params.List[0].Names[0].Name
		src := core.FullStr(a.Decl.Body)
		appendOK := strings.Contains(src, "frames = append(frames,") && strings.Contains(src, in+" = "+in+".Parent") && strings.Contains(src, "for "+in+" != nil")
		// the rebuild loop counts down and chains Parent: out
		down, chain := false, false
		ast.Inspect(b.Decl.Body, func(n ast.Node) bool {
			if fs, ok := n.(*ast.ForStmt); ok && fs.Init != nil && fs.Post != nil {
				if strings.Contains(core.ExprStr(fs.Init), "len(") && strings.Contains(core.ExprStr(fs.Init), "- 1") && strings.HasSuffix(core.ExprStr(fs.Cond), ">= 0") {
					if inc, ok := fs.Post.(*ast.IncDecStmt); ok && inc.Tok == token.DEC {
						down = true
					}
				}
			}
			if kv, ok := n.(*ast.KeyValueExpr); ok && core.ExprStr(kv.Key) == "Parent" && core.ExprStr(kv.Value) == "out" {
				chain = true
			}
			return true
		})
		c.Decide(appendOK && down && chain, "MSG", key, a.Decl.Pos(), 3, "innermost frame first on the wire; rebuilt from the last frame inwards",
			fmt.Sprintf("frames must be appended while walking c → c.Parent and rebuilt from the last frame down with Parent: out, or variable lookups resolve in the wrong scope (append walk=%v, descending rebuild=%v, parent chain=%v)", appendOK, down, chain))
	}
}

// ---------------------------------------------------------------- repopulation

func checkRepopulate(c *core.Ctx) {
	p := c.Prog
	fn := p.Func(pluginsPkg, "RepopulatePhysicalExpressionFunctions")
	key := pluginsPkg + ".RepopulatePhysicalExpressionFunctions"
	if fn == nil {
		c.Unknown("REPOP", key, 0, "anchor not found")
		return
	}
	c.SawFunc(key)
	lit := transformerLit(fn, "ExpressionTransformer")
	if lit == nil {
		c.Unknown("REPOP", key, fn.Decl.Pos(), "no Transformers{ExpressionTransformer: func…} literal found")
		return
	}
	// the ok flag the function returns
	okName := ""
	ast.Inspect(fn.Decl.Body, func(n ast.Node) bool {
		if rs, ok := n.(*ast.ReturnStmt); ok && len(rs.Results) == 2 {
			if id, ok := rs.Results[1].(*ast.Ident); ok {
				okName = id.Name
			}
		}
		return true
	})
	if okName == "" {
		c.Unknown("REPOP", key, fn.Decl.Pos(), "the function does not return a named ok flag")
		return
	}
	fcConst := lookupConst(p, "physical", "ExpressionTypeFunctionCall")
	varConst := lookupConst(p, "physical", "ExpressionTypeVariable")
	pname := lit.Type.Params.List[0].Names[0].Name
	type scen struct {
		name  string
		call  bool
		known bool
		// the candidate descriptor carries a type function instead of a static signature
		typefn bool
		// which criterion fails in the descriptor tried ("" = all agree)
		fails string
	}
	scens := []scen{
		{"not a function call", false, false, false, ""},
		{"unknown function name", true, false, false, ""},
		{"static signature, descriptor agrees", true, true, false, ""},
		{"static signature, arity differs", true, true, false, "arity"},
		{"static signature, strictness differs", true, true, false, "strict"},
		{"static signature, output type differs", true, true, false, "output"},
		{"static signature, an argument type differs", true, true, false, "arg"},
		{"type function, accepts the arguments", true, true, true, ""},
		{"type function, strictness differs", true, true, true, "strict"},
		{"type function, rejects the arguments", true, true, true, "typefn"},
		{"type function, gives another output type", true, true, true, "output"},
		{"type function, but a static signature was received", true, true, true, "arity"},
	}
	for _, sc := range scens {
		sc := sc
		in := newInterp(p, fn)
		in.MaxPaths = 4000
		consulted := map[string]bool{}
		in.Hooks.Field = func(st *absint.State, base absint.Val, sel string) (absint.Val, bool) {
			switch {
			case sel == "ExpressionType" && base.Canon() == pname:
				if sc.call {
					return fcConst, true
				}
				return varConst, true
			case sel == "Strict" && strings.Contains(base.Canon(), "Descriptors["):
				return absint.Bool(true), true
			case sel == "Strict":
				consulted["strict"] = true
				return absint.Bool(sc.fails != "strict"), true
			}
			return nil, false
		}
		in.Hooks.Index = func(st *absint.State, x, i absint.Val) (absint.Val, bool) {
			// funcMap[name] -> (details, ok)
			if strings.Contains(i.Canon(), ".FunctionCall.Name") {
				return absint.S("DETAILS"), true
			}
			return nil, false
		}
		in.Hooks.Loop = func(st *absint.State, loop ast.Stmt) *absint.LoopSpec {
			x := ""
			switch l := loop.(type) {
			case *ast.RangeStmt:
				x = core.ExprStr(l.X)
			}
			if strings.Contains(x, "Descriptors") {
				return &absint.LoopSpec{Cases: []string{"D"}, MaxIter: 1, MinIter: 1, RefStep: func(ref, cs string) string { return "" }}
			}
			return &absint.LoopSpec{Cases: []string{"ARG"}, MaxIter: 1, MinIter: 1, RefStep: func(ref, cs string) string { return "" }}
		}
		in.Hooks.Cond = func(st *absint.State, atom string) (bool, bool) {
			switch {
			case strings.HasPrefix(atom, "ok:DETAILS"):
				return sc.known, true
			case strings.HasPrefix(atom, "(&") && strings.HasSuffix(atom, ".TypeFn == nil)"):
				return !sc.typefn, true
			case strings.HasPrefix(atom, "(&") && strings.HasSuffix(atom, " == nil)"):
				return false, true // the address of a table entry
			case strings.Contains(atom, "value:TypeFn(") && strings.HasSuffix(atom, ".1"):
				consulted["typefn"] = true
				return sc.fails != "typefn", true
			case strings.Contains(atom, "len(") && strings.Contains(atom, "ArgumentTypes") && strings.Contains(atom, "=="):
				consulted["arity"] = true
				return sc.fails != "arity", true
			case strings.Contains(atom, "octosql.Type.Is(octosql.Null"):
				return false, true // non-nullable arguments in this scenario
			}
			return false, false
		}
		in.Hooks.Call = func(st *absint.State, call *ast.CallExpr, callee string, recv absint.Val, args []absint.Val) (absint.Val, bool) {
			switch callee {
			case "octosql.Type.Equals":
				rc := recv.Canon()
				if strings.Contains(rc, "OutputType") || strings.Contains(rc, "value:TypeFn(") {
					consulted["output"] = true
					return absint.Bool(sc.fails != "output"), true
				}
				if strings.Contains(rc, "ArgumentTypes") {
					consulted["arg"] = true
					return absint.Bool(sc.fails != "arg"), true
				}
			case "log.Printf":
				return absint.Nil{}, true
			}
			return nil, false
		}
		outs, err := runLit(in, lit, func(st *absint.State, bind func(string, absint.Val)) {}, "")
		ckey := key + "/" + sc.name
		if err != nil {
			c.Unknown("REPOP", ckey, lit.Pos(), err.Error())
			continue
		}
		bad := ""
		for _, o := range outs {
			if o.Kind != "return" {
				bad = "unexpected outcome " + o.String()
				continue
			}
			okVal, okSet := o.Env[okName]
			notOK := okSet && absint.IsFalse(okVal)
			restored := map[string]string{}
			for _, e := range o.Events {
				if strings.HasPrefix(e.Name, "store ") && len(e.Args) == 1 && strings.Contains(e.Name, "FunctionDescriptor.") {
					restored[e.Name[strings.LastIndex(e.Name, ".")+1:]] = e.Args[0].Canon()
				}
			}
			switch {
			case !sc.call:
				if notOK || len(restored) > 0 {
					bad = "an expression that is not a function call must pass through untouched"
				}
			case sc.known && sc.fails == "":
				if notOK {
					bad = "a descriptor agreeing in every criterion is rejected"
				}
				if !strings.HasSuffix(restored["Function"], ".Function") || !strings.HasSuffix(restored["TypeFn"], ".TypeFn") || !strings.Contains(restored["Function"], ".Descriptors[") {
					bad = fmt.Sprintf("with an agreeing descriptor both Function and TypeFn must be restored from it (restored: %v)", restored)
				}
				need := []string{"arity", "strict", "output", "arg"}
				if sc.typefn {
					need = []string{"strict", "typefn", "output"}
				}
				for _, cr := range need {
					if !consulted[cr] {
						bad = fmt.Sprintf("the descriptor is accepted without consulting %s: another overload's implementation may be attached", map[string]string{"arity": "the number of arguments", "strict": "its strictness", "output": "its output type", "arg": "its argument types", "typefn": "its type function on the actual argument types (descriptors with a type function have no static signature on the wire: several of them look identical)"}[cr])
					}
				}
			default:
				if len(restored) > 0 {
					bad = fmt.Sprintf("an implementation is attached although: %s", sc.name)
				}
				if !notOK {
					bad = fmt.Sprintf("%s: the function call keeps a nil implementation, yet the result is reported as ok (%s is not set to false) — the predicate is accepted and crashes when evaluated", sc.name, okName)
				}
			}
		}
		if len(outs) == 0 {
			bad = "no outcome"
		}
		c.Decide(bad == "", "REPOP", ckey, lit.Pos(), len(outs), "restored from an agreeing descriptor or reported not ok", bad)
	}
	// the typechecker takes the last descriptor accepting the arguments; repopulation must not stop at the first
	lastWins := true
	ast.Inspect(lit.Body, func(n ast.Node) bool {
		rs, ok := n.(*ast.RangeStmt)
		if !ok || !strings.Contains(core.ExprStr(rs.X), "Descriptors") {
			return true
		}
		ast.Inspect(rs.Body, func(m ast.Node) bool {
			if _, ok := m.(*ast.FuncLit); ok {
				return false
			}
			if _, ok := m.(*ast.ReturnStmt); ok {
				lastWins = false
			}
			return true
		})
		return true
	})
	tc := p.Func("logical", "(*FunctionExpression).Typecheck")
	tcLast := false
	if tc != nil {
		ast.Inspect(tc.Decl.Body, func(n ast.Node) bool {
			rs, ok := n.(*ast.RangeStmt)
			if !ok || !strings.Contains(core.ExprStr(rs.X), "Descriptors") {
				return true
			}
			hasBreak := false
			for _, s := range rs.Body.List {
				ast.Inspect(s, func(m ast.Node) bool {
					if b, ok := m.(*ast.BranchStmt); ok && b.Tok == token.BREAK {
						hasBreak = true
					}
					return true
				})
			}
			if !hasBreak {
				tcLast = true
			}
			return true
		})
	}
	c.Decide(tc != nil && lastWins == tcLast, "REPOP", key+"/same choice as the typechecker", lit.Pos(), 1, "both take the last descriptor that accepts the arguments",
		fmt.Sprintf("the typechecker and the repopulation must choose among several accepting descriptors the same way (typechecker: last wins=%v; repopulation: last wins=%v)", tcLast, lastWins))
}

// ---------------------------------------------------------------- JSON transport

func checkExpressionJSON(c *core.Ctx) {
	p := c.Prog
	pkg := p.Pkg("physical")
	if pkg == nil {
		c.Unknown("JSONRT", "physical", 0, "package not found")
		return
	}
	root, ok := pkg.Types.Scope().Lookup("Expression").(*types.TypeName)
	if !ok {
		c.Unknown("JSONRT", "physical.Expression", 0, "type not found")
		return
	}
	var problems []string
	excluded := map[string]bool{}
	seen := map[types.Type]bool{}
	nFields := 0
	var walk func(t types.Type, path string)
	walk = func(t types.Type, path string) {
		if seen[t] {
			return
		}
		seen[t] = true
		if n, ok := t.(*types.Named); ok {
			// types that encode themselves
			for i := 0; i < n.NumMethods(); i++ {
				if n.Method(i).Name() == "MarshalJSON" || n.Method(i).Name() == "MarshalText" {
					return
				}
			}
			if n.Obj().Pkg() != nil && n.Obj().Pkg().Path() == "time" {
				return
			}
		}
		switch u := t.Underlying().(type) {
		case *types.Pointer:
			walk(u.Elem(), path)
		case *types.Slice:
			walk(u.Elem(), path+"[]")
		case *types.Array:
			walk(u.Elem(), path+"[]")
		case *types.Map:
			walk(u.Elem(), path+"{}")
		case *types.Signature:
			problems = append(problems, path+" is a func (json.Marshal fails)")
		case *types.Chan:
			problems = append(problems, path+" is a chan (json.Marshal fails)")
		case *types.Interface:
			problems = append(problems, path+" is an interface (cannot be decoded back)")
		case *types.Struct:
			for i := 0; i < u.NumFields(); i++ {
				f := u.Field(i)
				tag := reflect.StructTag(u.Tag(i)).Get("json")
				fp := path + "." + f.Name()
				nFields++
				if tag == "-" {
					excluded[fp] = true
					continue
				}
				if !f.Exported() {
					problems = append(problems, fp+" is unexported (silently dropped by encoding/json)")
					continue
				}
				if f.Name() == "QueryExpression" && strings.HasSuffix(path, "Expression") {
					// sub-queries are filtered out before encoding (checked below)
					continue
				}
				walk(f.Type(), fp)
			}
		}
	}
	walk(root.Type(), "Expression")
	sort.Strings(problems)
	c.Decide(len(problems) == 0, "JSONRT", "physical.Expression/type graph", root.Pos(), nFields, fmt.Sprintf("%d fields reachable, all encodable and decodable", nFields),
		"predicates cross the plugin boundary as JSON: "+strings.Join(problems, "; "))
	// excluded fields are exactly what REPOP restores
	var ex []string
	for k := range excluded {
		ex = append(ex, k[strings.LastIndex(k, ".")+1:])
	}
	sort.Strings(ex)
	restored := map[string]bool{}
	if fn := p.Func(pluginsPkg, "RepopulatePhysicalExpressionFunctions"); fn != nil {
		ast.Inspect(fn.Decl.Body, func(n ast.Node) bool {
			if as, ok := n.(*ast.AssignStmt); ok && len(as.Lhs) == 1 {
				if se, ok := as.Lhs[0].(*ast.SelectorExpr); ok && strings.Contains(core.ExprStr(se), "FunctionDescriptor.") {
					restored[se.Sel.Name] = true
				}
			}
			return true
		})
	}
	var rs []string
	for k := range restored {
		rs = append(rs, k)
	}
	sort.Strings(rs)
	c.Decide(reflect.DeepEqual(ex, rs) && len(ex) > 0, "JSONRT", "physical.Expression/excluded fields", root.Pos(), len(ex), fmt.Sprintf("excluded from JSON %v = restored after decoding %v", ex, rs),
		fmt.Sprintf("fields excluded from the JSON encoding (%v) must be exactly the ones restored after decoding (%v): anything else arrives empty on the other side", ex, rs))

	// the sub-query filter
	fn := p.Func("plugins/executor", "(*PhysicalDatasource).PushDownPredicates")
	cs := p.Func("plugins/executor", "containsSubquery")
	if fn == nil || cs == nil {
		c.Unknown("JSONRT", "plugins/executor/subquery filter", 0, "anchor not found")
		return
	}
	c.SawFunc("plugins/executor.(*PhysicalDatasource).PushDownPredicates")
	c.SawFunc("plugins/executor.containsSubquery")
	info := fn.Info()
	// the list marshalled for NewPredicates is only appended to under !containsSubquery(x)
	marshalled := ""
	ast.Inspect(fn.Decl.Body, func(n ast.Node) bool {
		if as, ok := n.(*ast.AssignStmt); ok && len(as.Rhs) == 1 && len(as.Lhs) == 2 {
			if call, ok := as.Rhs[0].(*ast.CallExpr); ok && p.CalleeName(info, call) == "encoding/json.Marshal" && marshalled == "" {
				marshalled = strings.TrimPrefix(core.ExprStr(call.Args[0]), "&")
			}
		}
		return true
	})
	guarded, appends := 0, 0
	core.WalkStack(fn.Decl.Body, func(nd ast.Node, stack []ast.Node) bool {
		as, ok := nd.(*ast.AssignStmt)
		if !ok || len(as.Lhs) != 1 || core.ExprStr(as.Lhs[0]) != marshalled {
			return true
		}
		if call, ok := as.Rhs[0].(*ast.CallExpr); !ok || core.ExprStr(call.Fun) != "append" {
			return true
		}
		appends++
		for i := len(stack) - 1; i >= 0; i-- {
			if is, ok := stack[i].(*ast.IfStmt); ok {
				inBody := false
				ast.Inspect(is.Body, func(m ast.Node) bool {
					if m == ast.Node(as) {
						inBody = true
					}
					return true
				})
				if inBody && strings.HasPrefix(core.ExprStr(is.Cond), "!containsSubquery(") {
					guarded++
				}
				break
			}
		}
		return true
	})
	// containsSubquery: sets its result under ExpressionType == QueryExpression inside an ExpressionTransformer
	csOK := false
	if lit := transformerLit(cs, "ExpressionTransformer"); lit != nil {
		ast.Inspect(lit.Body, func(n ast.Node) bool {
			if is, ok := n.(*ast.IfStmt); ok && strings.Contains(core.ExprStr(is.Cond), "ExpressionType == physical.ExpressionTypeQueryExpression") {
				for _, s := range is.Body.List {
					if as, ok := s.(*ast.AssignStmt); ok && core.ExprStr(as.Rhs[0]) == "true" {
						csOK = true
					}
				}
			}
			return true
		})
	}
	c.Decide(marshalled != "" && appends >= 1 && guarded == appends && csOK, "JSONRT", "plugins/executor/subquery filter", fn.Decl.Pos(), 2,
		"only predicates without sub-queries are encoded; the test visits every sub-expression",
		fmt.Sprintf("a predicate holding a sub-query cannot be encoded (its plan holds interfaces): the list handed to json.Marshal (%s) must only receive predicates for which containsSubquery is false, and containsSubquery must flag QueryExpression anywhere in the tree (guarded appends %d/%d, detector ok=%v)", marshalled, guarded, appends, csOK))
}

// checkRepopulatedUse: decoded expression lists are replaced element-wise by their repopulated form and !ok is handled.
func checkRepopulatedUse(c *core.Ctx) {
	p := c.Prog
	type site struct {
		rel, fn string
		vars    []string
	}
	sites := []site{
		{"plugins/executor", "(*PhysicalDatasource).PushDownPredicates", []string{"outRejected", "outPushedDown"}},
		{"plugins", "(*physicalServer).Materialize", []string{"pushedDownPredicates"}},
	}
	n := 0
	for _, s := range sites {
		fn := p.Func(s.rel, s.fn)
		key := s.rel + "." + s.fn
		if fn == nil {
			c.Unknown("USE", key, 0, "anchor not found")
			continue
		}
		c.SawFunc(key)
		info := fn.Info()
		// variables decoded by json.Unmarshal with type []physical.Expression
		var decoded []string
		ast.Inspect(fn.Decl.Body, func(nd ast.Node) bool {
			if call, ok := nd.(*ast.CallExpr); ok && p.CalleeName(info, call) == "encoding/json.Unmarshal" && len(call.Args) == 2 {
				decoded = append(decoded, strings.TrimPrefix(core.ExprStr(call.Args[1]), "&"))
			}
			return true
		})
		for _, v := range decoded {
			n++
			okRepl, okHandled := false, false
			// the loop may sit in a helper that was handed the decoded list
			for _, bf := range helperClosureBound(p, fn) {
				bf := bf
				ast.Inspect(bf.fn.Decl.Body, func(nd ast.Node) bool {
					rs, ok := nd.(*ast.RangeStmt)
					if !ok || resolveText(core.ExprStr(rs.X), bf.binds) != v {
						return true
					}
					for k, st := range rs.Body.List {
						as, ok := st.(*ast.AssignStmt)
						if !ok || len(as.Lhs) != 2 || len(as.Rhs) != 1 {
							continue
						}
						call, ok := as.Rhs[0].(*ast.CallExpr)
						if !ok || !strings.HasSuffix(p.CalleeName(info, call), "RepopulatePhysicalExpressionFunctions") {
							continue
						}
						if strings.HasPrefix(resolveText(core.ExprStr(as.Lhs[0]), bf.binds), v+"[") && core.ExprStr(call.Args[0]) == core.ExprStr(as.Lhs[0]) {
							okRepl = true
						}
						okVar := core.ExprStr(as.Lhs[1])
						for _, later := range rs.Body.List[k+1:] {
							if is, ok := later.(*ast.IfStmt); ok && core.ExprStr(is.Cond) == "!"+okVar {
								for _, b := range is.Body.List {
									switch x := b.(type) {
									case *ast.ReturnStmt:
										okHandled = true
									case *ast.ExprStmt:
										if cl, ok := x.X.(*ast.CallExpr); ok && core.ExprStr(cl.Fun) == "panic" {
											okHandled = true
										}
									}
								}
							}
						}
					}
					return true
				})
			}
			c.Decide(okRepl && okHandled, "USE", key+"/"+v, fn.Decl.Pos(), 2, "each element replaced by its repopulated form; failure handled",
				fmt.Sprintf("%s comes off the wire without function implementations: every element must be replaced by RepopulatePhysicalExpressionFunctions' result and a failed repopulation must stop the call (replaced=%v, failure handled=%v)", v, okRepl, okHandled))
		}
	}
	c.Floor("USE", 3, "host decodes rejected and pushed-down predicates; the plugin decodes pushed-down predicates for Materialize")
	_ = n
}

// checkWireStringFields (WIRESTR): octosql strings are byte strings — datasources build them from raw file bytes and
// string literals keep whatever bytes the query text has. A proto3 `string` field must hold valid UTF-8: Marshal
// rejects anything else ("string field contains invalid UTF-8"), and JSON transport replaces the bytes with U+FFFD.
// So the message field that carries Value.Str has to be `bytes` ([]byte in the generated struct); with a Go string
// there a value such as "Jos\xe9" cannot cross the plugin boundary unchanged.
func checkWireStringFields(c *core.Ctx) {
	p := c.Prog
	pkg := p.Pkg(pluginsPkg)
	key := pluginsPkg + ".Value/string payload"
	if pkg == nil {
		c.Unknown("WIRESTR", key, 0, "package not found")
		return
	}
	obj := pkg.Types.Scope().Lookup("Value")
	if obj == nil {
		c.Unknown("WIRESTR", key, 0, "generated message Value not found")
		return
	}
	st, ok := obj.Type().Underlying().(*types.Struct)
	if !ok {
		c.Unknown("WIRESTR", key, obj.Pos(), "Value is not a struct")
		return
	}
	// which field does NativeValueToProto fill from value.Str?
	fn := p.Func(pluginsPkg, "NativeValueToProto")
	field := ""
	if fn != nil {
		ast.Inspect(fn.Decl.Body, func(n ast.Node) bool {
			switch v := n.(type) {
			case *ast.KeyValueExpr:
				if strings.HasSuffix(core.ExprStr(v.Value), ".Str") {
					field = core.ExprStr(v.Key)
				}
			case *ast.AssignStmt:
				if len(v.Lhs) == 1 && len(v.Rhs) == 1 && strings.HasSuffix(core.ExprStr(v.Rhs[0]), ".Str") {
					if sel, ok := v.Lhs[0].(*ast.SelectorExpr); ok {
						field = sel.Sel.Name
					}
				}
			}
			return true
		})
	}
	if field == "" {
		c.Unknown("WIRESTR", key, obj.Pos(), "the message field filled from Value.Str was not found in NativeValueToProto")
		return
	}
	for i := 0; i < st.NumFields(); i++ {
		f := st.Field(i)
		if f.Name() != field {
			continue
		}
		tag := st.Tag(i)
		isString := f.Type().String() == "string"
		proto3 := strings.Contains(tag, "proto3")
		c.Decide(!(isString && proto3), "WIRESTR", key, f.Pos(), 1, "carried as bytes",
			fmt.Sprintf("the message field %s that carries Value.Str is a proto3 string (tag %q): proto3 strings must be valid UTF-8, so a string value holding other bytes (latin-1 data read from a csv file, \"Jos\\xe9\") is rejected by Marshal or arrives with the bytes replaced — it does not come out of the wire encoding equal to what went in", field, tag))
		return
	}
	c.Unknown("WIRESTR", key, obj.Pos(), "field "+field+" not found in the generated struct")
}
