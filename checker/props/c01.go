package props

import (
	"fmt"
	"go/ast"
	"strings"

	"octoverif/core"
	"octoverif/engine/absint"
)

func init() {
	register(&Check{ID: "C01", Run: runC01,
		Explanation: "Structural necessary conditions of single-source SELECT semantics, each decided for all inputs by finite-domain abstract interpretation or exhaustiveness over closed enums. " +
			"ABS3: Filter forwards a record iff its predicate is Boolean TRUE (cases TRUE/FALSE/NULL/non-Boolean/error). " +
			"ABS4: both ORDER BY comparators order by the keys lexicographically honouring ASC/DESC multipliers, tie-break on the row values ascending and report equal rows as not-less (loop × reference-automaton product); with ABS1 (C09) and TypeIDNull = min(TypeID) this gives NULL-first. " +
			"ABS2/ORD5: AND/OR are the Kleene fold for every arity and strict calls short-circuit on NULL (shared with C11). USERS: Distinct's hashmap pairs Compare-equality with the hash of the whole row (shared with C09). " +
			"ABS5: Distinct and both ORDER BY multiset containers keep (item, count) consistently for count-before ∈ {0,1,2,≥3} × {add, retract}: count±1, item in the container iff count>0, and Distinct forwards the record exactly on 0→1 and 1→0. " +
			"PAN5/UNI1: every switch over NodeType/ExpressionType in physical (Materialize, Transform*, variablesUsed) lists every constant of the enum and touches only the payload of its own arm.",
		NotDecided: []string{"that parser.go builds the right plan shape for every query (WHERE above/below GROUP BY, alias resolution)", "expression evaluation results (C09/C11/C12/C13)", "the multiset equality itself, which quantifies over data"},
	})
}

func runC01(c *core.Ctx) {
	c.Rule("ORDPOS", "ORDER BY <position> is resolved or rejected, never sorted as a constant")
	checkOrderByOrdinal(c, "ORDPOS")
	c.Rule("CSVNUM", "csv: a column of integers and floats is inferred as Float")
	checkCSVNumericInference(c, "CSVNUM")
	c.Rule("STARQ", "q.* with a qualifier matching no column is rejected")
	checkStarQualifier(c, "STARQ")
	c.Rule("UNIQ", "output column names are made pairwise distinct")
	checkUniqueNaming(c, "UNIQ")
	c.Rule("FMTSTR", "printf-style calls have constant format strings")
	checkFormatStrings(c, "FMTSTR", []string{"outputs", "cmd", "execution", "physical", "logical", "datasources", "functions", "table_valued_functions", "aggregates", "octosql", "helpers"})
	c.Rule("ORD5L", "ordered emitters use Ascend; DeleteMax only under noRetractionsPossible and only while the tree holds more nodes than the limit")
	checkOrderedEmitters(c)
	c.Rule("EQNUM", "equality compares Int with Float numerically")
	checkNumericEquality(c, "EQNUM")
	c.Rule("CTEFRESH", "every reference to a common table expression gets fresh unique column names")
	checkCTEFreshNames(c, "CTEFRESH")
	c.Rule("MAPORDER", "no planner result depends on Go's map iteration order")
	checkMapOrder(c, "MAPORDER", []string{"logical", "physical", "optimizer", "parser"})
	c.Rule("TUPLE1", "a parsed value tuple stays a tuple for every length (x IN (e) is a one-element list)")
	checkTupleTranslation(c, "TUPLE1")
	c.Rule("PARSECOV", "no clause the grammar accepts is silently ignored by the parser")
	checkParserCoverage(c, "PARSECOV")
	ids := typeIDs(c.Prog)
	c.Rule("ABS3", "Filter forwards exactly the records whose predicate is Boolean TRUE")
	c.Rule("ABS4", "ORDER BY comparators: direction multipliers, value tie-break, irreflexive")
	c.Rule("ABS5", "multiset containers: count bookkeeping and membership; Distinct emits on 0→1 / 1→0 only")
	c.Rule("PAN5", "switches over plan enums are exhaustive")
	c.Rule("UNI1", "inside case X only payload X is touched")
	c.Rule("ABS2", "And/Or Evaluate equal the Kleene fold for every arity")
	c.Rule("ORD5", "FunctionCall.Evaluate: NULL in a checked argument ⇒ NULL result")
	c.Rule("USERS", "Distinct keys its rows with Compare-equality and Hash of the whole row")
	checkFilter(c, ids)
	checkKleene(c, ids, "And", "FALSE", "TRUE")
	checkKleene(c, ids, "Or", "TRUE", "FALSE")
	checkFunctionCall(c, ids)
	if checkHashmapSites(c, map[string]bool{"execution/nodes.(*Distinct).Run": true}) != 1 {
		c.Unknown("USERS", "execution/nodes.(*Distinct).Run/hashmap.New", 0, "hashmap site not found")
	}
	checkOrderByLess(c)
	checkMultiset(c, "ABS5", msSite{rel: "execution/nodes", fn: "(*Distinct).Run", callback: true, countField: "Count", emit: "produce"}, ids)
	checkMultiset(c, "ABS5", msSite{rel: "execution/nodes", fn: "(*OrderSensitiveTransform).Run", callback: true, countField: "Count"}, ids)
	checkMultiset(c, "ABS5", msSite{rel: "outputs/batch", fn: "(*OutputPrinter).Run", callback: true, countField: "Count"}, ids)
	c.Floor("ABS5", 21, "3 containers × 7 (count, operation) cases")
	c.Rule("CTOR", "operator constructors store their arguments verbatim")
	checkConstructors(c, "CTOR", "execution", "execution/nodes")
	checkPlanSwitches(c)
	// the default pipeline optimizes: column pruning must keep what DISTINCT, unnest and subqueries consume
	c.Rule("OPT4", "column pruning keeps every column a node consumes (shared with C04)")
	c.Rule("OPT3", "column pruning cuts parallel slices at corresponding positions (shared with C04)")
	checkIsUsed(c)
	checkPruners(c)
	c.Rule("STAR", "the projection is skipped only for exactly SELECT *")
	checkStarShortcut(c)
}

// checkStarShortcut (STAR): ParseSelect skips the projection (Map) node only for exactly `SELECT *`: one select item,
// an unqualified star.  The condition guarding NewMap is evaluated over the eight combinations of (one item, first
// item is a star, its qualifier is empty): the Map must be created in all but the (true, true, true) case.
func checkStarShortcut(c *core.Ctx) {
	p := c.Prog
	fn := p.Func("parser", "ParseSelect")
	key := "parser.ParseSelect/projection shortcut"
	if fn == nil {
		c.Unknown("STAR", key, 0, "anchor not found")
		return
	}
	c.SawFunc("parser.ParseSelect")
	info := fn.Info()
	var guard *ast.IfStmt
	ast.Inspect(fn.Decl.Body, func(n ast.Node) bool {
		is, ok := n.(*ast.IfStmt)
		if !ok {
			return true
		}
		for _, s := range is.Body.List {
			if as, ok := s.(*ast.AssignStmt); ok && len(as.Rhs) == 1 {
				if call, ok := as.Rhs[0].(*ast.CallExpr); ok && p.CalleeName(info, call) == "logical.NewMap" {
					guard = is
				}
			}
		}
		return true
	})
	if guard == nil {
		c.Unknown("STAR", key, fn.Decl.Pos(), "no `if … { root = logical.NewMap(…) }` found")
		return
	}
	table := ""
	for a := 0; a < 2; a++ {
		for b := 0; b < 2; b++ {
			for q := 0; q < 2; q++ {
				one, star, bare := a == 1, b == 1, q == 1
				in := &absint.Interp{Info: info, Prog: p}
				unknown := ""
				in.Hooks.Cond = func(st *absint.State, atom string) (bool, bool) {
					switch {
					case strings.Contains(atom, "len(") && strings.Contains(atom, "1 =="), strings.Contains(atom, "len(") && strings.Contains(atom, "== 1"):
						return one, true
					case strings.Contains(atom, `"" ==`) || strings.Contains(atom, `== ""`):
						return bare, true
					case strings.HasSuffix(atom, "[0]") || strings.Contains(atom, "isStar"):
						return star, true
					}
					unknown = atom
					return false, true
				}
				res, err := in.RunCond(guard.Cond)
				if err != nil || len(res) != 1 || unknown != "" {
					c.Unknown("STAR", key, guard.Pos(), fmt.Sprintf("cannot evaluate the guard (%v, atom %q)", err, unknown))
					return
				}
				if res[0].Value {
					table += "1"
				} else {
					table += "0"
				}
			}
		}
	}
	c.Decide(table == "11111110", "STAR", key, guard.Pos(), 8, "the projection is skipped only for a single unqualified star",
		fmt.Sprintf("the Map node may be skipped only when the select list is exactly one unqualified `*`; over (one item, first is a star, qualifier empty) the guard creates the Map as %s, expected 11111110: with more items after a leading `*` the other columns are dropped", table))
}
