package props

import (
	"fmt"
	"go/ast"
	"go/constant"
	"go/token"
	"go/types"
	"regexp"
	"strings"

	"octoverif/core"
	"octoverif/engine/absint"
	"octoverif/engine/tables"
)

func init() {
	register(&Check{ID: "C13", Run: runC13,
		Explanation: "Every function descriptor is abstractly interpreted with symbolic arguments and its result compared with a per-function expectation: " +
			"TAB3: the arithmetic operators compute `values[0].P op values[1].Q` with the operator named by their map key, operands in argument order, the payloads of their declared argument types and the constructor of their declared result (unary minus, Time±Duration via Time.Add, Duration/Duration as float division included). " +
			"TAB2: abs/sqrt/ceil/floor/log/log2/log10/pow, time_from_unix/time_to_unix, upper/lower/replace/position/len delegate to the intended library function on the intended arguments. " +
			"TAB6: int(String), float(String), parse_time return NULL (no error) when the parse fails and the parsed value otherwise. UNI2/UNI3: payload and constructor agreement for all 76 descriptors. " +
			"COAL: (*Coalesce).Evaluate returns the first non-NULL argument (layout-fixed with its own index) and NULL if there is none — product with the reference automaton, valid for every arity. " +
			"IN: `in`/`not in` scan the whole collection with Equal, answer on the first hit, and are each other's negation. IDX: list[i] yields the i-th element or NULL outside 0 ≤ i < len.",
		NotDecided: []string{"the numerical results of the delegated library functions and Go's arithmetic (wrap-around, rounding)", "time_to_unix(time_from_unix(x)) = x is argued from both using Unix seconds (time.Unix(x,0) / Time.Unix()), not computed"},
	})
}

type descOutcome struct {
	cls     string // constructor class: Int, Float, …, NULL, TRUE/FALSE, pass:<canon>, err
	payload string
	o       *absint.Outcome
}

// evalDescriptor interprets a descriptor's Function body and classifies each outcome.
func evalDescriptor(c *core.Ctx, t *fnTable, d *tables.Descriptor, ids map[string]int64, extra callHook, cond func(st *absint.State, atom string) (bool, bool)) ([]descOutcome, error) {
	in := withMaxPaths(newLitInterp(c.Prog, t.info, "functions"), 3000)
	in.Hooks.Call = chainCall(extra, ctorHook(ids), errorfHook)
	in.Hooks.Cond = cond
	outs, err := runLit(in, d.Function, nil, "")
	if err != nil {
		return nil, err
	}
	var res []descOutcome
	for _, o := range outs {
		if o.Kind != "return" || len(o.Values) != 2 {
			res = append(res, descOutcome{cls: o.Kind, o: o})
			continue
		}
		if isNonNilErr(o.Values[1]) {
			res = append(res, descOutcome{cls: "err", o: o})
			continue
		}
		v := o.Values[0]
		cls := valueClass(o, ids, v)
		if strings.HasPrefix(cls, "sym:") {
			res = append(res, descOutcome{cls: "pass", payload: v.Canon(), o: o})
			continue
		}
		pay := ""
		for _, f := range []string{"Int", "Float", "Boolean", "Str", "Time", "Duration", "List", "Struct", "Tuple"} {
			if pv := o.Field(v, f); pv != nil && (payloadOf[strings.TrimPrefix(strings.TrimPrefix(cls, "TRUE"), "FALSE")] == f || (f == "Boolean" && (cls == "TRUE" || cls == "FALSE" || strings.HasPrefix(cls, "Boolean("))) || payloadOf[cls] == f) {
				pay = pv.Canon()
			}
		}
		res = append(res, descOutcome{cls: cls, payload: pay, o: o})
	}
	return res, nil
}

func descByArgs(t *fnTable, name string, args ...string) *tables.Descriptor {
	for _, d := range t.descs {
		if d.Name != name || !d.HasArgs || len(d.ArgTypes) != len(args) {
			continue
		}
		ok := true
		for i, a := range args {
			if d.ArgTypes[i].String() != a {
				ok = false
			}
		}
		if ok {
			return d
		}
	}
	return nil
}

func runC13(c *core.Ctx) {
	c.Rule("F2I", "float→integer conversions are range-checked")
	checkFloatToIntConversions(c, "F2I")
	c.Rule("COALT", "COALESCE's static type admits NULL unless an argument provably never is NULL")
	checkCoalesceType(c, "COALT")
	c.Rule("BOUNDS", "layout fixer: a slice indexed by a loop position has the ranged slice's length")
	checkLoopIndexBounds(c, "BOUNDS", [][2]string{{"execution", "calculateMapping"}, {"execution", "(*ObjectLayoutFixer).fixLayout"}, {"execution", "NewObjectLayoutFixer"}})
	c.Rule("TUPLE1", "a parsed value tuple stays a tuple for every length (x IN (e) is a one-element list)")
	checkTupleTranslation(c, "TUPLE1")
	c.Rule("OVL", "overload candidates are tried independently")
	checkOverloadLoops(c, "OVL")
	ids := typeIDs(c.Prog)
	c.Rule("TAB3", "arithmetic operators: operator, operand order, payloads, constructor")
	c.Rule("TAB2", "library delegation with the intended arguments")
	c.Rule("TAB6", "failed parses yield NULL")
	c.Rule("UNI2", "payload reads agree with declared argument types")
	c.Rule("UNI3", "constructors agree with the declared result type")
	c.Rule("COAL", "COALESCE yields its first non-NULL argument")
	c.Rule("IN", "IN / NOT IN scan with Equal and are each other's negation")
	c.Rule("IDX", "list indexing yields the element or NULL")
	c.Rule("STR", "string() converts without loss: identity on strings, full precision on times")
	checkPayloadAgreement(c, "UNI2")
	checkOutputConstructors(c, "UNI3")
	t := loadFunctions(c, "TAB3")
	if t == nil {
		return
	}
	checkArithmetic(c, t, ids)
	checkDelegations(c, t, ids, mathDelegations, "TAB2")
	checkParseNull(c, t, ids)
	c.Rule("CTOR", "operator constructors store their arguments verbatim")
	checkConstructors(c, "CTOR", "execution")
	checkCoalesce(c, ids)
	checkInNotIn(c, t, ids)
	checkListIndex(c, t, ids)
	checkStringConversion(c, t, ids)
}

type arith struct {
	name string
	args []string
	cls  string
	want []string // acceptable payload canons
}

func v(i int, f string) string { return fmt.Sprintf("values[%d].%s", i, f) }

func arithTable() []arith {
	var out []arith
	same := func(name, kind, f string, commutative bool) {
		w := []string{"(" + v(0, f) + " " + name + " " + v(1, f) + ")"}
		if commutative {
			w = append(w, "("+v(1, f)+" "+name+" "+v(0, f)+")")
		}
		out = append(out, arith{name, []string{kind, kind}, kind, w})
	}
	for _, k := range [][2]string{{"Int", "Int"}, {"Float", "Float"}, {"Duration", "Duration"}} {
		same("+", k[0], k[1], true)
		same("-", k[0], k[1], false)
		out = append(out, arith{"-", []string{k[0]}, k[0], []string{"(-" + v(0, k[1]) + ")"}})
	}
	same("*", "Int", "Int", true)
	same("*", "Float", "Float", true)
	same("/", "Int", "Int", false)
	same("/", "Float", "Float", false)
	out = append(out,
		arith{"+", []string{"String", "String"}, "String", []string{"(" + v(0, "Str") + " + " + v(1, "Str") + ")"}},
		arith{"+", []string{"Time", "Duration"}, "Time", []string{"time.Time.Add(" + v(0, "Time") + "," + v(1, "Duration") + ")"}},
		arith{"+", []string{"Duration", "Time"}, "Time", []string{"time.Time.Add(" + v(1, "Time") + "," + v(0, "Duration") + ")"}},
		arith{"-", []string{"Time", "Duration"}, "Time", []string{"time.Time.Add(" + v(0, "Time") + ",(-" + v(1, "Duration") + "))"}},
		arith{"*", []string{"Duration", "Int"}, "Duration", []string{"(" + v(0, "Duration") + " * " + v(1, "Int") + ")", "(" + v(1, "Int") + " * " + v(0, "Duration") + ")"}},
		arith{"*", []string{"Int", "Duration"}, "Duration", []string{"(" + v(1, "Duration") + " * " + v(0, "Int") + ")", "(" + v(0, "Int") + " * " + v(1, "Duration") + ")"}},
		arith{"*", []string{"String", "Int"}, "String", []string{"strings.Repeat(" + v(0, "Str") + "," + v(1, "Int") + ")"}},
		arith{"*", []string{"Int", "String"}, "String", []string{"strings.Repeat(" + v(1, "Str") + "," + v(0, "Int") + ")"}},
		arith{"/", []string{"Duration", "Int"}, "Duration", []string{"(" + v(0, "Duration") + " / " + v(1, "Int") + ")"}},
		arith{"/", []string{"Duration", "Duration"}, "Float", []string{"(" + v(0, "Duration") + " / " + v(1, "Duration") + ")"}},
	)
	return out
}

func checkArithmetic(c *core.Ctx, t *fnTable, ids map[string]int64) {
	n := 0
	for _, a := range arithTable() {
		d := descByArgs(t, a.name, a.args...)
		key := fmt.Sprintf("functions.%s(%s)", a.name, strings.Join(a.args, ","))
		if d == nil || d.Function == nil {
			c.Note("%s is not registered (nothing to check)", key)
			continue
		}
		n++
		res, err := evalDescriptor(c, t, d, ids, nil, nil)
		if err != nil {
			c.Unknown("TAB3", key, d.Lit.Pos(), err.Error())
			continue
		}
		bad := ""
		okPaths := 0
		for _, r := range res {
			if r.cls == "err" {
				continue // guarded failure (division by zero, negative repetition)
			}
			okPaths++
			if r.cls != a.cls {
				bad = fmt.Sprintf("constructs a %s, expected %s (%s)", r.cls, a.cls, r.o.String())
				continue
			}
			match := false
			for _, w := range a.want {
				if r.payload == w {
					match = true
				}
			}
			if !match {
				bad = fmt.Sprintf("computes %s, expected %s", r.payload, strings.Join(a.want, " or "))
			}
		}
		if bad == "" && okPaths == 0 {
			bad = "no successful path"
		}
		c.Decide(bad == "", "TAB3", key, d.Function.Pos(), len(res), "= "+a.want[0], bad)
	}
	if n < 20 {
		c.Unknown("TAB3", "<arithmetic descriptors>", 0, fmt.Sprintf("only %d arithmetic descriptors found", n))
	}
}

type delegation struct {
	name string
	args []string
	cls  string
	want string // regexp over the payload canon
}

var mathDelegations = []delegation{
	{"abs", []string{"Float"}, "Float", `^math\.Abs\(values\[0\]\.Float\)$`},
	{"sqrt", []string{"Float"}, "Float", `^math\.Sqrt\(values\[0\]\.Float\)$`},
	{"ceil", []string{"Float"}, "Float", `^math\.Ceil\(values\[0\]\.Float\)$`},
	{"floor", []string{"Float"}, "Float", `^math\.Floor\(values\[0\]\.Float\)$`},
	{"log2", []string{"Float"}, "Float", `^math\.Log2\(values\[0\]\.Float\)$`},
	{"log", []string{"Float"}, "Float", `^math\.Log\(values\[0\]\.Float\)$`},
	{"log10", []string{"Float"}, "Float", `^math\.Log10\(values\[0\]\.Float\)$`},
	{"pow", []string{"Float", "Float"}, "Float", `^math\.Pow\(values\[0\]\.Float,values\[1\]\.Float\)$`},
	{"time_from_unix", []string{"Int"}, "Time", `^time\.Unix\(values\[0\]\.Int,0\)$`},
	{"time_to_unix", []string{"Time"}, "Int", `^time\.Time\.Unix\(values\[0\]\.Time\)$`},
	{"int", []string{"Float"}, "Int", `^(values\[0\]\.Float|functions\.floatToInt\(values\[0\]\.Float\)\.0)$`},
	{"int", []string{"Duration"}, "Int", `^values\[0\]\.Duration$`},
	{"float", []string{"Int"}, "Float", `^values\[0\]\.Int$`},
	{"float", []string{"Duration"}, "Float", `^values\[0\]\.Duration$`},
}

var stringDelegations = []delegation{
	{"upper", []string{"String"}, "String", `^strings\.ToUpper\(values\[0\]\.Str\)$`},
	{"lower", []string{"String"}, "String", `^strings\.ToLower\(values\[0\]\.Str\)$`},
	{"replace", []string{"String", "String", "String"}, "String", `^strings\.(Replace\(values\[0\]\.Str,values\[1\]\.Str,values\[2\]\.Str,-1\)|ReplaceAll\(values\[0\]\.Str,values\[1\]\.Str,values\[2\]\.Str\))$`},
	{"len", []string{"String"}, "Int", `^len\(values\[0\]\.Str\)$`},
}

func checkDelegations(c *core.Ctx, t *fnTable, ids map[string]int64, table []delegation, rule string) {
	for _, dl := range table {
		d := descByArgs(t, dl.name, dl.args...)
		key := fmt.Sprintf("functions.%s(%s)", dl.name, strings.Join(dl.args, ","))
		if d == nil || d.Function == nil {
			c.Note("%s is not registered (nothing to check)", key)
			continue
		}
		res, err := evalDescriptor(c, t, d, ids, nil, nil)
		if err != nil {
			c.Unknown(rule, key, d.Lit.Pos(), err.Error())
			continue
		}
		re := regexp.MustCompile(dl.want)
		bad := ""
		okRes := 0
		for _, r := range res {
			if r.cls == "err" && strings.Contains(dl.want, "floatToInt") {
				continue // the range-checked conversion (F2I) rejects floats no integer can hold
			}
			okRes++
			if r.cls != dl.cls || !re.MatchString(r.payload) {
				bad = fmt.Sprintf("returns %s(%s); expected %s matching %s", r.cls, r.payload, dl.cls, dl.want)
			}
		}
		c.Decide(bad == "" && okRes > 0, rule, key, d.Function.Pos(), len(res), dl.want, bad)
	}
	// abs(Int): sign cases
	if rule == "TAB2" && len(table) > 0 && table[0].name == "abs" {
		d := descByArgs(t, "abs", "Int")
		if d != nil && d.Function != nil {
			for _, sign := range []string{"neg", "zero", "pos"} {
				sign := sign
				o := absint.OrderOracle{}
				o.Set("values[0].Int", "0", map[string]absint.Rel{"neg": absint.LT, "zero": absint.EQ, "pos": absint.GT}[sign])
				res, err := evalDescriptor(c, t, d, ids, nil, func(st *absint.State, atom string) (bool, bool) { return o.Decide(atom) })
				key := "functions.abs(Int)/" + sign
				if err != nil {
					c.Unknown(rule, key, d.Lit.Pos(), err.Error())
					continue
				}
				bad := ""
				for _, r := range res {
					plain := (r.cls == "pass" && r.payload == "values[0]") || (r.cls == "Int" && r.payload == "values[0].Int")
					negated := r.cls == "Int" && (r.payload == "(values[0].Int * -1)" || r.payload == "(-values[0].Int)" || r.payload == "(-1 * values[0].Int)")
					switch sign {
					case "pos":
						if !plain {
							bad = "abs of a positive int must be the int itself: " + r.cls + "(" + r.payload + ")"
						}
					case "neg":
						if !negated {
							bad = "abs of a negative int must be its negation: " + r.cls + "(" + r.payload + ")"
						}
					default:
						if !plain && !negated {
							bad = "abs(0): " + r.cls + "(" + r.payload + ")"
						}
					}
				}
				c.Decide(bad == "" && len(res) > 0, rule, key, d.Function.Pos(), len(res), "", bad)
			}
		}
	}
}

// parseArgs: the exact arguments of the parse calls (decimal, 64 bit; layout first).
var parseArgs = map[string]string{"strconv.ParseInt": "values[0].Str, 10, 64", "strconv.ParseFloat": "values[0].Str, 64", "time.Parse": "values[0].Str, values[1].Str"}

func canonArgs(args []absint.Val) string {
	parts := make([]string, len(args))
	for i, a := range args {
		parts[i] = a.Canon()
	}
	return strings.Join(parts, ", ")
}

// checkParseNull (TAB6): a failed parse yields NULL and no error; a successful one the parsed value.
func checkParseNull(c *core.Ctx, t *fnTable, ids map[string]int64) {
	for _, s := range []struct {
		name   string
		args   []string
		callee string
		cls    string
	}{{"int", []string{"String"}, "strconv.ParseInt", "Int"}, {"float", []string{"String"}, "strconv.ParseFloat", "Float"}, {"parse_time", []string{"String", "String"}, "time.Parse", "Time"}} {
		d := descByArgs(t, s.name, s.args...)
		key := fmt.Sprintf("functions.%s(%s)", s.name, strings.Join(s.args, ","))
		if d == nil || d.Function == nil {
			c.Unknown("TAB6", key, 0, "descriptor not found")
			continue
		}
		for _, fail := range []bool{false, true} {
			fail := fail
			called := false
			argsBad := ""
			res, err := evalDescriptor(c, t, d, ids, func(st *absint.State, call *ast.CallExpr, callee string, recv absint.Val, args []absint.Val) (absint.Val, bool) {
				if callee == s.callee {
					called = true
					got := canonArgs(args)
					if want := parseArgs[s.callee]; got != want {
						argsBad = fmt.Sprintf("%s must be called as %s(%s); it is called with (%s)", s.name, s.callee, want, got)
					}
					if fail {
						return absint.Tuple{Elems: []absint.Val{absint.S("garbage"), absint.NN("parseErr")}}, true
					}
					return absint.Tuple{Elems: []absint.Val{absint.S("PARSED"), absint.Nil{}}}, true
				}
				if strings.HasPrefix(callee, "log.") {
					return absint.S("void"), true
				}
				return nil, false
			}, nil)
			ckey := fmt.Sprintf("%s/parse fails=%v", key, fail)
			if err != nil {
				c.Unknown("TAB6", ckey, d.Lit.Pos(), err.Error())
				continue
			}
			bad := argsBad
			if !called {
				bad = "does not call " + s.callee
			}
			for _, r := range res {
				if fail && r.cls != "NULL" {
					bad = "an unparsable string must yield NULL without an error, got " + r.cls + " " + r.o.String()
				}
				if !fail && (r.cls != s.cls || r.payload != "PARSED") {
					bad = "a parsable string must yield the parsed value, got " + r.cls + "(" + r.payload + ")"
				}
			}
			c.Decide(bad == "" && len(res) > 0, "TAB6", ckey, d.Function.Pos(), len(res), "", bad)
		}
	}
}

func checkCoalesce(c *core.Ctx, ids map[string]int64) {
	p := c.Prog
	fn := p.Func("execution", "(*Coalesce).Evaluate")
	key := "execution.(*Coalesce).Evaluate"
	if fn == nil {
		c.Unknown("COAL", key, 0, "anchor not found")
		return
	}
	c.SawFunc(key)
	in := newInterp(p, fn)
	in.Hooks.Loop = func(st *absint.State, loop ast.Stmt) *absint.LoopSpec {
		return &absint.LoopSpec{Cases: []string{"NULL", "VALUE", "ERR"}, RefStep: func(ref, cs string) string {
			if strings.HasPrefix(ref, "ret:") {
				return "ret!"
			}
			if cs != "NULL" {
				return "ret:" + cs
			}
			return ref
		}}
	}
	in.Hooks.Call = chainCall(func(st *absint.State, call *ast.CallExpr, callee string, recv absint.Val, args []absint.Val) (absint.Val, bool) {
		switch callee {
		case "execution.Expression.Evaluate":
			switch st.IterNow {
			case "NULL":
				return absint.Tuple{Elems: []absint.Val{mkValue(st, ids, "TypeIDNull", "", nil), absint.Nil{}}}, true
			case "VALUE":
				return absint.Tuple{Elems: []absint.Val{mkValue(st, ids, "TypeIDInt", "Int", absint.S("x")), absint.Nil{}}}, true
			case "ERR":
				return absint.Tuple{Elems: []absint.Val{absint.S("garbage"), absint.NN("evalErr")}}, true
			}
		case "execution.(*ObjectLayoutFixer).FixLayout":
			st.Emit("FIX", call.Pos(), args...)
			return absint.S("FIXED(" + args[0].Canon() + ")"), true
		}
		return nil, false
	}, ctorHook(ids), errorfHook)
	outs, err := runDecl(in, fn, nil, "")
	if err != nil {
		c.Unknown("COAL", key, fn.Decl.Pos(), err.Error())
		return
	}
	bad := ""
	nret := 0
	for _, o := range outs {
		if o.Kind != "return" || len(o.Values) != 2 {
			continue
		}
		nret++
		switch {
		case o.Ref == "ret!" || strings.HasSuffix(o.Ref, "ret!"):
			bad = "evaluation continues after the first non-NULL argument: " + o.String()
		case o.Ref == "ret:VALUE":
			ok := false
			for _, e := range o.Events {
				if e.Name == "FIX" && len(e.Args) == 2 && strings.Contains(e.Args[0].Canon(), "@L") && valueClass(o, ids, e.Args[1]) == "Int" {
					ok = true
				}
			}
			if !ok || !strings.HasPrefix(o.Values[0].Canon(), "FIXED(") || isNonNilErr(o.Values[1]) {
				bad = "the first non-NULL argument must be returned, layout-fixed with its own index: " + o.String()
			}
		case o.Ref == "ret:ERR":
			if !isNonNilErr(o.Values[1]) {
				bad = "an evaluation error must be returned: " + o.String()
			}
		case o.Ref == "exit:":
			if valueClass(o, ids, o.Values[0]) != "NULL" || isNonNilErr(o.Values[1]) {
				bad = "all arguments NULL must yield NULL: " + o.String()
			}
		default:
			bad = "returns although every argument so far was NULL and more may follow: " + o.String()
		}
	}
	c.Decide(bad == "" && nret >= 3, "COAL", key, fn.Decl.Pos(), len(outs), "first non-NULL wins, else NULL", bad)
}

func checkInNotIn(c *core.Ctx, t *fnTable, ids map[string]int64) {
	for _, name := range []string{"in", "not in"} {
		n := 0
		for _, d := range t.descs {
			if d.Name != name || d.Function == nil {
				continue
			}
			n++
			kinds, _, _ := t.argKinds(d)
			coll := "?"
			if len(kinds) == 2 {
				coll = kinds[1].String()
			}
			key := fmt.Sprintf("functions.%s(%s)", name, coll)
			in := newLitInterp(c.Prog, t.info, "functions")
			// reference automaton over the elements seen so far: "" none relevant, "N" a NULL element, "hit" an equal
			// element, "hit!" anything after an equal element
			in.Hooks.Loop = func(st *absint.State, loop ast.Stmt) *absint.LoopSpec {
				return &absint.LoopSpec{Cases: []string{"hit", "miss", "null"}, RefStep: func(ref, cs string) string {
					if strings.HasPrefix(ref, "hit") {
						return "hit!"
					}
					if cs == "hit" {
						return "hit"
					}
					if cs == "null" {
						return "N"
					}
					return ref
				}}
			}
			elemPrefix := "values[1]." + payloadOf[coll] + "["
			in.Hooks.Field = func(st *absint.State, base absint.Val, sel string) (absint.Val, bool) {
				if sel == "TypeID" && strings.HasPrefix(base.Canon(), elemPrefix) {
					if st.IterNow == "null" {
						return absint.Int(ids["TypeIDNull"]), true
					}
					return absint.Int(ids["TypeIDInt"]), true
				}
				return nil, false
			}
			in.Hooks.Call = chainCall(func(st *absint.State, call *ast.CallExpr, callee string, recv absint.Val, args []absint.Val) (absint.Val, bool) {
				if callee == "octosql.Value.Equal" {
					a, b := recv.Canon(), args[0].Canon()
					if !(a == "values[0]" && strings.HasPrefix(b, elemPrefix)) && !(b == "values[0]" && strings.HasPrefix(a, elemPrefix)) {
						st.Emit("WRONG-OPERANDS "+a+" vs "+b, call.Pos())
					}
					// a NULL element equals nothing (Value.Equal); the left operand is not NULL (strict function)
					return absint.Bool(st.IterNow == "hit"), true
				}
				return nil, false
			}, ctorHook(ids), errorfHook)
			outs, err := runLit(in, d.Function, nil, "")
			if err != nil {
				c.Unknown("IN", key, d.Lit.Pos(), err.Error())
				continue
			}
			bad := ""
			for _, o := range outs {
				for _, e := range o.Events {
					if strings.HasPrefix(e.Name, "WRONG-OPERANDS") {
						bad = "membership must compare values[0] with the elements of values[1]." + payloadOf[coll] + ": " + e.Name
					}
				}
				if o.Kind != "return" || len(o.Values) != 2 {
					continue
				}
				cls := valueClass(o, ids, o.Values[0])
				ref := strings.TrimPrefix(o.Ref, "exit:")
				found := strings.HasPrefix(ref, "hit")
				want := map[bool]string{true: "TRUE", false: "FALSE"}[found == (name == "in")]
				if !found && ref == "N" {
					want = "NULL" // x = NULL is unknown: without an equal element the membership is unknown
				}
				switch {
				case strings.HasSuffix(o.Ref, "hit!"):
					bad = "the scan continues after a hit: " + o.String()
				case !strings.HasPrefix(o.Ref, "exit:") && !found:
					bad = "returns without a hit with elements left: " + o.String()
				case o.Ref == "exit:hit":
					bad = "ends the scan normally after a hit: " + o.String()
				case cls != want:
					bad = fmt.Sprintf("%s with an equal element found=%v, a NULL element met=%v must be %s, got %s", name, found, ref == "N", want, cls)
				}
			}
			c.Decide(bad == "" && len(outs) >= 2, "IN", key, d.Function.Pos(), len(outs), "TRUE/FALSE by membership under Equal, NULL when only a NULL element could have matched", bad)
		}
		if n < 2 {
			c.Unknown("IN", "functions."+name, 0, "expected List and Tuple overloads")
		}
	}
}

func checkListIndex(c *core.Ctx, t *fnTable, ids map[string]int64) {
	var d *tables.Descriptor
	for _, x := range t.descs {
		if x.Name == "[]" {
			d = x
		}
	}
	key := "functions.[]"
	if d == nil || d.Function == nil {
		c.Unknown("IDX", key, 0, "descriptor not found")
		return
	}
	for _, pos := range []string{"negative", "inside", "beyond"} {
		pos := pos
		o := absint.OrderOracle{}
		i, L := "values[1].Int", "len(values[0].List)"
		switch pos {
		case "negative":
			o.Set(i, "0", absint.LT)
			o.Set(i, L, absint.LT)
		case "inside":
			o.Set(i, "0", absint.GT)
			o.Set(i, L, absint.LT)
		case "beyond":
			o.Set(i, "0", absint.GT)
			o.Set(i, L, absint.GT)
		}
		res, err := evalDescriptor(c, t, d, ids, nil, func(st *absint.State, atom string) (bool, bool) { return o.Decide(atom) })
		ckey := key + "/index " + pos
		if err != nil {
			c.Unknown("IDX", ckey, d.Lit.Pos(), err.Error())
			continue
		}
		bad := ""
		for _, r := range res {
			if pos == "inside" {
				if r.cls != "pass" || r.payload != "values[0].List[values[1].Int]" {
					bad = "an index inside the list must yield that element: " + r.cls + "(" + r.payload + ")"
				}
			} else if r.cls != "NULL" {
				bad = "an index outside the list must yield NULL: " + r.cls + "(" + r.payload + ")"
			}
		}
		c.Decide(bad == "" && len(res) > 0, "IDX", ckey, d.Function.Pos(), len(res), "", bad)
	}
}

// checkStringConversion (STR): string(x) "converts the argument to a string". For a String argument that is the
// identity (Value.String() is the quoted rendering for explain output: string('abc') would be 'abc' with the quotes,
// five characters, unequal to itself); for a Time it keeps the fraction of a second (two different times must not
// convert to the same text).
func checkStringConversion(c *core.Ctx, t *fnTable, ids map[string]int64) {
	var d *tables.Descriptor
	for _, x := range t.descs {
		if x.Name == "string" {
			d = x
		}
	}
	key := "functions.string"
	if d == nil || d.Function == nil {
		c.Unknown("STR", key, 0, "descriptor not found")
		return
	}
	for _, kind := range []string{"TypeIDString", "TypeIDTime", "TypeIDInt"} {
		kind := kind
		in := newLitInterp(c.Prog, t.info, "functions")
		in.Hooks.Field = func(st *absint.State, base absint.Val, sel string) (absint.Val, bool) {
			if sel == "TypeID" && base.Canon() == "values[0]" {
				return absint.Int(ids[kind]), true
			}
			return nil, false
		}
		layout := ""
		in.Hooks.Call = chainCall(func(st *absint.State, call *ast.CallExpr, callee string, recv absint.Val, args []absint.Val) (absint.Val, bool) {
			switch callee {
			case "octosql.Value.String":
				return absint.S("DEBUGSTRING(" + recv.Canon() + ")"), true
			case "time.Time.Format":
				if tv := t.info.Types[call.Args[0]]; tv.Value != nil && tv.Value.Kind() == constant.String {
					layout = constant.StringVal(tv.Value)
				}
				return absint.S("FORMAT(" + recv.Canon() + ")"), true
			}
			return nil, false
		}, ctorHook(ids), errorfHook)
		outs, err := runLit(in, d.Function, nil, "")
		ckey := key + "/" + strings.TrimPrefix(kind, "TypeID") + " argument"
		if err != nil {
			c.Unknown("STR", ckey, d.Function.Pos(), err.Error())
			continue
		}
		bad := ""
		for _, o := range outs {
			if o.Kind != "return" || len(o.Values) != 2 || !absint.IsNilVal(o.Values[1]) {
				continue
			}
			got := o.Values[0].Canon()
			if s := o.Field(o.Values[0], "Str"); s != nil {
				got = s.Canon()
			}
			switch kind {
			case "TypeIDString":
				if got != "values[0].Str" && got != "values[0]" {
					bad = "string() of a String must be that string; it is " + got + " — Value.String() is the quoted explain rendering, so string('abc') has five characters and is not equal to 'abc'"
				}
			case "TypeIDTime":
				if strings.HasPrefix(got, "DEBUGSTRING(") {
					bad = "string() of a Time goes through Value.String(), the explain rendering, which drops the fraction of a second: different times convert to the same text"
				} else if got == "FORMAT(values[0].Time)" && !strings.Contains(layout, "999999999") && !strings.Contains(layout, "000000000") {
					bad = "string() of a Time is formatted with the layout " + layout + ", which drops the fraction of a second"
				}
			default:
				if got == "" {
					bad = "no text"
				}
			}
		}
		c.Decide(bad == "" && len(outs) > 0, "STR", ckey, d.Function.Pos(), len(outs), "converted without loss", bad)
	}
}

// f2iBounded: float→integer conversions whose operand is bounded by construction. One line of reason each.
var f2iBounded = map[string]string{
	"int64(float64(time.Second) * f)": "f is the fractional part returned by math.Modf, in (-1, 1): the product is within ±1e9",
}

// checkFloatToIntConversions (F2I): Go leaves the result of converting a float that the integer type cannot hold
// (NaN, ±Inf, |x| ≥ 2^63) implementation-defined — amd64 yields MinInt64, other platforms differ. A function that
// converts an argument this way returns platform-dependent garbage for int(1e300). Every float64→int64 conversion in
// the function library must sit in a function that tests the same operand for NaN and both bounds first, or be listed
// as bounded by construction.
func checkFloatToIntConversions(c *core.Ctx, rule string) {
	p := c.Prog
	n := 0
	for _, fr := range p.AllFuncs("functions") {
		info := fr.Info()
		name := p.FName(fr)
		core.WalkStack(fr.Decl.Body, func(nd ast.Node, stack []ast.Node) bool {
			call, ok := nd.(*ast.CallExpr)
			if !ok || len(call.Args) != 1 {
				return true
			}
			tv, ok := info.Types[call.Fun]
			if !ok || !tv.IsType() {
				return true
			}
			if b, ok := tv.Type.Underlying().(*types.Basic); !ok || b.Info()&types.IsInteger == 0 {
				return true
			}
			at := info.TypeOf(call.Args[0])
			if ab, ok := at.Underlying().(*types.Basic); !ok || ab.Info()&types.IsFloat == 0 || info.Types[call.Args[0]].Value != nil {
				return true
			}
			n++
			c.SawFunc(name)
			src := core.ExprStr(call)
			key := fmt.Sprintf("%s/%s", name, src)
			if why, ok := f2iBounded[src]; ok {
				c.OK(rule, key, call.Pos(), 1, "bounded by construction: "+why)
				return true
			}
			// the innermost enclosing function (literal or declaration) tests the operand
			var body *ast.BlockStmt = fr.Decl.Body
			for i := len(stack) - 1; i >= 0; i-- {
				if fl, ok := stack[i].(*ast.FuncLit); ok {
					body = fl.Body
					break
				}
			}
			operand := core.ExprStr(call.Args[0])
			nan, upper, lower := false, false, false
			ast.Inspect(body, func(m ast.Node) bool {
				switch v := m.(type) {
				case *ast.CallExpr:
					if core.ExprStr(v.Fun) == "math.IsNaN" && len(v.Args) == 1 && core.ExprStr(v.Args[0]) == operand {
						nan = true
					}
				case *ast.BinaryExpr:
					if core.ExprStr(v.X) == operand && v.Pos() < call.Pos() {
						switch v.Op {
						case token.GEQ, token.GTR:
							upper = true
						case token.LSS, token.LEQ:
							lower = true
						}
					}
				}
				return true
			})
			c.Decide(nan && upper && lower, rule, key, call.Pos(), 1, "the operand is tested for NaN and both bounds before the conversion",
				fmt.Sprintf("%s converts a float that may be NaN, infinite or beyond ±2^63 to an integer; Go leaves that result implementation-defined (MinInt64 on amd64): int(1e300), int(NaN) and time_from_unix(1e19) return −9223372036854775808 instead of failing", src))
			return true
		})
	}
	c.Floor(rule, 2, "float→integer conversions in the function library")
	_ = n
}
