package props

import (
	"fmt"
	"go/ast"
	"go/constant"
	"go/token"
	"sort"
	"strings"

	"octoverif/core"
)

// checkLiteralEscapes (FMT7): the printer's escape table for string literals and the tokenizer's decode table agree.
//
// Writer: the function (*SQLVal).Format calls for StrVal — either a switch over the literal's bytes that writes a
// constant two-byte escape per case and the byte itself otherwise, or sqltypes' EncodeSQL, which escapes every byte of
// encodeRef. Reader: (*Tokenizer).scanString — the characters it decodes after a backslash (through SQLDecodeMap, the
// inverse of encodeRef); after a backslash it does not decode it keeps the backslash.
//
// Obligations: every escape the printer writes is one the tokenizer decodes, to the same byte; the quote and the
// backslash are always escaped (a verbatim one ends or bends the literal). The rest of the alphabet is written and
// read verbatim by construction of both forms.
func checkLiteralEscapes(c *core.Ctx, rule string) {
	p := c.Prog
	pkg := p.Pkg("parser/sqlparser")
	st := p.Pkg("parser/sqlparser/dependency/sqltypes")
	if pkg == nil || st == nil {
		c.Unknown(rule, "parser/sqlparser", 0, "packages not found")
		return
	}
	// --- encodeRef: byte -> escape letter
	encodeRef := map[byte]byte{}
	for _, f := range st.Syntax {
		ast.Inspect(f, func(n ast.Node) bool {
			vs, ok := n.(*ast.ValueSpec)
			if !ok || len(vs.Names) != 1 || vs.Names[0].Name != "encodeRef" || len(vs.Values) != 1 {
				return true
			}
			cl, ok := vs.Values[0].(*ast.CompositeLit)
			if !ok {
				return true
			}
			for _, e := range cl.Elts {
				kv, ok := e.(*ast.KeyValueExpr)
				if !ok {
					continue
				}
				k, ok1 := constByte(st.TypesInfo.Types[kv.Key].Value)
				v, ok2 := constByte(st.TypesInfo.Types[kv.Value].Value)
				if ok1 && ok2 {
					encodeRef[k] = v
				}
			}
			return false
		})
	}
	if len(encodeRef) == 0 {
		c.Unknown(rule, "sqltypes.encodeRef", 0, "escape reference table not found")
		return
	}
	decodeRef := map[byte]byte{}
	for k, v := range encodeRef {
		decodeRef[v] = k
	}
	// --- reader
	scan := p.Func("parser/sqlparser", "(*Tokenizer).scanString")
	if scan == nil {
		c.Unknown(rule, "parser/sqlparser.(*Tokenizer).scanString", 0, "anchor not found")
		return
	}
	c.SawFunc("parser/sqlparser.(*Tokenizer).scanString")
	decoded := map[byte]byte{} // escape letter -> byte
	readerForm := ""
	ast.Inspect(scan.Decl.Body, func(n ast.Node) bool {
		is, ok := n.(*ast.IfStmt)
		if !ok || !strings.Contains(core.FullStr(is.Body), "SQLDecodeMap") && (is.Init == nil || !strings.Contains(core.FullStr(is.Init), "SQLDecodeMap")) {
			return true
		}
		if is.Init != nil && strings.Contains(core.FullStr(is.Init), "SQLDecodeMap") {
			// vitess form: every letter of the decode map is decoded, any other escaped character stands for itself
			readerForm = "full"
			for k, v := range decodeRef {
				decoded[k] = v
			}
			return false
		}
		// narrowed form: lastChar == 'x' || …
		var letters []byte
		okForm := true
		var walk func(e ast.Expr)
		walk = func(e ast.Expr) {
			e = core.Unparen(e)
			be, ok := e.(*ast.BinaryExpr)
			if !ok {
				okForm = false
				return
			}
			switch be.Op {
			case token.LOR:
				walk(be.X)
				walk(be.Y)
			case token.EQL:
				if !strings.HasSuffix(core.ExprStr(be.X), ".lastChar") {
					okForm = false
					return
				}
				b, ok := constByte(scan.Info().Types[be.Y].Value)
				if !ok {
					okForm = false
					return
				}
				letters = append(letters, b)
			default:
				okForm = false
			}
		}
		walk(is.Cond)
		if !okForm || is.Else == nil || !strings.Contains(core.FullStr(is.Else), `WriteByte('\\')`) {
			return true
		}
		readerForm = "narrowed"
		for _, l := range letters {
			if b, ok := decodeRef[l]; ok {
				decoded[l] = b
			} else {
				decoded[l] = 255 // DontEscape: decodes to a byte nobody wrote
			}
		}
		return false
	})
	if readerForm == "" {
		c.Unknown(rule, "parser/sqlparser.(*Tokenizer).scanString", scan.Decl.Pos(), "the escape decoding step was not recognised (expected a test of lastChar against letters, or a lookup in SQLDecodeMap)")
		return
	}
	// --- writer
	format := p.Func("parser/sqlparser", "(*SQLVal).Format")
	if format == nil {
		c.Unknown(rule, "parser/sqlparser.(*SQLVal).Format", 0, "anchor not found")
		return
	}
	c.SawFunc("parser/sqlparser.(*SQLVal).Format")
	var strCall *ast.CallExpr
	ast.Inspect(format.Decl.Body, func(n ast.Node) bool {
		cc, ok := n.(*ast.CaseClause)
		if !ok {
			return true
		}
		isStr := false
		for _, e := range cc.List {
			if core.ExprStr(e) == "StrVal" {
				isStr = true
			}
		}
		if !isStr {
			return true
		}
		for _, s := range cc.Body {
			if es, ok := s.(*ast.ExprStmt); ok {
				if call, ok := es.X.(*ast.CallExpr); ok && strCall == nil {
					strCall = call
				}
			}
		}
		return false
	})
	if strCall == nil {
		c.Unknown(rule, "parser/sqlparser.(*SQLVal).Format/StrVal", format.Decl.Pos(), "the StrVal case does not print through a single call")
		return
	}
	written := map[byte]byte{} // byte -> escape letter
	writerForm := ""
	callee := p.CalleeName(format.Info(), strCall)
	switch {
	case strings.HasSuffix(callee, "sqltypes.Value.EncodeSQL"):
		writerForm = "sqltypes.EncodeSQL (escapes every byte of encodeRef)"
		for k, v := range encodeRef {
			written[k] = v
		}
	default:
		var enc *core.FuncRef
		for _, fr := range p.AllFuncs("parser/sqlparser") {
			if core.Rel(fr.Pkg) == "parser/sqlparser" && p.FName(fr) == callee {
				enc = fr
			}
		}
		if enc == nil {
			c.Unknown(rule, "parser/sqlparser.(*SQLVal).Format/StrVal", strCall.Pos(), "the literal encoder "+callee+" was not found")
			return
		}
		c.SawFunc(callee)
		okForm := false
		bad := ""
		ast.Inspect(enc.Decl.Body, func(n ast.Node) bool {
			rs, ok := n.(*ast.RangeStmt)
			if !ok || rs.Value == nil {
				return true
			}
			v := core.ExprStr(rs.Value)
			for _, s := range rs.Body.List {
				sw, ok := s.(*ast.SwitchStmt)
				if !ok || sw.Tag == nil || core.ExprStr(sw.Tag) != v {
					continue
				}
				okForm = true
				for _, cs := range sw.Body.List {
					cc := cs.(*ast.CaseClause)
					if len(cc.Body) != 1 {
						okForm = false
						continue
					}
					call, ok := cc.Body[0].(*ast.ExprStmt)
					if !ok {
						okForm = false
						continue
					}
					ce, ok := call.X.(*ast.CallExpr)
					if !ok || len(ce.Args) != 1 {
						okForm = false
						continue
					}
					if cc.List == nil {
						if core.ExprStr(ce.Args[0]) != v {
							bad = "the default case must write the byte itself"
						}
						continue
					}
					tv := enc.Info().Types[ce.Args[0]].Value
					if tv == nil || tv.Kind() != constant.String {
						okForm = false
						continue
					}
					esc := constant.StringVal(tv)
					if len(esc) != 2 || esc[0] != '\\' {
						bad = fmt.Sprintf("case %s writes %q, which is not a backslash escape", core.ExprStr(cc.List[0]), esc)
						continue
					}
					for _, e := range cc.List {
						b, ok := constByte(enc.Info().Types[e].Value)
						if !ok {
							okForm = false
							continue
						}
						written[b] = esc[1]
					}
				}
			}
			return true
		})
		if !okForm {
			c.Unknown(rule, callee, enc.Decl.Pos(), "the literal encoder is not a switch over the literal's bytes with one constant escape per case")
			return
		}
		if bad != "" {
			c.Bad(rule, callee, enc.Decl.Pos(), 1, bad)
			return
		}
		writerForm = callee
	}
	c.Note(fmt.Sprintf("%s: writer %s escapes %d byte(s); reader form %q decodes %d letter(s)", rule, writerForm, len(written), readerForm, len(decoded)))
	var bytesW []int
	for b := range written {
		bytesW = append(bytesW, int(b))
	}
	sort.Ints(bytesW)
	for _, bi := range bytesW {
		b := byte(bi)
		l := written[b]
		back, isDecoded := decoded[l]
		key := fmt.Sprintf("string literal escape of byte 0x%02x", b)
		switch {
		case !isDecoded && readerForm == "narrowed":
			c.Bad(rule, key, strCall.Pos(), 1, fmt.Sprintf("the printer writes byte 0x%02x as \\%c, which the tokenizer does not decode: it keeps the backslash, so the printed literal reads back with one more character (and grows on every round trip)", b, l))
		case !isDecoded && l != b:
			c.Bad(rule, key, strCall.Pos(), 1, fmt.Sprintf("the printer writes byte 0x%02x as \\%c, which the tokenizer reads as the character %c", b, l, l))
		case isDecoded && back != b:
			c.Bad(rule, key, strCall.Pos(), 1, fmt.Sprintf("the printer writes byte 0x%02x as \\%c, which the tokenizer decodes to byte 0x%02x", b, l, back))
		default:
			c.OK(rule, key, strCall.Pos(), 1, fmt.Sprintf("\\%c is decoded back to the byte", l))
		}
	}
	for _, must := range []byte{'\'', '\\'} {
		_, ok := written[must]
		c.Decide(ok, rule, fmt.Sprintf("string literal byte 0x%02x is escaped", must), strCall.Pos(), 1, "always escaped",
			fmt.Sprintf("the byte %q inside a string literal must be escaped by the printer: written verbatim it ends the literal or escapes the next character", string(must)))
	}
}

func constByte(v constant.Value) (byte, bool) {
	if v == nil {
		return 0, false
	}
	if v.Kind() != constant.Int {
		return 0, false
	}
	i, ok := constant.Int64Val(v)
	if !ok || i < 0 || i > 255 {
		return 0, false
	}
	return byte(i), true
}
