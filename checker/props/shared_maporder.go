package props

import (
	"fmt"
	"go/ast"
	"go/token"
	"go/types"
	"strings"

	"octoverif/core"
)

// mapOrderOK: loops over a map whose outcome was confirmed not to depend on the iteration order although they match one
// of the two shapes below. One line of reason each.
var mapOrderOK = map[string]string{
	"logical.ReverseMapping/range over mapping #1":                                 "inverts name→unique name; unique names come from the per-query counter (logical.Environment.GetUnique), one per column, so the inversion has no collisions",
	"physical.ExplainNode/range over node.Datasource.VariableMapping #1":           "inverts column→unique name of one datasource; every column gets its own unique name in DataSource.Typecheck",
	"physical.(*Datasource).PushDownPredicates/range over node.VariableMapping #1": "same inversion of a datasource's column→unique name mapping",
	"physical.(*Node).Materialize/range over node.Datasource.VariableMapping #1":   "same inversion of a datasource's column→unique name mapping",
}

// checkMapOrder (MAPORDER): Go randomises map iteration. In the planner a result must be a function of the query and
// the inputs, so a loop over a map may not
//
//	(first-hit)  return a value built from the current key/value from inside the loop — which entry is met first
//	             changes from run to run when more than one qualifies;
//	(collision)  store into another map under a key computed from the current key without looking whether that key
//	             is already taken — which of two colliding entries survives changes from run to run.
func checkMapOrder(c *core.Ctx, rule string, pkgs []string) {
	p := c.Prog
	n, loops := 0, 0
	for _, fr := range p.AllFuncs(pkgs...) {
		ok := false
		for _, pk := range pkgs {
			if core.Rel(fr.Pkg) == pk {
				ok = true
			}
		}
		if !ok || strings.HasSuffix(p.Fset.File(fr.Decl.Pos()).Name(), "_test.go") {
			continue
		}
		info := fr.Info()
		name := p.FName(fr)
		idx := 0
		ast.Inspect(fr.Decl.Body, func(nd ast.Node) bool {
			rs, ok := nd.(*ast.RangeStmt)
			if !ok {
				return true
			}
			if _, isMap := info.TypeOf(rs.X).Underlying().(*types.Map); !isMap {
				return true
			}
			loops++
			vars := map[types.Object]bool{}
			for _, e := range []ast.Expr{rs.Key, rs.Value} {
				if id, ok := e.(*ast.Ident); ok && id.Name != "_" {
					if o := info.Defs[id]; o != nil {
						vars[o] = true
					}
				}
			}
			mentions := func(e ast.Node) bool {
				found := false
				ast.Inspect(e, func(m ast.Node) bool {
					if id, ok := m.(*ast.Ident); ok && vars[info.Uses[id]] {
						found = true
					}
					return true
				})
				return found
			}
			var keyObj types.Object
			if id, ok := rs.Key.(*ast.Ident); ok {
				keyObj = info.Defs[id]
			}
			// locals derived from the key inside the loop (name = f(name))
			derived := map[types.Object]bool{}
			if keyObj != nil {
				derived[keyObj] = false
			}
			ast.Inspect(rs.Body, func(m ast.Node) bool {
				if as, ok := m.(*ast.AssignStmt); ok && as.Tok == token.ASSIGN && len(as.Lhs) == 1 {
					if id, ok := as.Lhs[0].(*ast.Ident); ok && info.Uses[id] == keyObj && keyObj != nil {
						derived[keyObj] = true // the key variable is recomputed
					}
				}
				return true
			})
			idx++
			key := fmt.Sprintf("%s/range over %s #%d", name, core.ExprStr(rs.X), idx)
			bad := ""
			ast.Inspect(rs.Body, func(m ast.Node) bool {
				switch v := m.(type) {
				case *ast.FuncLit:
					return false
				case *ast.ReturnStmt:
					for _, r := range v.Results {
						if mentions(r) && bad == "" {
							bad = fmt.Sprintf("%s: returns %s from inside a loop over a map: when several entries qualify, the one Go's randomised iteration meets first wins and the result differs between runs", p.Pos(v.Pos()), core.ExprStr(r))
						}
					}
				case *ast.AssignStmt:
					if len(v.Lhs) != 1 {
						return true
					}
					ix, ok := v.Lhs[0].(*ast.IndexExpr)
					if !ok {
						return true
					}
					if _, isMap := info.TypeOf(ix.X).Underlying().(*types.Map); !isMap {
						return true
					}
					// key is the untouched loop key: injective, no collision
					if id, ok := core.Unparen(ix.Index).(*ast.Ident); ok && info.Uses[id] == keyObj && keyObj != nil && !derived[keyObj] {
						return true
					}
					if !mentions(ix.Index) {
						return true
					}
					// guarded by a lookup of the same key in the same map?
					guarded := false
					ast.Inspect(rs.Body, func(g ast.Node) bool {
						if gi, ok := g.(*ast.IndexExpr); ok && gi != ix && core.ExprStr(gi.X) == core.ExprStr(ix.X) && core.ExprStr(gi.Index) == core.ExprStr(ix.Index) {
							guarded = true
						}
						return true
					})
					if !guarded && bad == "" {
						bad = fmt.Sprintf("%s: stores into %s under a key computed from the current entry (%s) without checking whether it is taken: when two entries map to the same key, the survivor depends on Go's randomised map iteration", p.Pos(v.Pos()), core.ExprStr(ix.X), core.ExprStr(ix.Index))
					}
				}
				return true
			})
			// first-hit through break: an entry-derived value is kept and the loop left
			if bad == "" {
				core.WalkStack(rs.Body, func(m ast.Node, stack []ast.Node) bool {
					br, ok := m.(*ast.BranchStmt)
					if !ok || br.Tok != token.BREAK || br.Label != nil {
						return true
					}
					for i := len(stack) - 1; i >= 0; i-- {
						switch stack[i].(type) {
						case *ast.ForStmt, *ast.RangeStmt, *ast.SwitchStmt, *ast.TypeSwitchStmt, *ast.SelectStmt:
							return true // leaves an inner statement, not the map loop
						case *ast.FuncLit:
							return true
						}
					}
					// does the loop keep something of the entry in an outer variable?
					keeps := false
					ast.Inspect(rs.Body, func(a ast.Node) bool {
						if as, ok := a.(*ast.AssignStmt); ok && as.Tok == token.ASSIGN {
							for _, r := range as.Rhs {
								if mentions(r) {
									keeps = true
								}
							}
						}
						return true
					})
					if keeps && bad == "" {
						bad = fmt.Sprintf("%s: keeps a value of the current entry and leaves the loop over the map at the first hit: when several entries qualify, the one Go's randomised iteration meets first wins", p.Pos(br.Pos()))
					}
					return true
				})
			}
			if bad == "" {
				return true
			}
			n++
			c.SawFunc(name)
			if why, ok := mapOrderOK[key]; ok {
				c.OK(rule, key, rs.Pos(), 1, "order-independent: "+why)
			} else {
				c.Bad(rule, key, rs.Pos(), 1, bad)
			}
			return true
		})
	}
	c.OK(rule, "loops over maps in "+strings.Join(pkgs, ", "), 0, loops, fmt.Sprintf("%d loops over maps scanned, %d match a first-hit or collision shape", loops, n))
	c.Floor(rule, 1, "map loops scanned")
}

// checkCTEFreshNames (CTEFRESH): columns are identified by unique names handed out at typecheck time, and a join's
// schema is the concatenation of its inputs' fields, resolved by first match. A common table expression is typechecked
// once; if every reference returns that one node and its name mapping verbatim, two references in one query carry the
// same unique names — a self-join of a CTE reads the left input's columns for both sides — and the shared mapping is
// mutated by the join that merges it. A reference must return fresh unique names (and its own mapping).
func checkCTEFreshNames(c *core.Ctx, rule string) {
	p := c.Prog
	fn := p.Func("logical", "(*DataSource).Typecheck")
	key := "logical.(*DataSource).Typecheck/common table expression reference"
	if fn == nil {
		c.Unknown(rule, key, 0, "anchor not found")
		return
	}
	c.SawFunc("logical.(*DataSource).Typecheck")
	var block *ast.IfStmt
	var cteVar string
	ast.Inspect(fn.Decl.Body, func(n ast.Node) bool {
		is, ok := n.(*ast.IfStmt)
		if !ok || is.Init == nil || block != nil {
			return true
		}
		if as, ok := is.Init.(*ast.AssignStmt); ok && len(as.Rhs) == 1 && strings.Contains(core.ExprStr(as.Rhs[0]), "CommonTableExpressions[") {
			block = is
			if id, ok := as.Lhs[0].(*ast.Ident); ok {
				cteVar = id.Name
			}
		}
		return true
	})
	if block == nil {
		c.Unknown(rule, key, fn.Decl.Pos(), "the lookup of the data source's name among the common table expressions was not found")
		return
	}
	bad := ""
	fresh := false
	n := 0
	ast.Inspect(block.Body, func(nd ast.Node) bool {
		switch v := nd.(type) {
		case *ast.CallExpr:
			if strings.HasSuffix(p.CalleeName(fn.Info(), v), "Environment).GetUnique") || strings.HasSuffix(core.ExprStr(v.Fun), ".GetUnique") {
				fresh = true
			}
		case *ast.ReturnStmt:
			n++
			if len(v.Results) == 2 {
				if core.ExprStr(v.Results[0]) == cteVar+".Node" {
					bad = fmt.Sprintf("%s: every reference returns the one node the expression was typechecked to: two references in one query have the same unique column names, and a join of the two resolves both sides' columns to the left input", p.Pos(v.Pos()))
				} else if core.ExprStr(v.Results[1]) == cteVar+".UniqueVariableMapping" {
					bad = fmt.Sprintf("%s: every reference returns the expression's one name mapping, which the joins that merge mappings then modify in place for all other references", p.Pos(v.Pos()))
				}
			}
		}
		return true
	})
	if bad == "" && !fresh {
		bad = "a reference to a common table expression does not allocate fresh unique column names (no GetUnique call)"
	}
	// the reference is known by its own alias (FROM cte x), as a table or a subquery is
	usesAlias := false
	recvName := ""
	if fn.Decl.Recv != nil && len(fn.Decl.Recv.List[0].Names) > 0 {
		recvName = fn.Decl.Recv.List[0].Names[0].Name
	}
	ast.Inspect(block.Body, func(nd ast.Node) bool {
		if se, ok := nd.(*ast.SelectorExpr); ok && se.Sel.Name == "alias" && core.ExprStr(se.X) == recvName {
			usesAlias = true
		}
		return true
	})
	c.Decide(usesAlias, rule, key+"/alias", block.Pos(), 1, "the columns of a reference are qualified with the reference's alias",
		"a reference to a common table expression ignores its alias: with `WITH a AS (…) SELECT z.k FROM a z` the column z.k is unknown, z.* expands to no columns, and the qualifiers used inside the expression leak out instead")
	c.Decide(bad == "" && n > 0, rule, key, block.Pos(), n, "each reference gets fresh unique names and its own mapping", bad)
}

// checkChildMappingUntouched (ALIASMAP): the name mapping a child's Typecheck returns is also kept by the child —
// DataSource.Typecheck stores the very same map in physical.Datasource.VariableMapping, the CTE table keeps it for the
// next reference. A parent that writes into it (directly, or through a plain alias) changes what the child's physical
// node means: with `FROM p.csv, p.csv` the right datasource's mapping was overwritten with the left one's unique names,
// its columns resolved to "", it produced empty records, and the json printer indexed past them.
func checkChildMappingUntouched(c *core.Ctx, rule string) {
	p := c.Prog
	n := 0
	for _, fr := range p.AllFuncs("logical") {
		if core.Rel(fr.Pkg) != "logical" || fr.Decl.Name.Name != "Typecheck" {
			continue
		}
		info := fr.Info()
		name := p.FName(fr)
		// maps received from a child's Typecheck, and their plain aliases
		received := map[types.Object]string{}
		for changed := true; changed; {
			changed = false
			ast.Inspect(fr.Decl.Body, func(nd ast.Node) bool {
				as, ok := nd.(*ast.AssignStmt)
				if !ok {
					return true
				}
				if len(as.Lhs) == 2 && len(as.Rhs) == 1 {
					if call, ok := as.Rhs[0].(*ast.CallExpr); ok {
						if sel, ok := call.Fun.(*ast.SelectorExpr); ok && sel.Sel.Name == "Typecheck" {
							if id, ok := as.Lhs[1].(*ast.Ident); ok && id.Name != "_" {
								obj := info.Defs[id]
								if obj == nil {
									obj = info.Uses[id]
								}
								if _, isMap := obj.Type().Underlying().(*types.Map); isMap && received[obj] == "" {
									received[obj] = core.ExprStr(sel.X) + ".Typecheck"
									changed = true
								}
							}
						}
					}
				}
				if len(as.Lhs) == 1 && len(as.Rhs) == 1 {
					if rid, ok := core.Unparen(as.Rhs[0]).(*ast.Ident); ok {
						if src, ok := received[info.Uses[rid]]; ok {
							if lid, ok := as.Lhs[0].(*ast.Ident); ok {
								obj := info.Defs[lid]
								if obj == nil {
									obj = info.Uses[lid]
								}
								if obj != nil && received[obj] == "" {
									received[obj] = src + " (through " + rid.Name + ")"
									changed = true
								}
							}
						}
					}
				}
				return true
			})
		}
		if len(received) == 0 {
			continue
		}
		n++
		c.SawFunc(name)
		bad := ""
		ast.Inspect(fr.Decl.Body, func(nd ast.Node) bool {
			switch v := nd.(type) {
			case *ast.AssignStmt:
				for _, l := range v.Lhs {
					if ix, ok := l.(*ast.IndexExpr); ok {
						if id, ok := core.Unparen(ix.X).(*ast.Ident); ok {
							if src, ok := received[info.Uses[id]]; ok && bad == "" {
								bad = fmt.Sprintf("%s: writes into %s, the mapping returned by %s, which the child's physical node keeps using", p.Pos(v.Pos()), id.Name, src)
							}
						}
					}
				}
			case *ast.CallExpr:
				if core.ExprStr(v.Fun) == "delete" && len(v.Args) == 2 {
					if id, ok := core.Unparen(v.Args[0]).(*ast.Ident); ok {
						if src, ok := received[info.Uses[id]]; ok && bad == "" {
							bad = fmt.Sprintf("%s: deletes from %s, the mapping returned by %s", p.Pos(v.Pos()), id.Name, src)
						}
					}
				}
			}
			return true
		})
		c.Decide(bad == "", rule, name, fr.Decl.Pos(), len(received), "the children's mappings are only read", bad)
	}
	c.Floor(rule, 8, "Typecheck methods that receive a child's mapping")
}

// checkNumericEquality (EQNUM): SQL compares an integer with a float numerically. The `=` / `!=` descriptors take
// (Any, Any) and delegate to Value.Equal; Value.Compare orders values of different TypeIDs by the TypeID, so an Int is
// never equal to a Float. Either equality gets numeric specialisations (or the typechecker rejects the comparison as it
// does for <, <=, …), or `where a = 1` on a JSON file (whose numbers are all Float) silently matches nothing.
func checkNumericEquality(c *core.Ctx, rule string) {
	p := c.Prog
	t := loadFunctions(c, rule)
	cmp := p.Func("octosql", "Value.Compare")
	if t == nil || cmp == nil {
		if cmp == nil {
			c.Unknown(rule, "octosql.Value.Compare", 0, "anchor not found")
		}
		return
	}
	// does Compare separate values by TypeID before looking at payloads?
	byTypeID := false
	if len(cmp.Decl.Body.List) > 0 {
		if is, ok := cmp.Decl.Body.List[0].(*ast.IfStmt); ok {
			cs := core.ExprStr(is.Cond)
			if strings.Contains(cs, ".TypeID != ") && strings.HasSuffix(cs, ".TypeID") {
				byTypeID = true
			}
		}
	}
	for _, name := range []string{"=", "!="} {
		var anyAny, numeric bool
		var pos token.Pos
		for _, d := range t.descs {
			if d.Name != name {
				continue
			}
			pos = d.Lit.Pos()
			kinds, _, known := t.argKinds(d)
			if !known || len(kinds) != 2 {
				continue
			}
			a, b := kinds[0].String(), kinds[1].String()
			if a == "Any" && b == "Any" && d.Function != nil && strings.Contains(core.FullStr(d.Function.Body), ".Equal(") {
				anyAny = true
			}
			if (a == "Int" && b == "Float") || (a == "Float" && b == "Int") {
				numeric = true
			}
		}
		key := "functions." + name + "/Int with Float"
		c.Decide(!(anyAny && byTypeID) || numeric, rule, key, pos, 2, "Int and Float operands are compared numerically (or not by Value.Equal)",
			"`"+name+"` accepts an Int and a Float operand (Any, Any) and compares them with Value.Equal, which separates values by TypeID before looking at them: 1 = 1.0 is false, `where a = 1` on a JSON file returns nothing, and a csv-Int to json-number join matches nothing")
	}
}

// checkUniqueNaming (UNIQ): output columns are found by name, so the names a SELECT list (and a GROUP BY) gives its
// columns must be pairwise distinct. Making a name distinct by appending one counter value is not enough — the
// suffixed name can itself be taken (x, x_1, x_1) — so the renaming has to loop until the candidate is unused, and
// record the name it finally chose. Decided at both places that name output columns.
func checkUniqueNaming(c *core.Ctx, rule string) {
	p := c.Prog
	for _, spec := range [][2]string{{"logical", "(*Map).Typecheck"}, {"parser", "ParseSelect"}} {
		fn := p.Func(spec[0], spec[1])
		key := spec[0] + "." + spec[1] + "/column names"
		if fn == nil {
			c.Unknown(rule, key, 0, "anchor not found")
			continue
		}
		c.SawFunc(spec[0] + "." + spec[1])
		n, bad := 0, ""
		// the renaming may sit in the function itself or in a helper (a method of a small namer type) it calls
		for _, h := range helperClosure(p, fn) {
			info := h.Info()
			core.WalkStack(h.Decl.Body, func(nd ast.Node, stack []ast.Node) bool {
				as, ok := nd.(*ast.AssignStmt)
				if !ok || as.Tok != token.ASSIGN || len(as.Lhs) != 1 || len(as.Rhs) != 1 {
					return true
				}
				lid, ok := as.Lhs[0].(*ast.Ident)
				if !ok {
					return true
				}
				call, ok := as.Rhs[0].(*ast.CallExpr)
				if !ok || p.CalleeName(info, call) != "fmt.Sprintf" || len(call.Args) < 3 {
					return true
				}
				if tv := info.Types[call.Args[0]]; tv.Value == nil || !strings.Contains(tv.Value.ExactString(), "%s_%d") {
					return true
				}
				n++
				// the renaming must sit in a loop whose condition asks whether the candidate is taken
				inLoop := false
				for i := len(stack) - 1; i >= 0; i-- {
					if _, isLit := stack[i].(*ast.FuncLit); isLit {
						break
					}
					if fs, ok := stack[i].(*ast.ForStmt); ok && fs.Cond != nil {
						ast.Inspect(fs.Cond, func(m ast.Node) bool {
							if ix, ok := m.(*ast.IndexExpr); ok {
								if _, isMap := info.TypeOf(ix.X).Underlying().(*types.Map); isMap && core.ExprStr(ix.Index) == lid.Name {
									inLoop = true
								}
							}
							return true
						})
					}
				}
				if !inLoop && bad == "" {
					bad = fmt.Sprintf("%s: a taken name is made distinct by appending one counter value, without checking that the result is free: three columns named x become x, x_1, x_1 — the second and third collide, one of them vanishes from json output and an outer query reads the wrong column", p.Pos(as.Pos()))
				}
				return true
			})
		}
		if bad == "" && n == 0 {
			bad = "no renaming of duplicate column names found"
		}
		c.Decide(bad == "", rule, key, fn.Decl.Pos(), n, "duplicates are renamed in a loop until the candidate is unused", bad)
	}
}

// checkUniqueNameComparison (UNIQCMP): after typechecking, columns are known by unique names (`k_0`, `a.k_0`).
// physical.VariableNameMatchesField is the matcher for *user-facing* names — it lets an unqualified `k` match a
// qualified `a.k` — and applied to unique names it equates `k_0` (a derived column aliased k) with `a.k_0` (column k
// of table a): the planner then believes an expression uses columns of both join sides. Only the resolver of
// user-facing names may call it; unique names are compared exactly.
func checkUniqueNameComparison(c *core.Ctx, rule string) {
	p := c.Prog
	allowed := map[string]string{
		"logical.GetUniqueNameMatchingVariable": "resolves a user-facing name against the user-facing keys of the name mapping",
	}
	n := 0
	for _, fr := range p.AllFuncs("logical", "physical", "optimizer", "execution", "cmd", "parser") {
		if fr.Decl == nil || fr.Decl.Body == nil {
			continue
		}
		if f := p.Fset.File(fr.Decl.Pos()); f != nil && strings.HasSuffix(f.Name(), "_test.go") {
			continue
		}
		info := fr.Info()
		name := p.FName(fr)
		ast.Inspect(fr.Decl.Body, func(nd ast.Node) bool {
			call, ok := nd.(*ast.CallExpr)
			if !ok || p.CalleeName(info, call) != "physical.VariableNameMatchesField" {
				return true
			}
			n++
			c.SawFunc(name)
			if why, ok := allowed[name]; ok {
				c.OK(rule, name+"→VariableNameMatchesField", call.Pos(), 1, why)
			} else {
				c.Bad(rule, name+"→VariableNameMatchesField", call.Pos(), 1, "unique column names are compared with the matcher for user-facing names, which ignores a missing qualifier: `k_0` (a derived column aliased k) matches `a.k_0` (column k of table a), so an expression over one join side is taken to use both — an outer join with such a derived table is rejected, and an inner join loses its join key")
			}
			return true
		})
	}
	c.Floor(rule, 1, "callers of the user-facing name matcher")
	_ = n
}

// checkJoinNameCollisions (JOINDUP): a join's output knows its columns by the names of both sides. Two sides with an
// equally named column (the same table twice without distinct aliases) cannot both be reached by name — one shadows
// the other, `a.k = a.k` compares a column with itself and SELECT * prints columns without names — so every join must
// reject the collision when it merges the sides' name mappings.
func checkJoinNameCollisions(c *core.Ctx, rule string) {
	p := c.Prog
	rejects := func(fr *core.FuncRef) bool {
		found := false
		ast.Inspect(fr.Decl.Body, func(n ast.Node) bool {
			is, ok := n.(*ast.IfStmt)
			if !ok || is.Init == nil {
				return true
			}
			as, ok := is.Init.(*ast.AssignStmt)
			if !ok || len(as.Lhs) != 2 || len(as.Rhs) != 1 {
				return true
			}
			if _, isIx := as.Rhs[0].(*ast.IndexExpr); !isIx || core.ExprStr(is.Cond) != core.ExprStr(as.Lhs[1]) {
				return true
			}
			ast.Inspect(is.Body, func(m ast.Node) bool {
				if call, ok := m.(*ast.CallExpr); ok && core.ExprStr(call.Fun) == "panic" {
					found = true
				}
				return true
			})
			return true
		})
		return found
	}
	for _, typ := range []string{"StreamJoin", "OuterJoin", "LookupJoin"} {
		fn := p.Func("logical", "(*"+typ+").Typecheck")
		key := "logical.(*" + typ + ").Typecheck/equally named columns"
		if fn == nil {
			c.Unknown(rule, key, 0, "anchor not found")
			continue
		}
		c.SawFunc("logical.(*" + typ + ").Typecheck")
		ok := rejects(fn)
		if !ok {
			info := fn.Info()
			ast.Inspect(fn.Decl.Body, func(n ast.Node) bool {
				call, isCall := n.(*ast.CallExpr)
				if !isCall || len(call.Args) < 2 {
					return true
				}
				for _, fr := range p.AllFuncs("logical") {
					if core.Rel(fr.Pkg) == "logical" && p.FName(fr) == p.CalleeName(info, call) && fr.Decl.Body != nil && rejects(fr) {
						ok = true
					}
				}
				return true
			})
		}
		c.Decide(ok, rule, key, fn.Decl.Pos(), 1, "sides with an equally named column are rejected",
			"the join merges the name mappings of its sides without rejecting equal names: with the same table twice under one alias one side's columns shadow the other's — `a.k = a.k` compares a column with itself, and SELECT * prints columns with empty names")
	}
}
