package props

import (
	"fmt"
	"go/ast"
	"go/token"
	"go/types"
	"regexp"
	"strings"

	"octoverif/core"
	"octoverif/engine/errflow"
)

// packages on the query path (everything a SELECT can execute); the vendored
// vitess parser, tests, benchmarks, telemetry and generated protobuf code are out.
var queryPathPkgs = []string{"", "aggregates", "cmd", "config", "datasources", "execution", "functions", "logical", "optimizer", "outputs", "parser", "physical", "plugins", "table_valued_functions", "octosql", "helpers"}

func onQueryPath(rel string) bool {
	if rel == "parser/sqlparser" || strings.HasPrefix(rel, "parser/sqlparser/") {
		return false
	}
	for _, p := range queryPathPkgs {
		if rel == p || (p != "" && strings.HasPrefix(rel, p+"/")) {
			return true
		}
	}
	return false
}

// errAllow is the reasoned allow table for discarded error results. An entry
// matches on the callee (regexp over the resolved callee name) and optionally on
// the enclosing function; nothing wider than one callee family per line.
type errAllowEntry struct {
	callee, fn *regexp.Regexp
	how        string // "" any, or "defer statement"
	reason     string
}

func ea(callee, fn, how, reason string) errAllowEntry {
	e := errAllowEntry{callee: regexp.MustCompile("^(?:" + callee + ")$"), how: how, reason: reason}
	if fn != "" {
		e.fn = regexp.MustCompile("^(?:" + fn + ")$")
	}
	return e
}

var errAllow = []errAllowEntry{
	ea(`strings\.\(\*Builder\)\.Write(String|Rune|Byte)?`, "", "", "documented to always return a nil error"),
	ea(`bytes\.\(\*Buffer\)\.Write(String|Rune|Byte)?`, "", "", "documented to always return a nil error (panics on OOM)"),
	ea(`fmt\.(Fprintf|Fprint|Fprintln)`, "", "memory-or-stderr", "writes into an in-memory buffer (cannot fail) or a diagnostic to stderr"),
	ea(`fmt\.(Print|Printf|Println)`, `main\.main|cmd\..*|plugins/.*|telemetry\..*|logs\..*`, "", "messages of the plugin/administration subcommands and the forced-stop notice, not query results"),
	ea(`.*\.Close`, "", "defer statement", "deferred Close of a handle whose data has already been consumed"),
	ea(`io\.Closer\.Close`, `datasources/lines\.Creator`, "", "read-only preview handle"),
	ea(`github\.com/nxadm/tail\.\(\*Tail\)\.Stop|io\.\(\*Pipe(Reader|Writer)\)\.(Close|CloseWithError|Write)`, `execution/files\.Tail`, "", "tail pipe plumbing: a failed pipe write means the reader side was closed"),
	ea(`encoding/csv\.\(\*Writer\)\.Write`, `outputs/formats\.\(\*CSVFormatter\)\.SetSchema`, "", "header row into a buffered writer (final output, noted)"),
	ea(`io\.Writer\.Write`, `outputs/formats\.\(\*JSONFormatter\)\.Write`, "", "final output to stdout (noted)"),
	ea(`github\.com/Masterminds/semver\.NewConstraint`, "", "constarg", "constant constraint string \"*\" always parses"),
	ea(`fmt\.Errorf`, `cmd\.typecheck(Node|Expr)`, "", "assigned to the named result in the deferred recover"),
}

// fastjson accessors fail only when the value has another JSON type; a
// discarded error is accepted only under a test of that type on the same receiver.
// The number accessors (Float64, Int, …) are deliberately absent: fastjson's tokenizer accepts any run of number
// characters as TypeNumber ("1.2.3", "--5") and only the conversion reports the syntax error, so their error is real
// even under a Type() guard (audit H5-1).
var fastjsonAccessor = map[string]string{"Array": "TypeArray", "Object": "TypeObject", "StringBytes": "TypeString"}

func fastjsonGuarded(info *types.Info, s *errflow.Site) (bool, string) {
	f, ok := core.Callee(info, s.Call).(*types.Func)
	if !ok || f.Pkg() == nil || f.Pkg().Path() != "github.com/valyala/fastjson" {
		return false, ""
	}
	want, ok := fastjsonAccessor[f.Name()]
	if !ok {
		return false, ""
	}
	sel, ok := s.Call.Fun.(*ast.SelectorExpr)
	if !ok {
		return false, ""
	}
	recv := core.ExprStr(sel.X)
	isTypeCall := func(e ast.Expr) bool {
		// a local defined once as recv.Type() names that call's value
		if id, ok := core.Unparen(e).(*ast.Ident); ok && len(s.Stack) > 0 {
			if obj, ok := info.Uses[id].(*types.Var); ok {
				if def := singleDef(info, s.Stack[0], obj); def != nil {
					e = def
				}
			}
		}
		c, ok := core.Unparen(e).(*ast.CallExpr)
		if !ok {
			return false
		}
		cs, ok := c.Fun.(*ast.SelectorExpr)
		return ok && cs.Sel.Name == "Type" && core.ExprStr(cs.X) == recv
	}
	isConst := func(e ast.Expr) bool {
		cs, ok := core.Unparen(e).(*ast.SelectorExpr)
		return ok && cs.Sel.Name == want
	}
	for i := len(s.Stack) - 1; i >= 0; i-- {
		switch x := s.Stack[i].(type) {
		case *ast.FuncLit:
			return false, ""
		case *ast.IfStmt:
			// the call must be in the then-branch
			if i+1 < len(s.Stack) && s.Stack[i+1] == ast.Node(x.Body) {
				if be, ok := core.Unparen(x.Cond).(*ast.BinaryExpr); ok && be.Op == token.EQL {
					if (isTypeCall(be.X) && isConst(be.Y)) || (isTypeCall(be.Y) && isConst(be.X)) {
						return true, "under `" + core.ExprStr(x.Cond) + "`"
					}
				}
			}
		case *ast.CaseClause:
			if i >= 2 {
				if sw, ok := s.Stack[i-2].(*ast.SwitchStmt); ok && sw.Tag != nil && isTypeCall(sw.Tag) {
					all := len(x.List) > 0
					for _, e := range x.List {
						if !isConst(e) {
							all = false
						}
					}
					if all {
						return true, "under case " + want
					}
				}
			}
		}
	}
	return false, ""
}

// parseCalls are the conversions whose failure is defined to yield NULL (C13).
var parseCalls = map[string]bool{"strconv.ParseInt": true, "strconv.ParseFloat": true, "strconv.Atoi": true, "time.Parse": true, "time.ParseDuration": true}

// originIsParse: every assignment of the tested error variable takes it from a parse call.
func originIsParse(info *types.Info, fn *core.FuncRef, errExpr ast.Expr) bool {
	id, ok := core.Unparen(errExpr).(*ast.Ident)
	if !ok {
		return false
	}
	obj := info.Uses[id]
	if obj == nil {
		return false
	}
	n, okAll := 0, true
	ast.Inspect(fn.Decl.Body, func(m ast.Node) bool {
		as, ok := m.(*ast.AssignStmt)
		if !ok {
			return true
		}
		for _, l := range as.Lhs {
			lid, ok := l.(*ast.Ident)
			if !ok || (info.Defs[lid] != obj && info.Uses[lid] != obj) {
				continue
			}
			n++
			if len(as.Rhs) != 1 {
				okAll = false
				continue
			}
			call, ok := core.Unparen(as.Rhs[0]).(*ast.CallExpr)
			if !ok {
				okAll = false
				continue
			}
			f, ok := core.Callee(info, call).(*types.Func)
			if !ok || !parseCalls[f.FullName()] {
				okAll = false
			}
		}
		return true
	})
	return n > 0 && okAll
}

func init() {
	register(&Check{ID: "C06", Run: runC06,
		Explanation: "Error discipline on every path of every function on the query path (all packages except the vendored SQL parser, telemetry, tests and generated code). " +
			"ERR1: the error result of every call is returned, wrapped, passed on, stored, or assigned to a variable that is read on every CFG path before it is overwritten or goes out of scope (go/cfg forward search); expression statements, `_`, go/defer and dead assignments are violations unless in the reasoned allow table. " +
			"ERR3: a return inside `if X != nil` does not hand back a different error variable that a must-dataflow shows to be nil there. " +
			"ERR4: the block guarded by `X != nil` hands the error on (returns a non-nil error, panics, stores/sends it) — `return nil` or falling through needs a sentinel test on X or a parse-failure origin. " +
			"ERR5: every `for sc.Scan()` loop is followed by sc.Err() whose result obeys ERR1/ERR3/ERR4. " +
			"ERR6: a received value of a struct type with an error field has that field examined before any other field on every path.",
		NotDecided: []string{"that every failure *produces* an error in the first place (e.g. a parser that silently accepts malformed rows)", "errors inside third-party decoders", "process exit status beyond cobra.CheckErr being reached (the call chain main→cmd.Execute→CheckErr is covered by ERR1)"},
	})
}

// checkJSONRootValidated (ERR7): the value returned by fastjson's Parse/ParseBytes is the row; its
// kind must be established through Object() (an error for anything else) or Type() before any
// field access — Get on a non-object silently yields nil, i.e. an all-NULL record.
func checkJSONRootValidated(c *core.Ctx, fn *core.FuncRef) {
	p := c.Prog
	info := fn.Info()
	ast.Inspect(fn.Decl.Body, func(n ast.Node) bool {
		as, ok := n.(*ast.AssignStmt)
		if !ok || len(as.Rhs) != 1 || len(as.Lhs) < 1 {
			return true
		}
		call, ok := core.Unparen(as.Rhs[0]).(*ast.CallExpr)
		if !ok {
			return true
		}
		f, ok := core.Callee(info, call).(*types.Func)
		if !ok || f.Pkg() == nil || f.Pkg().Path() != "github.com/valyala/fastjson" || (f.Name() != "ParseBytes" && f.Name() != "Parse") {
			return true
		}
		id, ok := as.Lhs[0].(*ast.Ident)
		if !ok {
			return true
		}
		root := info.Defs[id]
		if root == nil {
			root = info.Uses[id]
		}
		if root == nil {
			return true
		}
		key := p.FName(fn) + ":" + id.Name + " := " + f.Name()
		bad, uses := "", 0
		ast.Inspect(fn.Decl.Body, func(m ast.Node) bool {
			sel, ok := m.(*ast.SelectorExpr)
			if !ok {
				return true
			}
			rid, ok := sel.X.(*ast.Ident)
			if !ok || info.Uses[rid] != root {
				return true
			}
			uses++
			if sel.Sel.Name != "Object" && sel.Sel.Name != "Type" {
				bad = "the parsed row is used through ." + sel.Sel.Name + " without establishing that it is a JSON object (Object()/Type()): a row such as [1,2] or \"text\" becomes an all-NULL record instead of an error"
			}
			return true
		})
		if uses == 0 {
			return true
		}
		c.Decide(bad == "", "ERR7", key, as.Pos(), uses, "row kind established through Object()/Type()", bad)
		return true
	})
}

func runC06(c *core.Ctx) {
	c.Rule("MAYBE", "maybe-fitting arguments are asserted at run time; type-function overloads are not matched by arity")
	checkMaybeLoops(c, "MAYBE")
	p := c.Prog
	c.Rule("ERR1", "error result of a call is not discarded or dead")
	c.Rule("ERR3", "no return of a known-nil error variable inside `if X != nil`")
	c.Rule("ERR4", "the block guarded by `X != nil` hands the error on")
	c.Rule("ERR5", "scanner loops are followed by a checked sc.Err()")
	c.Rule("ERR6", "error field of a received carrier struct is examined first")
	// hand-confirmed floors (2026-09-21): 25 Node.Run call sites, 30 Evaluate call sites
	nRun, nEval, nProduce := 0, 0, 0
	nCarrierRecv := 0
	c.Rule("ERR7", "a parsed JSON row is validated to be an object before its fields are read")
	c.Rule("CELL", "a csv cell that does not fit its column type is an error, not a silently converted value (shared with C24)")
	checkCSVCells(c, "CELL")
	for _, fn := range p.AllFuncs() {
		rel := core.Rel(fn.Pkg)
		if !onQueryPath(rel) {
			continue
		}
		fname := p.Fset.Position(fn.Decl.Pos()).Filename
		if strings.HasSuffix(fname, ".pb.go") {
			continue
		}
		info := fn.Info()
		c.SawFunc(p.FName(fn))
		for _, s := range errflow.Sites(p, fn) {
			c.CallSite++
			switch {
			case s.Callee == "execution.Node.Run":
				nRun++
			case s.Callee == "execution.Expression.Evaluate":
				nEval++
			case strings.HasPrefix(s.Callee, "value:produce") || strings.HasPrefix(s.Callee, "value:metaSend"):
				nProduce++
			}
			switch s.Use {
			case errflow.Discarded, errflow.Dead:
				if ok, why := fastjsonGuarded(info, s); ok {
					c.OK("ERR1", s.Key(p), s.Call.Pos(), 1, "accessor error impossible "+why)
					continue
				}
				allowed := ""
				for _, e := range errAllow {
					how := e.how
					if how == "memory-or-stderr" {
						how = ""
						if len(s.Call.Args) == 0 {
							continue
						}
						target := core.Unparen(s.Call.Args[0])
						if ue, ok := target.(*ast.UnaryExpr); ok && ue.Op == token.AND {
							target = ue.X
						}
						tt := ""
						if t := info.TypeOf(target); t != nil {
							tt = strings.TrimPrefix(t.String(), "*")
						}
						if tt != "bytes.Buffer" && tt != "strings.Builder" && core.ExprStr(target) != "os.Stderr" {
							continue
						}
					}
					if how == "constarg" {
						how = ""
						if len(s.Call.Args) != 1 {
							continue
						}
						if bl, ok := s.Call.Args[0].(*ast.BasicLit); !ok || bl.Value != `"*"` {
							continue
						}
					}
					if e.callee.MatchString(s.Callee) && (e.fn == nil || e.fn.MatchString(p.FName(fn))) && (how == "" || how == s.How) {
						allowed = e.reason
						break
					}
				}
				if allowed != "" {
					c.OK("ERR1", s.Key(p), s.Call.Pos(), 1, "allowed: "+allowed)
					continue
				}
				c.Bad("ERR1", s.Key(p), s.Call.Pos(), 1, "error result of "+s.Callee+" is "+s.Use.String()+" ("+s.How+")")
			default:
				c.OK("ERR1", s.Key(p), s.Call.Pos(), 1, s.How)
			}
		}
		for _, b := range errflow.Branches(p, fn) {
			if !b.OK && strings.HasPrefix(b.Why, "returns nil") && originIsParse(info, fn, b.ErrExpr) {
				c.OK("ERR4", b.Key(p), b.If.Pos(), 1, "failed parse yields NULL by specification (C13)")
				continue
			}
			if !b.OK && regexp.MustCompile(`^config\.init\$Octosql(Config|Cache|Data)Dir$`).MatchString(p.FName(fn)) {
				c.OK("ERR4", b.Key(p), b.If.Pos(), 1, "allowed: XDG directory lookup failure falls back to ~/.octosql at start-up (not a query failure)")
				continue
			}
			c.Decide(b.OK, "ERR4", b.Key(p), b.If.Pos(), 1, b.Why, b.Why)
		}
		for _, r := range errflow.KnownNilReturns(p, fn) {
			c.Bad("ERR3", p.FName(fn)+":return "+r.Var+" under "+r.Tested+"!=nil", r.Ret.Pos(), 1,
				"returns `"+r.Var+"`, which is known to be nil here, inside the branch where `"+r.Tested+"` is non-nil: the error is lost")
		}
		for _, sl := range errflow.ScanLoops(p, fn) {
			key := p.FName(fn) + ":for " + sl.Scanner + ".Scan()"
			if sl.ErrCall == nil {
				c.Bad("ERR5", key, sl.Loop.Pos(), 1, "no "+sl.Scanner+".Err() after the scan loop: a read error or an over-long line ends the input silently")
			} else {
				c.OK("ERR5", key, sl.Loop.Pos(), 1, sl.Scanner+".Err() follows at "+p.Pos(sl.ErrCall.Pos()))
			}
		}
		for _, cr := range errflow.Carriers(p, fn) {
			c.Decide(cr.OK, "ERR6", p.FName(fn)+":"+cr.Var+" "+cr.Type+"."+cr.Field, cr.Def.Pos(), 1, cr.Why, cr.Why)
		}
		ds, nrecv := errflow.DiscardedCarriers(p, fn)
		nCarrierRecv += nrecv
		for _, d := range ds {
			c.Bad("ERR6", p.FName(fn)+":"+d.What, d.Pos, 1, "messages of type "+d.Type+" can carry an error from the producer goroutine; "+d.What+" throws them away unread, so a failure of that input ends the query successfully")
		}
		if rel == "datasources/json" {
			checkJSONRootValidated(c, fn)
		}
	}
	// floors as counted on the pinned tree; a refactoring that merges call sites lowers them legitimately,
	// so the floors are set well below today's counts and only guard against a vacuous run.
	c.Note("Node.Run call sites: %d, Expression.Evaluate call sites: %d, produce/metaSend call sites: %d", nRun, nEval, nProduce)
	if nRun < 15 || nEval < 20 || nProduce < 30 {
		c.Unknown("ERR1", "<anchors>", 0, "too few Node.Run/Evaluate/produce call sites resolved: the rule would be vacuous")
	}
	c.Floor("ERR1", 600, "error-returning call sites on the query path (1100+ today)")
	c.Floor("ERR4", 200, "`if err != nil` blocks on the query path")
	c.Floor("ERR5", 3, "scan loops: json impl, json execution, lines execution")
	c.Floor("ERR6", 3, "chanMessage in both joins, jobOutRecord in json")
	if nCarrierRecv < 6 {
		c.Unknown("ERR6", "<carrier receives>", 0, fmt.Sprintf("only %d receives of error-carrying messages found (joins: 3 each, json: 1)", nCarrierRecv))
	}
	c.Floor("ERR7", 1, "json parser worker")
}
