package props

import (
	"fmt"
	"go/ast"
	"go/token"
	"go/types"
	"strings"

	"octoverif/core"
	"octoverif/engine/absint"
)

// selectionTable evaluates a boolean expression over the atoms
// A = has ORDER BY (len(x) > 0), B = has LIMIT (x != nil), C = NoRetractions.
func selectionTable(p *core.Program, info *types.Info, cond ast.Expr) (string, error) {
	out := ""
	for a := 0; a < 2; a++ {
		for b := 0; b < 2; b++ {
			for cc := 0; cc < 2; cc++ {
				a, b, cc := a == 1, b == 1, cc == 1
				in := &absint.Interp{Info: info, Prog: p}
				unknown := ""
				in.Hooks.Cond = func(st *absint.State, atom string) (bool, bool) {
					l := strings.ToLower(atom)
					switch {
					case strings.Contains(l, "noretractions"):
						return cc, true
					case strings.Contains(l, "len(") && strings.Contains(l, "order"):
						// (0 < len(x)) or (0 == len(x)) or (len(x) <= 0)
						switch {
						case strings.HasPrefix(l, "(0 < "):
							return a, true
						case strings.HasPrefix(l, "(0 == "):
							return !a, true
						case strings.HasSuffix(l, " <= 0)"):
							return !a, true
						case strings.HasPrefix(l, "(0 <= "):
							return true, true
						}
					case strings.Contains(l, "limit") && strings.Contains(l, "nil"):
						return !b, true // atom is (x == nil)
					}
					unknown = atom
					return false, true
				}
				res, err := in.RunCond(cond)
				if err != nil {
					return "", err
				}
				if unknown != "" {
					return "", fmt.Errorf("condition depends on %s, which is none of (ORDER BY present, LIMIT present, NoRetractions)", unknown)
				}
				if len(res) != 1 {
					return "", fmt.Errorf("%d results", len(res))
				}
				if res[0].Value {
					out += "1"
				} else {
					out += "0"
				}
			}
		}
	}
	return out, nil
}

func formulaTable(f func(a, b, c bool) bool) string {
	out := ""
	for a := 0; a < 2; a++ {
		for b := 0; b < 2; b++ {
			for c := 0; c < 2; c++ {
				if f(a == 1, b == 1, c == 1) {
					out += "1"
				} else {
					out += "0"
				}
			}
		}
	}
	return out
}

func checkSelection(c *core.Ctx) {
	p := c.Prog
	wantOST := formulaTable(func(a, b, cc bool) bool { return a || (b && !cc) })
	wantBatchLimit := formulaTable(func(a, b, cc bool) bool { return !a && cc })
	n := 0
	scan := func(fn *core.FuncRef) {
		info := fn.Info()
		ord := 0
		ast.Inspect(fn.Decl.Body, func(nd ast.Node) bool {
			is, ok := nd.(*ast.IfStmt)
			if !ok {
				return true
			}
			// which constructor does the then-branch call directly?
			ctor := ""
			for _, st := range is.Body.List {
				var e ast.Expr
				switch x := st.(type) {
				case *ast.ReturnStmt:
					if len(x.Results) > 0 {
						e = x.Results[0]
					}
				case *ast.AssignStmt:
					if len(x.Rhs) == 1 {
						e = x.Rhs[0]
					}
				}
				if call, ok := e.(*ast.CallExpr); ok {
					switch p.CalleeName(info, call) {
					case "execution/nodes.NewOrderSensitiveTransform":
						ctor = "OST"
					case "execution/nodes.NewLimit":
						ctor = "Limit"
					}
				}
			}
			if ctor == "" {
				return true
			}
			ord++
			key := fmt.Sprintf("%s/%s#%d", p.FName(fn), ctor, ord)
			// `else if limit != nil { NewLimit }` and a plain `if limit != nil` are evaluated the same way
			tab, err := selectionTable(p, info, is.Cond)
			if err != nil {
				c.Unknown("MIR6", key, is.Pos(), err.Error())
				return true
			}
			n++
			// whose NoRetractions flag is consulted: it must be the input's (the stream the LIMIT is applied to), not the
			// flag of the node being built, which never retracts by construction
			// the flag may reach the condition (and the constructor) through a local variable
			flagExprs := []ast.Node{is.Cond}
			ast.Inspect(is.Cond, func(x ast.Node) bool {
				if id, ok := x.(*ast.Ident); ok {
					if rhs := resolveAlias(info, fn, id); rhs != nil && rhs != ast.Expr(id) {
						flagExprs = append(flagExprs, rhs)
					}
				}
				return true
			})
			for _, st := range is.Body.List {
				ast.Inspect(st, func(x ast.Node) bool {
					if call, ok := x.(*ast.CallExpr); ok && p.CalleeName(info, call) == "execution/nodes.NewOrderSensitiveTransform" && len(call.Args) == 5 {
						flagExprs = append(flagExprs, call.Args[4])
						if id, ok := core.Unparen(call.Args[4]).(*ast.Ident); ok {
							if rhs := resolveAlias(info, fn, id); rhs != nil && rhs != ast.Expr(id) {
								flagExprs = append(flagExprs, rhs)
							}
						}
					}
					return true
				})
			}
			seenOwner := map[string]bool{}
			for _, fe := range flagExprs {
				ast.Inspect(fe, func(x ast.Node) bool {
					se, ok := x.(*ast.SelectorExpr)
					if !ok || se.Sel.Name != "NoRetractions" {
						return true
					}
					owner := core.ExprStr(se.X)
					if seenOwner[owner] {
						return true
					}
					seenOwner[owner] = true
					okOwner := true
					if p.FName(fn) == "physical.(*Node).Materialize" {
						okOwner = strings.Contains(owner, ".Source.Schema")
					}
					c.Decide(okOwner, "MIR6", key+"/whose NoRetractions", se.Pos(), 1, "the input's retraction flag decides",
						fmt.Sprintf("the choice between Limit and OrderSensitiveTransform must look at whether the *input* can retract (….Source.Schema.NoRetractions); it looks at %s.NoRetractions, which describes the node's own output", owner))
					return true
				})
			}
			// the csv/json printer cannot express retractions at all: there the transform is needed whenever the plan
			// can retract, LIMIT or not
			eagerSite := false
			core.WalkStack(fn.Decl.Body, func(x ast.Node, stack []ast.Node) bool {
				if x == ast.Node(is) {
					for _, st := range stack {
						if cc, ok := st.(*ast.CaseClause); ok && strings.Contains(core.ExprStr(cc), `"csv"`) {
							eagerSite = true
						}
					}
				}
				return true
			})
			if ctor == "OST" && eagerSite {
				wantEager := formulaTable(func(a, b, cc bool) bool { return a || !cc })
				c.Decide(tab == wantEager, "MIR6", key, is.Pos(), 8, "csv/json: OrderSensitiveTransform ⇔ ORDER BY ∨ ¬NoRetractions",
					fmt.Sprintf("the csv/json printer prints every record it gets as a row, so a plan that can retract must be consolidated first whether or not there is a LIMIT: truth table over (ORDER BY, LIMIT, NoRetractions) is %s, expected %s — otherwise additions and their retractions both appear as rows", tab, wantEager))
				return true
			}
			switch ctor {
			case "OST":
				c.Decide(tab == wantOST, "MIR6", key, is.Pos(), 8, "OrderSensitiveTransform ⇔ ORDER BY ∨ (LIMIT ∧ ¬NoRetractions)",
					fmt.Sprintf("truth table over (ORDER BY, LIMIT, NoRetractions) is %s, expected %s: a streaming Limit node is only valid without ORDER BY and without retractions, and every site must choose alike", tab, wantOST))
			case "Limit":
				// reached only when the OST condition was false (else-branch or after a return): LIMIT present,
				// or (table output) ¬ORDER BY ∧ NoRetractions inside `if limit != nil`
				lim := formulaTable(func(a, b, cc bool) bool { return b })
				ok := tab == lim || tab == wantBatchLimit
				c.Decide(ok, "MIR6", key, is.Pos(), 8, "Limit node only when a LIMIT is present and (table output) no ORDER BY and no retractions",
					fmt.Sprintf("truth table %s is neither `LIMIT present` (%s) nor `¬ORDER BY ∧ NoRetractions` (%s)", tab, lim, wantBatchLimit))
			}
			return true
		})
	}
	if fn := p.Func("physical", "(*Node).Materialize"); fn != nil {
		scan(fn)
	} else {
		c.Unknown("MIR6", "physical.(*Node).Materialize", 0, "anchor not found")
	}
	for _, fn := range p.AllFuncs("cmd") {
		if fn.Synth == "init$rootCmd" {
			scan(fn)
		}
	}
	if n < 7 {
		c.Unknown("MIR6", "<sites>", 0, fmt.Sprintf("only %d selection sites found (3 OST + 4 Limit expected)", n))
	}
}

// checkLimitSentinel: the `return nil` that silences an error in Limit.Run is guarded by
// a test that mentions a per-run unique identifier also used in the callback's error.
func checkLimitSentinel(c *core.Ctx) {
	p := c.Prog
	fn := p.Func("execution/nodes", "(*Limit).Run")
	key := "execution/nodes.(*Limit).Run"
	if fn == nil {
		c.Unknown("ERR4L", key, 0, "anchor not found")
		return
	}
	info := fn.Info()
	found := false
	ast.Inspect(fn.Decl.Body, func(n ast.Node) bool {
		is, ok := n.(*ast.IfStmt)
		if !ok {
			return true
		}
		retNil := false
		for _, st := range is.Body.List {
			if rs, ok := st.(*ast.ReturnStmt); ok && len(rs.Results) == 1 && core.IsNilIdent(info, rs.Results[0]) {
				retNil = true
			}
		}
		if !retNil || !strings.Contains(core.ExprStr(is.Cond), "err") {
			return true
		}
		// an identifier in the condition that is defined from a call (unique per run) …
		var uniq types.Object
		ast.Inspect(is.Cond, func(m ast.Node) bool {
			if id, ok := m.(*ast.Ident); ok {
				if v, ok := info.Uses[id].(*types.Var); ok && !core.IsErrorType(v.Type()) {
					// its definition
					ast.Inspect(fn.Decl.Body, func(k ast.Node) bool {
						if as, ok := k.(*ast.AssignStmt); ok && as.Tok == token.DEFINE {
							for i, l := range as.Lhs {
								if lid, ok := l.(*ast.Ident); ok && info.Defs[lid] == v && i < len(as.Rhs) {
									if _, isCall := core.Unparen(as.Rhs[i]).(*ast.CallExpr); isCall {
										if tv := info.Types[as.Rhs[i]]; tv.Value == nil {
											uniq = v
										}
									}
								}
							}
						}
						return true
					})
				}
			}
			return true
		})
		if uniq == nil {
			return true
		}
		// … and used by the callback's sentinel error
		usedInCallback := false
		for _, rc := range nodeRunCalls(p, fn) {
			if rc.Produce != nil {
				ast.Inspect(rc.Produce.Body, func(m ast.Node) bool {
					if rs, ok := m.(*ast.ReturnStmt); ok {
						if core.ReadsObj(info, rs, uniq) {
							usedInCallback = true
						}
						// a callback made by a factory: the factory's parameter that was handed the identifier
						ast.Inspect(rs, func(k ast.Node) bool {
							if id, ok := k.(*ast.Ident); ok && litParamAlias(rc.Produce, info.Uses[id]) == uniq.Name() {
								usedInCallback = true
							}
							return true
						})
					}
					return true
				})
			}
		}
		found = true
		c.Decide(usedInCallback, "ERR4L", key, is.Pos(), 1, "the silenced error is recognised by the per-run identifier "+uniq.Name(), "the error is silenced by a test on "+uniq.Name()+" which the callback's sentinel error does not carry")
		return true
	})
	if !found {
		c.Bad("ERR4L", key, fn.Decl.Pos(), 1, "no sentinel test with a per-run unique identifier guards the `return nil` that silences the source's error (errors of other nodes would be swallowed, or the limit error would surface)")
	}
}

func checkOrderedEmitters(c *core.Ctx) {
	p := c.Prog
	for _, s := range []struct{ rel, fn string }{{"execution/nodes", "produceOrderByItems"}, {"outputs/batch", "(*OutputPrinter).Run"}, {"execution/nodes", "(*OrderSensitiveTransform).Run"}} {
		fn := p.Func(s.rel, s.fn)
		key := s.rel + "." + s.fn
		if fn == nil {
			c.Unknown("ORD5L", key, 0, "anchor not found")
			continue
		}
		asc, desc := 0, 0
		// the function and the helpers it hands the tree to (the emitter may be a method of its own)
		seenProd := map[*core.FuncRef]bool{}
		for _, h := range helperClosure(p, fn) {
			// produceOrderByItems is a site of its own: not counted again as OrderSensitiveTransform.Run's helper
			if h != fn && p.FName(h) == "execution/nodes.produceOrderByItems" || seenProd[h] {
				continue
			}
			seenProd[h] = true
			info := h.Info()
			core.WalkStack(h.Decl.Body, func(n ast.Node, stack []ast.Node) bool {
				call, ok := n.(*ast.CallExpr)
				if !ok {
					return true
				}
				f, ok := core.Callee(info, call).(*types.Func)
				if !ok || f.Pkg() == nil || f.Pkg().Path() != "github.com/google/btree" {
					return true
				}
				switch {
				case f.Name() == "Ascend":
					asc++
				case strings.HasPrefix(f.Name(), "Descend") || strings.HasPrefix(f.Name(), "AscendGreater") || strings.HasPrefix(f.Name(), "AscendLess") || strings.HasPrefix(f.Name(), "AscendRange"):
					desc++
					c.Bad("ORD5L", key+"/"+f.Name(), call.Pos(), 1, "ordered output must walk the whole tree in ascending order (Ascend); "+f.Name()+" changes which rows come first")
				case f.Name() == "DeleteMin":
					c.Bad("ORD5L", key+"/DeleteMin", call.Pos(), 1, "the bounded-tree optimisation must drop the largest item (DeleteMax); DeleteMin drops rows that belong to the first n")
				case f.Name() == "DeleteMax":
					// must sit under `… && noRetractionsPossible && Len() > limit`
					ok := false
					for i := len(stack) - 1; i >= 0; i-- {
						if is, isIf := stack[i].(*ast.IfStmt); isIf {
							cond := core.ExprStr(is.Cond)
							conj := strings.Split(cond, "&&")
							hasNR, hasLen := false, false
							for _, cj := range conj {
								cj = strings.TrimSpace(cj)
								if strings.HasSuffix(cj, "noRetractionsPossible") && !strings.HasPrefix(cj, "!") {
									hasNR = true
								}
								if strings.Contains(cj, "Len()") && strings.Contains(cj, ">") && strings.Contains(strings.ToLower(cj), "limit") {
									hasLen = true
								}
							}
							ok = hasNR && hasLen && !strings.Contains(cond, "||")
							break
						}
					}
					c.Decide(ok, "ORD5L", key+"/DeleteMax", call.Pos(), 1, "DeleteMax only under noRetractionsPossible ∧ Len() > limit", "DeleteMax must be guarded by noRetractionsPossible && Len() > limit: with retractions a dropped row may be needed again")
				}
				return true
			})
		}
		if s.fn != "(*OrderSensitiveTransform).Run" {
			c.Decide(asc > 0 && desc == 0, "ORD5L", key+"/Ascend", fn.Decl.Pos(), asc, fmt.Sprintf("%d Ascend walks", asc), "no Ascend walk of the ordered tree found")
		}
	}
}

// checkOrderByLess (ABS4): both ORDER BY comparators compare the keys
// lexicographically honouring the direction multiplier and break ties on the values.
func checkOrderByLess(c *core.Ctx) {
	p := c.Prog
	for _, s := range []struct{ rel, fn string }{{"execution/nodes", "(*orderByItem).Less"}, {"outputs/batch", "(*outputItem).Less"}} {
		fn := p.Func(s.rel, s.fn)
		key := s.rel + "." + s.fn
		if fn == nil {
			c.Unknown("ABS4", key, 0, "anchor not found")
			continue
		}
		c.SawFunc(key)
		in := newInterp(p, fn)
		loops := map[ast.Stmt]int{}
		in.Hooks.Assert = assertOK
		in.Hooks.Loop = func(st *absint.State, loop ast.Stmt) *absint.LoopSpec {
			if _, ok := loops[loop]; !ok {
				loops[loop] = len(loops) + 1
			}
			step := func(prefix string) func(ref, cs string) string {
				return func(ref, cs string) string {
					if strings.Contains(ref, "decided:") {
						if strings.HasSuffix(ref, "!") {
							return ref
						}
						return ref + "!"
					}
					if strings.HasSuffix(cs, "eq") {
						return ref
					}
					return ref + "decided:" + cs
				}
			}
			if loops[loop] == 1 {
				return &absint.LoopSpec{Cases: []string{"klt+", "klt-", "keq", "kgt+", "kgt-"}, RefStep: step("k")}
			}
			return &absint.LoopSpec{Cases: []string{"vlt", "veq", "vgt"}, RefStep: step("v")}
		}
		in.Hooks.Call = func(st *absint.State, call *ast.CallExpr, callee string, recv absint.Val, args []absint.Val) (absint.Val, bool) {
			if callee == "octosql.Value.Compare" {
				cls := st.IterNow
				isKey := strings.Contains(recv.Canon(), ".Key[")
				if isKey != strings.HasPrefix(cls, "k") {
					st.Emit("WRONG-OPERAND compares "+recv.Canon()+" in the "+cls+" phase", call.Pos())
				}
				if len(args) == 1 {
					// both operands must be the same position of the same slice kind
					a, b := recv.Canon(), args[0].Canon()
					ia, ib := strings.LastIndex(a, "["), strings.LastIndex(b, "[")
					if ia < 0 || ib < 0 || a[ia:] != b[ib:] || strings.HasSuffix(a[:ia], ".Key") != strings.HasSuffix(b[:ib], ".Key") {
						st.Emit("WRONG-OPERAND compares "+a+" with "+b, call.Pos())
					}
				}
				switch {
				case strings.Contains(cls, "lt"):
					return absint.Int(-1), true
				case strings.Contains(cls, "gt"):
					return absint.Int(1), true
				default:
					return absint.Int(0), true
				}
			}
			return nil, false
		}
		in.Hooks.Index = func(st *absint.State, x, i absint.Val) (absint.Val, bool) {
			if strings.HasSuffix(x.Canon(), ".DirectionMultipliers") {
				if strings.HasSuffix(st.IterNow, "-") {
					return absint.Int(-1), true
				}
				return absint.Int(1), true
			}
			return nil, false
		}
		outs, err := runDecl(in, fn, nil, "")
		if err != nil {
			c.Unknown("ABS4", key, fn.Decl.Pos(), err.Error())
			continue
		}
		want := map[string]bool{"klt+": true, "klt-": false, "kgt+": false, "kgt-": true, "vlt": true, "vgt": false}
		bad := ""
		nret := 0
		for _, o := range outs {
			for _, e := range o.Events {
				if strings.HasPrefix(e.Name, "WRONG-OPERAND") {
					bad = e.Name
				}
			}
			if strings.HasSuffix(o.Ref, "!") {
				bad = "comparison continues after a differing position decided the order: " + o.String()
			}
			if o.Kind == "loop" {
				continue
			}
			if o.Kind != "return" || len(o.Values) != 1 {
				bad = "unexpected outcome " + o.String()
				continue
			}
			nret++
			got := absint.IsTrue(o.Values[0])
			if !got && !absint.IsFalse(o.Values[0]) {
				bad = "non-constant result " + o.String()
				continue
			}
			if i := strings.Index(o.Ref, "decided:"); i >= 0 {
				if strings.HasPrefix(o.Ref[i:], "decided:") && strings.HasPrefix(o.Ref, "exit:exit:") {
					bad = "both loops end although a position differed: " + o.String()
					continue
				}
				cls := strings.TrimPrefix(o.Ref[i:], "decided:")
				if got != want[cls] {
					bad = fmt.Sprintf("first differing position of class %s (key/value, lt/gt, direction ±) must give less=%v, got %v: %s", cls, want[cls], got, o.String())
				}
			} else if o.Ref == "exit:exit:" {
				if got {
					bad = "equal keys and equal values must not be less: " + o.String()
				}
			} else {
				bad = "returns before a differing position was found: " + o.String()
			}
		}
		if bad == "" && nret < 7 {
			bad = fmt.Sprintf("only %d returning paths explored (both loops expected)", nret)
		}
		// each loop runs over the whole slice it compares (a tie-break over fewer columns merges different rows)
		ast.Inspect(fn.Decl.Body, func(n ast.Node) bool {
			fs, ok := n.(*ast.ForStmt)
			if !ok || fs.Cond == nil {
				return true
			}
			be, ok := fs.Cond.(*ast.BinaryExpr)
			if !ok {
				return true
			}
			bound := core.ExprStr(be.Y)
			ast.Inspect(fs.Body, func(m ast.Node) bool {
				call, ok := m.(*ast.CallExpr)
				if !ok {
					return true
				}
				se, ok := call.Fun.(*ast.SelectorExpr)
				if !ok || se.Sel.Name != "Compare" {
					return true
				}
				if ix, ok := se.X.(*ast.IndexExpr); ok {
					if want := "len(" + core.ExprStr(ix.X) + ")"; bound != want && bad == "" {
						bad = fmt.Sprintf("the loop comparing %s runs to %s instead of %s: positions beyond the bound are never compared, so different rows can tie (one replaces the other in the tree)", core.ExprStr(ix.X), bound, want)
					}
				}
				return true
			})
			return true
		})
		c.Decide(bad == "", "ABS4", key, fn.Decl.Pos(), len(outs), "keys by direction, then values ascending, equal ⇒ not less", bad)
	}
	c.Floor("ABS4", 2, "orderByItem.Less, outputItem.Less")
}
