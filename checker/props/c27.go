package props

import (
	"fmt"
	"go/ast"
	"go/constant"
	"go/token"
	"go/types"
	"regexp"
	"strings"

	"octoverif/core"
	"octoverif/engine/absint"
)

// C27 — plugin installation survives a crash at any point.
//
// "Killed at any point" quantifies over crash points; what makes every one of them safe is visible in the shape of the
// code: nothing is ever written in place.
//
//	STAGE   Install writes (archive, unpacked files) only under a directory obtained from os.MkdirTemp; the version
//	        directory appears by one os.Rename after unpacking and archive removal; the removal of a previous copy of the
//	        same version directly precedes that rename; nothing else creates or writes below the version directory.
//	ATOMW   plugins/manager and plugins/repository never write a file in place (os.WriteFile/os.Create/os.OpenFile outside
//	        the staging directory): they go through config.WriteFileAtomic, which — interpreted on all paths — creates the
//	        temporary file in the target's directory, writes, syncs and closes it before the rename, renames last, and on
//	        every failure returns an error without having touched the target.
//	SKIP    readers of the directories skip what an interrupted run can leave behind: staging directories (same prefix
//	        constant as MkdirTemp's pattern), dot-files among repository entries, plugin directories without a version.
func init() {
	register(&Check{ID: "C27", Run: runC27,
		Explanation: "STAGE: Install downloads and unpacks only under an os.MkdirTemp staging directory and makes the version directory appear with one os.Rename after unpacking; removing a previous copy directly precedes the rename; nothing writes below the version directory. " +
			"ATOMW: the plugin manager and repository packages never write files in place; config.WriteFileAtomic, interpreted on all paths, creates the temp file beside the target, writes, syncs, closes, then renames last, and every failure returns an error with the target untouched. " +
			"SKIP: directory readers skip staging directories (shared prefix constant), dot-files among repository entries and plugin directories without versions.",
		NotDecided: []string{
			"re-installing a version that is already installed has a window between removing the old directory and the rename in which that version is absent (never torn); POSIX offers no atomic replace of a non-empty directory",
			"durability of the directory entries themselves (no fsync of parent directories)",
			"the behaviour of os.Rename, archiver and the filesystem",
		},
		Assumptions: []string{"staging directory and plugin directory are on one filesystem (both under OCTOSQL_PLUGIN_DIR)", "os.Rename is atomic"},
	})
}

func runC27(c *core.Ctx) {
	c.Rule("STAGE", "install builds in a staging directory and renames into place")
	c.Rule("ATOMW", "files are replaced by write-temp-then-rename")
	c.Rule("SKIP", "readers skip leftovers of interrupted runs")
	checkInstallStaging(c)
	checkNoInPlaceWrites(c)
	checkWriteFileAtomic(c)
	checkLeftoverSkips(c)
}

// derivesFrom reports whether expr is built (through filepath.Join / local variables) from the identifier root.
func derivesFrom(fn *core.FuncRef, expr ast.Expr, root types.Object, depth int) bool {
	if depth > 6 || expr == nil {
		return false
	}
	info := fn.Info()
	found := false
	ast.Inspect(expr, func(n ast.Node) bool {
		id, ok := n.(*ast.Ident)
		if !ok || found {
			return true
		}
		obj := info.ObjectOf(id)
		if obj == root {
			found = true
			return false
		}
		// a local variable: look at its definitions
		if v, ok := obj.(*types.Var); ok && v.Pkg() != nil && !v.IsField() && v.Parent() != v.Pkg().Scope() {
			ast.Inspect(fn.Decl.Body, func(m ast.Node) bool {
				as, ok := m.(*ast.AssignStmt)
				if !ok {
					return true
				}
				for i, l := range as.Lhs {
					if lid, ok := l.(*ast.Ident); ok && info.ObjectOf(lid) == obj && i < len(as.Rhs) && as.Rhs[i] != expr {
						if derivesFrom(fn, as.Rhs[i], root, depth+1) {
							found = true
						}
					}
				}
				return true
			})
		}
		return true
	})
	return found
}

func checkInstallStaging(c *core.Ctx) {
	p := c.Prog
	fn := p.Func("plugins/manager", "(*PluginManager).Install")
	key := "plugins/manager.(*PluginManager).Install"
	if fn == nil {
		c.Unknown("STAGE", key, 0, "anchor not found")
		return
	}
	c.SawFunc(key)
	info := fn.Info()
	// the staging directory
	var staging types.Object
	var stagingPos token.Pos
	ast.Inspect(fn.Decl.Body, func(n ast.Node) bool {
		if as, ok := n.(*ast.AssignStmt); ok && len(as.Rhs) == 1 && len(as.Lhs) == 2 {
			if call, ok := as.Rhs[0].(*ast.CallExpr); ok && p.CalleeName(info, call) == "os.MkdirTemp" {
				if id, ok := as.Lhs[0].(*ast.Ident); ok {
					staging, stagingPos = info.ObjectOf(id), as.Pos()
				}
			}
		}
		return true
	})
	if staging == nil {
		c.Bad("STAGE", key+"/staging", fn.Decl.Pos(), 1, "Install does not build the plugin in a temporary directory (os.MkdirTemp): a crash while downloading or unpacking leaves a half-installed version that the next start resolves databases to")
		return
	}
	c.OK("STAGE", key+"/staging", stagingPos, 1, "os.MkdirTemp staging directory")
	// all file-creating calls target the staging dir; collect ordering facts
	type ev struct {
		what string
		pos  token.Pos
		arg  ast.Expr
	}
	var evs []ev
	var renameDst ast.Expr
	bad := ""
	// The file operations of Install in source order (= execution order in this straight-line function), with the
	// unexported helpers it hands steps to followed in place: inside a helper a path is "under the staging directory"
	// when it derives from a parameter that was handed such a path, and a parameter stands for its argument.
	type frame struct {
		fr     *core.FuncRef
		staged map[types.Object]bool     // parameters handed a staged path
		args   map[types.Object]ast.Expr // parameters → argument expressions (in the caller's frame)
		up     *frame
	}
	var isStaged func(f *frame, e ast.Expr) bool
	isStaged = func(f *frame, e ast.Expr) bool {
		if f.up == nil {
			return derivesFrom(f.fr, e, staging, 0)
		}
		for prm := range f.staged {
			if derivesFrom(f.fr, e, prm, 0) {
				return true
			}
		}
		return false
	}
	// an expression as the root sees it, where it is just a parameter
	var rooted func(f *frame, e ast.Expr) ast.Expr
	rooted = func(f *frame, e ast.Expr) ast.Expr {
		for f != nil && f.up != nil {
			id, ok := core.Unparen(e).(*ast.Ident)
			if !ok {
				break
			}
			a, ok := f.args[f.fr.Info().Uses[id]]
			if !ok {
				break
			}
			e, f = a, f.up
		}
		return e
	}
	helperInline(p, "", nil)
	var collect func(f *frame, depth int)
	collect = func(f *frame, depth int) {
		info := f.fr.Info()
		ast.Inspect(f.fr.Decl.Body, func(n ast.Node) bool {
			call, ok := n.(*ast.CallExpr)
			if !ok {
				return true
			}
			name := p.CalleeName(info, call)
			switch {
			case name == "os.Create" || name == "os.OpenFile" || name == "os.WriteFile":
				evs = append(evs, ev{"create", call.Pos(), rooted(f, call.Args[0])})
				if !isStaged(f, call.Args[0]) {
					bad = fmt.Sprintf("%s: %s(%s) writes outside the staging directory", p.Pos(call.Pos()), name, core.ExprStr(call.Args[0]))
				}
			case strings.HasSuffix(name, ".Unarchive") && len(call.Args) == 2:
				evs = append(evs, ev{"unarchive", call.Pos(), rooted(f, call.Args[1])})
				if !isStaged(f, call.Args[1]) {
					bad = fmt.Sprintf("%s: the archive is unpacked into %s, not into the staging directory", p.Pos(call.Pos()), core.ExprStr(call.Args[1]))
				}
			case name == "os.MkdirAll":
				evs = append(evs, ev{"mkdirall", call.Pos(), rooted(f, call.Args[0])})
			case name == "os.RemoveAll":
				if _, isDefer := deferParent(f.fr.Decl.Body, call); !isDefer {
					what := "removeall"
					if isStaged(f, call.Args[0]) {
						what = "removeall-staged"
					}
					evs = append(evs, ev{what, call.Pos(), rooted(f, call.Args[0])})
				}
			case name == "os.Remove":
				evs = append(evs, ev{"remove", call.Pos(), rooted(f, call.Args[0])})
			case name == "os.Rename" && len(call.Args) == 2:
				srcStaged, dstStaged := isStaged(f, call.Args[0]), isStaged(f, call.Args[1])
				switch {
				case srcStaged && !dstStaged:
					// staging → final place (also: the moved-away previous copy back into place when that fails)
					if renameDst == nil {
						evs = append(evs, ev{"rename", call.Pos(), rooted(f, call.Args[0])})
						renameDst = rooted(f, call.Args[1])
					} else if core.ExprStr(rooted(f, call.Args[1])) != core.ExprStr(renameDst) {
						bad = fmt.Sprintf("%s: a second directory (%s) is moved out of the staging area", p.Pos(call.Pos()), core.ExprStr(call.Args[1]))
					}
				case !srcStaged && dstStaged:
					// a visible directory is moved away under a name the directory readers skip
					evs = append(evs, ev{"moveaway", call.Pos(), rooted(f, call.Args[0])})
				default:
					bad = fmt.Sprintf("%s: the rename does not move the staging directory (%s → %s)", p.Pos(call.Pos()), core.ExprStr(call.Args[0]), core.ExprStr(call.Args[1]))
				}
			case strings.HasSuffix(name, "registerFileExtensions"):
				evs = append(evs, ev{"register", call.Pos(), nil})
			default:
				// an unexported helper of the package: its steps happen here
				fo, ok := core.Callee(info, call).(*types.Func)
				if !ok || fo.Pkg() == nil || fo.Pkg().Path() != fn.Pkg.PkgPath || fo.Exported() || depth >= 3 {
					return true
				}
				hr := helperDecls[p][fo]
				if hr == nil || hr.Decl.Body == nil || hr == f.fr || call.Ellipsis.IsValid() {
					return true
				}
				nf := &frame{fr: hr, staged: map[types.Object]bool{}, args: map[types.Object]ast.Expr{}, up: f}
				k := 0
				if hr.Decl.Type.Params != nil {
					for _, fl := range hr.Decl.Type.Params.List {
						for _, nm := range fl.Names {
							if o := hr.Info().Defs[nm]; o != nil && k < len(call.Args) {
								nf.args[o] = call.Args[k]
								if isStaged(f, call.Args[k]) {
									nf.staged[o] = true
								}
							}
							k++
						}
					}
				}
				collect(nf, depth+1)
				return false // the arguments were looked at as bindings
			}
			return true
		})
	}
	collect(&frame{fr: fn}, 0)
	c.Decide(bad == "", "STAGE", key+"/writes", fn.Decl.Pos(), len(evs), "every file is created under the staging directory", bad)
	// ordering (source order = execution order in this straight-line function)
	idx := func(what string) int {
		for i, e := range evs {
			if e.what == what {
				return i
			}
		}
		return -1
	}
	ren := idx("rename")
	if ren < 0 || renameDst == nil {
		c.Bad("STAGE", key+"/rename", fn.Decl.Pos(), 1, "the staging directory is never renamed into place")
		return
	}
	order := ""
	if u := idx("unarchive"); u < 0 || u > ren {
		order = "the archive must be unpacked before the rename"
	}
	if r := idx("remove"); r < 0 || r > ren {
		order = "the archive must be removed before the rename (or it ships inside the version directory)"
	}
	// a previous copy of the version is moved away (one rename, atomic) directly before the new one is moved in;
	// deleting it in place takes many steps, and a crash among them leaves a listed version without its binary
	if ren == 0 || evs[ren-1].what != "moveaway" || core.ExprStr(evs[ren-1].arg) != core.ExprStr(renameDst) {
		order = fmt.Sprintf("a previous copy of %s must be moved out of the way, under a staging name, directly before the rename (nothing that can fail for long, like a download, in between)", core.ExprStr(renameDst))
	}
	for _, e := range evs {
		if e.what == "removeall" {
			order = fmt.Sprintf("%s: os.RemoveAll(%s) deletes a directory the readers can see, file by file: an interruption leaves a half deleted version that is still listed — move it away with one rename and delete it afterwards", p.Pos(e.pos), core.ExprStr(e.arg))
		}
	}
	// nothing is created at or below the destination
	for _, e := range evs {
		if e.what == "mkdirall" && core.ExprStr(e.arg) == core.ExprStr(renameDst) {
			order = fmt.Sprintf("%s: the version directory is created in place (MkdirAll(%s)): it becomes visible before it is complete", p.Pos(e.pos), core.ExprStr(e.arg))
		}
	}
	if reg := idx("register"); reg >= 0 && reg < ren {
		order = "file extensions are registered before the plugin is in place: a crash in between leaves extensions pointing at a plugin that is not installed"
	}
	c.Decide(order == "", "STAGE", key+"/rename", evs[ren].pos, len(evs), "unpack → remove archive → move previous copy away → rename → register extensions → delete the previous copy", order)
}

// deferParent reports whether call is the call of a defer statement.
func deferParent(body *ast.BlockStmt, call *ast.CallExpr) (*ast.DeferStmt, bool) {
	var out *ast.DeferStmt
	ast.Inspect(body, func(n ast.Node) bool {
		if d, ok := n.(*ast.DeferStmt); ok && d.Call == call {
			out = d
		}
		return true
	})
	return out, out != nil
}

// paramIndex: the position of the parameter of fr that e names, or -1.
func paramIndex(fr *core.FuncRef, info *types.Info, e ast.Expr) int {
	id, ok := core.Unparen(e).(*ast.Ident)
	if !ok || fr.Decl.Type.Params == nil {
		return -1
	}
	obj := info.Uses[id]
	k := 0
	for _, fl := range fr.Decl.Type.Params.List {
		for _, nm := range fl.Names {
			if info.Defs[nm] == obj && obj != nil {
				return k
			}
			k++
		}
	}
	return -1
}

// paramCreates: for a call of an unexported helper of fn's package, the argument positions naming files the helper
// creates (os.Create / os.OpenFile / os.WriteFile on the parameter itself).
func paramCreates(p *core.Program, fn *core.FuncRef, call *ast.CallExpr) []int {
	f, ok := core.Callee(fn.Info(), call).(*types.Func)
	if !ok || f.Pkg() == nil || f.Pkg().Path() != fn.Pkg.PkgPath || f.Exported() {
		return nil
	}
	helperInline(p, "", nil)
	fr := helperDecls[p][f]
	if fr == nil || fr.Decl.Body == nil {
		return nil
	}
	var out []int
	info := fr.Info()
	ast.Inspect(fr.Decl.Body, func(n ast.Node) bool {
		if c2, ok := n.(*ast.CallExpr); ok && len(c2.Args) > 0 {
			switch p.CalleeName(info, c2) {
			case "os.Create", "os.OpenFile", "os.WriteFile":
				if k := paramIndex(fr, info, c2.Args[0]); k >= 0 && k < len(call.Args) {
					out = append(out, k)
				}
			}
		}
		return true
	})
	return out
}

func checkNoInPlaceWrites(c *core.Ctx) {
	p := c.Prog
	n, atomic := 0, 0
	for _, fr := range p.AllFuncs("plugins/manager", "plugins/repository") {
		info := fr.Info()
		name := p.FName(fr)
		ast.Inspect(fr.Decl.Body, func(nd ast.Node) bool {
			call, ok := nd.(*ast.CallExpr)
			if !ok {
				return true
			}
			callee := p.CalleeName(info, call)
			switch callee {
			case "os.WriteFile", "io/ioutil.WriteFile":
				n++
				c.Bad("ATOMW", name+"/"+callee+"("+core.ExprStr(call.Args[0])+")", call.Pos(), 1,
					fmt.Sprintf("%s is written in place: a crash mid-write leaves a truncated file that the next start fails to decode; write a temporary file and rename it (config.WriteFileAtomic)", core.ExprStr(call.Args[0])))
			case "os.Create", "os.OpenFile":
				n++
				if name == "plugins/manager.(*PluginManager).Install" {
					return true // decided by STAGE
				}
				// a helper creating the file one of its parameters names, called by Install only: STAGE judges the argument
				if k := paramIndex(fr, info, call.Args[0]); k >= 0 && fr.Obj != nil && !fr.Obj.Exported() {
					callers := staticCallers(p, fr)
					onlyInstall := len(callers) > 0
					for _, cs := range callers {
						if p.FName(cs.fn) != "plugins/manager.(*PluginManager).Install" {
							onlyInstall = false
						}
					}
					if onlyInstall {
						return true
					}
				}
				c.Bad("ATOMW", name+"/"+callee+"("+core.ExprStr(call.Args[0])+")", call.Pos(), 1, "a file is created in place outside the staging directory")
			case "config.WriteFileAtomic":
				atomic++
				c.SawFunc(name)
				c.OK("ATOMW", name+"/WriteFileAtomic("+core.ExprStr(call.Args[0])+")", call.Pos(), 1, "written via temp file + rename")
			}
			return true
		})
	}
	c.Floor("ATOMW", 2, "the extension registry and the repository entries are written")
	_ = n
}

func checkWriteFileAtomic(c *core.Ctx) {
	p := c.Prog
	fn := p.Func("config", "WriteFileAtomic")
	key := "config.WriteFileAtomic"
	if fn == nil {
		c.Unknown("ATOMW", key, 0, "anchor not found")
		return
	}
	c.SawFunc(key)
	pathName := fn.Decl.Type.Params.List[0].Names[0].Name
	steps := []string{"CREATETEMP", "WRITE", "SYNC", "CLOSE", "CHMOD", "RENAME"}
	// every step may fail: 2^k paths are explored by letting each error fork
	in := newInterp(p, fn)
	in.MaxPaths = 4000
	in.Hooks.Call = chainCall(func(st *absint.State, call *ast.CallExpr, callee string, recv absint.Val, args []absint.Val) (absint.Val, bool) {
		errv := absint.S("err@" + fmt.Sprint(len(st.Events)))
		switch callee {
		case "os.CreateTemp":
			st.Emit("CREATETEMP", call.Pos(), args...)
			return absint.Tuple{Elems: []absint.Val{absint.NN("TMPFILE"), errv}}, true
		case "os.(*File).Name":
			return absint.S("TMPNAME"), true
		case "os.(*File).Write", "os.(*File).WriteString":
			st.Emit("WRITE", call.Pos(), args...)
			return absint.Tuple{Elems: []absint.Val{absint.S("n"), errv}}, true
		case "os.(*File).Sync":
			st.Emit("SYNC", call.Pos())
			return errv, true
		case "os.(*File).Close":
			st.Emit("CLOSE", call.Pos())
			return errv, true
		case "os.Chmod":
			st.Emit("CHMOD", call.Pos(), args...)
			return errv, true
		case "os.Rename":
			st.Emit("RENAME", call.Pos(), args...)
			return errv, true
		case "os.Remove":
			st.Emit("REMOVE", call.Pos(), args...)
			return absint.Nil{}, true
		case "path/filepath.Dir":
			return absint.S("DIR(" + args[0].Canon() + ")"), true
		case "path/filepath.Base":
			return absint.S("BASE(" + args[0].Canon() + ")"), true
		}
		return nil, false
	}, errorfHook)
	outs, err := runDecl(in, fn, nil, "")
	if err != nil {
		c.Unknown("ATOMW", key, fn.Decl.Pos(), err.Error())
		return
	}
	bad := ""
	success := 0
	for _, o := range outs {
		if o.Kind != "return" || len(o.Values) != 1 {
			bad = "unexpected outcome " + o.String()
			continue
		}
		var seq []string
		renameArgs := ""
		createDir := ""
		for _, e := range o.Events {
			for _, s := range steps {
				if e.Name == s {
					seq = append(seq, s)
				}
			}
			if e.Name == "RENAME" {
				renameArgs = e.Args[0].Canon() + "→" + e.Args[1].Canon()
			}
			if e.Name == "CREATETEMP" {
				createDir = e.Args[0].Canon()
			}
		}
		got := strings.Join(seq, " ")
		if absint.IsNilVal(o.Values[0]) {
			success++
			// the full protocol, in order
			want1 := "CREATETEMP WRITE SYNC CLOSE CHMOD RENAME"
			want2 := "CREATETEMP WRITE SYNC CLOSE RENAME"
			want3 := "CREATETEMP CHMOD WRITE SYNC CLOSE RENAME"
			if got != want1 && got != want2 && got != want3 {
				bad = "a successful write must create the temp file, write, sync, close and only then rename; it does: " + got
			}
			if renameArgs != "TMPNAME→"+pathName {
				bad = "the rename must move the temporary file onto the target path; it renames " + renameArgs
			}
			if createDir != "DIR("+pathName+")" {
				bad = "the temporary file must be created in the target's own directory (same filesystem), it is created in " + createDir
			}
			// all fallible results were checked: success only if every step's error was tested and nil
			checked := 0
			for atom, v := range o.Assumed {
				if strings.Contains(atom, "err@") {
					checked++
					if strings.Contains(atom, "== nil") && !v {
						bad = "the function reports success although a step failed (" + atom + ")"
					}
				}
			}
			if checked < len(seq) {
				bad = fmt.Sprintf("%d fallible steps (%s) but only %d of their errors are tested: a failed write/sync/close would still be renamed into place", len(seq), got, checked)
			}
		} else {
			// a failure: the target must not have been replaced … unless the failing step is the rename itself
			if n := len(seq); n > 0 && seq[n-1] == "RENAME" {
				// the rename was attempted as the last step and failed
				continue
			}
			for _, s := range seq {
				if s == "RENAME" {
					bad = "after the rename a later step can still fail: the target is replaced and an error is returned (" + got + ")"
				}
			}
		}
	}
	// an unchecked error shows as a success path whose assumptions do not mention that step's error: count success paths
	if bad == "" && success != 1 {
		bad = fmt.Sprintf("exactly one path (every step succeeded) may report success; %d do — some step's error is ignored", success)
	}
	c.Decide(bad == "", "ATOMW", key, fn.Decl.Pos(), len(outs), "temp beside target → write → sync → close → rename; any failure returns an error before the rename", bad)
}

func checkLeftoverSkips(c *core.Ctx) {
	p := c.Prog
	// staging prefix shared by MkdirTemp and the listing
	inst := p.Func("plugins/manager", "(*PluginManager).Install")
	list := p.Func("plugins/manager", "(*PluginManager).ListInstalledPlugins")
	if inst == nil || list == nil {
		c.Unknown("SKIP", "plugins/manager", 0, "anchor not found")
		return
	}
	c.SawFunc("plugins/manager.(*PluginManager).ListInstalledPlugins")
	// the staging prefix is compared by value (a literal or a constant, whatever its name); the directories by what
	// they are defined as (a local naming getPluginDir() is getPluginDir())
	constStr := func(info *types.Info, e ast.Expr) (string, bool) {
		if tv, ok := info.Types[e]; ok && tv.Value != nil && tv.Value.Kind() == constant.String {
			return constant.StringVal(tv.Value), true
		}
		return "", false
	}
	resolved := func(fn *core.FuncRef, e ast.Expr) string {
		for i := 0; i < 4; i++ {
			id, ok := core.Unparen(e).(*ast.Ident)
			if !ok {
				break
			}
			v, ok := fn.Info().Uses[id].(*types.Var)
			if !ok {
				break
			}
			def := singleDef(fn.Info(), fn.Decl.Body, v)
			if def == nil {
				break
			}
			e = def
		}
		return core.ExprStr(e)
	}
	pattern, havePattern := "", false
	stagingParent, skippedDir := "", ""
	ast.Inspect(inst.Decl.Body, func(n ast.Node) bool {
		if call, ok := n.(*ast.CallExpr); ok && p.CalleeName(inst.Info(), call) == "os.MkdirTemp" && len(call.Args) == 2 {
			if v, ok := constStr(inst.Info(), call.Args[1]); ok {
				// the random part replaces the last "*" (or is appended)
				if i := strings.LastIndex(v, "*"); i >= 0 {
					v = v[:i]
				}
				pattern, havePattern = v, true
			}
			stagingParent = resolved(inst, call.Args[0])
		}
		return true
	})
	isStagingTest := func(e ast.Expr) bool {
		call, ok := core.Unparen(e).(*ast.CallExpr)
		if !ok || p.CalleeName(list.Info(), call) != "strings.HasPrefix" || len(call.Args) != 2 || !havePattern || pattern == "" {
			return false
		}
		v, ok := constStr(list.Info(), call.Args[1])
		return ok && v == pattern
	}
	skipStaging := false
	// the directory the staging directory is created in must be the one whose listing skips the prefix
	ast.Inspect(list.Decl.Body, func(n ast.Node) bool {
		rs, ok := n.(*ast.RangeStmt)
		if !ok {
			return true
		}
		direct := false
		for _, st := range rs.Body.List {
			if is, ok := st.(*ast.IfStmt); ok && isStagingTest(is.Cond) {
				direct = true
			}
		}
		if !direct {
			return true
		}
		ranged := core.ExprStr(rs.X)
		ast.Inspect(list.Decl.Body, func(m ast.Node) bool {
			if as, ok := m.(*ast.AssignStmt); ok && len(as.Lhs) == 2 && len(as.Rhs) == 1 && core.ExprStr(as.Lhs[0]) == ranged {
				if call, ok := as.Rhs[0].(*ast.CallExpr); ok && p.CalleeName(list.Info(), call) == "os.ReadDir" {
					skippedDir = resolved(list, call.Args[0])
				}
			}
			return true
		})
		return true
	})
	c.Decide(stagingParent != "" && stagingParent == skippedDir, "SKIP", "plugins/manager/staging directory location", inst.Decl.Pos(), 1, "staging directories are created in "+stagingParent+", whose listing skips them",
		fmt.Sprintf("the staging directory is created in %s, but the listing skips staging names only among the entries of %s: a leftover elsewhere is read as a plugin or as a version and breaks every later start", stagingParent, skippedDir))
	ast.Inspect(list.Decl.Body, func(n ast.Node) bool {
		is, ok := n.(*ast.IfStmt)
		if !ok {
			return true
		}
		if isStagingTest(is.Cond) {
			for _, s := range is.Body.List {
				if b, ok := s.(*ast.BranchStmt); ok && b.Tok == token.CONTINUE {
					skipStaging = true
				}
			}
		}
		return true
	})
	c.Decide(skipStaging, "SKIP", "plugins/manager.(*PluginManager).ListInstalledPlugins/staging", list.Decl.Pos(), 1, fmt.Sprintf("entries with the staging prefix (%q) are skipped", pattern),
		fmt.Sprintf("a staging directory left by an interrupted install (os.MkdirTemp pattern %q) must be skipped when listing installed plugins, or it is read as a repository and the start fails", pattern))
	// plugins without versions are not listed: the body of the loop that appends to the result list is interpreted
	// with every length-against-zero test answered for an empty and for a non-empty version list
	checkNoVersionsSkipped(c, list)
	// repository entries: dot files skipped
	rp := p.Func("plugins/repository", "getAdditionalPluginRepositoryURLs")
	if rp == nil {
		c.Unknown("SKIP", "plugins/repository.getAdditionalPluginRepositoryURLs", 0, "anchor not found")
		return
	}
	c.SawFunc("plugins/repository.getAdditionalPluginRepositoryURLs")
	skipDot := false
	ast.Inspect(rp.Decl.Body, func(n ast.Node) bool {
		if is, ok := n.(*ast.IfStmt); ok {
			if call, ok := is.Cond.(*ast.CallExpr); ok && p.CalleeName(rp.Info(), call) == "strings.HasPrefix" && len(call.Args) == 2 && core.ExprStr(call.Args[1]) == `"."` {
				for _, s := range is.Body.List {
					if b, ok := s.(*ast.BranchStmt); ok && b.Tok == token.CONTINUE {
						skipDot = true
					}
				}
			}
		}
		return true
	})
	// WriteFileAtomic's temp name starts with "."
	wf := p.Func("config", "WriteFileAtomic")
	dotTemp := false
	if wf != nil {
		ast.Inspect(wf.Decl.Body, func(n ast.Node) bool {
			if call, ok := n.(*ast.CallExpr); ok && p.CalleeName(wf.Info(), call) == "os.CreateTemp" && len(call.Args) == 2 {
				dotTemp = strings.HasPrefix(core.ExprStr(call.Args[1]), `"."`)
			}
			return true
		})
	}
	c.Decide(skipDot && dotTemp, "SKIP", "plugins/repository.getAdditionalPluginRepositoryURLs/temp files", rp.Decl.Pos(), 2, "temporary files (dot-prefixed) are not read as repository entries",
		fmt.Sprintf("every file in the repositories directory is decoded at start: the temporary files of interrupted writes must be recognisable (dot prefix: %v) and skipped (%v)", dotTemp, skipDot))
}

var lenAtomRE = regexp.MustCompile(`^\((?:(0|1) (==|<|<=) len\(.*\)|len\(.*\) (==|<|<=) (0|1))\)$`)

func checkNoVersionsSkipped(c *core.Ctx, list *core.FuncRef) {
	p := c.Prog
	key := "plugins/manager.(*PluginManager).ListInstalledPlugins/no versions"
	info := list.Info()
	isMetaSlice := func(t types.Type) bool {
		if t == nil {
			return false
		}
		sl, ok := t.Underlying().(*types.Slice)
		if !ok {
			return false
		}
		n, ok := sl.Elem().(*types.Named)
		return ok && n.Obj().Name() == "PluginMetadata"
	}
	// the innermost loop holding `out = append(out, …)` for a []PluginMetadata declared outside it
	var body *ast.BlockStmt
	var outObj types.Object
	core.WalkStack(list.Decl.Body, func(n ast.Node, stack []ast.Node) bool {
		as, ok := n.(*ast.AssignStmt)
		if !ok || len(as.Lhs) != 1 || len(as.Rhs) != 1 {
			return true
		}
		call, ok := as.Rhs[0].(*ast.CallExpr)
		if !ok || core.ExprStr(call.Fun) != "append" || !isMetaSlice(info.TypeOf(as.Lhs[0])) {
			return true
		}
		id, ok := as.Lhs[0].(*ast.Ident)
		if !ok {
			return true
		}
		for i := len(stack) - 1; i >= 0; i-- {
			var b *ast.BlockStmt
			switch x := stack[i].(type) {
			case *ast.RangeStmt:
				b = x.Body
			case *ast.ForStmt:
				b = x.Body
			}
			if b != nil {
				if o := info.ObjectOf(id); o != nil && (o.Pos() < b.Pos() || o.Pos() > b.End()) {
					body, outObj = b, o
				}
				break
			}
		}
		return true
	})
	if body == nil {
		c.Unknown("SKIP", key, list.Decl.Pos(), "no loop appending to the list of installed plugins found")
		return
	}
	bad, paths := "", 0
	for _, n := range []int64{0, 1} {
		n := n
		in := newInterp(p, list)
		in.MaxPaths = 2000
		in.ErrorsNil = true
		in.Hooks.Loop = func(st *absint.State, loop ast.Stmt) *absint.LoopSpec {
			return &absint.LoopSpec{Cases: []string{"E"}, MaxIter: 1, RefStep: func(ref, cs string) string { return "" }}
		}
		in.Hooks.Store = func(st *absint.State, obj types.Object, v absint.Val) {
			if obj == outObj {
				st.Emit("LISTED", token.NoPos)
			}
		}
		in.Hooks.Cond = func(st *absint.State, atom string) (bool, bool) {
			m := lenAtomRE.FindStringSubmatch(atom)
			if m == nil {
				return false, false
			}
			var l, r int64
			op := m[2]
			if m[1] != "" {
				l, r = int64(m[1][0]-'0'), n
			} else {
				op = m[3]
				l, r = n, int64(m[4][0]-'0')
			}
			switch op {
			case "==":
				return l == r, true
			case "<":
				return l < r, true
			default:
				return l <= r, true
			}
		}
		in.Hooks.Call = chainCall(errorfHook)
		outs, err := in.Run(&ast.FuncType{Params: &ast.FieldList{}, Results: list.Decl.Type.Results}, nil, body, nil, "")
		if err != nil {
			c.Unknown("SKIP", key, body.Pos(), err.Error())
			return
		}
		listed := 0
		for _, o := range outs {
			paths++
			for _, e := range o.Events {
				if e.Name == "LISTED" {
					listed++
					break
				}
			}
		}
		if n == 0 && listed > 0 {
			bad = "a plugin directory that holds no version (install interrupted before the rename) must not be listed: callers index Versions[0]"
		}
		if n == 1 && listed == 0 {
			bad = "a plugin with an installed version is never listed"
		}
	}
	c.Decide(bad == "", "SKIP", key, body.Pos(), paths, "a plugin directory without versions is not listed", bad)
}
