package props

import (
	"fmt"
	"go/ast"
	"go/token"
	"go/types"
	"regexp"
	"sort"
	"strings"

	"octoverif/core"
	"octoverif/engine/absint"
)

func init() {
	register(&Check{ID: "C14", Run: runC14,
		Explanation: "INV: every scalar aggregate (Count, SumInt, SumFloat, SumDuration) updates one state field with inverse operations in its addition and retraction branches (+x / −x on the same field and operand), so any interleaving with net multiset M leaves the state of M (exactly for Int/Duration, up to rounding for Float). " +
			"FWD: the Average aggregates forward the retraction flag and the value unchanged to both inner aggregates. " +
			"ABS5: Min, Max, Array and Distinct keep a multiset as (item, count): for count-before ∈ {0,1,2,≥3} × {add, retract} the count moves by ±1, the item is in the container iff the count is positive, and Distinct feeds the wrapped aggregate exactly on 0→1 (add) and 1→0 (retract). " +
			"TRG: Min.Trigger reads the tree's Min(), Max.Trigger its Max(), Array.Trigger walks Ascend and repeats each value `count` times; the three key comparators are ascending (less ⇔ Compare == −1).",
		NotDecided: []string{"equality with recomputation for every history is argued from these invariants, not enumerated", "float rounding", "third-party btree/hashmap correctness"},
	})
}

var storeRe = regexp.MustCompile(`^store (\w+)\.(\w+)$`)

func runC14(c *core.Ctx) {
	p := c.Prog
	ids := typeIDs(p)
	c.Rule("INV", "addition and retraction are inverse updates of the same state field")
	c.Rule("FWD", "Average forwards (retraction, value) unchanged to sum and count")
	c.Rule("ABS5", "multiset containers: count bookkeeping and membership; Distinct forwards on 0→1 / 1→0 only")
	c.Rule("TRG", "Trigger reads the right end / order of the container")
	c.Rule("AVG", "average = running sum / running count")
	checkAverageTrigger(c)
	c.Rule("PROTO", "aggregate prototypes hand out fresh state")
	checkPrototypeFreshState(c)
	c.Rule("ABS4", "key comparators are ascending")

	// INV
	for _, s := range []struct{ typ, field, operand string }{{"Count", "count", "1"}, {"SumInt", "sum", "value.Int"}, {"SumFloat", "sum", "value.Float"}, {"SumDuration", "sum", "value.Duration"}} {
		fn := p.Func("aggregates", "(*"+s.typ+").Add")
		key := "aggregates.(*" + s.typ + ").Add"
		if fn == nil {
			c.Unknown("INV", key, 0, "anchor not found")
			continue
		}
		c.SawFunc(key)
		upd := map[bool]string{}
		bad := ""
		n := 0
		for _, retract := range []bool{false, true} {
			retract := retract
			in := newInterp(p, fn)
			outs, err := runDecl(in, fn, func(st *absint.State, bind func(string, absint.Val)) { bind("retraction", absint.Bool(retract)) }, "")
			if err != nil {
				bad = err.Error()
				break
			}
			n += len(outs)
			for _, o := range outs {
				stores := []string{}
				for _, e := range o.Events {
					if m := storeRe.FindStringSubmatch(e.Name); m != nil && len(e.Args) == 1 {
						stores = append(stores, m[2]+" := "+e.Args[0].Canon())
					}
				}
				if len(stores) != 1 {
					bad = fmt.Sprintf("retraction=%v: expected exactly one state update, got %v", retract, stores)
				} else {
					upd[retract] = stores[0]
				}
			}
		}
		recv := fn.Decl.Recv.List[0].Names[0].Name
		wantAdd := fmt.Sprintf("%s := (%s.%s + %s)", s.field, recv, s.field, s.operand)
		wantSub := fmt.Sprintf("%s := (%s.%s - %s)", s.field, recv, s.field, s.operand)
		if bad == "" {
			f := recv + "." + s.field
			addOK := upd[false] == wantAdd || upd[false] == fmt.Sprintf("%s := (%s + %s)", s.field, s.operand, f)
			if !addOK || upd[true] != wantSub {
				bad = fmt.Sprintf("addition performs `%s`, retraction performs `%s`; expected `%s` and its inverse `%s`", upd[false], upd[true], wantAdd, wantSub)
			}
		}
		c.Decide(bad == "", "INV", key, fn.Decl.Pos(), n, wantAdd+" / "+wantSub, bad)
	}
	// FWD
	for _, typ := range []string{"AverageInt", "AverageFloat", "AverageDuration"} {
		fn := p.Func("aggregates", "(*"+typ+").Add")
		key := "aggregates.(*" + typ + ").Add"
		if fn == nil {
			c.Unknown("FWD", key, 0, "anchor not found")
			continue
		}
		c.SawFunc(key)
		in := newInterp(p, fn)
		outs, err := runDecl(in, fn, nil, "")
		if err != nil {
			c.Unknown("FWD", key, fn.Decl.Pos(), err.Error())
			continue
		}
		bad := ""
		for _, o := range outs {
			inner := map[string]bool{}
			for _, e := range o.Events {
				if strings.HasSuffix(e.Name, ").Add") && len(e.Args) == 3 {
					if e.Args[1].Canon() != "retraction" || e.Args[2].Canon() != "value" {
						bad = "inner aggregate is not fed (retraction, value) unchanged: " + e.String()
					}
					inner[e.Args[0].Canon()] = true
				}
			}
			if len(inner) != 2 {
				bad = fmt.Sprintf("both the sum and the count must be updated on every path; updated: %v", inner)
			}
		}
		c.Decide(bad == "" && len(outs) > 0, "FWD", key, fn.Decl.Pos(), len(outs), "sum.Add(retraction, value); count.Add(retraction, value)", bad)
	}
	// ABS5
	for _, s := range []msSite{
		{rel: "aggregates", fn: "(*Min).Add", countField: "count"},
		{rel: "aggregates", fn: "(*Max).Add", countField: "count"},
		{rel: "aggregates", fn: "(*Array).Add", countField: "count"},
		{rel: "aggregates", fn: "(*Distinct).Add", countField: "count", emit: "inner"},
	} {
		checkMultiset(c, "ABS5", s, ids)
	}
	c.Floor("ABS5", 28, "4 containers × 7 cases")
	checkAggTriggers(c)
}

// checkAggTriggers: TRG and ABS4 for the ordered aggregates (shared by C03 and C14).
func checkAggTriggers(c *core.Ctx) {
	p := c.Prog
	// TRG
	for _, s := range []struct{ typ, end string }{{"Min", "Min"}, {"Max", "Max"}} {
		fn := p.Func("aggregates", "(*"+s.typ+").Trigger")
		key := "aggregates.(*" + s.typ + ").Trigger"
		if fn == nil {
			c.Unknown("TRG", key, 0, "anchor not found")
			continue
		}
		c.SawFunc(key)
		info := fn.Info()
		var ends []string
		ast.Inspect(fn.Decl.Body, func(n ast.Node) bool {
			if call, ok := n.(*ast.CallExpr); ok {
				if f, ok := core.Callee(info, call).(*types.Func); ok && f.Pkg() != nil && f.Pkg().Path() == "github.com/google/btree" {
					ends = append(ends, f.Name())
				}
			}
			return true
		})
		// every path must return the value of the item at that end of the tree, read at the time of the call
		in := newInterp(p, fn)
		in.Hooks.Assert = assertOK
		outs, err := runDecl(in, fn, nil, "")
		bad := ""
		if err != nil {
			bad = "cannot interpret: " + err.Error()
		}
		want := "github.com/google/btree.(*BTree)." + s.end + "("
		for _, o := range outs {
			if o.Kind != "return" || len(o.Values) != 1 {
				bad = "unexpected outcome " + o.String()
				continue
			}
			v := o.Values[0].Canon()
			if !strings.HasPrefix(v, want) || !strings.HasSuffix(v, ".value") {
				bad = fmt.Sprintf("%s must report the value of the tree's %s() item as it is now; a path returns %s (state kept beside the multiset is not shown to follow every retraction)", s.typ, s.end, v)
			}
		}
		if bad == "" && !(len(ends) == 1 && ends[0] == s.end) {
			bad = fmt.Sprintf("%s must report the tree's %s(); it calls %v", s.typ, s.end, ends)
		}
		c.Decide(bad == "" && len(outs) > 0, "TRG", key, fn.Decl.Pos(), len(outs), "returns items."+s.end+"().value on every path", bad)
	}
	checkArrayTrigger(c)
	// ABS4 orientation
	lessMethods := treeItemLessMethods(p, "aggregates")
	if len(lessMethods) == 0 {
		c.Unknown("ABS4", "aggregates.<Less methods>", 0, "no Less(btree.Item) method found in the aggregates package")
	}
	for _, fn := range lessMethods {
		key := p.FName(fn)
		recvName := "key"
		if len(fn.Decl.Recv.List[0].Names) == 1 {
			recvName = fn.Decl.Recv.List[0].Names[0].Name
		}
		res := map[int64]string{}
		var err error
		for _, comp := range []int64{-1, 0, 1} {
			in := newInterp(p, fn)
			in.Hooks.Call = compareHook(comp)
			in.Hooks.Assert = assertOK
			var outs []*absint.Outcome
			outs, err = runDecl(in, fn, nil, "")
			if err != nil || len(outs) != 1 || outs[0].Kind != "return" {
				err = fmt.Errorf("cannot evaluate: %v %s", err, showOutcomes(outs))
				break
			}
			res[comp] = outs[0].Values[0].Canon()
			// operands in receiver-then-argument order
			for _, e := range outs[0].Events {
				if e.Name == "Compare" && (!strings.HasPrefix(e.Args[0].Canon(), recvName+".") || strings.HasPrefix(e.Args[1].Canon(), recvName+".")) {
					err = fmt.Errorf("Compare operands are not (receiver key, other key): %s", e.String())
				}
			}
		}
		if err != nil {
			c.Unknown("ABS4", key, fn.Decl.Pos(), err.Error())
			continue
		}
		ok := res[-1] == "true" && res[0] == "false" && res[1] == "false"
		c.Decide(ok, "ABS4", key, fn.Decl.Pos(), 3, "less ⇔ Compare == -1", fmt.Sprintf("Less for Compare=-1/0/1 gives %s/%s/%s; ascending order needs true/false/false (Min()/Max()/Ascend depend on it)", res[-1], res[0], res[1]))
	}
}

// checkArrayTrigger: Ascend callback appends item.value item.count times and continues.
func checkArrayTrigger(c *core.Ctx) {
	p := c.Prog
	fn := p.Func("aggregates", "(*Array).Trigger")
	key := "aggregates.(*Array).Trigger"
	if fn == nil {
		c.Unknown("TRG", key, 0, "anchor not found")
		return
	}
	c.SawFunc(key)
	info := fn.Info()
	var cb *ast.FuncLit
	walk := ""
	ast.Inspect(fn.Decl.Body, func(n ast.Node) bool {
		if call, ok := n.(*ast.CallExpr); ok {
			if f, ok := core.Callee(info, call).(*types.Func); ok && f.Pkg() != nil && f.Pkg().Path() == "github.com/google/btree" && len(call.Args) == 1 {
				if fl, ok := call.Args[0].(*ast.FuncLit); ok {
					cb, walk = fl, f.Name()
				}
			}
		}
		return true
	})
	if cb == nil || walk != "Ascend" {
		c.Bad("TRG", key, fn.Decl.Pos(), 1, "array_agg must list its elements with Ascend (ascending order); found walk: "+walk)
		return
	}
	bad := ""
	n := 1
	for _, rs := range returnsOfLit(cb) {
		if len(rs.Results) != 1 || core.ExprStr(rs.Results[0]) != "true" {
			bad = "the walk is cut short: the Ascend callback must return true, returns " + core.ExprStr(rs)
		}
	}
	// loop shape: for i := 0; i < item.count; i++ { append(out, item.value) }
	shape := false
	ast.Inspect(cb.Body, func(nd ast.Node) bool {
		fs, ok := nd.(*ast.ForStmt)
		if !ok || fs.Cond == nil {
			return true
		}
		if cnt, ok := loopCount(fs); ok && strings.HasSuffix(cnt, ".count") {
			// the body appends the item's value
			ast.Inspect(fs.Body, func(m ast.Node) bool {
				if call, ok := m.(*ast.CallExpr); ok && core.ExprStr(call.Fun) == "append" && len(call.Args) == 2 && strings.HasSuffix(core.ExprStr(call.Args[1]), ".value") {
					shape = true
				}
				return true
			})
		}
		return true
	})
	if bad == "" && !shape {
		bad = "no loop `for i := 0; i < item.count; i++ { out = append(out, item.value) }` repeating the value by its multiplicity"
	}
	c.Decide(bad == "", "TRG", key, fn.Decl.Pos(), n, "Ascend; each value repeated count times", bad)
}

// checkAverageTrigger (AVG): the average is the running sum divided by the running count — the payload of the sum's
// own kind over the count converted to that kind, and nothing else.
func checkAverageTrigger(c *core.Ctx) {
	p := c.Prog
	n := 0
	for _, fr := range p.AllFuncs("aggregates") {
		if fr.Decl.Recv == nil || fr.Decl.Name.Name != "Trigger" {
			continue
		}
		rt := core.ExprStr(fr.Decl.Recv.List[0].Type)
		if !strings.HasPrefix(rt, "*Average") {
			continue
		}
		n++
		key := "aggregates.(" + rt + ").Trigger"
		c.SawFunc(key)
		recv := fr.Decl.Recv.List[0].Names[0].Name
		bad := "the average must be returned as one expression sum / count"
		if len(fr.Decl.Body.List) == 1 {
			if rs, ok := fr.Decl.Body.List[0].(*ast.ReturnStmt); ok && len(rs.Results) == 1 {
				if call, ok := rs.Results[0].(*ast.CallExpr); ok && strings.HasPrefix(core.ExprStr(call.Fun), "octosql.New") && len(call.Args) == 1 {
					kind := strings.TrimPrefix(core.ExprStr(call.Fun), "octosql.New")
					be, ok := call.Args[0].(*ast.BinaryExpr)
					if !ok || be.Op != token.QUO {
						bad = "the average is not a quotient: " + core.ExprStr(call.Args[0])
					} else {
						num, den := core.ExprStr(be.X), core.ExprStr(be.Y)
						cnt := recv + ".count.Trigger().Int"
						okNum := num == recv+".sum.Trigger()."+kind
						okDen := den == cnt || (strings.HasSuffix(den, "("+cnt+")") && !strings.ContainsAny(strings.TrimSuffix(den, "("+cnt+")"), "+-*/ "))
						if okNum && okDen {
							bad = ""
						} else {
							bad = fmt.Sprintf("the %s average must be %s.sum.Trigger().%s divided by the (converted) count %s; it is %s / %s", kind, recv, kind, cnt, num, den)
						}
					}
				}
			}
		}
		c.Decide(bad == "", "AVG", key, fr.Decl.Pos(), 1, "sum of the kind / count", bad)
	}
	c.Floor("AVG", 3, "AverageInt, AverageFloat, AverageDuration")
	_ = n
}

// checkPrototypeFreshState (PROTO): an aggregate prototype hands out a *new* aggregate on every call: nothing the
// returned closure puts into the aggregate is created once outside it (only the prototype's parameters may be shared).
// State created outside is shared by all groups, and every group reports the aggregate over all of them.
func checkPrototypeFreshState(c *core.Ctx) {
	p := c.Prog
	n := 0
	for _, fr := range p.AllFuncs("aggregates") {
		if !strings.HasPrefix(fr.Decl.Name.Name, "New") || !strings.HasSuffix(fr.Decl.Name.Name, "Prototype") || fr.Decl.Recv != nil {
			continue
		}
		info := fr.Info()
		name := p.FName(fr)
		// the returned closure
		var lit *ast.FuncLit
		for _, s := range fr.Decl.Body.List {
			if rs, ok := s.(*ast.ReturnStmt); ok && len(rs.Results) == 1 {
				if l, ok := rs.Results[0].(*ast.FuncLit); ok {
					lit = l
				}
			}
		}
		if lit == nil {
			continue
		}
		n++
		c.SawFunc(name)
		params := map[types.Object]bool{}
		for _, f := range fr.Decl.Type.Params.List {
			for _, nm := range f.Names {
				params[info.ObjectOf(nm)] = true
			}
		}
		bad := ""
		ast.Inspect(lit.Body, func(nd ast.Node) bool {
			id, ok := nd.(*ast.Ident)
			if !ok {
				return true
			}
			v, ok := info.Uses[id].(*types.Var)
			if !ok || v.IsField() || params[v] || v.Pkg() == nil || v.Parent() == v.Pkg().Scope() {
				return true
			}
			// declared in the prototype function but outside the closure
			if v.Pos() >= fr.Decl.Body.Pos() && v.Pos() < lit.Pos() {
				bad = fmt.Sprintf("%s: %s is created once in the prototype and captured by the closure: every aggregate handed out shares it", p.Pos(id.Pos()), id.Name)
			}
			return true
		})
		c.Decide(bad == "", "PROTO", name, fr.Decl.Pos(), 1, "each call of the prototype builds its aggregate from fresh state", bad)
	}
	c.Floor("PROTO", 8, "count, sum×3, avg×3, min, max, array, distinct prototypes")
	_ = n
}

// treeItemLessMethods: the methods `Less(btree.Item) bool` of a package — the orders of its btree multisets,
// whatever the item types are called.
func treeItemLessMethods(p *core.Program, rel string) []*core.FuncRef {
	var out []*core.FuncRef
	for _, fn := range p.AllFuncs(rel) {
		if core.Rel(fn.Pkg) != rel || fn.Decl.Recv == nil || fn.Decl.Name.Name != "Less" || fn.Decl.Body == nil || len(fn.Decl.Recv.List) != 1 {
			continue
		}
		ps := fn.Decl.Type.Params
		if ps == nil || ps.NumFields() != 1 || !strings.HasSuffix(core.ExprStr(ps.List[0].Type), "btree.Item") {
			continue
		}
		out = append(out, fn)
	}
	sort.Slice(out, func(i, j int) bool { return p.FName(out[i]) < p.FName(out[j]) })
	return out
}
