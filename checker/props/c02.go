package props

import (
	"fmt"
	"go/ast"
	"go/token"
	"go/types"
	"os"
	"strings"

	"octoverif/core"
	"octoverif/engine/absint"
	"octoverif/engine/mirror"
)

func init() {
	register(&Check{ID: "C02", Run: runC02,
		Explanation: "NULLKEY: both stream joins are interpreted for a join key containing a NULL: the record is neither stored in nor looked up in the key trees (the trees compare with Compare, under which NULL = NULL, and the optimizer/`ON a = b` turn equalities into keys), an inner join emits nothing for it and an outer join emits it padded iff it is on an outer side. " +
			"MIR1: the left and right halves of both joins — the two producer goroutines, the two select cases, the two halves of processRecordsUpTo — are mirror images under left↔right, true↔false (token-level comparison, string literals ignored, `leftDone` fixed). " +
			"LAYOUT: every place that builds an output row puts the left record first and the right record at offset len(left) for both values of amLeft; padding rows fill only their own side; matches carry the record's retraction flag, padding retractions `true`, padding re-emissions `false`. " +
			"PAD: the unmatched-record path emits iff (LEFT/FULL ∧ from left) ∨ (RIGHT/FULL ∧ from right), with the row length leftFieldCount+rightFieldCount and the right offset leftFieldCount. " +
			"LOOKUP: the lookup join runs the joined side with the source record in its variable context, concatenates source then joined values and XORs the retraction flags. FLAGS: LEFT/RIGHT/FULL OUTER set (isLeft,isRight) = (T,F)/(F,T)/(T,T). " +
			"OPT2: equalities are moved into join keys in pairs, each part on the side whose variables it uses (optimizer rule and OuterJoin.Typecheck). ABS1L: key matching is the lexicographic order of Compare (shared with C09).",
		NotDecided: []string{"the match set for arbitrary data and schedules (C19)", "theta-join predicates beyond their placement (C04)"},
	})
}

func runC02(c *core.Ctx) {
	c.Rule("NULLDEEP", "NULL components of composite join keys do not match")
	checkJoinNullKeyDepth(c, "NULLDEEP")
	c.Rule("JOINDUP", "joins reject sides with equally named columns")
	checkJoinNameCollisions(c, "JOINDUP")
	c.Rule("UNIQCMP", "unique column names are compared exactly")
	checkUniqueNameComparison(c, "UNIQCMP")
	c.Rule("ALIASMAP", "a Typecheck method does not modify the name mapping a child returned")
	checkChildMappingUntouched(c, "ALIASMAP")
	c.Rule("CTEFRESH", "every reference to a common table expression gets fresh unique column names")
	checkCTEFreshNames(c, "CTEFRESH")
	c.Rule("MAPORDER", "no planner result depends on Go's map iteration order")
	checkMapOrder(c, "MAPORDER", []string{"logical", "physical", "optimizer", "parser"})
	c.Rule("PARSECOV", "no clause the grammar accepts is silently ignored by the parser")
	checkParserCoverage(c, "PARSECOV")
	c.Rule("RETRFLAG", "a node that retracts rows of its own declares NoRetractions false")
	checkRetractionFlags(c, "RETRFLAG")
	c.Rule("PADT", "outer join pads with nullable column types")
	checkOuterJoinPadding(c, "PADT")
	ids := typeIDs(c.Prog)
	c.Rule("NULLKEY", "a key containing NULL is neither stored nor matched")
	c.Rule("MIR1", "left/right halves of the joins are mirror images")
	c.Rule("LAYOUT", "output rows: left record first, right record after it; retraction flags")
	c.Rule("PAD", "unmatched records are padded iff on an outer side")
	c.Rule("LOOKUP", "lookup join: context, layout, XOR of retractions")
	c.Rule("FLAGS", "LEFT/RIGHT/FULL OUTER → (isLeft, isRight)")
	c.Rule("OPT2", "equalities become key pairs on the right sides")
	c.Rule("ABS1L", "key matching is lexicographic Compare")
	checkJoinNullKeys(c, "NULLKEY")
	checkJoinMirrors(c)
	checkJoinLayouts(c, ids)
	checkOuterPadding(c, ids)
	checkLookupJoin(c, ids)
	checkOuterFlags(c)
	checkOuterJoinKeys(c)
	c.Rule("OPT1", "equalities pushed into a stream join become key pairs at corresponding positions")
	checkStreamJoinKeyPushdown(c)
	c.Rule("CTOR", "join constructors store inputs and key expressions in the field of the same side")
	checkConstructors(c, "CTOR", "execution/nodes")
	checkCompareValueSlices(c)
}

// nodesInline lets the interpreter inline helper functions of package execution/nodes.
func nodesInline(p *core.Program) func(fn *types.Func) (*ast.FuncDecl, *types.Info) {
	return func(fn *types.Func) (*ast.FuncDecl, *types.Info) {
		if fn.Pkg() == nil || fn.Pkg().Path() != core.ModPath+"/execution/nodes" {
			return nil, nil
		}
		name := fn.Name()
		if sig := fn.Type().(*types.Signature); sig.Recv() != nil {
			t := sig.Recv().Type()
			if pt, ok := t.(*types.Pointer); ok {
				t = pt.Elem()
			}
			if n, ok := t.(*types.Named); ok {
				name = "(*" + n.Obj().Name() + ")." + name
			}
		}
		if name == "(*StreamJoin).receiveRecord" || name == "(*OuterJoin).receiveRecord" || strings.HasSuffix(name, ".Run") {
			return nil, nil
		}
		if f := p.Func("execution/nodes", name); f != nil {
			return f.Decl, f.Info()
		}
		return nil, nil
	}
}

func isTreeOp(callee string) (op string, ok bool) {
	if !strings.Contains(callee, "github.com/tidwall/btree") {
		return "", false
	}
	for _, o := range []string{"Get", "Set", "Delete", "Scan", "Len"} {
		if strings.HasSuffix(callee, "."+o) {
			return o, true
		}
	}
	return "", false
}

func checkJoinNullKeys(c *core.Ctx, rule string) {
	p := c.Prog
	ids := typeIDs(p)
	for _, typ := range []string{"StreamJoin", "OuterJoin"} {
		fn := p.Func("execution/nodes", "(*"+typ+").receiveRecord")
		key := "execution/nodes.(*" + typ + ").receiveRecord"
		if fn == nil {
			c.Unknown(rule, key, 0, "anchor not found")
			continue
		}
		c.SawFunc(key)
		info := fn.Info()
		type scen struct{ outerL, outerR, amLeft bool }
		scens := []scen{{false, false, true}}
		if typ == "OuterJoin" {
			scens = nil
			for _, l := range []bool{false, true} {
				for _, r := range []bool{false, true} {
					for _, a := range []bool{false, true} {
						if l || r {
							scens = append(scens, scen{l, r, a})
						}
					}
				}
			}
		} else {
			scens = []scen{{false, false, true}, {false, false, false}}
		}
		for _, sc := range scens {
			sc := sc
			in := newInterp(p, fn)
			in.MaxPaths = 20000
			in.Hooks.Inline = nodesInline(p)
			in.Hooks.Loop = func(st *absint.State, loop ast.Stmt) *absint.LoopSpec {
				if loopContainsCall(p, info, loop, "execution.Expression.Evaluate") {
					return &absint.LoopSpec{Cases: []string{"eval"}, MaxIter: 1, RefStep: func(ref, cs string) string { return ref }}
				}
				// a loop over the key (directly or in an inlined helper)
				s := core.FullStr(loop)
				if strings.Contains(s, "TypeIDNull") {
					return &absint.LoopSpec{Cases: []string{"nullelem", "valelem"}, MaxIter: 2, RefStep: func(ref, cs string) string {
						if cs == "nullelem" {
							return "HASNULL"
						}
						return ref
					}}
				}
				return nil
			}
			in.Hooks.Field = func(st *absint.State, base absint.Val, sel string) (absint.Val, bool) {
				switch sel {
				case "isOuterLeft":
					return absint.Bool(sc.outerL), true
				case "isOuterRight":
					return absint.Bool(sc.outerR), true
				case "TypeID":
					switch st.IterNow {
					case "nullelem":
						return absint.Int(ids["TypeIDNull"]), true
					case "valelem":
						return absint.Int(ids["TypeIDInt"]), true
					}
				}
				return nil, false
			}
			in.Hooks.Call = chainCall(recordCtorHook, func(st *absint.State, call *ast.CallExpr, callee string, recv absint.Val, args []absint.Val) (absint.Val, bool) {
				if op, ok := isTreeOp(callee); ok {
					st.Emit("TREE-"+op, call.Pos(), append([]absint.Val{recv}, args...)...)
					switch op {
					case "Get":
						return absint.Tuple{Elems: []absint.Val{absint.Nil{}, absint.Bool(false)}}, true
					case "Len":
						return absint.Int(0), true
					}
					return absint.S("treeop"), true
				}
				switch callee {
				case "execution.Expression.Evaluate":
					return absint.Tuple{Elems: []absint.Val{absint.S("keyval"), absint.Nil{}}}, true
				case "value:produce":
					st.Emit("PRODUCE", call.Pos(), args...)
					return absint.Nil{}, true
				}
				return nil, false
			}, ctorHook(ids), errorfHook)
			outs, err := runDecl(in, fn, func(st *absint.State, bind func(string, absint.Val)) {
				bind("amLeft", absint.Bool(sc.amLeft))
				bind("oneStreamRemains", absint.Bool(false))
			}, "")
			ckey := fmt.Sprintf("%s/amLeft=%v", key, sc.amLeft)
			if typ == "OuterJoin" {
				ckey = fmt.Sprintf("%s/outerLeft=%v,outerRight=%v,amLeft=%v", key, sc.outerL, sc.outerR, sc.amLeft)
			}
			if err != nil {
				c.Unknown(rule, ckey, fn.Decl.Pos(), err.Error())
				continue
			}
			bad := ""
			sawNull := false
			for _, o := range outs {
				if !strings.Contains(o.Ref, "HASNULL") {
					continue
				}
				if o.Kind != "return" {
					continue
				}
				sawNull = true
				prod := 0
				for _, e := range o.Events {
					if strings.HasPrefix(e.Name, "TREE-") && e.Name != "TREE-Len" {
						bad = "a record whose join key contains NULL reaches " + e.Name + " on a key tree: the trees treat NULL = NULL, so it would be matched with (or stored for) other NULL keys — SQL equality never matches NULL"
					}
					if e.Name == "PRODUCE" {
						prod++
					}
				}
				wantProd := 0
				if typ == "OuterJoin" && ((sc.outerL && sc.amLeft) || (sc.outerR && !sc.amLeft)) {
					wantProd = 1
				}
				if bad == "" && prod != wantProd {
					bad = fmt.Sprintf("a record with a NULL key must be emitted %d time(s) (padded iff on an outer side); it is emitted %d time(s)", wantProd, prod)
				}
			}
			if bad == "" && !sawNull {
				bad = "the key is never examined for NULL before it is used with the key trees: an equality join key containing NULL matches other NULL keys (NULL = NULL under Compare), which SQL equality never does"
			}
			c.Decide(bad == "", rule, ckey, fn.Decl.Pos(), len(outs), "NULL keys bypass the trees", bad)
		}
	}
}

func checkJoinMirrors(c *core.Ctx) {
	p := c.Prog
	for _, typ := range []string{"StreamJoin", "OuterJoin"} {
		fn := p.Func("execution/nodes", "(*"+typ+").Run")
		key := "execution/nodes.(*" + typ + ").Run"
		if fn == nil {
			c.Unknown("MIR1", key, 0, "anchor not found")
			continue
		}
		c.SawFunc(key)
		fixed := map[string]bool{"leftDone": true}
		// producer goroutines
		var gos []*ast.GoStmt
		var selects []*ast.SelectStmt
		ast.Inspect(fn.Decl.Body, func(n ast.Node) bool {
			switch x := n.(type) {
			case *ast.GoStmt:
				gos = append(gos, x)
			case *ast.SelectStmt:
				selects = append(selects, x)
			}
			return true
		})
		if len(gos) == 2 {
			d := mirror.Compare(gos[0], gos[1], fixed)
			c.Decide(d == "", "MIR1", key+"/producer goroutines", gos[0].Pos(), 1, "mirror images", "the goroutines feeding the left and the right input differ beyond left↔right: "+d)
		} else {
			c.Unknown("MIR1", key+"/producer goroutines", fn.Decl.Pos(), fmt.Sprintf("%d go statements, expected 2", len(gos)))
		}
		// select cases
		found := false
		for _, sel := range selects {
			if len(sel.Body.List) != 2 {
				continue
			}
			a, b := sel.Body.List[0].(*ast.CommClause), sel.Body.List[1].(*ast.CommClause)
			if !strings.Contains(core.ExprStr(a.Comm), "eft") {
				continue
			}
			found = true
			d := mirror.Compare(a, b, fixed)
			c.Decide(d == "", "MIR1", key+"/select cases", sel.Pos(), 1, "mirror images", "the handling of a message from the left and from the right input differ beyond left↔right, true↔false: "+d)
		}
		if !found {
			c.Unknown("MIR1", key+"/select cases", fn.Decl.Pos(), "no two-way select over the left and right channels found")
		}
		// processRecordsUpTo halves: two consecutive if statements in the closure
		var pr *ast.FuncLit
		ast.Inspect(fn.Decl.Body, func(n ast.Node) bool {
			if as, ok := n.(*ast.AssignStmt); ok && len(as.Lhs) == 1 && core.ExprStr(as.Lhs[0]) == "processRecordsUpTo" {
				pr, _ = as.Rhs[0].(*ast.FuncLit)
			}
			return true
		})
		if pr == nil {
			c.Unknown("MIR1", key+"/processRecordsUpTo", fn.Decl.Pos(), "closure not found")
			continue
		}
		var halves []ast.Stmt
		for _, st := range pr.Body.List {
			switch st.(type) {
			case *ast.IfStmt:
				halves = append(halves, st)
			}
		}
		if len(halves) != 2 {
			c.Unknown("MIR1", key+"/processRecordsUpTo", pr.Pos(), fmt.Sprintf("%d top-level if statements, expected the left and the right half", len(halves)))
			continue
		}
		d := mirror.Compare(halves[0], halves[1], fixed)
		c.Decide(d == "", "MIR1", key+"/processRecordsUpTo", pr.Pos(), 1, "mirror images", "flushing the left and the right buffer differ beyond left↔right, true↔false: "+d)
	}
	c.Floor("MIR1", 6, "3 region pairs in each join")
}

// checkJoinLayouts: every Scan callback in the two receiveRecord functions builds its row correctly.
func checkJoinLayouts(c *core.Ctx, ids map[string]int64) {
	p := c.Prog
	n := 0
	for _, typ := range []string{"StreamJoin", "OuterJoin"} {
		fn := p.Func("execution/nodes", "(*"+typ+").receiveRecord")
		key := "execution/nodes.(*" + typ + ").receiveRecord"
		if fn == nil {
			c.Unknown("LAYOUT", key, 0, "anchor not found")
			continue
		}
		// the Scan callbacks of the function and of the helpers it hands the work to; a helper's parameters are read
		// through their bindings at the call site (the record, the side flag, a constant retraction flag)
		type scanCB struct {
			lit          *ast.FuncLit
			fn           *core.FuncRef
			record, side string
			consts       map[string]bool // parameters bound to a boolean constant at the call site
		}
		// the record and the side flag: the Record parameter and the first bool parameter
		rootRecord, rootSide := "record", ""
		for _, f := range fn.Decl.Type.Params.List {
			for _, nm := range f.Names {
				switch core.ExprStr(f.Type) {
				case "Record":
					rootRecord = nm.Name
				case "bool":
					if rootSide == "" {
						rootSide = nm.Name
					}
				}
			}
		}
		var cbs []scanCB
		for _, bf := range helperClosureBound(p, fn) {
			bf := bf
			sc := scanCB{fn: bf.fn, record: rootRecord, side: rootSide, consts: map[string]bool{}}
			if bf.fn != fn {
				sc.record, sc.side = "", ""
				for prm, to := range bf.binds {
					switch to {
					case rootRecord:
						sc.record = prm
					case rootSide:
						sc.side = prm
					case "true", "false":
						sc.consts[prm] = true
					}
				}
			}
			ast.Inspect(bf.fn.Decl.Body, func(nd ast.Node) bool {
				if call, ok := nd.(*ast.CallExpr); ok && len(call.Args) == 1 {
					if op, ok := isTreeOp(p.CalleeName(bf.fn.Info(), call)); ok && op == "Scan" {
						if fl := funcValueLit(p, bf.fn, call.Args[0]); fl != nil {
							s2 := sc
							s2.lit = fl
							cbs = append(cbs, s2)
						}
					}
				}
				return true
			})
		}
		for i, scb := range cbs {
			n++
			cb := scb.lit
			if scb.record == "" || scb.side == "" {
				c.Unknown("LAYOUT", fmt.Sprintf("%s/scan#%d", key, i+1), cb.Pos(), "the helper holding this Scan is not handed the record and the side flag")
				continue
			}
			sub := cb.Type.Params.List[0].Names[0].Name
			for _, amLeft := range []bool{true, false} {
				amLeft := amLeft
				in := newInterp(p, scb.fn)
				in.Hooks.Loop = func(st *absint.State, loop ast.Stmt) *absint.LoopSpec {
					return &absint.LoopSpec{Cases: []string{"copy"}, MaxIter: 1, RefStep: func(ref, cs string) string { return ref }}
				}
				in.Hooks.Ident = func(st *absint.State, obj types.Object) (absint.Val, bool) {
					if obj.Name() == scb.side {
						return absint.Bool(amLeft), true
					}
					return nil, false
				}
				var copies []string
				var recs []absint.Val
				in.Hooks.Call = chainCall(recordCtorHook, func(st *absint.State, call *ast.CallExpr, callee string, recv absint.Val, args []absint.Val) (absint.Val, bool) {
					switch callee {
					case "value:produce":
						st.Emit("PRODUCE", call.Pos(), args...)
						return absint.Nil{}, true
					case "time.Time.After":
						return absint.S("later"), true
					}
					return nil, false
				}, ctorHook(ids), errorfHook)
				outs, err := runLit(in, cb, nil, "")
				ckey := fmt.Sprintf("%s/scan#%d/amLeft=%v", key, i+1, amLeft)
				if err != nil {
					c.Unknown("LAYOUT", ckey, cb.Pos(), err.Error())
					continue
				}
				bad := ""
				kind := ""
				for _, o := range outs {
					if len(o.Trace) != 1 {
						continue
					}
					copies = nil
					recs = nil
					var mk string
					for _, e := range o.Events {
						switch e.Name {
						case "copy":
							if len(e.Args) == 2 {
								copies = append(copies, e.Args[0].Canon()+" ← "+e.Args[1].Canon())
							}
						case "make":
							if len(e.Args) >= 2 {
								mk = e.Args[1].Canon()
							}
						case "PRODUCE":
							if len(e.Args) == 2 {
								recs = append(recs, e.Args[1])
							}
						}
					}
					if len(recs) != 1 {
						continue
					}
					out := ""
					if v := o.Field(recs[0], "Values"); v != nil {
						out = v.Canon()
					}
					rec, grp := scb.record+".Values", sub+".GroupKey"
					wantLen := []string{"(len(" + rec + ") + len(" + grp + "))", "(len(" + grp + ") + len(" + rec + "))"}
					if mk != wantLen[0] && mk != wantLen[1] {
						bad = "the output row must have len(record.Values)+len(" + grp + ") values, is made with " + mk
					}
					var want []string
					if len(copies) == 2 {
						kind = "match"
						if amLeft {
							want = []string{out + " ← " + rec, out + "[len(" + rec + "):] ← " + grp}
						} else {
							want = []string{out + " ← " + grp, out + "[len(" + grp + "):] ← " + rec}
						}
					} else {
						kind = "padding"
						if amLeft {
							want = []string{out + "[len(" + rec + "):] ← " + grp}
						} else {
							want = []string{out + " ← " + grp}
						}
					}
					got := append([]string(nil), copies...)
					sortStrings(got)
					sortStrings(want)
					if strings.Join(got, "; ") != strings.Join(want, "; ") {
						bad = fmt.Sprintf("with amLeft=%v the %s row must be filled as [%s]; it is filled as [%s] — the left input's columns must come first", amLeft, kind, strings.Join(want, "; "), strings.Join(got, "; "))
					}
					ret := o.Field(recs[0], "Retraction")
					if kind == "match" && (ret == nil || ret.Canon() != scb.record+".Retraction") {
						bad = "a joined row must carry the retraction flag of the incoming record"
					}
					if kind == "padding" && (ret == nil || !(absint.IsConst(ret) || scb.consts[ret.Canon()])) {
						bad = "a padding row's retraction flag must be a constant (true when the first match arrives, false when the last match is retracted)"
					}
				}
				c.Decide(bad == "", "LAYOUT", ckey, cb.Pos(), len(outs), kind+" row layout", bad)
			}
		}
	}
	if n < 3 {
		c.Unknown("LAYOUT", "<scan callbacks>", 0, fmt.Sprintf("only %d Scan callbacks found (the joined rows of StreamJoin and OuterJoin, the padded rows of OuterJoin)", n))
	}
	checkOuterPaddingTransitions(c, ids)
}

// checkOuterPaddingTransitions interprets the whole of OuterJoin.receiveRecord for a record that has matches on the
// other side: is/is not the first record for its key on its own side × leaves/does not leave its side without records
// for the key × which sides are outer × which side it is on. The walks over the other side's records run their
// callback once (one abstract stored record). Expected rows, in this order: the padded rows of the other side retracted
// (flag true) iff first and the other side is outer; the joined row with the record's own flag; the padded rows
// re-emitted (flag false) iff last and the other side is outer. A row is "padded" when one part was copied into it,
// "joined" when two were — so it does not matter where the rows are built (in place or in a helper) or how the
// conditions are spelled.
func checkOuterPaddingTransitions(c *core.Ctx, ids map[string]int64) {
	p := c.Prog
	fn := p.Func("execution/nodes", "(*OuterJoin).receiveRecord")
	key := "execution/nodes.(*OuterJoin).receiveRecord/padding transitions"
	if fn == nil {
		c.Unknown("LAYOUT", key, 0, "anchor not found")
		return
	}
	// the two trees and the flag, by position and type
	var trees []string
	amLeftName := ""
	for _, f := range fn.Decl.Type.Params.List {
		for _, nm := range f.Names {
			t := core.ExprStr(f.Type)
			switch {
			case strings.Contains(t, "tbtree.Generic"):
				trees = append(trees, nm.Name)
			case t == "bool":
				amLeftName = nm.Name
			}
		}
	}
	if len(trees) != 2 || amLeftName == "" {
		c.Unknown("LAYOUT", key, fn.Decl.Pos(), "expected parameters (…, myRecords, otherRecords tree, amLeft bool, record)")
		return
	}
	mine, other := trees[0], trees[1]
	bad, scen, paths := "", 0, 0
	for mask := 0; mask < 32; mask++ {
		l, r, a, first, last := mask&1 != 0, mask&2 != 0, mask&4 != 0, mask&8 != 0, mask&16 != 0
		in := newInterp(p, fn)
		in.MaxPaths = 20000
		in.Hooks.Inline = nodesInline(p)
		in.Hooks.Loop = func(st *absint.State, loop ast.Stmt) *absint.LoopSpec {
			return &absint.LoopSpec{Cases: []string{"x"}, MaxIter: 1, MinIter: 1, RefStep: func(ref, cs string) string { return ref }}
		}
		in.Hooks.Field = func(st *absint.State, base absint.Val, sel string) (absint.Val, bool) {
			switch sel {
			case "isOuterLeft":
				return absint.Bool(l), true
			case "isOuterRight":
				return absint.Bool(r), true
			case "TypeID":
				return absint.Int(ids["TypeIDInt"]), true
			}
			return nil, false
		}
		in.Hooks.Visit = func(st *absint.State, callee string, recv absint.Val, args []absint.Val) (int, []absint.Val, bool) {
			if op, ok := isTreeOp(callee); ok && op == "Scan" && len(args) == 1 {
				st.Emit("SCANSTART", token.NoPos)
				return 0, []absint.Val{absint.S("STORED")}, true
			}
			return 0, nil, false
		}
		// the stored record stands for one occurrence: its per-occurrence loop runs once
		in.Hooks.Cond = func(st *absint.State, atom string) (bool, bool) {
			if !strings.HasSuffix(atom, " < len(STORED.EventTimes))") {
				return false, false
			}
			iters := 0
			for _, e := range st.Events {
				switch e.Name {
				case "SCANSTART":
					iters = 0
				case "OCCURRENCE":
					iters++
				}
			}
			if iters == 0 {
				st.Emit("OCCURRENCE", token.NoPos)
				return true, true
			}
			return false, true
		}
		in.Hooks.Call = chainCall(recordCtorHook, func(st *absint.State, call *ast.CallExpr, callee string, recv absint.Val, args []absint.Val) (absint.Val, bool) {
			if op, ok := isTreeOp(callee); ok {
				rc := ""
				if recv != nil {
					rc = recv.Canon()
				}
				switch op {
				case "Get":
					switch {
					case rc == other:
						return absint.Tuple{Elems: []absint.Val{absint.S("OTHERITEM"), absint.Bool(true)}}, true
					case rc == mine:
						if first {
							return absint.Tuple{Elems: []absint.Val{absint.Nil{}, absint.Bool(false)}}, true
						}
						return absint.Tuple{Elems: []absint.Val{absint.S("MYITEM"), absint.Bool(true)}}, true
					}
					return absint.Tuple{Elems: []absint.Val{absint.S("SUBITEM"), absint.Bool(true)}}, true
				case "Len":
					if strings.Contains(rc, "OTHERITEM") {
						return absint.Int(1), true
					}
					if last {
						return absint.Int(0), true
					}
					return absint.Int(1), true
				case "Scan":
					return nil, false
				}
				return absint.S("treeop"), true
			}
			switch callee {
			case "execution.Expression.Evaluate":
				return absint.Tuple{Elems: []absint.Val{absint.S("keyval"), absint.Nil{}}}, true
			case "value:produce":
				st.Emit("PRODUCE", call.Pos(), args...)
				return absint.Nil{}, true
			case "time.Time.After":
				return absint.S("later"), true
			}
			if strings.HasSuffix(callee, "btree.NewGenericOptions") {
				return absint.S("NEWTREE"), true
			}
			return nil, false
		}, ctorHook(ids), errorfHook)
		outs, err := runDecl(in, fn, func(st *absint.State, bind func(string, absint.Val)) { bind(amLeftName, absint.Bool(a)) }, "")
		scen++
		what := fmt.Sprintf("outerLeft=%v outerRight=%v amLeft=%v first for key=%v last for key=%v", l, r, a, first, last)
		if err != nil {
			c.Unknown("LAYOUT", key, fn.Decl.Pos(), what+": "+err.Error())
			return
		}
		otherOuter := (l && !a) || (r && a)
		for _, o := range outs {
			if o.Kind != "return" || (len(o.Values) == 1 && isNonNilErr(o.Values[0])) {
				continue
			}
			paths++
			// rows in order: P+ (padded, flag true), J (joined), P- (padded, flag false)
			// copies into a row are counted up to the moment it is sent (a helper builds every row at the same place)
			copies := map[string]int{}
			var rows []string
			for _, e := range o.Events {
				if e.Name == "copy" && len(e.Args) == 2 {
					d := e.Args[0].Canon()
					if i := strings.Index(d, "["); i >= 0 {
						d = d[:i]
					}
					copies[d]++
				}
				if e.Name != "PRODUCE" || len(e.Args) != 2 {
					continue
				}
				vals, flag := o.Field(e.Args[1], "Values"), o.Field(e.Args[1], "Retraction")
				if vals == nil || flag == nil {
					rows = append(rows, "?")
					continue
				}
				ncopies := copies[vals.Canon()]
				copies[vals.Canon()] = 0
				switch ncopies {
				case 1:
					switch {
					case absint.IsTrue(flag):
						rows = append(rows, "P+")
					case absint.IsFalse(flag):
						rows = append(rows, "P-")
					default:
						rows = append(rows, "P("+flag.Canon()+")")
					}
				case 2:
					rows = append(rows, "J("+flag.Canon()+")")
				default:
					rows = append(rows, "?")
				}
			}
			var want []string
			if first && otherOuter {
				want = append(want, "P+")
			}
			want = append(want, "J(record.Retraction)")
			if last && otherOuter {
				want = append(want, "P-")
			}
			if strings.Join(rows, " ") != strings.Join(want, " ") {
				bad = fmt.Sprintf("%s: the rows sent must be [%s] (P+ the other side's padded rows retracted, J the joined row, P- the padded rows re-emitted); they are [%s]", what, strings.Join(want, " "), strings.Join(rows, " "))
			}
		}
	}
	if paths == 0 && bad == "" {
		bad = "no successful path through receiveRecord with a match on the other side"
	}
	c.Decide(bad == "", "LAYOUT", key, fn.Decl.Pos(), scen,
		"first match retracts the padded rows of the other side; last retraction re-emits them",
		"when the first record for a key arrives on one side the padded rows of the other (outer) side must be retracted (flag true), and re-emitted (flag false) when the last one is retracted, both only if the *other* side is an outer side; "+bad)
}

// checkOuterPadding: the unmatched path.
func checkOuterPadding(c *core.Ctx, ids map[string]int64) {
	p := c.Prog
	fn := p.Func("execution/nodes", "(*OuterJoin).receiveRecord")
	key := "execution/nodes.(*OuterJoin).receiveRecord/unmatched"
	if fn == nil {
		c.Unknown("PAD", key, 0, "anchor not found")
		return
	}
	for _, l := range []bool{false, true} {
		for _, r := range []bool{false, true} {
			for _, a := range []bool{false, true} {
				l, r, a := l, r, a
				in := newInterp(p, fn)
				in.MaxPaths = 20000
				in.Hooks.Inline = nodesInline(p)
				in.Hooks.Loop = func(st *absint.State, loop ast.Stmt) *absint.LoopSpec {
					return &absint.LoopSpec{Cases: []string{"x"}, MaxIter: 1, RefStep: func(ref, cs string) string { return ref }}
				}
				in.Hooks.Field = func(st *absint.State, base absint.Val, sel string) (absint.Val, bool) {
					switch sel {
					case "isOuterLeft":
						return absint.Bool(l), true
					case "isOuterRight":
						return absint.Bool(r), true
					case "TypeID":
						return absint.Int(ids["TypeIDInt"]), true
					}
					return nil, false
				}
				in.Hooks.Call = chainCall(recordCtorHook, func(st *absint.State, call *ast.CallExpr, callee string, recv absint.Val, args []absint.Val) (absint.Val, bool) {
					if op, ok := isTreeOp(callee); ok {
						switch op {
						case "Get":
							// my tree: an existing entry; other tree: no match
							if len(args) > 0 && strings.Contains(recv.Canon(), "other") {
								return absint.Tuple{Elems: []absint.Val{absint.Nil{}, absint.Bool(false)}}, true
							}
							return absint.Tuple{Elems: []absint.Val{absint.S("existing"), absint.Bool(true)}}, true
						case "Len":
							return absint.Int(1), true
						}
						return absint.S("treeop"), true
					}
					switch callee {
					case "execution.Expression.Evaluate":
						return absint.Tuple{Elems: []absint.Val{absint.S("keyval"), absint.Nil{}}}, true
					case "value:produce":
						st.Emit("PRODUCE", call.Pos(), args...)
						return absint.Nil{}, true
					}
					return nil, false
				}, ctorHook(ids), errorfHook)
				outs, err := runDecl(in, fn, func(st *absint.State, bind func(string, absint.Val)) { bind("amLeft", absint.Bool(a)) }, "")
				ckey := fmt.Sprintf("%s/outerLeft=%v,outerRight=%v,amLeft=%v", key, l, r, a)
				if err != nil {
					c.Unknown("PAD", ckey, fn.Decl.Pos(), err.Error())
					continue
				}
				bad := ""
				nret := 0
				for _, o := range outs {
					if o.Kind != "return" {
						continue
					}
					nret++
					var recs []absint.Val
					var copies []string
					mk := ""
					for _, e := range o.Events {
						switch e.Name {
						case "PRODUCE":
							recs = append(recs, e.Args[1])
						case "copy":
							copies = append(copies, e.Args[0].Canon()+" ← "+e.Args[1].Canon())
						case "make":
							if len(e.Args) >= 2 && strings.Contains(e.Args[1].Canon(), "FieldCount") {
								mk = e.Args[1].Canon()
							}
						}
					}
					want := (l && a) || (r && !a)
					if want != (len(recs) == 1) {
						bad = fmt.Sprintf("an unmatched record must be emitted padded with NULLs iff it is on an outer side (here: %v); emitted %d time(s)", want, len(recs))
						continue
					}
					if !want {
						continue
					}
					if mk != "(s.leftFieldCount + s.rightFieldCount)" && mk != "(s.rightFieldCount + s.leftFieldCount)" {
						bad = "the padded row must have leftFieldCount+rightFieldCount values; made with " + mk
					}
					out := o.Field(recs[0], "Values").Canon()
					wantCopy := out + " ← record.Values"
					if !a {
						wantCopy = out + "[s.leftFieldCount:] ← record.Values"
					}
					if len(copies) != 1 || copies[0] != wantCopy {
						bad = fmt.Sprintf("the record must be copied as `%s`; got %v", wantCopy, copies)
					}
					if rt := o.Field(recs[0], "Retraction"); rt == nil || rt.Canon() != "record.Retraction" {
						bad = "the padded row must carry the record's retraction flag"
					}
					if et := o.Field(recs[0], "EventTime"); et == nil || et.Canon() != "record.EventTime" {
						bad = "the padded row must carry the record's event time"
					}
				}
				c.Decide(bad == "" && nret > 0, "PAD", ckey, fn.Decl.Pos(), len(outs), "", bad)
			}
		}
	}
}

func checkLookupJoin(c *core.Ctx, ids map[string]int64) {
	p := c.Prog
	fn := p.Func("execution/nodes", "(*LookupJoin).Run")
	key := "execution/nodes.(*LookupJoin).Run"
	if fn == nil {
		c.Unknown("LOOKUP", key, 0, "anchor not found")
		return
	}
	c.SawFunc(key)
	rcs := nodeRunCalls(p, fn)
	if len(rcs) != 2 || rcs[0].Produce == nil || rcs[1].Produce == nil {
		c.Unknown("LOOKUP", key, fn.Decl.Pos(), "expected source.Run(…) containing joined.Run(…)")
		return
	}
	outer, inner := rcs[0], rcs[1]
	if inner.Call.Pos() < outer.Call.Pos() {
		outer, inner = inner, outer
	}
	// the joined side runs in the context extended with the source record
	{
		in := newInterp(p, fn)
		var ctxArg, metaArg string
		in.Hooks.Call = chainCall(func(st *absint.State, call *ast.CallExpr, callee string, recv absint.Val, args []absint.Val) (absint.Val, bool) {
			if callee == "execution.Node.Run" && len(args) == 3 {
				ctxArg = args[0].Canon()
				metaArg = args[2].Canon()
				st.Emit("JOINED-RUN", call.Pos(), recv)
				return absint.Nil{}, true
			}
			return nil, false
		}, errorfHook)
		outs, err := runLit(in, outer.Produce, nil, "")
		rec := outer.Produce.Type.Params.List[1].Names[0].Name
		ok := err == nil && len(outs) > 0 && ctxArg == "execution.ExecutionContext.WithRecord(ctx,"+rec+")"
		c.Decide(ok, "LOOKUP", key+"/context", outer.Produce.Pos(), len(outs), "joined.Run(ctx.WithRecord(sourceRecord), …)", "the joined side must be run with the source record in its variable context (ctx.WithRecord("+rec+")); it is run with "+ctxArg)
		_ = metaArg
	}
	checkLookupUndoOrder(c, fn, key, outer.Produce, inner.Call)
	// layout and retraction XOR
	src := outer.Produce.Type.Params.List[1].Names[0].Name
	jn := inner.Produce.Type.Params.List[1].Names[0].Name
	for _, a := range []bool{false, true} {
		for _, b := range []bool{false, true} {
			a, b := a, b
			in := newInterp(p, fn)
			in.Hooks.Field = func(st *absint.State, base absint.Val, sel string) (absint.Val, bool) {
				if sel == "Retraction" {
					switch base.Canon() {
					case src:
						return absint.Bool(a), true
					case jn:
						return absint.Bool(b), true
					}
				}
				return nil, false
			}
			in.Hooks.Call = chainCall(recordCtorHook, func(st *absint.State, call *ast.CallExpr, callee string, recv absint.Val, args []absint.Val) (absint.Val, bool) {
				if callee == "value:produce" {
					st.Emit("PRODUCE", call.Pos(), args...)
					return absint.Nil{}, true
				}
				return nil, false
			}, errorfHook)
			outs, err := runLit(in, inner.Produce, nil, "")
			ckey := fmt.Sprintf("%s/retraction source=%v joined=%v", key, a, b)
			if err != nil {
				c.Unknown("LOOKUP", ckey, inner.Produce.Pos(), err.Error())
				continue
			}
			bad := ""
			for _, o := range outs {
				var rec absint.Val
				var copies []string
				buffered := false
				for _, e := range o.Events {
					if e.Name == "PRODUCE" && len(e.Args) == 2 {
						rec = e.Args[1]
					}
					if strings.HasPrefix(e.Name, "append") && len(e.Args) >= 1 {
						// the row is kept to be undone after the joined stream has finished (retracted source record)
						for _, av := range e.Args {
							if o.Field(av, "Retraction") != nil && o.Field(av, "Values") != nil {
								rec = av
								buffered = true
							}
						}
					}
					if e.Name == "copy" {
						copies = append(copies, e.Args[0].Canon()+" ← "+e.Args[1].Canon())
					}
				}
				if rec == nil {
					bad = "no row produced"
					continue
				}
				if a != buffered {
					if a {
						bad = "for a retracted source record the joined rows are forwarded as they come: the joined stream's own changelog (+x −x +y) is then undone front to back (−x +x −y), retracting x while it is already gone — they must be kept and undone last to first"
					} else {
						bad = "rows for an added source record must be produced right away"
					}
					continue
				}
				if rt := o.Field(rec, "Retraction"); rt == nil || absint.IsTrue(rt) != (a != b) || !absint.IsConst(rt) {
					bad = fmt.Sprintf("retraction flag must be source XOR joined = %v, got %s", a != b, o.Show(rt))
				}
				out := o.Field(rec, "Values").Canon()
				want := []string{out + " ← " + src + ".Values", out + "[len(" + src + ".Values):] ← " + jn + ".Values"}
				if len(copies) != 2 || copies[0] != want[0] || copies[1] != want[1] {
					bad = fmt.Sprintf("row layout must be %v, got %v", want, copies)
				}
				if et := o.Field(rec, "EventTime"); et == nil || et.Canon() != src+".EventTime" {
					bad = "the joined row must carry the source record's event time"
				}
			}
			c.Decide(bad == "" && len(outs) > 0, "LOOKUP", ckey, inner.Produce.Pos(), len(outs), "", bad)
		}
	}
}

// checkLookupUndoOrder: the rows kept for a retracted source record are produced after the joined stream has finished,
// last to first.
func checkLookupUndoOrder(c *core.Ctx, fn *core.FuncRef, key string, outer *ast.FuncLit, innerCall *ast.CallExpr) {
	reverse := false
	ast.Inspect(outer.Body, func(n ast.Node) bool {
		fs, ok := n.(*ast.ForStmt)
		if !ok || fs.Pos() < innerCall.End() {
			return true
		}
		if inc, ok := fs.Post.(*ast.IncDecStmt); !ok || inc.Tok != token.DEC {
			return true
		}
		idx := core.ExprStr(fs.Post.(*ast.IncDecStmt).X)
		ast.Inspect(fs.Body, func(m ast.Node) bool {
			if call, ok := m.(*ast.CallExpr); ok && core.ExprStr(call.Fun) == "produce" && len(call.Args) == 2 && strings.HasSuffix(core.ExprStr(call.Args[1]), "["+idx+"]") {
				reverse = true
			}
			return true
		})
		return true
	})
	// the other way of walking a slice backwards: produce the last element, then cut it off
	if !reverse {
		ast.Inspect(outer.Body, func(n ast.Node) bool {
			fs, ok := n.(*ast.ForStmt)
			if !ok || fs.Pos() < innerCall.End() || fs.Cond == nil {
				return true
			}
			txt := core.FullStr(fs.Body)
			producesLast, cuts := false, false
			ast.Inspect(fs.Body, func(m ast.Node) bool {
				switch v := m.(type) {
				case *ast.CallExpr:
					if core.ExprStr(v.Fun) == "produce" && len(v.Args) == 2 {
						if ix, ok := core.Unparen(v.Args[1]).(*ast.IndexExpr); ok {
							idx := core.ExprStr(ix.Index)
							sl := core.ExprStr(ix.X)
							if idx == "len("+sl+") - 1" || idx == "len("+sl+")-1" || strings.Contains(txt, idx+" := len("+sl+") - 1") {
								producesLast = true
							}
						}
					}
				case *ast.AssignStmt:
					if len(v.Lhs) == 1 && len(v.Rhs) == 1 {
						if se, ok := v.Rhs[0].(*ast.SliceExpr); ok && se.Low == nil && se.High != nil && core.ExprStr(se.X) == core.ExprStr(v.Lhs[0]) {
							cuts = true
						}
					}
				}
				return true
			})
			if producesLast && cuts {
				reverse = true
			}
			return true
		})
	}
	c.Decide(reverse, "LOOKUP", key+"/undo order", outer.Pos(), 1, "kept rows are produced last to first after the joined stream has finished",
		"the rows kept for a retracted source record are not produced in reverse order after the joined run: undoing +x −x +y front to back retracts x while it is absent")
}

func checkOuterFlags(c *core.Ctx) {
	p := c.Prog
	fn := p.Func("parser", "ParseJoinTableExpression")
	key := "parser.ParseJoinTableExpression/NewOuterJoin flags"
	if fn == nil {
		c.Unknown("FLAGS", key, 0, "anchor not found")
		return
	}
	c.SawFunc("parser.ParseJoinTableExpression")
	info := fn.Info()
	var call *ast.CallExpr
	ast.Inspect(fn.Decl.Body, func(n ast.Node) bool {
		if cl, ok := n.(*ast.CallExpr); ok && p.CalleeName(info, cl) == "logical.NewOuterJoin" && len(cl.Args) == 5 {
			call = cl
		}
		return true
	})
	if call == nil {
		c.Unknown("FLAGS", key, fn.Decl.Pos(), "no logical.NewOuterJoin(left, right, on, isLeft, isRight) call found")
		return
	}
	joinStr := map[string]string{}
	sc := p.Pkg("parser/sqlparser").Types.Scope()
	for _, n := range []string{"LeftJoinStr", "RightJoinStr", "OuterJoinStr"} {
		if cst, ok := sc.Lookup(n).(*types.Const); ok {
			joinStr[n] = cst.Val().ExactString()
		}
	}
	want := map[string][2]bool{"LeftJoinStr": {true, false}, "RightJoinStr": {false, true}, "OuterJoinStr": {true, true}}
	bad := ""
	for kind, w := range want {
		for i := 0; i < 2; i++ {
			in := &absint.Interp{Info: info, Prog: p}
			in.Hooks.Cond = func(st *absint.State, atom string) (bool, bool) {
				if strings.Contains(atom, ".Join") && strings.Contains(atom, " == ") {
					return strings.Contains(atom, joinStr[kind]), true
				}
				return false, false
			}
			res, err := in.RunCond(call.Args[3+i])
			if err != nil || len(res) != 1 {
				bad = fmt.Sprint("cannot evaluate flag expression: ", err)
				continue
			}
			if res[0].Value != w[i] {
				bad = fmt.Sprintf("for %s the flags must be (isLeft,isRight)=%v; argument %d evaluates to %v", kind, w, 3+i, res[0].Value)
			}
		}
	}
	c.Decide(bad == "", "FLAGS", key, call.Pos(), 6, "LEFT→(T,F) RIGHT→(F,T) FULL→(T,T)", bad)
}

// checkOuterJoinKeys (OPT2 for ON a = b of outer joins).
func checkOuterJoinKeys(c *core.Ctx) {
	p := c.Prog
	fn := p.Func("logical", "(*OuterJoin).Typecheck")
	key := "logical.(*OuterJoin).Typecheck"
	if fn == nil {
		c.Unknown("OPT2", key, 0, "anchor not found")
		return
	}
	c.SawFunc(key)
	const P = "SPLIT[i@L1]"
	first, second := P+".FunctionCall.Arguments[0]", P+".FunctionCall.Arguments[1]"
	fcConst := lookupConst(p, "physical", "ExpressionTypeFunctionCall")
	for _, cs := range []struct {
		a, b string
	}{{"L", "R"}, {"R", "L"}, {"L", "L"}, {"LR", "R"}} {
		cs := cs
		in := newInterp(p, fn)
		in.MaxPaths = 8000
		uses := func(part, side string) bool {
			s := cs.a
			if part == "1" {
				s = cs.b
			}
			return strings.Contains(s, side)
		}
		info := fn.Info()
		in.Hooks.Loop = func(st *absint.State, loop ast.Stmt) *absint.LoopSpec {
			if strings.Contains(core.FullStr(loop), "UsesVariablesFromSchema") {
				return &absint.LoopSpec{Cases: []string{"pred"}, MaxIter: 1, RefStep: func(ref, c string) string { return c }}
			}
			return &absint.LoopSpec{Cases: []string{"other"}, MaxIter: 1, RefStep: func(ref, c string) string { return ref }}
		}
		_ = info
		in.Hooks.Field = func(st *absint.State, base absint.Val, sel string) (absint.Val, bool) {
			if sel == "ExpressionType" && loopTagRe.ReplaceAllString(base.Canon(), "@L1") == P {
				return fcConst, true
			}
			return nil, false
		}
		in.Hooks.Cond = func(st *absint.State, atom string) (bool, bool) {
			if strings.Contains(atom, ".FunctionCall.Name") && strings.Contains(atom, `"="`) {
				return true, true
			}
			if strings.Contains(atom, "isLeft") || strings.Contains(atom, "isRight") {
				return false, true
			}
			return false, false
		}
		in.Hooks.Call = func(st *absint.State, cl *ast.CallExpr, callee string, recv absint.Val, args []absint.Val) (absint.Val, bool) {
			switch {
			case callee == "physical.Expression.SplitByAnd":
				return absint.S("SPLIT"), true
			case callee == "optimizer.UsesVariablesFromSchema" && len(args) == 2:
				side := "R"
				if strings.HasPrefix(args[0].Canon(), "logical.Node.Typecheck(node.left") {
					side = "L"
				}
				part := "1"
				if strings.Contains(args[1].Canon(), "Arguments[0]") {
					part = "0"
				}
				return absint.Bool(uses(part, side)), true
			case callee == "logical.Node.Typecheck":
				return absint.Tuple{Elems: []absint.Val{absint.S(callee + "(" + recv.Canon() + ")"), absint.S("mapping(" + recv.Canon() + ")")}}, true
			case callee == "logical.Expression.Typecheck":
				return absint.S("PRED"), true
			}
			return nil, false
		}
		outs, err := runDecl(in, fn, nil, "")
		ckey := fmt.Sprintf("%s/first:%s second:%s", key, cs.a, cs.b)
		if err != nil {
			c.Unknown("OPT2", ckey, fn.Decl.Pos(), err.Error())
			continue
		}
		bad := ""
		n := 0
		for _, o := range outs {
			if os.Getenv("OCTOVERIF_DEBUG") != "" {
				fmt.Fprintln(os.Stderr, "OPT2", o.Kind, o.Trace, o.Ref)
			}
			if !strings.Contains(strings.Join(o.Trace, ","), "pred") {
				continue
			}
			n++
			valid := (cs.a == "L" && cs.b == "R") || (cs.a == "R" && cs.b == "L")
			if !valid {
				if o.Kind != "panic" {
					bad = "an equality whose sides do not each use exactly one input must be rejected (typecheck panic); got " + o.Kind
				}
				continue
			}
			if o.Kind != "return" {
				bad = "unexpected " + o.Kind
				continue
			}
			ret := o.Values[0]
			pf, ps := placements(o, ret, first), placements(o, ret, second)
			wf, ws := "OuterJoin.LeftKey", "OuterJoin.RightKey"
			if cs.a == "R" {
				wf, ws = ws, wf
			}
			if strings.Join(pf, ",") != wf || strings.Join(ps, ",") != ws {
				bad = fmt.Sprintf("the part using the left input must become the left key and the part using the right input the right key; first part ends up at [%s], second at [%s]", strings.Join(pf, ","), strings.Join(ps, ","))
			}
		}
		c.Decide(bad == "" && n > 0, "OPT2", ckey, fn.Decl.Pos(), len(outs), "", bad)
	}
}
