package props

import (
	"fmt"
	"go/ast"
	"go/token"
	"go/types"
	"regexp"
	"sort"
	"strings"

	"octoverif/core"
	"octoverif/engine/absint"
)

func init() {
	register(&Check{ID: "C04", Run: runC04,
		Explanation: "Each rewrite is abstractly interpreted on a symbolic plan and the node it returns is inspected. " +
			"OPT1: every filter-pushdown rule (into stream-join branches, stream-join keys, lookup-join branches, datasources, and filter merging) is run once per class of predicate (uses left / right / both / neither side; `a = b` with each side's variable use; uses the joined side or not): the predicate must end up exactly where the class allows — in the filter of the branch(es) whose variables suffice, as a key pair with the left part in LeftKey and the right part in RightKey, or in the filter that stays above — and nowhere else, never dropped; the untouched parts of the join (other branch, existing keys, sources) are carried over. " +
			"OPT3: the column-pruning rewrites cut Schema.Fields and every parallel slice (Map.Expressions; GroupBy.AggregateExpressions/Aggregates at index − len(Key)) at the same position and shift TimeField iff it lies behind the removed column; the candidate collectors skip the time field and the group-by key prefix. " +
			"OPT4: isUsed consults every plan field that names a schema field (Variable.Name, Unnest.Field, TVF DESCRIPTOR arguments) and every node that consumes its whole input row (Distinct, subquery roots, the plan root). " +
			"NULLKEY: an `=` predicate may only become a join key because the stream join never matches NULL keys (shared with C02).",
		NotDecided: []string{"semantic equivalence of arbitrary rewritten plans (program equivalence)", "datasource-side evaluation of pushed-down predicates (C26)", "alignment of pruned schemas with file columns at run time (csv indicesToRead / parquet usedFields)"},
	})
}

// transformerLit finds the literal assigned to the given key of a Transformers composite literal in fn.
func transformerLit(fn *core.FuncRef, field string) *ast.FuncLit {
	var out *ast.FuncLit
	ast.Inspect(fn.Decl.Body, func(n ast.Node) bool {
		kv, ok := n.(*ast.KeyValueExpr)
		if !ok || core.ExprStr(kv.Key) != field {
			return true
		}
		if fl, ok := kv.Value.(*ast.FuncLit); ok && out == nil {
			out = fl
		}
		return true
	})
	return out
}

var splitLenRe = regexp.MustCompile(`^\((\d+) == len\(SPLIT\(.*\)\)\)$`)

var loopTagRe = regexp.MustCompile(`@L\d+`)

// placements lists the field paths under root at which a value with the given canonical form occurs.
func placements(o *absint.Outcome, root absint.Val, needle string) []string {
	var out []string
	seen := map[int]bool{}
	var walk func(v absint.Val, path string)
	walk = func(v absint.Val, path string) {
		if v == nil {
			return
		}
		if loopTagRe.ReplaceAllString(v.Canon(), "@L") == loopTagRe.ReplaceAllString(needle, "@L") {
			out = append(out, path)
			return
		}
		switch x := v.(type) {
		case absint.Ref:
			if seen[x.ID] {
				return
			}
			seen[x.ID] = true
			ob := o.Heap[x.ID]
			if ob == nil {
				return
			}
			keys := make([]string, 0, len(ob.Fields))
			for k := range ob.Fields {
				keys = append(keys, k)
			}
			sort.Strings(keys)
			for _, k := range keys {
				p := k
				if path != "" {
					p = path + "." + k
				}
				walk(ob.Fields[k], p)
			}
		case absint.List:
			for _, e := range x.Elems {
				walk(e, path)
			}
		case absint.Appended:
			for _, e := range x.Elems {
				walk(e, path)
			}
			if x.Base != nil {
				walk(x.Base, path)
			}
		case absint.Spread:
			walk(x.V, path)
		}
	}
	walk(root, "")
	sort.Strings(out)
	return out
}

// fieldAt follows a dotted field path from a heap value.
func fieldAt(o *absint.Outcome, v absint.Val, path string) absint.Val {
	for _, f := range strings.Split(path, ".") {
		if v == nil {
			return nil
		}
		v = o.Field(v, f)
	}
	return v
}

func nodeTypeConst(p *core.Program, name string) absint.Val { return lookupConst(p, "physical", name) }

type pushCase struct {
	class string
	want  map[string][]string // needle -> expected placement paths
	// stays: the rule may also return the input node unchanged
	mayReturnNode bool
	// keep: fields of the result that must equal the given canonical form
	keep map[string]string
	// pairedKeys: the existing join keys must be carried over at the same end of LeftKey and RightKey
	pairedKeys bool
}

// keyOrder says where the existing key list sits in an `append(a;[b…])` canon.
func keyOrder(canon, existing string) string {
	switch {
	case strings.HasPrefix(canon, "append("+existing+";") && strings.Count(canon, existing) == 1:
		return "existing first"
	case strings.HasPrefix(canon, "append(") && strings.HasSuffix(canon, ";["+existing+"…])") && strings.Count(canon, existing) == 1:
		return "existing last"
	case strings.HasPrefix(canon, "[") && strings.HasSuffix(canon, ","+existing+"…]") && strings.Count(canon, existing) == 1:
		return "existing last"
	}
	return "?"
}

func runPushdown(c *core.Ctx, rule, rel, fname, srcType string, classes []pushCase,
	hook func(cls func() string) (callHook, func(st *absint.State, atom string) (bool, bool), func(st *absint.State, base absint.Val, sel string) (absint.Val, bool))) {
	p := c.Prog
	fn := p.Func(rel, fname)
	key := rel + "." + fname
	if fn == nil {
		c.Unknown(rule, key, 0, "anchor not found")
		return
	}
	c.SawFunc(key)
	lit := transformerLit(fn, "NodeTransformer")
	if lit == nil {
		c.Unknown(rule, key, fn.Decl.Pos(), "no Transformers{NodeTransformer: func…} literal found")
		return
	}
	var names []string
	for _, cs := range classes {
		names = append(names, cs.class)
	}
	for _, cs := range classes {
		cs := cs
		in := newInterp(p, fn)
		in.MaxPaths = 6000
		cur := func() string { return cs.class }
		call, cond, field := hook(cur)
		in.Hooks.Call = chainCall(func(st *absint.State, cl *ast.CallExpr, callee string, recv absint.Val, args []absint.Val) (absint.Val, bool) {
			if callee == "physical.Expression.SplitByAnd" {
				return absint.S("SPLIT(" + recv.Canon() + ")"), true
			}
			return nil, false
		}, call)
		in.Hooks.Cond = func(st *absint.State, atom string) (bool, bool) {
			// exactly one predicate was classified (MaxIter = 1)
			if m := splitLenRe.FindStringSubmatch(atom); m != nil {
				return m[1] == "1", true
			}
			if cond != nil {
				return cond(st, atom)
			}
			return false, false
		}
		in.Hooks.Field = func(st *absint.State, base absint.Val, sel string) (absint.Val, bool) {
			if sel == "NodeType" {
				switch base.Canon() {
				case "node":
					return nodeTypeConst(p, "NodeTypeFilter"), true
				case "node.Filter.Source":
					return nodeTypeConst(p, srcType), true
				}
			}
			if field != nil {
				return field(st, base, sel)
			}
			return nil, false
		}
		in.Hooks.Loop = func(st *absint.State, loop ast.Stmt) *absint.LoopSpec {
			return &absint.LoopSpec{Cases: []string{cs.class}, MaxIter: 1, RefStep: func(ref, c string) string { return c }}
		}
		outs, err := runLit(in, lit, nil, "")
		ckey := key + "/" + cs.class
		if err != nil {
			c.Unknown(rule, ckey, lit.Pos(), err.Error())
			continue
		}
		bad := ""
		checked := 0
		for _, o := range outs {
			if o.Kind != "return" || len(o.Values) != 1 || len(o.Trace) != 1 {
				continue
			}
			ret := o.Values[0]
			if ret.Canon() == "node" {
				if !cs.mayReturnNode {
					bad = "the rule returns the input node unchanged although the predicate can be moved"
				}
				checked++
				continue
			}
			checked++
			for needle, want := range cs.want {
				got := placements(o, ret, needle)
				if strings.Join(got, " | ") != strings.Join(want, " | ") {
					where := strings.Join(got, " | ")
					if where == "" {
						where = "nowhere (the predicate is dropped)"
					}
					bad = fmt.Sprintf("a predicate of class %q must end up at [%s]; it ends up at %s", cs.class, strings.Join(want, " | "), where)
				}
			}
			if cs.pairedKeys {
				// LeftKey[i] is compared with RightKey[i]: the existing keys must sit at the same end of both lists
				lk, rk := fieldAt(o, ret, "StreamJoin.LeftKey"), fieldAt(o, ret, "StreamJoin.RightKey")
				if lk == nil || rk == nil {
					bad = "the rewritten join has no LeftKey/RightKey"
				} else {
					lo, ro := keyOrder(lk.Canon(), "node.Filter.Source.StreamJoin.LeftKey"), keyOrder(rk.Canon(), "node.Filter.Source.StreamJoin.RightKey")
					if lo == "?" || lo != ro {
						bad = fmt.Sprintf("class %q: LeftKey[i] pairs with RightKey[i], so the existing keys must be carried over at the same end of both lists; LeftKey = %s (%s), RightKey = %s (%s)", cs.class, o.Show(lk), lo, o.Show(rk), ro)
					}
				}
			}
			for path, want := range cs.keep {
				v := fieldAt(o, ret, path)
				if v == nil || v.Canon() != want {
					got := "<missing>"
					if v != nil {
						got = o.Show(v)
					}
					// a branch wrapped in a new filter keeps the original as that filter's source
					if v2 := fieldAt(o, ret, path+".Filter.Source"); v2 != nil && v2.Canon() == want {
						continue
					}
					bad = fmt.Sprintf("class %q: %s of the rewritten node must be %s, is %s", cs.class, path, want, got)
				}
			}
		}
		if bad == "" && checked == 0 {
			bad = "no path through the classification loop returned a node"
		}
		c.Decide(bad == "", rule, ckey, lit.Pos(), len(outs), "placed exactly where its variable use allows", bad)
	}
}

func runC04(c *core.Ctx) {
	c.Rule("UNIQCMP", "unique column names are compared exactly")
	checkUniqueNameComparison(c, "UNIQCMP")
	c.Rule("CSVUNIQ", "csv column pruning selects file columns by name: repeated header names are rejected")
	checkCSVUniqueNames(c, "CSVUNIQ")
	c.Rule("OPT1", "pushdown rules place every predicate exactly where its class allows and drop nothing")
	c.Rule("OPT3", "column pruning cuts parallel slices at corresponding positions")
	c.Rule("OPT4", "isUsed consults every consumer of a field name")
	c.Rule("NULLKEY", "stream join never matches NULL keys")
	c.Rule("CELL", "csv datasource types each pruned column by its own schema slot")
	checkCSVCells(c, "CELL")
	const P = "SPLIT(node.Filter.Predicate)[i@L1]"
	topArgs := "Filter.Predicate.And.Arguments"

	// --- stream join branch
	runPushdown(c, "OPT1", "optimizer", "PushDownFilterPredicatesIntoStreamJoinBranch", "NodeTypeStreamJoin", []pushCase{
		{class: "left only", want: map[string][]string{P: {"StreamJoin.Left." + topArgs}}, keep: map[string]string{"StreamJoin.Right": "node.Filter.Source.StreamJoin.Right", "StreamJoin.Left": "node.Filter.Source.StreamJoin.Left", "StreamJoin.LeftKey": "node.Filter.Source.StreamJoin.LeftKey", "StreamJoin.RightKey": "node.Filter.Source.StreamJoin.RightKey"}},
		{class: "right only", want: map[string][]string{P: {"StreamJoin.Right." + topArgs}}, keep: map[string]string{"StreamJoin.Left": "node.Filter.Source.StreamJoin.Left", "StreamJoin.Right": "node.Filter.Source.StreamJoin.Right", "StreamJoin.LeftKey": "node.Filter.Source.StreamJoin.LeftKey", "StreamJoin.RightKey": "node.Filter.Source.StreamJoin.RightKey"}},
		{class: "both", want: map[string][]string{P: {topArgs}}, mayReturnNode: true, keep: map[string]string{"Filter.Source.StreamJoin.Left": "node.Filter.Source.StreamJoin.Left", "Filter.Source.StreamJoin.Right": "node.Filter.Source.StreamJoin.Right"}},
		{class: "neither", want: map[string][]string{P: {"StreamJoin.Left." + topArgs, "StreamJoin.Right." + topArgs}}},
	}, func(cls func() string) (callHook, func(*absint.State, string) (bool, bool), func(*absint.State, absint.Val, string) (absint.Val, bool)) {
		return func(st *absint.State, cl *ast.CallExpr, callee string, recv absint.Val, args []absint.Val) (absint.Val, bool) {
			if callee == "optimizer.UsesVariablesFromSchema" && len(args) == 2 {
				left := strings.Contains(args[0].Canon(), ".Left.")
				switch cls() {
				case "left only":
					return absint.Bool(left), true
				case "right only":
					return absint.Bool(!left), true
				case "both":
					return absint.Bool(true), true
				default:
					return absint.Bool(false), true
				}
			}
			return nil, false
		}, nil, nil
	})

	checkStreamJoinKeyPushdown(c)

	// --- lookup join branch
	runPushdown(c, "OPT1", "optimizer", "PushDownFilterPredicatesIntoLookupJoinBranch", "NodeTypeLookupJoin", []pushCase{
		{class: "uses joined side", want: map[string][]string{P: {"LookupJoin.Joined." + topArgs}}, keep: map[string]string{"LookupJoin.Source": "node.Filter.Source.LookupJoin.Source", "LookupJoin.Joined": "node.Filter.Source.LookupJoin.Joined"}},
		{class: "source side only", want: map[string][]string{P: {"LookupJoin.Source." + topArgs}}, keep: map[string]string{"LookupJoin.Joined": "node.Filter.Source.LookupJoin.Joined", "LookupJoin.Source": "node.Filter.Source.LookupJoin.Source"}},
	}, func(cls func() string) (callHook, func(*absint.State, string) (bool, bool), func(*absint.State, absint.Val, string) (absint.Val, bool)) {
		return func(st *absint.State, cl *ast.CallExpr, callee string, recv absint.Val, args []absint.Val) (absint.Val, bool) {
			switch callee {
			case "optimizer.UsesVariablesFromSchema":
				if len(args) == 2 && strings.Contains(args[0].Canon(), ".Joined.") {
					return absint.Bool(cls() == "uses joined side"), true
				}
				// a test against the source schema: a predicate that does not use the joined side uses at most the source
				return absint.Bool(cls() != "uses joined side"), true
			case "optimizer.transformVariablesFromSchemaIntoNonLevel0":
				if len(args) == 2 {
					if !strings.Contains(args[0].Canon(), ".LookupJoin.Source.Schema") {
						st.Emit("WRONG-SCHEMA "+args[0].Canon(), cl.Pos())
					}
					return args[1], true // the rewrite only flips IsLevel0 flags of variables
				}
			}
			return nil, false
		}, nil, nil
	})

	checkDatasourcePushdown(c)
	checkMergeFilters(c)
	c.Rule("FALLIBLE", "predicates moved below a join cannot fail at run time")
	checkFalliblePushdown(c)
	checkIsUsed(c)
	checkPruners(c)
	checkJoinNullKeys(c, "NULLKEY")
	c.Floor("OPT1", 25, "4 + 18 + 2 pushdown classes + datasource + merge")
}

func checkDatasourcePushdown(c *core.Ctx) {
	p := c.Prog
	fn := p.Func("optimizer", "PushDownFilterPredicatesToDatasource")
	key := "optimizer.PushDownFilterPredicatesToDatasource"
	if fn == nil {
		c.Unknown("OPT1", key, 0, "anchor not found")
		return
	}
	c.SawFunc(key)
	lit := transformerLit(fn, "NodeTransformer")
	if lit == nil {
		c.Unknown("OPT1", key, fn.Decl.Pos(), "no NodeTransformer literal")
		return
	}
	for _, changed := range []bool{true, false} {
		changed := changed
		in := newInterp(p, fn)
		in.Hooks.Field = func(st *absint.State, base absint.Val, sel string) (absint.Val, bool) {
			if sel == "NodeType" {
				switch base.Canon() {
				case "node":
					return nodeTypeConst(p, "NodeTypeFilter"), true
				case "node.Filter.Source":
					return nodeTypeConst(p, "NodeTypeDatasource"), true
				}
			}
			return nil, false
		}
		var callArgs string
		in.Hooks.Call = func(st *absint.State, cl *ast.CallExpr, callee string, recv absint.Val, args []absint.Val) (absint.Val, bool) {
			switch {
			case callee == "physical.Expression.SplitByAnd":
				return absint.S("SPLIT(" + recv.Canon() + ")"), true
			case strings.HasSuffix(callee, ".PushDownPredicates") && len(args) == 2:
				callArgs = args[0].Canon() + " ; " + args[1].Canon()
				return absint.Tuple{Elems: []absint.Val{absint.S("REJECTED"), absint.S("PUSHED"), absint.Bool(changed)}}, true
			}
			return nil, false
		}
		outs, err := runLit(in, lit, nil, "")
		ckey := fmt.Sprintf("%s/changed=%v", key, changed)
		if err != nil {
			c.Unknown("OPT1", ckey, lit.Pos(), err.Error())
			continue
		}
		bad := ""
		if callArgs != "SPLIT(node.Filter.Predicate) ; node.Filter.Source.Datasource.Predicates" {
			bad = "the datasource must be offered the split filter predicates together with what it already holds; it is called with " + callArgs
		}
		for _, o := range outs {
			if o.Kind != "return" || len(o.Values) != 1 {
				continue
			}
			ret := o.Values[0]
			if !changed {
				if ret.Canon() != "node" {
					bad = "when the datasource takes nothing the plan must stay as it is"
				}
				continue
			}
			pushed := append(placements(o, ret, "PUSHED"), "")
			rej := placements(o, ret, "REJECTED")
			emptyRejected := false
			for a, v := range o.Assumed {
				if strings.Contains(a, "len(REJECTED)") && ((strings.HasPrefix(a, "(0 < ") && !v) || (strings.HasPrefix(a, "(0 == ") && v)) {
					emptyRejected = true
				}
			}
			if !(pushed[0] == "Datasource.Predicates" || pushed[0] == "Filter.Source.Datasource.Predicates") {
				bad = "the predicates the datasource accepted are not stored in Datasource.Predicates (they would be evaluated nowhere): " + strings.Join(pushed, ",")
			}
			if !emptyRejected && strings.Join(rej, ",") != "Filter.Predicate.And.Arguments" {
				bad = "the predicates the datasource rejected must stay in a filter above it; they end up at [" + strings.Join(rej, ",") + "]"
			}
		}
		c.Decide(bad == "" && len(outs) > 0, "OPT1", ckey, lit.Pos(), len(outs), "accepted → Datasource.Predicates, rejected → filter above", bad)
	}
}

func checkMergeFilters(c *core.Ctx) {
	p := c.Prog
	fn := p.Func("optimizer", "MergeFilters")
	key := "optimizer.MergeFilters"
	if fn == nil {
		c.Unknown("OPT1", key, 0, "anchor not found")
		return
	}
	c.SawFunc(key)
	lit := transformerLit(fn, "NodeTransformer")
	if lit == nil {
		c.Unknown("OPT1", key, fn.Decl.Pos(), "no NodeTransformer literal")
		return
	}
	in := newInterp(p, fn)
	in.Hooks.Field = func(st *absint.State, base absint.Val, sel string) (absint.Val, bool) {
		if sel == "NodeType" && (base.Canon() == "node" || base.Canon() == "node.Filter.Source") {
			return nodeTypeConst(p, "NodeTypeFilter"), true
		}
		return nil, false
	}
	in.Hooks.Call = func(st *absint.State, cl *ast.CallExpr, callee string, recv absint.Val, args []absint.Val) (absint.Val, bool) {
		if callee == "physical.Expression.SplitByAnd" {
			return absint.S("SPLIT(" + recv.Canon() + ")"), true
		}
		return nil, false
	}
	outs, err := runLit(in, lit, nil, "")
	if err != nil {
		c.Unknown("OPT1", key, lit.Pos(), err.Error())
		return
	}
	bad := ""
	for _, o := range outs {
		if o.Kind != "return" {
			continue
		}
		ret := o.Values[0]
		args := fieldAt(o, ret, "Filter.Predicate.And.Arguments")
		s := ""
		if args != nil {
			s = args.Canon()
		}
		if !strings.Contains(s, "SPLIT(node.Filter.Predicate)") || !strings.Contains(s, "SPLIT(node.Filter.Source.Filter.Predicate)") {
			bad = "the merged filter must hold the conjuncts of both filters; it holds " + s
		}
		if i, j := strings.Index(s, "SPLIT(node.Filter.Source.Filter.Predicate)"), strings.Index(s, "SPLIT(node.Filter.Predicate)"); bad == "" && i > j {
			bad = "the merged conjunction must keep the evaluation order of the two filters — the lower filter's conjuncts first: And evaluates left to right and stops at the first FALSE, so a lower conjunct (b != 0) guards an upper one (a / b > 0) from failing; it holds " + s
		}
		if src := fieldAt(o, ret, "Filter.Source"); src == nil || src.Canon() != "node.Filter.Source.Filter.Source" {
			bad = "the merged filter must sit on the inner filter's source"
		}
		if et := fieldAt(o, ret, "Filter.Predicate.ExpressionType"); et == nil || et.Canon() != lookupConst(p, "physical", "ExpressionTypeAnd").Canon() {
			bad = "the merged predicate must be a conjunction"
		}
	}
	c.Decide(bad == "" && len(outs) > 0, "OPT1", key, lit.Pos(), len(outs), "AND of the inner, then the outer filter's conjuncts over the inner source", bad)
}

// checkIsUsed (OPT4).
func checkIsUsed(c *core.Ctx) {
	p := c.Prog
	fn := p.Func("optimizer", "isUsed")
	key := "optimizer.isUsed"
	if fn == nil {
		c.Unknown("OPT4", key, 0, "anchor not found")
		return
	}
	c.SawFunc(key)
	fieldParam := fn.Decl.Type.Params.List[0].Names[0].Name
	// consumer: (case constant, suffix of the expression compared with the field name)
	type consumer struct{ caseConst, suffix, what string }
	consumers := []consumer{
		{"ExpressionTypeVariable", ".Variable.Name", "a variable reference reads the column"},
		{"ExpressionTypeQueryExpression", ".Name", "a subquery expression's whole output row is used"},
		{"NodeTypeTableValuedFunction", ".Descriptor.Descriptor", "a DESCRIPTOR(col) argument of a table-valued function names the column"},
		{"NodeTypeDistinct", ".Name", "DISTINCT de-duplicates on every column of its input"},
		{"NodeTypeUnnest", ".Unnest.Field", "unnest() names the list column it expands"},
		{"NodeTypeOrderSensitiveTransform", ".Name", "ORDER BY … LIMIT breaks ties on the order key by comparing whole records, so every column decides which rows are the first n"},
	}
	// Each consumer's arm is interpreted with the comparison "this consumer names the field" answered true (helpers
	// such as a has-field function are followed, a loop over fields is one abstract iteration): on every path the
	// field must then be marked used (the flag set, or true returned). The conditions under which the consumer really
	// depends on the column are answered so that it does; any further condition forks, and its false branch is a path
	// without the mark — "the column only counts as used under an extra condition".
	info := fn.Info()
	nodeParam := fn.Decl.Type.Params.List[1].Names[0].Name
	runArm := func(body []ast.Stmt, suffix string, ftype *ast.FuncType) (string, int) {
		in := newInterp(p, fn)
		in.MaxPaths = 4000
		in.Hooks.Loop = func(st *absint.State, loop ast.Stmt) *absint.LoopSpec {
			return &absint.LoopSpec{Cases: []string{"f"}, MaxIter: 1, MinIter: 1, RefStep: func(ref, cs string) string { return ref }}
		}
		in.Hooks.Store = func(st *absint.State, obj types.Object, v absint.Val) {
			if v != nil && absint.IsTrue(v) && obj.Pos() >= fn.Decl.Body.Pos() && obj.Pos() <= fn.Decl.Body.End() {
				if b, ok := obj.Type().Underlying().(*types.Basic); ok && b.Kind() == types.Bool {
					st.Emit("USED", token.NoPos)
				}
			}
		}
		in.Hooks.Cond = func(st *absint.State, atom string) (bool, bool) {
			m := regexp.MustCompile(`^\((.*) == (.*)\)$`).FindStringSubmatch(atom)
			if m != nil {
				x, y := m[1], m[2]
				if (y == fieldParam && strings.HasSuffix(x, suffix)) || (x == fieldParam && strings.HasSuffix(y, suffix)) {
					return true, true
				}
				// the consumer depends on the column exactly when: an order-sensitive transform has a limit (without
				// one every row is emitted whatever the tie-break); a table-valued function's argument is a descriptor
				if strings.Contains(atom, ".OrderSensitiveTransform.Limit") && (x == "nil" || y == "nil") {
					return false, true
				}
				if strings.Contains(atom, "TableValuedFunctionArgumentType") {
					return true, true
				}
			}
			return false, false
		}
		outs, err := in.Run(ftype, nil, &ast.BlockStmt{List: body}, nil, "")
		if err != nil {
			return err.Error(), 0
		}
		if len(outs) == 0 {
			return "no path", 0
		}
		for _, o := range outs {
			marked := false
			for _, e := range o.Events {
				if e.Name == "USED" {
					marked = true
				}
			}
			if o.Kind == "return" && len(o.Values) == 1 && absint.IsTrue(o.Values[0]) {
				marked = true
			}
			if !marked {
				var extra []string
				for a, v := range o.Assumed {
					extra = append(extra, fmt.Sprintf("%s=%v", a, v))
				}
				sort.Strings(extra)
				return "the column only counts as used under an extra condition (a path without the mark assumes " + strings.Join(extra, ", ") + ")", len(outs)
			}
		}
		return "", len(outs)
	}
	for _, cs := range consumers {
		var arm *ast.CaseClause
		ast.Inspect(fn.Decl.Body, func(n ast.Node) bool {
			if cc, isCC := n.(*ast.CaseClause); isCC {
				for _, e := range cc.List {
					if strings.HasSuffix(core.ExprStr(e), cs.caseConst) {
						arm = cc
					}
				}
			}
			return true
		})
		detail := fmt.Sprintf("isUsed does not look at %s (%s): the column is pruned although it is needed — results change or the plan breaks only when optimization is on", cs.caseConst, cs.what)
		if arm == nil {
			c.Bad("OPT4", key+"/"+cs.caseConst, fn.Decl.Pos(), 1, detail)
			continue
		}
		why, n := runArm(arm.Body, cs.suffix, &ast.FuncType{Params: &ast.FieldList{}})
		if why != "" {
			detail = fmt.Sprintf("isUsed does not mark the column as used for %s on every path (%s): %s — the column is pruned although it is needed", cs.caseConst, cs.what, why)
		}
		c.Decide(why == "", "OPT4", key+"/"+cs.caseConst, arm.Pos(), n, "consulted", detail)
	}
	// the plan root's own schema: the whole function, with "a field of the root's schema has this name" true
	{
		in := newInterp(p, fn)
		in.MaxPaths = 4000
		in.Hooks.Loop = func(st *absint.State, loop ast.Stmt) *absint.LoopSpec {
			return &absint.LoopSpec{Cases: []string{"f"}, MaxIter: 1, MinIter: 1, RefStep: func(ref, cs string) string { return ref }}
		}
		in.Hooks.Cond = func(st *absint.State, atom string) (bool, bool) {
			m := regexp.MustCompile(`^\((.*) == (.*)\)$`).FindStringSubmatch(atom)
			if m == nil {
				return false, false
			}
			for _, pr := range [][2]string{{m[1], m[2]}, {m[2], m[1]}} {
				if pr[1] == fieldParam && strings.HasPrefix(pr[0], nodeParam+".Schema.Fields[") && strings.HasSuffix(pr[0], ".Name") {
					return true, true
				}
			}
			return false, false
		}
		outs, err := runDecl(in, fn, nil, "")
		rootOK := err == nil && len(outs) > 0
		for _, o := range outs {
			if o.Kind != "return" || len(o.Values) != 1 || !absint.IsTrue(o.Values[0]) {
				rootOK = false
			}
		}
		c.Decide(rootOK, "OPT4", key+"/root schema", fn.Decl.Pos(), len(outs), "output columns of the plan are used", "isUsed does not treat the plan's own output columns as used")
	}
	c.Floor("OPT4", 7, "6 consumers + root")
	_ = info
}

// checkPruners (OPT3).
func checkPruners(c *core.Ctx) {
	p := c.Prog
	type pruner struct {
		fn       string
		nodeType string
		slices   map[string]string // slice path -> index expression kind: "index" | "aggregateIndex"
	}
	for _, pr := range []pruner{
		{"removeMapField", "NodeTypeMap", map[string]string{"node.Schema.Fields": "index", "node.Map.Expressions": "index"}},
		{"removeGroupByField", "NodeTypeGroupBy", map[string]string{"node.Schema.Fields": "index", "node.GroupBy.AggregateExpressions": "aggregateIndex", "node.GroupBy.Aggregates": "aggregateIndex"}},
		{"removeUnusedDatasourceField", "NodeTypeDatasource", map[string]string{"node.Schema.Fields": "index"}},
		{"removeFieldFromPassers", "", map[string]string{"node.Schema.Fields": "index"}},
	} {
		fn := p.Func("optimizer", pr.fn)
		key := "optimizer." + pr.fn
		if fn == nil {
			c.Unknown("OPT3", key, 0, "anchor not found")
			continue
		}
		c.SawFunc(key)
		lit := transformerLit(fn, "NodeTransformer")
		if lit == nil {
			c.Unknown("OPT3", key, fn.Decl.Pos(), "no NodeTransformer literal")
			continue
		}
		for _, tf := range []absint.Rel{absint.LT, absint.EQ, absint.GT} {
			tf := tf
			in := newInterp(p, fn)
			in.Hooks.Field = func(st *absint.State, base absint.Val, sel string) (absint.Val, bool) {
				if sel == "NodeType" && base.Canon() == "node" && pr.nodeType != "" {
					return nodeTypeConst(p, pr.nodeType), true
				}
				return nil, false
			}
			in.Hooks.Loop = func(st *absint.State, loop ast.Stmt) *absint.LoopSpec {
				return &absint.LoopSpec{Cases: []string{"match"}, MaxIter: 1, RefStep: func(ref, cs string) string { return cs }}
			}
			in.Hooks.Cond = func(st *absint.State, atom string) (bool, bool) {
				if strings.Contains(atom, ".Name") && strings.Contains(atom, " == ") && strings.Contains(atom, "field") {
					return st.IterNow == "match", true
				}
				// TimeField vs index
				if strings.Contains(atom, "node.Schema.TimeField") {
					inner := strings.TrimSuffix(strings.TrimPrefix(atom, "("), ")")
					for _, op := range []string{" < ", " <= ", " == "} {
						if i := strings.Index(inner, op); i > 0 {
							a, b := inner[:i], inner[i+len(op):]
							o := absint.OrderOracle{}
							if strings.Contains(a, "TimeField") {
								o.Set(a, b, tf)
							} else {
								o.Set(b, a, tf)
							}
							return o.Decide(atom)
						}
					}
				}
				return false, false
			}
			outs, err := runLit(in, lit, nil, "")
			ckey := fmt.Sprintf("%s/TimeField %s removed index", key, tf)
			if err != nil {
				c.Unknown("OPT3", ckey, lit.Pos(), err.Error())
				continue
			}
			bad := ""
			checked := 0
			for _, o := range outs {
				if o.Kind != "return" || len(o.Trace) != 1 {
					continue
				}
				stores := map[string]string{}
				for _, e := range o.Events {
					if strings.HasPrefix(e.Name, "store ") && len(e.Args) == 1 {
						stores[strings.TrimPrefix(e.Name, "store ")] = e.Args[0].Canon()
					}
				}
				if len(stores) == 0 {
					continue
				}
				checked++
				idx := "i@L1"
				for path, kind := range pr.slices {
					i := idx
					if kind == "aggregateIndex" {
						i = "(" + idx + " - len(node.GroupBy.Key))"
					}
					want := fmt.Sprintf("append(%s[:%s];[%s[(%s + 1):]…])", path, i, path, i)
					if stores[path] != want {
						got := stores[path]
						if got == "" {
							got = "<not updated>"
						}
						bad = fmt.Sprintf("%s must lose exactly the element at %s (%s); the rewrite stores %s — the slices of the node no longer line up with its schema", path, i, want, got)
					}
				}
				dec, has := stores["node.Schema.TimeField"]
				switch tf {
				case absint.GT:
					if !has || dec != "(node.Schema.TimeField - 1)" {
						bad = "the time field lies behind the removed column and must move down by one; stored: " + dec
					}
				default:
					if has {
						bad = fmt.Sprintf("the time field does not lie behind the removed column (TimeField %s index) and must not move; stored: %s", tf, dec)
					}
				}
				// nothing else is modified
				for path := range stores {
					if _, ok := pr.slices[path]; !ok && path != "node.Schema.TimeField" {
						bad = "the rewrite also modifies " + path
					}
				}
			}
			if bad == "" && checked == 0 {
				bad = "no path removing a column was explored"
			}
			c.Decide(bad == "", "OPT3", ckey, lit.Pos(), len(outs), "parallel slices cut at corresponding positions", bad)
		}
	}
	// collectors skip the time field (and the key prefix for group by)
	for _, col := range []struct {
		fn      string
		skipKey bool
	}{{"getNonTimeFieldMapFields", false}, {"getNonTimeFieldGroupByFields", true}, {"getNonTimeFieldDatasourceFields", false}} {
		fn := p.Func("optimizer", col.fn)
		key := "optimizer." + col.fn
		if fn == nil {
			c.Unknown("OPT3", key, 0, "anchor not found")
			continue
		}
		lit := transformerLit(fn, "NodeTransformer")
		if lit == nil {
			c.Unknown("OPT3", key, fn.Decl.Pos(), "no NodeTransformer literal")
			continue
		}
		classes := []string{"time field", "ordinary"}
		if col.skipKey {
			classes = append(classes, "key column")
		}
		for _, cls := range classes {
			cls := cls
			in := newInterp(p, fn)
			in.Hooks.Field = func(st *absint.State, base absint.Val, sel string) (absint.Val, bool) {
				if sel == "NodeType" && base.Canon() == "node" {
					for _, nt := range []string{"NodeTypeMap", "NodeTypeGroupBy", "NodeTypeDatasource"} {
						if strings.Contains(col.fn, strings.TrimPrefix(nt, "NodeType")) {
							return nodeTypeConst(p, nt), true
						}
					}
				}
				return nil, false
			}
			in.Hooks.Loop = func(st *absint.State, loop ast.Stmt) *absint.LoopSpec {
				return &absint.LoopSpec{Cases: []string{cls}, MaxIter: 1, RefStep: func(ref, cs string) string { return cs }}
			}
			in.Hooks.Cond = func(st *absint.State, atom string) (bool, bool) {
				switch {
				case strings.Contains(atom, "TimeField") && strings.Contains(atom, " == "):
					return cls == "time field", true
				case strings.Contains(atom, "len(node.GroupBy.Key)") && strings.Contains(atom, " < "):
					return cls == "key column", true
				}
				return false, false
			}
			outs, err := runLit(in, lit, nil, "")
			ckey := key + "/" + cls
			if err != nil {
				c.Unknown("OPT3", ckey, lit.Pos(), err.Error())
				continue
			}
			bad := ""
			n := 0
			for _, o := range outs {
				if len(o.Trace) != 1 {
					continue
				}
				n++
				collected := false
				for _, e := range o.Events {
					if strings.HasPrefix(e.Name, "append") {
						collected = true
					}
				}
				for k, v := range o.Env {
					if k == "fields" && v != nil && strings.Contains(v.Canon(), ".Name") {
						collected = true
					}
				}
				if cls == "ordinary" && !collected {
					bad = "an ordinary column is not offered for pruning"
				}
				if cls != "ordinary" && collected {
					bad = "the " + cls + " is offered for pruning; removing it breaks event times / group keys"
				}
			}
			c.Decide(bad == "" && n > 0, "OPT3", ckey, lit.Pos(), len(outs), "", bad)
		}
	}
}

// checkStreamJoinKeyPushdown: `a = b` predicates above a stream join become key pairs (OPT1, shared by C02 and C04).
func checkStreamJoinKeyPushdown(c *core.Ctx) {
	const P = "SPLIT(node.Filter.Predicate)[i@L1]"
	topArgs := "Filter.Predicate.And.Arguments"
	// --- stream join key
	first, second := P+".FunctionCall.Arguments[0]", P+".FunctionCall.Arguments[1]"
	var keyCases []pushCase
	sides := []string{"L", "R", "LR", "none"}
	for _, a := range sides {
		for _, b := range sides {
			cs := pushCase{class: "= first:" + a + " second:" + b}
			switch {
			case a == "L" && b == "R":
				cs.want = map[string][]string{first: {"StreamJoin.LeftKey"}, second: {"StreamJoin.RightKey"}, P: nil}
			case a == "R" && b == "L":
				cs.want = map[string][]string{first: {"StreamJoin.RightKey"}, second: {"StreamJoin.LeftKey"}, P: nil}
			default:
				cs.want = map[string][]string{P: {topArgs}}
				cs.mayReturnNode = true
			}
			if cs.mayReturnNode {
				cs.keep = map[string]string{}
			} else {
				cs.keep = map[string]string{"StreamJoin.Left": "node.Filter.Source.StreamJoin.Left", "StreamJoin.Right": "node.Filter.Source.StreamJoin.Right"}
				cs.pairedKeys = true
			}
			keyCases = append(keyCases, cs)
		}
	}
	keyCases = append(keyCases,
		pushCase{class: "not a function call", want: map[string][]string{P: {topArgs}}, mayReturnNode: true},
		pushCase{class: "function other than =", want: map[string][]string{P: {topArgs}}, mayReturnNode: true})
	fcConst := lookupConst(c.Prog, "physical", "ExpressionTypeFunctionCall")
	varConst := lookupConst(c.Prog, "physical", "ExpressionTypeVariable")
	runPushdown(c, "OPT1", "optimizer", "PushDownFilterPredicatesIntoStreamJoinKey", "NodeTypeStreamJoin", keyCases,
		func(cls func() string) (callHook, func(*absint.State, string) (bool, bool), func(*absint.State, absint.Val, string) (absint.Val, bool)) {
			side := func(part string) string {
				m := regexp.MustCompile(`first:(\w+) second:(\w+)`).FindStringSubmatch(cls())
				if m == nil {
					return "none"
				}
				if part == "0" {
					return m[1]
				}
				return m[2]
			}
			return func(st *absint.State, cl *ast.CallExpr, callee string, recv absint.Val, args []absint.Val) (absint.Val, bool) {
					if callee == "optimizer.UsesVariablesFromSchema" && len(args) == 2 {
						left := strings.Contains(args[0].Canon(), ".Left.")
						part := "1"
						if strings.Contains(args[1].Canon(), "Arguments[0]") {
							part = "0"
						}
						s := side(part)
						if left {
							return absint.Bool(s == "L" || s == "LR"), true
						}
						return absint.Bool(s == "R" || s == "LR"), true
					}
					return nil, false
				}, func(st *absint.State, atom string) (bool, bool) {
					if strings.Contains(atom, ".FunctionCall.Name") && strings.Contains(atom, `"="`) {
						return cls() != "function other than =", true
					}
					return false, false
				}, func(st *absint.State, base absint.Val, sel string) (absint.Val, bool) {
					if sel == "ExpressionType" && base.Canon() == P {
						if cls() == "not a function call" {
							return varConst, true
						}
						return fcConst, true
					}
					return nil, false
				}
		})
}

// checkFalliblePushdown (FALLIBLE): a rewrite that moves a predicate (or a part of it) below a join evaluates it on
// rows the join would have dropped before the original filter saw them. That preserves the result only for predicates
// that cannot fail at run time. The rule counts the function descriptors whose body can return an error and, if there
// are any, requires each such rewrite to look at which functions the moved expression calls (a read of
// FunctionCall.Name / FunctionDescriptor applied below the top level of the conjunct), directly or through a helper.
func checkFalliblePushdown(c *core.Ctx) {
	p := c.Prog
	t := loadFunctions(c, "FALLIBLE")
	if t == nil {
		return
	}
	var fallible []string
	seen := map[string]bool{}
	for _, d := range t.descs {
		if d.Function == nil {
			continue
		}
		for _, rs := range returnsOfLit(d.Function) {
			if len(rs.Results) == 2 && !core.IsNilIdent(t.info, rs.Results[1]) && !seen[d.Name] {
				seen[d.Name] = true
				fallible = append(fallible, d.Name)
			}
		}
	}
	sort.Strings(fallible)
	c.Note(fmt.Sprintf("FALLIBLE: %d functions can return an error at run time: %s", len(fallible), strings.Join(fallible, " ")))
	byName := map[string]*core.FuncRef{}
	for _, fr := range p.AllFuncs("optimizer", "physical") {
		byName[p.FName(fr)] = fr
	}
	// does fn (transitively, through optimizer/physical helpers) look at the callee of a function call expression?
	var screens func(fr *core.FuncRef, depth int, topLevelOnly bool, visited map[*core.FuncRef]bool) bool
	screens = func(fr *core.FuncRef, depth int, topLevelOnly bool, visited map[*core.FuncRef]bool) bool {
		if fr == nil || visited[fr] || depth > 4 {
			return false
		}
		visited[fr] = true
		found := false
		ast.Inspect(fr.Decl.Body, func(n ast.Node) bool {
			isCalleeRead := func(e ast.Expr) bool {
				s := core.ExprStr(e)
				if strings.HasSuffix(s, ".FunctionCall.Name") || strings.HasSuffix(s, ".FunctionCall.FunctionDescriptor") || strings.HasSuffix(s, ".FunctionDescriptor.Function") {
					// the conjunct's own operator (filterPredicates[i].FunctionCall.Name != "=") says nothing about its operands
					return !(topLevelOnly && strings.HasPrefix(s, "filterPredicates["))
				}
				return false
			}
			switch n := n.(type) {
			// only a read that decides something counts (a comparison, a switch, a table lookup) — the generic
			// expression transformer copies the name into the rebuilt call without looking at it
			case *ast.BinaryExpr:
				if (n.Op == token.EQL || n.Op == token.NEQ) && (isCalleeRead(n.X) || isCalleeRead(n.Y)) {
					found = true
				}
			case *ast.SwitchStmt:
				if n.Tag != nil && isCalleeRead(n.Tag) {
					found = true
				}
			case *ast.IndexExpr:
				if isCalleeRead(n.Index) {
					found = true
				}
			case *ast.CallExpr:
				if callee := byName[p.CalleeName(fr.Info(), n)]; callee != nil && callee != fr {
					if screens(callee, depth+1, false, visited) {
						found = true
					}
				}
			}
			return true
		})
		return found
	}
	n := 0
	for _, name := range []string{"PushDownFilterPredicatesIntoStreamJoinBranch", "PushDownFilterPredicatesIntoLookupJoinBranch", "PushDownFilterPredicatesIntoStreamJoinKey"} {
		fr := p.Func("optimizer", name)
		key := "optimizer." + name
		if fr == nil {
			c.Unknown("FALLIBLE", key, 0, "anchor not found")
			continue
		}
		n++
		c.SawFunc(key)
		ok := len(fallible) == 0 || screens(fr, 0, true, map[*core.FuncRef]bool{})
		c.Decide(ok, "FALLIBLE", key, fr.Decl.Pos(), len(fallible), "moved expressions are screened for calls that can fail (or no function can fail)",
			fmt.Sprintf("the rewrite moves expressions below the join without looking at the functions they call, and %d functions (%s …) can fail at run time: the moved expression is then evaluated on rows the join drops in the unoptimized plan, and the optimized query fails where the unoptimized one returns rows", len(fallible), strings.Join(fallible[:min(4, len(fallible))], " ")))
	}
	c.Floor("FALLIBLE", 3, "the three rewrites that move predicates below a join")
	_ = n
}
