package props

import (
	"fmt"
	"go/ast"
	"go/token"
	"go/types"
	"sort"
	"strings"

	"octoverif/core"
	"octoverif/engine/absint"
)

// C24 — file datasources produce values that match their inferred schema.
//
// What is decided (shape of the code, every cell text / JSON value class at once):
//
//	CELL  the CSV cell loop is interpreted for every set of primitive types the column's schema type may admit
//	      (63 sets) × every class of cell text (empty, integer, float, boolean, time, other): the value stored for the
//	      cell is of a type the schema admits, or the row is refused with a non-nil error; the schema type consulted is
//	      the one of the slot that is written (values[i] ↔ fields[i]).
//	ARM   getOctoSQLValue is interpreted for every TypeID × every class of JSON value (absent, null, number, string,
//	      true, false, array, object): ok=true is only returned with a value of the asked type; NULL only if the type
//	      admits it; list/struct results are ok only if every element is.
//	OKUSE no caller of getOctoSQLValue discards `ok`; on !ok the line is reported as an error.
//	INFER every TypeID schema inference can produce for JSON has an arm in getOctoSQLValue; a field that is absent from
//	      some previewed object is inferred nullable.
func init() {
	register(&Check{ID: "C24", Run: runC24,
		Explanation: "CELL: the CSV cell loop is interpreted for all 63 non-empty sets of primitive types a column type may admit × 6 classes of cell text: the stored value's type is admitted by the column type or the row is refused with an error, and the type consulted belongs to the slot written. " +
			"ARM: getOctoSQLValue interpreted per TypeID × JSON value class returns ok=true only with a value of the asked type (NULL only when admitted; lists/structs only when every element is ok). " +
			"OKUSE: callers do not discard ok and turn !ok into an error. INFER: inference's TypeIDs ⊆ execution arms; partially present fields are inferred nullable.",
		NotDecided: []string{
			"that the text classes agree between inference (strconv) and execution (fastfloat): a cell both parsers accept differently is typed by execution's parser within the admitted set, which keeps the value inside the schema but is not compared with inference's reading",
			"parquet and plugin datasources",
		},
		Assumptions: []string{"the schema handed to Materialize lists the used columns in file order (the csv datasource reads columns in file order and types slot i by fields[i])"},
	})
}

func runC24(c *core.Ctx) {
	c.Rule("OBJKEYS", "json: keys an object type has no field for are not dropped silently")
	checkJSONObjectKeys(c, "OBJKEYS")
	c.Rule("SEENCNT", "json: nullability is decided by counting objects, not key occurrences")
	checkJSONSeenCount(c, "SEENCNT")
	c.Rule("CSVPARSE", "csv: inference and execution parse cells with the same parsers")
	checkCSVParserAgreement(c, "CSVPARSE")
	c.Rule("CSVNUM", "csv: a column of integers and floats is inferred as Float")
	checkCSVNumericInference(c, "CSVNUM")
	c.Rule("FLOATEXACT", "datasources parse floats exactly")
	checkExactFloatParsing(c, "FLOATEXACT")
	c.Rule("CELL", "csv: stored value admitted by the column type, or an error")
	c.Rule("ARM", "json: ok=true only with a value of the asked type")
	c.Rule("OKUSE", "json: ok is not discarded; !ok becomes an error")
	c.Rule("INFER", "json: inferred TypeIDs have execution arms; partially present fields are nullable")
	checkCSVCells(c, "CELL")
	checkJSONArms(c)
	checkJSONOkUse(c)
	checkJSONInference(c)
}

var csvPrims = []string{"Null", "Int", "Float", "Boolean", "Time", "String"}

// csvCellLoop finds the per-cell loop of the csv datasource: the range loop whose body stores into a slice of values.
func csvCellLoop(p *core.Program, fn *core.FuncRef) *ast.RangeStmt {
	var found *ast.RangeStmt
	ast.Inspect(fn.Decl.Body, func(n ast.Node) bool {
		rs, ok := n.(*ast.RangeStmt)
		if !ok {
			return true
		}
		has := false
		// the values may be constructed by a helper the loop hands each cell to
		for _, body := range bodyClosure(p, fn.Pkg.PkgPath, fn.Info(), rs.Body) {
			ast.Inspect(body, func(m ast.Node) bool {
				if call, ok := m.(*ast.CallExpr); ok && strings.HasSuffix(core.ExprStr(call.Fun), "octosql.NewString") {
					has = true
				}
				return true
			})
		}
		if has {
			found = rs // innermost wins (Inspect visits outer first)
		}
		return true
	})
	return found
}

func checkCSVCells(c *core.Ctx, rule string) {
	p := c.Prog
	fn := p.Func("datasources/csv", "(*DatasourceExecuting).Run")
	key := "datasources/csv.(*DatasourceExecuting).Run"
	if fn == nil {
		c.Unknown(rule, key, 0, "anchor not found")
		return
	}
	c.SawFunc(key)
	loop := csvCellLoop(p, fn)
	if loop == nil {
		c.Unknown(rule, key, fn.Decl.Pos(), "no per-cell loop (range loop constructing octosql values) found")
		return
	}
	ids := typeIDs(p)
	is, isnt := lookupConst(p, "octosql", "TypeRelationIs"), lookupConst(p, "octosql", "TypeRelationIsnt")
	classes := []string{"empty", "int", "float", "bool", "time", "other"}
	scen, cases := 0, 0
	var bads []string
	indexBad := ""
	for mask := 1; mask < 1<<len(csvPrims); mask++ {
		admitted := map[string]bool{}
		var names []string
		for i, n := range csvPrims {
			if mask&(1<<i) != 0 {
				admitted[n] = true
				names = append(names, n)
			}
		}
		for _, cls := range classes {
			cls := cls
			in := newInterp(p, fn)
			in.MaxPaths = 2000
			parseOK := func(what string) bool {
				switch what {
				case "int":
					return cls == "int"
				case "float":
					return cls == "int" || cls == "float"
				case "bool":
					return cls == "bool"
				case "time":
					return cls == "time"
				}
				return false
			}
			tuple := func(name string, ok bool) absint.Val {
				if ok {
					return absint.Tuple{Elems: []absint.Val{absint.S(name), absint.Nil{}}}
				}
				return absint.Tuple{Elems: []absint.Val{absint.S(name), absint.NN("parse error")}}
			}
			in.Hooks.Cond = func(st *absint.State, atom string) (bool, bool) {
				if strings.Contains(atom, `== ""`) || strings.Contains(atom, `"" ==`) {
					return cls == "empty", true
				}
				return false, false
			}
			in.Hooks.Call = chainCall(func(st *absint.State, call *ast.CallExpr, callee string, recv absint.Val, args []absint.Val) (absint.Val, bool) {
				switch {
				case callee == "octosql.Type.Is" && len(args) == 1:
					st.Emit("IS", call.Pos(), recv, args[0])
					n := strings.TrimPrefix(recv.Canon(), "octosql.")
					if admitted[n] {
						return is, true
					}
					return isnt, true
				case strings.HasSuffix(callee, "fastfloat.ParseInt64"), callee == "strconv.ParseInt":
					return tuple("INT", parseOK("int")), true
				case strings.HasSuffix(callee, "fastfloat.Parse"), callee == "strconv.ParseFloat":
					return tuple("FLOAT", parseOK("float")), true
				case callee == "strconv.ParseBool":
					return tuple("BOOL", parseOK("bool")), true
				case callee == "time.Parse":
					return tuple("TIME", parseOK("time")), true
				}
				return nil, false
			}, ctorHook(ids), errorfHook)
			outs, err := in.Run(&ast.FuncType{Params: &ast.FieldList{}}, nil, loop.Body, nil, "")
			scen++
			ckey := fmt.Sprintf("admits{%s}/cell:%s", strings.Join(names, ","), cls)
			if err != nil {
				c.Unknown(rule, key+"/"+ckey, loop.Pos(), err.Error())
				continue
			}
			for _, o := range outs {
				cases++
				var stored absint.Val
				storeIdx := ""
				for _, e := range o.Events {
					if strings.HasPrefix(e.Name, "store ") && strings.Contains(e.Name, "[") && len(e.Args) == 1 {
						stored = e.Args[0]
						storeIdx = e.Name[strings.LastIndex(e.Name, "[")+1 : strings.LastIndex(e.Name, "]")]
					}
				}
				for _, e := range o.Events {
					if e.Name == "IS" && storeIdx != "" {
						arg := e.Args[1].Canon()
						if !strings.Contains(arg, "["+storeIdx+"]") {
							indexBad = fmt.Sprintf("the value is stored in slot [%s] but the type consulted is %s: slot and schema field must correspond", storeIdx, arg)
						}
					}
				}
				switch o.Kind {
				case "return":
					if len(o.Values) == 1 && isNonNilErr(o.Values[0]) {
						continue // the row is refused
					}
					bads = append(bads, ckey+": the cell loop returns without an error")
				default:
					if stored == nil {
						bads = append(bads, ckey+": no value is stored for the cell")
						continue
					}
					vc := valueClass(o, ids, stored)
					if vc == "TRUE" || vc == "FALSE" || strings.HasPrefix(vc, "Boolean") {
						vc = "Boolean"
					}
					if vc == "NULL" {
						vc = "Null"
					}
					if !admitted[vc] {
						bads = append(bads, fmt.Sprintf("%s: a %s value is produced for a column whose type admits only {%s}", ckey, vc, strings.Join(names, ",")))
					}
				}
			}
		}
	}
	sort.Strings(bads)
	bad := ""
	if len(bads) > 0 {
		bad = fmt.Sprintf("%d scenario(s) produce a value outside the column type, first: %s", len(bads), bads[0])
	}
	c.Decide(bad == "", rule, key+"/cells", loop.Pos(), scen, fmt.Sprintf("%d type sets × cell classes, %d paths: value admitted or error", scen, cases), bad)
	c.Decide(indexBad == "", rule, key+"/slot", loop.Pos(), scen, "the type consulted is the one of the slot written", indexBad)
}

var jsonClasses = []string{"absent", "TypeNull", "TypeNumber", "TypeString", "TypeTrue", "TypeFalse", "TypeArray", "TypeObject"}

// checkJSONArms interprets getOctoSQLValue for every TypeID × JSON value class.
func checkJSONArms(c *core.Ctx) {
	p := c.Prog
	fn := p.Func("datasources/json", "getOctoSQLValue")
	key := "datasources/json.getOctoSQLValue"
	if fn == nil {
		c.Unknown("ARM", key, 0, "anchor not found")
		return
	}
	c.SawFunc(key)
	ids := typeIDs(p)
	is, isnt := lookupConst(p, "octosql", "TypeRelationIs"), lookupConst(p, "octosql", "TypeRelationIsnt")
	var tname, vname string
	for _, f := range fn.Decl.Type.Params.List {
		for _, n := range f.Names {
			if strings.HasSuffix(core.ExprStr(f.Type), "octosql.Type") {
				tname = n.Name
			} else {
				vname = n.Name
			}
		}
	}
	if tname == "" || vname == "" {
		c.Unknown("ARM", key, fn.Decl.Pos(), "expected parameters (octosql.Type, *fastjson.Value)")
		return
	}
	// which JSON class may legitimately yield which octosql class
	compatible := map[string]map[string]bool{
		"TypeIDFloat":    {"TypeNumber": true},
		"TypeIDInt":      {"TypeNumber": true},
		"TypeIDBoolean":  {"TypeTrue": true, "TypeFalse": true},
		"TypeIDString":   {"TypeString": true},
		"TypeIDTime":     {"TypeString": true},
		"TypeIDDuration": {"TypeString": true},
		"TypeIDList":     {"TypeArray": true},
		"TypeIDStruct":   {"TypeObject": true},
		"TypeIDTuple":    {"TypeArray": true},
	}
	scen, paths, okTrue := 0, 0, map[string]int{}
	var bads []string
	for _, idName := range sortedKeys(ids) {
		for _, jc := range jsonClasses {
			for _, nullable := range []bool{false, true} {
				if nullable && idName != "TypeIDUnion" && idName != "TypeIDNull" {
					continue // only a union (or NULL itself) admits NULL
				}
				idName, jc, nullable := idName, jc, nullable
				in := newInterp(p, fn)
				in.MaxPaths = 4000
				in.Hooks.Field = func(st *absint.State, base absint.Val, sel string) (absint.Val, bool) {
					if sel == "TypeID" && base.Canon() == tname {
						return absint.Int(ids[idName]), true
					}
					return nil, false
				}
				in.Hooks.Cond = func(st *absint.State, atom string) (bool, bool) {
					if atom == "("+vname+" == nil)" || atom == "(nil == "+vname+")" {
						return jc == "absent", true
					}
					return false, false
				}
				in.Hooks.Loop = func(st *absint.State, loop ast.Stmt) *absint.LoopSpec {
					return &absint.LoopSpec{Cases: []string{"ELEMOK", "ELEMBAD"}, MaxIter: 2, RefStep: func(ref, cs string) string { return "" }}
				}
				in.Hooks.Call = chainCall(func(st *absint.State, call *ast.CallExpr, callee string, recv absint.Val, args []absint.Val) (absint.Val, bool) {
					switch {
					case strings.HasSuffix(callee, "fastjson.(*Value).Type"):
						if jc == "absent" {
							st.Emit("NILDEREF", call.Pos())
							return absint.S("?"), true
						}
						return importedConst(p, "datasources/json", "github.com/valyala/fastjson", jc), true
					case callee == "octosql.Type.Is" && len(args) == 1:
						if recv.Canon() == "octosql.Null" && args[0].Canon() == tname {
							if nullable || idName == "TypeIDNull" {
								return is, true
							}
							return isnt, true
						}
					case callee == "datasources/json.getOctoSQLValue":
						ok := st.IterNow != "ELEMBAD"
						st.Emit("REC", call.Pos(), args...)
						return absint.Tuple{Elems: []absint.Val{absint.S("ELEM"), absint.Bool(ok)}}, true
					case strings.Contains(callee, "fastjson.(*Value).") && (strings.HasSuffix(callee, ").Float64") || strings.HasSuffix(callee, ").Int") || strings.HasSuffix(callee, ").Int64") || strings.HasSuffix(callee, ").Uint") || strings.HasSuffix(callee, ").Uint64")):
						// the tokenizer takes any run of number characters as TypeNumber; only the conversion validates
						st.Emit("NUMCONV", call.Pos())
						return absint.Tuple{Elems: []absint.Val{absint.S("NUM"), absint.S("NUMERR")}}, true
					case callee == "time.Parse", callee == "time.ParseDuration":
						// both outcomes
						return nil, false
					}
					return nil, false
				}, ctorHook(ids), errorfHook)
				outs, err := runDecl(in, fn, nil, "")
				scen++
				ckey := fmt.Sprintf("%s/json:%s/nullable=%v", idName, jc, nullable)
				if err != nil {
					c.Unknown("ARM", key+"/"+ckey, fn.Decl.Pos(), err.Error())
					continue
				}
				for _, o := range outs {
					paths++
					if o.Kind != "return" || len(o.Values) != 2 {
						bads = append(bads, ckey+": "+o.String())
						continue
					}
					for _, e := range o.Events {
						if e.Name == "NILDEREF" {
							bads = append(bads, ckey+": Type() is called on an absent (nil) value")
						}
					}
					if !absint.IsTrue(o.Values[1]) {
						if !absint.IsFalse(o.Values[1]) {
							bads = append(bads, fmt.Sprintf("%s: ok is %s (neither true nor false)", ckey, o.Show(o.Values[1])))
						}
						continue
					}
					// ok == true
					okTrue[idName]++
					for _, e := range o.Events {
						if e.Name == "NUMCONV" {
							checked := false
							for a, v := range o.Assumed {
								if strings.Contains(a, "NUMERR") && ((strings.Contains(a, "==") && v) || (strings.Contains(a, "!=") && !v)) {
									checked = true
								}
							}
							if !checked {
								bads = append(bads, fmt.Sprintf("%s: ok=true with the result of a number conversion whose error was not found to be nil (the tokenizer accepts \"1.2.3\" as a number; only the conversion rejects it, yielding 0)", ckey))
							}
						}
					}
					vc := valueClass(o, ids, o.Values[0])
					if vc == "TRUE" || vc == "FALSE" || strings.HasPrefix(vc, "Boolean") {
						vc = "Boolean"
					}
					switch {
					case idName == "TypeIDUnion" && vc == "sym:ELEM":
						// the verdict of the alternative that accepted the value (decided by this same function)
					case jc == "absent" || jc == "TypeNull":
						if vc != "NULL" || !(nullable || idName == "TypeIDNull") {
							bads = append(bads, fmt.Sprintf("%s: an absent/null JSON value yields (%s, ok=true) although the type %s", ckey, vc, map[bool]string{true: "admits NULL", false: "does not admit NULL"}[nullable || idName == "TypeIDNull"]))
						}
					case idName == "TypeIDUnion":
						if vc != "sym:ELEM" {
							bads = append(bads, fmt.Sprintf("%s: a union must hand on the value of the alternative that accepted it; it yields %s", ckey, vc))
						}
					default:
						if "TypeID"+vc != idName {
							bads = append(bads, fmt.Sprintf("%s: ok=true with a %s value", ckey, vc))
						} else if !compatible[idName][jc] {
							bads = append(bads, fmt.Sprintf("%s: a JSON %s is accepted as %s", ckey, jc, vc))
						}
						// lists and structs: ok only if every element was ok
						for _, t := range o.Trace {
							if t == "ELEMBAD" {
								bads = append(bads, fmt.Sprintf("%s: ok=true although an element did not match its type", ckey))
							}
						}
					}
				}
			}
		}
	}
	sort.Strings(bads)
	bad := ""
	if len(bads) > 0 {
		bad = fmt.Sprintf("%d scenario path(s) break the contract, first: %s", len(bads), bads[0])
	}
	c.Decide(bad == "", "ARM", key, fn.Decl.Pos(), scen, fmt.Sprintf("%d TypeID × JSON class scenarios, %d paths", scen, paths), bad)
	// every type inference can produce must be producible
	c.Note(fmt.Sprintf("ARM: TypeIDs with an ok=true path: %v", okTrue))
	jsonArmOK = okTrue
}

var jsonArmOK map[string]int

// checkJSONOkUse: the per-line loop of the parser worker is interpreted with every field matching its type or one of
// them not matching: a mismatch must surface as the line's error, and no record may be built from it.
func checkJSONOkUse(c *core.Ctx) {
	p := c.Prog
	const callee = "datasources/json.getOctoSQLValue"
	n := 0
	for _, fn := range p.AllFuncs("datasources/json") {
		if p.FName(fn) == "datasources/json.getOctoSQLValue" {
			continue
		}
		info := fn.Info()
		// innermost loop holding the call, and the loop around it (one line)
		var lineLoop, fieldLoop ast.Stmt
		core.WalkStack(fn.Decl.Body, func(nd ast.Node, stack []ast.Node) bool {
			call, ok := nd.(*ast.CallExpr)
			if !ok || p.CalleeName(info, call) != callee {
				return true
			}
			var loops []ast.Stmt
			for _, s := range stack {
				switch s.(type) {
				case *ast.ForStmt, *ast.RangeStmt:
					loops = append(loops, s.(ast.Stmt))
				}
			}
			if len(loops) >= 2 {
				fieldLoop, lineLoop = loops[len(loops)-1], loops[len(loops)-2]
			} else if len(loops) == 1 {
				fieldLoop = loops[0]
			}
			return true
		})
		if fieldLoop == nil {
			continue
		}
		n++
		key := p.FName(fn)
		c.SawFunc(key)
		// the unit that handles one line: the body of the loop around the field loop, or — in a function that is
		// handed a single line — the function itself
		var body *ast.BlockStmt
		ftype := &ast.FuncType{Params: &ast.FieldList{}}
		switch l := lineLoop.(type) {
		case *ast.ForStmt:
			body = l.Body
		case *ast.RangeStmt:
			body = l.Body
		default:
			body, ftype, lineLoop = fn.Decl.Body, fn.Decl.Type, fieldLoop
		}
		in := newInterp(p, fn)
		in.MaxPaths = 4000
		in.Hooks.Loop = func(st *absint.State, loop ast.Stmt) *absint.LoopSpec {
			if loop == fieldLoop {
				return &absint.LoopSpec{Cases: []string{"FIELDOK", "FIELDBAD"}, MaxIter: 2, RefStep: func(ref, cs string) string { return "" }}
			}
			return nil
		}
		in.Hooks.Call = chainCall(func(st *absint.State, call *ast.CallExpr, cal string, recv absint.Val, args []absint.Val) (absint.Val, bool) {
			switch {
			case cal == callee:
				return absint.Tuple{Elems: []absint.Val{absint.S("VALUE"), absint.Bool(st.IterNow != "FIELDBAD")}}, true
			case strings.HasSuffix(cal, "fastjson.(*Parser).ParseBytes"), strings.HasSuffix(cal, "fastjson.(*Value).Object"):
				return absint.Tuple{Elems: []absint.Val{absint.NN("parsed"), absint.Nil{}}}, true
			case cal == "execution.NewRecord":
				st.Emit("RECORD", call.Pos(), args...)
				return absint.S("RECORD"), true
			}
			return nil, false
		}, errorfHook)
		outs, err := in.Run(ftype, nil, body, nil, "")
		if err != nil {
			c.Unknown("OKUSE", key, lineLoop.Pos(), err.Error())
			continue
		}
		bad := ""
		sawBad, sawOK := 0, 0
		for _, o := range outs {
			mismatch := false
			for _, t := range o.Trace {
				if t == "FIELDBAD" {
					mismatch = true
				}
			}
			errSet, recSet := false, false
			for _, e := range o.Events {
				if strings.HasPrefix(e.Name, "store ") && len(e.Args) == 1 {
					switch {
					case strings.HasSuffix(e.Name, ".err") && isNonNilErr(e.Args[0]):
						errSet = true
					case strings.HasSuffix(e.Name, ".record"):
						recSet = true
					}
				}
			}
			if o.Kind == "return" {
				for _, v := range o.Values {
					if isNonNilErr(v) && strings.HasPrefix(v.Canon(), "error@") {
						errSet = true
					}
					// a per-line result value: its error and record fields
					if ev := o.Field(v, "err"); ev != nil && isNonNilErr(ev) {
						errSet = true
					}
					if rv := o.Field(v, "record"); rv != nil && rv.Canon() == "RECORD" {
						recSet = true
					}
					// … or the record itself, returned beside the error
					if v != nil && v.Canon() == "RECORD" {
						recSet = true
					}
				}
			}
			if mismatch {
				sawBad++
				if !errSet {
					bad = "a field whose value does not match its type (ok=false) does not make the line an error: the value is silently replaced"
				} else if recSet {
					bad = "a record is built although one of its fields did not match its type"
				}
			} else if len(o.Trace) > 0 {
				sawOK++
				if errSet || !recSet {
					bad = "a line whose fields all match must yield a record and no error"
				}
			}
		}
		if bad == "" && (sawBad == 0 || sawOK == 0) {
			bad = fmt.Sprintf("the per-line loop was not explored for both matching and non-matching fields (%d/%d paths)", sawOK, sawBad)
		}
		c.Decide(bad == "", "OKUSE", key, lineLoop.Pos(), len(outs), "ok=false ⇒ line error and no record; all ok ⇒ record", bad)
	}
	c.Floor("OKUSE", 1, "the parser worker calls getOctoSQLValue")
}

// checkJSONInference: the TypeIDs JSON inference can produce all have an arm that can accept a value, and a field that
// is missing from some previewed object gets NULL added to its type.
func checkJSONInference(c *core.Ctx) {
	p := c.Prog
	fn := p.Func("datasources/json", "getOctoSQLType")
	key := "datasources/json.getOctoSQLType"
	if fn == nil {
		c.Unknown("INFER", key, 0, "anchor not found")
		return
	}
	c.SawFunc(key)
	info := fn.Info()
	produced := map[string]bool{}
	ast.Inspect(fn.Decl.Body, func(n ast.Node) bool {
		switch x := n.(type) {
		case *ast.SelectorExpr:
			if v, ok := info.Uses[x.Sel].(*types.Var); ok && v.Pkg() != nil && v.Pkg().Path() == core.ModPath+"/octosql" && strings.HasSuffix(v.Type().String(), "octosql.Type") {
				produced["TypeID"+x.Sel.Name] = true
			}
			if cst, ok := info.Uses[x.Sel].(*types.Const); ok && strings.HasPrefix(cst.Name(), "TypeID") {
				produced[cst.Name()] = true
			}
		case *ast.CallExpr:
			if p.CalleeName(info, x) == "octosql.TypeSum" {
				produced["TypeIDUnion"] = true
			}
		}
		return true
	})
	var missing []string
	for _, id := range sortedKeys(produced) {
		if jsonArmOK[id] == 0 {
			missing = append(missing, id)
		}
	}
	c.Decide(len(missing) == 0 && len(produced) >= 5, "INFER", key+"/arms", fn.Decl.Pos(), len(produced),
		fmt.Sprintf("inferred %v all have an accepting arm", sortedKeys(produced)),
		fmt.Sprintf("schema inference can report %v, for which getOctoSQLValue never returns ok=true: every value of such a column would be refused or replaced (produced: %v)", missing, sortedKeys(produced)))

	// partially present fields
	cr := p.Func("datasources/json", "Creator")
	ckey := "datasources/json.Creator"
	if cr == nil {
		c.Unknown("INFER", ckey, 0, "anchor not found")
		return
	}
	c.SawFunc(ckey)
	cinfo := cr.Info()
	guarded := 0
	core.WalkStack(cr.Decl.Body, func(nd ast.Node, stack []ast.Node) bool {
		call, ok := nd.(*ast.CallExpr)
		if !ok || p.CalleeName(cinfo, call) != "octosql.TypeSum" || len(call.Args) != 2 {
			return true
		}
		if core.ExprStr(call.Args[1]) != "octosql.Null" && core.ExprStr(call.Args[0]) != "octosql.Null" {
			return true
		}
		inLit := false
		var guard *ast.IfStmt
		for _, s := range stack {
			switch x := s.(type) {
			case *ast.FuncLit:
				inLit = true
			case *ast.IfStmt:
				guard = x
			}
		}
		if inLit || guard == nil {
			return true
		}
		// the guard compares a per-key presence counter with the number of previewed objects
		be, ok := guard.Cond.(*ast.BinaryExpr)
		if !ok || (be.Op != token.LSS && be.Op != token.NEQ) {
			return true
		}
		ix, ok1 := be.X.(*ast.IndexExpr)
		rows, ok2 := be.Y.(*ast.Ident)
		if !ok1 || !ok2 {
			return true
		}
		counter := core.ExprStr(ix.X)
		perKey, perRow := 0, 0
		core.WalkStack(cr.Decl.Body, func(n2 ast.Node, st2 []ast.Node) bool {
			inc, ok := n2.(*ast.IncDecStmt)
			if !ok || inc.Tok != token.INC {
				return true
			}
			cond, lit := false, false
			for _, s := range st2 {
				switch s.(type) {
				case *ast.IfStmt:
					cond = true
				case *ast.FuncLit:
					lit = true
				}
			}
			if ie, ok := inc.X.(*ast.IndexExpr); ok && core.ExprStr(ie.X) == counter && lit && !cond {
				perKey++
			}
			if id, ok := inc.X.(*ast.Ident); ok && cinfo.ObjectOf(id) == cinfo.ObjectOf(rows) && !lit && !cond {
				perRow++
			}
			return true
		})
		if perKey == 1 && perRow == 1 {
			guarded++
		}
		return true
	})
	c.Decide(guarded >= 1, "INFER", ckey+"/missing fields", cr.Decl.Pos(), guarded, "a field missing from some previewed object gets NULL added to its type",
		"schema inference never adds NULL to the type of a field that is missing from some of the previewed objects: such rows produce NULL in a non-nullable column")
}

// importedConst looks a constant up in a package imported by one of the module's packages.
func importedConst(p *core.Program, fromRel, path, name string) absint.Val {
	pkg := p.Pkg(fromRel)
	if pkg == nil {
		return absint.S("?" + name)
	}
	for _, imp := range pkg.Types.Imports() {
		if imp.Path() == path {
			if c, ok := imp.Scope().Lookup(name).(*types.Const); ok {
				return absint.Const{V: c.Val()}
			}
		}
	}
	return absint.S("?" + name)
}

// checkCSVNumericInference (CSVNUM): a csv column holding integers and floats is a Float column. The per-cell
// inference decides "already Float" / "so far Int" with Type.Equals, an exact comparison that fails as soon as the
// column is nullable (NULL | Float), and then sums Int and Float into one union — a column in which 3 is an Int and
// 2.5 a Float, so ORDER BY, =, sum() and > all misbehave. Either the comparisons are subtype tests (Is), or the
// inferred types are normalised afterwards (Int dropped from every type that admits Float).
func checkCSVNumericInference(c *core.Ctx, rule string) {
	p := c.Prog
	fn := p.Func("datasources/csv", "Creator")
	key := "datasources/csv.Creator/integers and floats"
	if fn == nil {
		c.Unknown(rule, key, 0, "anchor not found")
		return
	}
	c.SawFunc("datasources/csv.Creator")
	exact, normalised := 0, false
	closure := helperClosure(p, fn)
	for _, h := range closure {
		h := h
		ast.Inspect(h.Decl.Body, func(n ast.Node) bool {
			switch v := n.(type) {
			case *ast.CallExpr:
				s := core.ExprStr(v)
				if strings.HasSuffix(s, ".Equals(octosql.Float)") || strings.HasSuffix(s, ".Equals(octosql.Int)") {
					exact++
				}
			case *ast.IfStmt:
				cs := core.ExprStr(v.Cond)
				if !strings.Contains(cs, "octosql.Int.Is(") || !strings.Contains(cs, "octosql.Float.Is(") {
					return true
				}
				// the normalisation: a type admitting both Int and Float loses Int — written in place (the slot is
				// assigned under the test), or in a helper whose result is assigned to the slot it was given
				if h == fn {
					ast.Inspect(v.Body, func(m ast.Node) bool {
						if as, ok := m.(*ast.AssignStmt); ok && len(as.Lhs) == 1 {
							if _, isIx := as.Lhs[0].(*ast.IndexExpr); isIx {
								normalised = true
							}
						}
						return true
					})
					return true
				}
				for _, g := range closure {
					ginfo := g.Info()
					ast.Inspect(g.Decl.Body, func(m ast.Node) bool {
						as, ok := m.(*ast.AssignStmt)
						if !ok || len(as.Lhs) != 1 || len(as.Rhs) != 1 {
							return true
						}
						ix, isIx := as.Lhs[0].(*ast.IndexExpr)
						call, isCall := as.Rhs[0].(*ast.CallExpr)
						if isIx && isCall && len(call.Args) == 1 && core.Callee(ginfo, call) == types.Object(h.Obj) && core.ExprStr(call.Args[0]) == core.ExprStr(ix) {
							normalised = true
						}
						return true
					})
				}
			}
			return true
		})
	}
	c.Decide(exact == 0 || normalised, rule, key, fn.Decl.Pos(), exact+1, "no inferred type admits both Int and Float",
		fmt.Sprintf("the inference compares the column type with Int/Float by exact equality (%d places) and nothing normalises the result: once the column is nullable an integer cell after a float one (or the reverse) yields NULL | Int | Float — a column whose numbers have two types", exact))
}

// checkStarQualifier (STARQ): `q.*` expands to the columns qualified with q; when no column is, the query names a
// table that is not there and must be rejected, not run with zero columns.
func checkStarQualifier(c *core.Ctx, rule string) {
	p := c.Prog
	fn := p.Func("logical", "(*Map).Typecheck")
	key := "logical.(*Map).Typecheck/qualified star"
	if fn == nil {
		c.Unknown(rule, key, 0, "anchor not found")
		return
	}
	c.SawFunc("logical.(*Map).Typecheck")
	var star *ast.IfStmt
	ast.Inspect(fn.Decl.Body, func(n ast.Node) bool {
		if is, ok := n.(*ast.IfStmt); ok && star == nil && strings.HasSuffix(core.ExprStr(is.Cond), ".isStar[i]") {
			star = is
		}
		return true
	})
	if star == nil {
		c.Unknown(rule, key, fn.Decl.Pos(), "the star expansion was not found")
		return
	}
	rejects := false
	ast.Inspect(star.Body, func(n ast.Node) bool {
		if call, ok := n.(*ast.CallExpr); ok && core.ExprStr(call.Fun) == "panic" && strings.Contains(core.FullStr(call), "starQualifier") {
			rejects = true
		}
		return true
	})
	c.Decide(rejects, rule, key, star.Pos(), 1, "a qualifier that matches no column is rejected",
		"`nosuch.*` with a qualifier that names no table expands to zero columns without an error: json prints {} per row, csv empty lines, the table nothing, and count(*) still counts the rows")
}

// checkCSVParserAgreement (CSVPARSE): the csv schema is inferred by parsing the previewed cells, and the rows are
// read by parsing every cell again according to that schema. The two must use the same parser with the same constant
// arguments for each kind of value: where inference accepts a cell that execution's parser rejects (`+5` for
// strconv.ParseInt vs fastfloat.ParseInt64) the file cannot be read against its own inferred schema, or the cell
// silently lands in another alternative of the column's type.
func checkCSVParserAgreement(c *core.Ctx, rule string) {
	p := c.Prog
	key := "datasources/csv inference↔execution/cell parsers"
	sets := map[string]map[string]bool{}
	for _, spec := range [][2]string{{"datasources/csv", "Creator"}, {"datasources/csv", "(*DatasourceExecuting).Run"}} {
		fn := p.Func(spec[0], spec[1])
		if fn == nil {
			c.Unknown(rule, key, 0, spec[1]+" not found")
			return
		}
		c.SawFunc(spec[0] + "." + spec[1])
		info := fn.Info()
		set := map[string]bool{}
		// the function and the helpers it hands cells to
		var bodies []ast.Node
		for _, h := range helperClosure(p, fn) {
			bodies = append(bodies, h.Decl.Body)
		}
		inspectAll(bodies, func(n ast.Node) bool {
			call, ok := n.(*ast.CallExpr)
			if !ok || len(call.Args) == 0 {
				return true
			}
			callee := p.CalleeName(info, call)
			base := callee[strings.LastIndex(callee, ".")+1:]
			if !strings.HasPrefix(base, "Parse") || callee == "strconv.ParseBool" && false {
				return true
			}
			// a parser applied to a string-typed cell
			last := call.Args[len(call.Args)-1]
			strArg := false
			for _, a := range call.Args {
				if t := info.TypeOf(a); t != nil && t.String() == "string" && info.Types[a].Value == nil {
					strArg = true
				}
			}
			_ = last
			if !strArg {
				return true
			}
			sig := callee + "("
			for _, a := range call.Args {
				if tv := info.Types[a]; tv.Value != nil {
					sig += tv.Value.ExactString() + ","
				} else {
					sig += "cell,"
				}
			}
			set[sig+")"] = true
			return true
		})
		sets[spec[1]] = set
	}
	inf, exe := sets["Creator"], sets["(*DatasourceExecuting).Run"]
	var onlyInf, onlyExe []string
	for s := range inf {
		if !exe[s] {
			onlyInf = append(onlyInf, s)
		}
	}
	for s := range exe {
		if !inf[s] {
			onlyExe = append(onlyExe, s)
		}
	}
	sort.Strings(onlyInf)
	sort.Strings(onlyExe)
	c.Decide(len(onlyInf) == 0 && len(onlyExe) == 0 && len(inf) >= 3, rule, key, p.Func("datasources/csv", "(*DatasourceExecuting).Run").Decl.Pos(), len(inf)+len(exe), "schema inference and execution parse cells with the same parsers",
		fmt.Sprintf("schema inference parses cells with %v where execution uses %v: a cell the one accepts and the other rejects (`+5`: strconv.ParseInt accepts it, fastfloat.ParseInt64 does not) makes the file unreadable against its own schema, or moves the cell into another alternative of the column's type", onlyInf, onlyExe))
}

// checkJSONObjectKeys (OBJKEYS): an object value is converted field by field of the inferred object type. Keys of the
// JSON object that the type has no field for are not looked at by that loop; if nothing else looks at them, a value
// that cannot be represented in the inferred schema (a field that first appears after the preview) is silently
// truncated instead of reported. The object arm must inspect the object's own keys (Visit / Len) and be able to
// answer "does not match".
func checkJSONObjectKeys(c *core.Ctx, rule string) {
	p := c.Prog
	fn := p.Func("datasources/json", "getOctoSQLValue")
	key := "datasources/json.getOctoSQLValue/object keys the type does not know"
	if fn == nil {
		c.Unknown(rule, key, 0, "anchor not found")
		return
	}
	var arm *ast.CaseClause
	ast.Inspect(fn.Decl.Body, func(n ast.Node) bool {
		if cc, ok := n.(*ast.CaseClause); ok {
			for _, e := range cc.List {
				if strings.HasSuffix(core.ExprStr(e), "TypeIDStruct") {
					arm = cc
				}
			}
		}
		return true
	})
	if arm == nil {
		c.Unknown(rule, key, fn.Decl.Pos(), "the object arm was not found")
		return
	}
	looks := false
	info := fn.Info()
	ast.Inspect(arm, func(n ast.Node) bool {
		call, ok := n.(*ast.CallExpr)
		if !ok {
			return true
		}
		callee := p.CalleeName(info, call)
		if strings.HasSuffix(callee, "fastjson.(*Object).Visit") || strings.HasSuffix(callee, "fastjson.(*Object).Len") {
			looks = true
		}
		return true
	})
	c.Decide(looks, rule, key, arm.Pos(), 1, "the object's own keys are inspected",
		"the object arm only looks up the fields of the inferred type (obj.Get per field) and never at the object's own keys: {\"a\":150,\"b\":\"important\"} read against the type {a: Float} silently becomes {\"a\":150} — the row cannot be represented in the inferred schema and must be reported")
}

// checkJSONSeenCount (SEENCNT): a field missing from some previewed object must be inferred nullable; that is decided
// by comparing a per-key count with the number of previewed objects, so the count has to count *objects having the
// key*: a key repeated inside one object ({"tag":"a","tag":"b"}) must be counted once.
func checkJSONSeenCount(c *core.Ctx, rule string) {
	p := c.Prog
	fn := p.Func("datasources/json", "Creator")
	key := "datasources/json.Creator/objects having the key are counted once"
	if fn == nil {
		c.Unknown(rule, key, 0, "anchor not found")
		return
	}
	n, guarded := 0, 0
	core.WalkStack(fn.Decl.Body, func(nd ast.Node, stack []ast.Node) bool {
		inc, ok := nd.(*ast.IncDecStmt)
		if !ok || inc.Tok != token.INC {
			return true
		}
		ix, ok := inc.X.(*ast.IndexExpr)
		if !ok || !strings.Contains(strings.ToLower(core.ExprStr(ix.X)), "count") {
			return true
		}
		n++
		// counted once per object: an earlier statement of the same callback returns for a key already met in this
		// object, or the increment sits under such a test
		for i := len(stack) - 1; i >= 0; i-- {
			switch b := stack[i].(type) {
			case *ast.IfStmt:
				guarded++
				return true
			case *ast.BlockStmt:
				for _, st := range b.List {
					if st.Pos() >= inc.Pos() {
						break
					}
					if is, ok := st.(*ast.IfStmt); ok {
						for _, s2 := range is.Body.List {
							if _, isRet := s2.(*ast.ReturnStmt); isRet {
								guarded++
								return true
							}
						}
					}
				}
			case *ast.FuncLit:
				return true
			}
		}
		return true
	})
	c.Decide(n >= 1 && guarded == n, rule, key, fn.Decl.Pos(), n, "a key repeated within one object is counted once",
		"the per-key count that is compared with the number of previewed objects is incremented for every occurrence of the key: {\"id\":1,\"tag\":\"a\",\"tag\":\"b\"} counts tag twice, which hides that {\"id\":2} has no tag — the column is inferred non-nullable and the datasource then rejects a row it previewed")
}
