package props

import (
	"fmt"
	"go/ast"
	"regexp"
	"strings"

	"octoverif/core"
	"octoverif/engine/absint"
)

// msSite describes one piece of code that maintains a multiset as
// (container of items, per-item count): look the item up, create it with count 0
// when absent, count++ / count-- by the retraction flag, keep it in the container
// iff the count stays positive.
type msSite struct {
	rel, fn    string
	callback   bool   // the code is the produce callback of the node's source.Run
	countField string // "Count" / "count"
	// emit: what must happen exactly on the 0→1 (add) and 1→0 (retract) transitions
	emit string // "" none; "produce" forward the record; "inner" wrapped.Add(false|true, value)
}

var msLookup = regexp.MustCompile(`^(github\.com/google/btree\.\(\*BTree\)\.Get|github\.com/zyedidia/generic/hashmap\.\(\*Map\[[^\]]*\]\)\.Get|github\.com/zyedidia/generic/hashmap\.\(\*Map\)\.Get)$`)
var msInsert = regexp.MustCompile(`\.(ReplaceOrInsert|Put|Set)$`)
var msRemove = regexp.MustCompile(`\.(Delete|Remove)$`)

// checkMultiset runs ABS5 on one site and reports one obligation per (count before, operation).
func checkMultiset(c *core.Ctx, rule string, s msSite, ids map[string]int64) {
	p := c.Prog
	fn := p.Func(s.rel, s.fn)
	key := s.rel + "." + s.fn
	if fn == nil {
		c.Unknown(rule, key, 0, "anchor not found")
		return
	}
	c.SawFunc(key)
	var lit *ast.FuncLit
	if s.callback {
		fn = runSite(p, fn)
		rcs := nodeRunCalls(p, fn)
		if len(rcs) != 1 || rcs[0].Produce == nil {
			c.Unknown(rule, key, fn.Decl.Pos(), "expected exactly one source.Run call with a literal produce callback")
			return
		}
		lit = rcs[0].Produce
	}
	for _, k := range []int64{0, 1, 2, 3} {
		for _, retract := range []bool{false, true} {
			if k == 0 && retract {
				continue // retracting an absent row is not a valid changelog
			}
			k, retract := k, retract
			ckey := fmt.Sprintf("%s/count=%d,%s", key, k, map[bool]string{false: "add", true: "retract"}[retract])
			in := newInterp(p, fn)
			in.Hooks.Assert = assertOK
			var existing absint.Val
			in.Hooks.Field = func(st *absint.State, base absint.Val, sel string) (absint.Val, bool) {
				if sel == "Retraction" {
					return absint.Bool(retract), true
				}
				return nil, false
			}
			in.Hooks.Call = chainCall(func(st *absint.State, call *ast.CallExpr, callee string, recv absint.Val, args []absint.Val) (absint.Val, bool) {
				switch {
				case strings.HasSuffix(callee, "CustomTriggerGroupBy).trigger"):
					// firing is judged by its own rules (ORD4, TRIGTIME); here it is an opaque step that succeeds
					st.Emit("TRIGGER", call.Pos())
					return absint.Nil{}, true
				case msLookup.MatchString(callee):
					st.Emit("LOOKUP", call.Pos(), args...)
					isMap := strings.Contains(callee, "hashmap")
					if k == 0 {
						if isMap {
							return absint.Tuple{Elems: []absint.Val{absint.Nil{}, absint.Bool(false)}}, true
						}
						return absint.Nil{}, true
					}
					existing = st.NewObj("item", map[string]absint.Val{s.countField: absint.Int(k)})
					if isMap {
						return absint.Tuple{Elems: []absint.Val{existing, absint.Bool(true)}}, true
					}
					return existing, true
				case msInsert.MatchString(callee):
					st.Emit("INSERT", call.Pos(), args...)
					return absint.S("prev"), true
				case msRemove.MatchString(callee):
					st.Emit("REMOVE", call.Pos(), args...)
					return absint.S("removed"), true
				case callee == "value:produce":
					st.Emit("PRODUCE", call.Pos(), args...)
					return absint.Nil{}, true
				case callee == "execution/nodes.Aggregate.Add":
					st.Emit("INNER-ADD", call.Pos(), args...)
					return absint.S("innerEmpty"), true
				case callee == "execution.Expression.Evaluate":
					return absint.Tuple{Elems: []absint.Val{absint.S("keyValue"), absint.Nil{}}}, true
				}
				return nil, false
			}, ctorHook(ids), errorfHook)
			in.Hooks.Loop = func(st *absint.State, loop ast.Stmt) *absint.LoopSpec { return nil }
			var outs []*absint.Outcome
			var err error
			if lit != nil {
				outs, err = runLit(in, lit, nil, "")
			} else {
				outs, err = runDecl(in, fn, func(st *absint.State, bind func(string, absint.Val)) {
					bind("retraction", absint.Bool(retract))
				}, "")
			}
			if err != nil {
				c.Unknown(rule, ckey, fn.Decl.Pos(), err.Error())
				continue
			}
			want := k + 1
			if retract {
				want = k - 1
			}
			bad := ""
			nfinal := 0
			for _, o := range outs {
				if o.Kind == "loop" {
					continue
				}
				if o.Kind == "panic" {
					bad = "panics: " + o.String()
					break
				}
				nfinal++
				// the item: the existing one, or the single object created with a count field
				var item *absint.Obj
				if k > 0 {
					for _, ob := range o.Heap {
						if ob.Type == "item" {
							item = ob
						}
					}
				} else {
					// the new item is what gets inserted into the container
					for _, e := range o.Events {
						if e.Name != "INSERT" {
							continue
						}
						for _, a := range e.Args {
							if r, ok := a.(absint.Ref); ok {
								if ob := o.Heap[r.ID]; ob != nil {
									if _, has := ob.Fields[s.countField]; has {
										item = ob
									}
								}
							}
						}
					}
					if item == nil {
						bad = "a new item (count 0) is never inserted into the container: " + o.String()
						break
					}
				}
				if item == nil {
					bad = "no item with a ." + s.countField + " field is maintained: " + o.String()
					break
				}
				got, ok := absint.AsInt(item.Fields[s.countField])
				if !ok || got != want {
					bad = fmt.Sprintf("count before %d, %s ⇒ count must become %d, got %s", k, map[bool]string{false: "addition", true: "retraction"}[retract], want, o.Show(item.Fields[s.countField]))
					break
				}
				inserted, removed, produced, inner := false, false, 0, []string{}
				lookups := 0
				for _, e := range o.Events {
					switch e.Name {
					case "LOOKUP":
						lookups++
					case "INSERT":
						inserted = true
						removed = false
					case "REMOVE":
						removed = true
						inserted = false
					case "PRODUCE":
						produced++
						if len(e.Args) == 2 && e.Args[1].Canon() != "record" {
							bad = "a record other than the input record is emitted: " + e.String()
						}
					case "INNER-ADD":
						if len(e.Args) >= 1 {
							inner = append(inner, e.Args[0].Canon())
						}
					}
				}
				if lookups == 0 {
					bad = "the item is not looked up in the container"
					break
				}
				present := (k >= 1 || inserted) && !removed
				if present != (want > 0) {
					if want > 0 {
						bad = fmt.Sprintf("count becomes %d but the item is not (or no longer) in the container: %s", want, o.String())
					} else {
						bad = fmt.Sprintf("count drops to 0 but the item stays in the container (it would be reported with multiplicity 0 / leak): %s", o.String())
					}
					break
				}
				transition := (k == 0 && !retract) || (k == 1 && retract)
				switch s.emit {
				case "produce":
					if transition && produced != 1 {
						bad = fmt.Sprintf("distinct row %s: the record must be forwarded exactly once, got %d: %s", map[bool]string{false: "appears (0→1)", true: "disappears (1→0)"}[retract], produced, o.String())
					}
					if !transition && produced != 0 {
						bad = fmt.Sprintf("multiplicity %d→%d is not a change of the distinct set, yet a record is forwarded: %s", k, want, o.String())
					}
				case "inner":
					wantInner := []string{}
					if transition {
						wantInner = []string{fmt.Sprint(retract)}
					}
					if strings.Join(inner, ",") != strings.Join(wantInner, ",") {
						bad = fmt.Sprintf("multiplicity %d→%d: the wrapped aggregate must see %v, saw Add(%v): %s", k, want, wantInner, inner, o.String())
					}
				}
				if bad != "" {
					break
				}
			}
			if bad == "" && nfinal == 0 {
				bad = "no completed path"
			}
			c.Decide(bad == "", rule, ckey, fn.Decl.Pos(), len(outs), fmt.Sprintf("count→%d, in container ⇔ count>0", want), bad)
		}
	}
}
