package props

import (
	"fmt"
	"go/ast"
	"strings"

	"octoverif/core"
	"octoverif/engine/absint"
)

// checkConnectiveTypes (NULLT): AND/OR are typed Boolean, nullable iff the left or the right operand is nullable —
// interpreted over the four combinations.  A connective typed non-nullable although an operand can be NULL evaluates
// to NULL under a static type that excludes it, and the null checks planned from static types are not inserted.
func checkConnectiveTypes(c *core.Ctx, rule string) {
	p := c.Prog
	is, isnt := lookupConst(p, "octosql", "TypeRelationIs"), lookupConst(p, "octosql", "TypeRelationIsnt")
	for _, typ := range []string{"And", "Or"} {
		fn := p.Func("logical", "(*"+typ+").Typecheck")
		key := "logical.(*" + typ + ").Typecheck"
		if fn == nil {
			c.Unknown(rule, key, 0, "anchor not found")
			continue
		}
		c.SawFunc(key)
		for _, sc := range [][2]bool{{false, false}, {false, true}, {true, false}, {true, true}} {
			sc := sc
			in := newInterp(p, fn)
			in.Hooks.Call = func(st *absint.State, call *ast.CallExpr, callee string, recv absint.Val, args []absint.Val) (absint.Val, bool) {
				switch callee {
				case "logical.TypecheckExpression":
					side := "L"
					// which operand is typechecked: by the value handed over (x.right, also through a helper's parameter)
					if a := args[len(args)-1]; a != nil && strings.HasSuffix(a.Canon(), ".right") {
						side = "R"
					}
					return st.NewObj("expr", map[string]absint.Val{"Type": absint.S("TYPE" + side)}), true
				case "octosql.Type.Is":
					if recv.Canon() == "octosql.Null" && len(args) == 1 {
						nullable := sc[0]
						if args[0].Canon() == "TYPER" {
							nullable = sc[1]
						}
						if nullable {
							return is, true
						}
						return isnt, true
					}
				case "octosql.TypeSum":
					return absint.S("SUM(" + args[0].Canon() + "," + args[1].Canon() + ")"), true
				}
				return nil, false
			}
			outs, err := runDecl(in, fn, nil, "")
			ckey := fmt.Sprintf("%s/left nullable=%v,right nullable=%v", key, sc[0], sc[1])
			if err != nil {
				c.Unknown(rule, ckey, fn.Decl.Pos(), err.Error())
				continue
			}
			bad := ""
			for _, o := range outs {
				if o.Kind != "return" || len(o.Values) != 1 {
					bad = "unexpected outcome " + o.String()
					continue
				}
				t := o.Field(o.Values[0], "Type")
				got := ""
				if t != nil {
					got = t.Canon()
				}
				want := "octosql.Boolean"
				if sc[0] || sc[1] {
					want = "SUM(octosql.Boolean,octosql.Null)"
				}
				if got != want && !(want != "octosql.Boolean" && got == "SUM(octosql.Null,octosql.Boolean)") {
					bad = fmt.Sprintf("the connective's static type must be %s; it is %s: a NULL operand yields NULL, which the static type has to admit", want, got)
				}
			}
			if len(outs) == 0 {
				bad = "no outcome"
			}
			c.Decide(bad == "", rule, ckey, fn.Decl.Pos(), len(outs), "nullable iff an operand is nullable", bad)
		}
	}
}

// checkNullCheckIndices (NCI): FunctionCall.Evaluate tests exactly the argument positions planned in nullCheckIndices:
// the loop ranges over the *values* of that list and indexes the arguments with them.
func checkNullCheckIndices(c *core.Ctx, rule string) {
	p := c.Prog
	fn := p.Func("execution", "(*FunctionCall).Evaluate")
	key := "execution.(*FunctionCall).Evaluate/null check positions"
	if fn == nil {
		c.Unknown(rule, key, 0, "anchor not found")
		return
	}
	info := fn.Info()
	var loop *ast.RangeStmt
	// the loop may have been moved into a helper that is handed the list (anyNullAt(values, c.nullCheckIndices))
	for _, bf := range helperClosureBound(p, fn) {
		bf := bf
		ast.Inspect(bf.fn.Decl.Body, func(n ast.Node) bool {
			if rs, ok := n.(*ast.RangeStmt); ok && loop == nil && strings.HasSuffix(resolveText(core.ExprStr(rs.X), bf.binds), ".nullCheckIndices") {
				loop = rs
				info = bf.fn.Info()
			}
			return true
		})
	}
	if loop == nil {
		c.Unknown(rule, key, fn.Decl.Pos(), "no loop over nullCheckIndices")
		return
	}
	bad := ""
	vid, _ := loop.Value.(*ast.Ident)
	if loop.Value == nil || vid == nil {
		bad = "the loop takes the positions 0..k-1 of the list (`for i := range nullCheckIndices`) instead of the planned argument positions stored in it"
	} else {
		vobj := info.ObjectOf(vid)
		used := false
		ast.Inspect(loop.Body, func(n ast.Node) bool {
			if ix, ok := n.(*ast.IndexExpr); ok {
				if id, ok := ix.Index.(*ast.Ident); ok {
					if info.ObjectOf(id) == vobj {
						used = true
					} else if kid, ok := loop.Key.(*ast.Ident); ok && kid.Name != "_" && info.ObjectOf(id) == info.ObjectOf(kid) {
						bad = "the arguments are indexed with the loop's position instead of the planned argument position"
					}
				}
			}
			return true
		})
		if !used && bad == "" {
			bad = "the planned positions are not used to index the argument values"
		}
	}
	c.Decide(bad == "", rule, key, loop.Pos(), 1, "argument values are tested at the planned positions", bad)
}

// checkOuterJoinPadding (PADT): the columns of the side that can be NULL-padded get a nullable static type — all right
// columns for LEFT, all left columns for RIGHT.
func checkOuterJoinPadding(c *core.Ctx, rule string) {
	p := c.Prog
	fn := p.Func("logical", "(*OuterJoin).Typecheck")
	key := "logical.(*OuterJoin).Typecheck"
	if fn == nil {
		c.Unknown(rule, key, 0, "anchor not found")
		return
	}
	c.SawFunc(key)
	want := map[string][2]string{
		"node.isLeft":  {"len(left.Schema.Fields)", "len(outSchemaFields)"},
		"node.isRight": {"0", "len(left.Schema.Fields)"},
	}
	seen := 0
	ast.Inspect(fn.Decl.Body, func(n ast.Node) bool {
		is, ok := n.(*ast.IfStmt)
		if !ok {
			return true
		}
		w, ok := want[core.ExprStr(is.Cond)]
		if !ok || len(is.Body.List) != 1 {
			return true
		}
		fs, ok := is.Body.List[0].(*ast.ForStmt)
		if !ok {
			return true
		}
		seen++
		side := strings.TrimPrefix(core.ExprStr(is.Cond), "node.is")
		initS, condS := core.ExprStr(fs.Init), core.ExprStr(fs.Cond)
		okRange := strings.HasSuffix(initS, ":= "+w[0]) && strings.HasSuffix(condS, "< "+w[1])
		body := core.FullStr(fs.Body)
		okBody := strings.Contains(body, "octosql.TypeSum(outSchemaFields[i].Type, octosql.Null)") && strings.Contains(body, "outSchemaFields[i] =")
		c.Decide(okRange && okBody, rule, key+"/"+side, fs.Pos(), 2, "every column of the padded side becomes nullable",
			fmt.Sprintf("for a %s join the padded side's columns (positions %s up to %s of the output) must all become nullable; the loop is `%s; %s` — a column left non-nullable holds NULL on unmatched rows while expressions over it skip their null checks", strings.ToUpper(side), w[0], w[1], initS, condS))
		return true
	})
	if seen != 2 {
		c.Unknown(rule, key, fn.Decl.Pos(), fmt.Sprintf("%d of the 2 padding blocks found", seen))
	}
}

// checkCoalesceType (COALT): COALESCE yields its first non-NULL argument, so its static type is the sum of its
// arguments' types; NULL may be removed from it only when some argument provably never is NULL — the sound test is
// `octosql.Null.Is(t) == TypeRelationIsnt` (a bare NULL literal and Any are not unions, yet can be NULL).
func checkCoalesceType(c *core.Ctx, rule string) {
	p := c.Prog
	fn := p.Func("logical", "(*Coalesce).Typecheck")
	key := "logical.(*Coalesce).Typecheck"
	if fn == nil {
		c.Unknown(rule, key, 0, "anchor not found")
		return
	}
	c.SawFunc(key)
	info := fn.Info()
	sums, bad := 0, ""
	core.WalkStack(fn.Decl.Body, func(n ast.Node, stack []ast.Node) bool {
		call, ok := n.(*ast.CallExpr)
		if !ok {
			return true
		}
		switch p.CalleeName(info, call) {
		case "octosql.TypeSum":
			sums++
		case "octosql.NonNullable":
			guarded := false
			for i := len(stack) - 1; i >= 0; i-- {
				if is, ok := stack[i].(*ast.IfStmt); ok && i+1 < len(stack) && stack[i+1] == ast.Node(is.Body) {
					cs := core.ExprStr(is.Cond)
					if strings.HasPrefix(cs, "octosql.Null.Is(") && strings.HasSuffix(cs, ") == octosql.TypeRelationIsnt") {
						guarded = true
					}
				}
			}
			if !guarded && bad == "" {
				bad = fmt.Sprintf("%s: NULL is removed from COALESCE's type without establishing that an argument can never be NULL (octosql.Null.Is(t) == TypeRelationIsnt): a bare NULL literal or an Any-typed argument is not a union and still can be NULL, so COALESCE(a, NULL) is declared non-nullable and yields NULL", p.Pos(call.Pos()))
			}
		}
		return true
	})
	if bad == "" && sums == 0 {
		bad = "COALESCE's type is not built with TypeSum over its arguments' types"
	}
	c.Decide(bad == "", rule, key, fn.Decl.Pos(), sums+1, "the type is the sum of the arguments' types; NULL is removed only under a sound non-nullability test", bad)
}
