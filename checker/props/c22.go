package props

import (
	"fmt"
	"go/ast"
	"go/token"
	"go/types"
	"regexp"
	"strings"

	"octoverif/core"
	"octoverif/engine/absint"
)

func init() {
	register(&Check{ID: "C22", Run: runC22,
		Explanation: "MKZ: no slice is created with a non-zero length and then only appended to (the zero-valued prefix would be emitted as data). " +
			"ORD1/ORD2: the wrapper sends what is settled up to a watermark before forwarding that watermark, forwards the received message, only buffers on records, and flushes everything (WatermarkMaxValue) after a successful source run. " +
			"PART: both partition loops keep a pending record for later iff its event time is After the watermark (a record at the watermark is settled), count and collect with the same test, and the kept records become the new pending list. " +
			"CANCEL: the emission loop is interpreted per pending record (already crossed out / retraction / addition) and per candidate partner (already crossed out / not a retraction / different values / matching retraction): a crossed-out record is never emitted or used as a partner, an addition and its matching retraction are crossed out together and neither is emitted, everything else is emitted exactly once, in order.",
		NotDecided: []string{"equality of the consolidated emitted changelog with the consolidated input for every history (follows from the above by induction on the pending list, not enumerated)"},
	})
}

func runC22(c *core.Ctx) {
	c.Rule("ENDFLUSH", "the end-of-stream flush bound is above every event time")
	checkFlushBound(c, "ENDFLUSH")
	c.Rule("MKZ", "make(len) followed only by append")
	c.Rule("ORD1", "settle up to the watermark before forwarding it")
	c.Rule("ORD2", "final flush after the source ends")
	c.Rule("PART", "partition by EventTime.After(watermark)")
	c.Rule("CANCEL", "cancellation of additions against later retractions")
	checkMakeZero(c, "MKZ", []string{"outputs", "execution", "datasources", "table_valued_functions", "aggregates", "functions"})
	checkWrapper(c)
}

// checkMakeZero: x := make([]T, n) with n not the constant 0 and no capacity argument, where x is
// afterwards only appended to (never indexed, copied into or sliced as a destination).
func checkMakeZero(c *core.Ctx, rule string, pkgs []string) {
	p := c.Prog
	n := 0
	for _, fn := range p.AllFuncs(pkgs...) {
		info := fn.Info()
		ast.Inspect(fn.Decl.Body, func(nd ast.Node) bool {
			as, ok := nd.(*ast.AssignStmt)
			if !ok || as.Tok != token.DEFINE || len(as.Lhs) != 1 || len(as.Rhs) != 1 {
				return true
			}
			call, ok := as.Rhs[0].(*ast.CallExpr)
			if !ok || core.ExprStr(call.Fun) != "make" || len(call.Args) != 2 {
				return true
			}
			if _, isSlice := info.Types[call.Args[0]].Type.Underlying().(*types.Slice); !isSlice {
				return true
			}
			if tv, ok := info.Types[call.Args[1]]; ok && tv.Value != nil && tv.Value.String() == "0" {
				return true
			}
			id, ok := as.Lhs[0].(*ast.Ident)
			if !ok {
				return true
			}
			obj := info.Defs[id]
			if obj == nil {
				return true
			}
			n++
			appended, written := false, false
			core.WalkStack(fn.Decl.Body, func(m ast.Node, stack []ast.Node) bool {
				uid, ok := m.(*ast.Ident)
				if !ok || info.Uses[uid] != obj || len(stack) == 0 {
					return true
				}
				switch par := stack[len(stack)-1].(type) {
				case *ast.CallExpr:
					fun := core.ExprStr(par.Fun)
					switch {
					case fun == "append" && len(par.Args) > 0 && par.Args[0] == ast.Expr(uid):
						appended = true
					case fun == "copy" && len(par.Args) == 2 && par.Args[0] == ast.Expr(uid):
						written = true
					case fun == "len" || fun == "cap":
					default:
						written = true // handed to something that may fill it
					}
				case *ast.IndexExpr:
					if par.X == ast.Expr(uid) {
						written = true // indexed: elements are addressed individually (read or write)
					}
				case *ast.SliceExpr:
					written = true
				case *ast.RangeStmt:
					// `for i := range x` is the usual companion of x[i] = …
					if par.X == ast.Expr(uid) {
						written = true
					}
				case *ast.ReturnStmt, *ast.KeyValueExpr, *ast.CompositeLit:
				}
				return true
			})
			if appended && !written {
				c.Bad(rule, fmt.Sprintf("%s/%s := make(…, %s)", p.FName(fn), id.Name, core.ExprStr(call.Args[1])), as.Pos(), 1,
					fmt.Sprintf("%s is created with length %s and then only appended to: its first %s elements stay zero values and are handed on as if they were data; make(%s, 0, %s) was meant", id.Name, core.ExprStr(call.Args[1]), core.ExprStr(call.Args[1]), core.ExprStr(call.Args[0]), core.ExprStr(call.Args[1])))
			}
			return true
		})
	}
	if n < 20 {
		c.Unknown(rule, "<make sites>", 0, fmt.Sprintf("only %d make([]T, n) sites analysed", n))
	} else {
		c.OK(rule, "<all make sites>", 0, n, fmt.Sprintf("%d make([]T, n) definitions: each is indexed, copied into, or created empty", n))
	}
}

func checkWrapper(c *core.Ctx) {
	p := c.Prog
	ids := typeIDs(p)
	fn := p.Func("outputs/stream", "(*InternallyConsistentOutputStreamWrapper).Run")
	key := "outputs/stream.(*InternallyConsistentOutputStreamWrapper).Run"
	if fn == nil {
		c.Unknown("ORD1", key, 0, "anchor not found")
		return
	}
	c.SawFunc(key)
	info := fn.Info()
	// the flush closure
	var flush *ast.FuncLit
	flushName := ""
	ast.Inspect(fn.Decl.Body, func(n ast.Node) bool {
		if as, ok := n.(*ast.AssignStmt); ok && len(as.Lhs) == 1 && len(as.Rhs) == 1 {
			if fl, ok := as.Rhs[0].(*ast.FuncLit); ok && flush == nil && fl.Type.Params.NumFields() == 2 {
				flush, flushName = fl, core.ExprStr(as.Lhs[0])
			}
		}
		return true
	})
	rcs := nodeRunCalls(p, fn)
	if flush == nil || len(rcs) != 1 || rcs[0].Produce == nil || rcs[0].MetaSend == nil {
		c.Unknown("ORD1", key, fn.Decl.Pos(), "flush closure or source.Run callbacks not found")
		return
	}
	wm := lookupConst(p, "execution", "MetadataMessageTypeWatermark")
	// metadata callback
	for _, ferr := range []bool{false, true} {
		ferr := ferr
		in := newInterp(p, fn)
		in.Hooks.Field = func(st *absint.State, base absint.Val, sel string) (absint.Val, bool) {
			if sel == "Type" && base.Canon() == "msg" {
				return wm, true
			}
			return nil, false
		}
		in.Hooks.Call = chainCall(func(st *absint.State, call *ast.CallExpr, callee string, recv absint.Val, args []absint.Val) (absint.Val, bool) {
			switch callee {
			case "value:" + flushName:
				st.Emit("FLUSH", call.Pos(), args...)
				if ferr {
					return absint.NN("flushErr"), true
				}
				return absint.Nil{}, true
			case "value:metaSend":
				st.Emit("METASEND", call.Pos(), args...)
				return absint.Nil{}, true
			}
			return nil, false
		}, errorfHook)
		outs, err := runLit(in, rcs[0].MetaSend, nil, "")
		ckey := fmt.Sprintf("%s/watermark/flush error=%v", key, ferr)
		if err != nil {
			c.Unknown("ORD1", ckey, rcs[0].MetaSend.Pos(), err.Error())
			continue
		}
		bad := ""
		for _, o := range outs {
			seq := ""
			for _, e := range o.Events {
				switch e.Name {
				case "FLUSH":
					seq += "F"
					if len(e.Args) != 2 || e.Args[1].Canon() != "msg.Watermark" {
						bad = "the settled records must be sent up to the received watermark"
					}
				case "METASEND":
					seq += "S"
					if e.Args[1].Canon() != "msg" {
						bad = "the received message must be forwarded unchanged"
					}
				}
			}
			if !ferr && seq != "FS" {
				bad = "on a watermark the wrapper must send what is settled and then forward the watermark (F,S); it does " + seq
			}
			if ferr && (seq != "F" || !isNonNilErr(o.Values[0])) {
				bad = "a failing flush must be returned before the watermark is forwarded"
			}
		}
		c.Decide(bad == "" && len(outs) > 0, "ORD1", ckey, rcs[0].MetaSend.Pos(), len(outs), "flush(msg.Watermark) → metaSend(msg)", bad)
	}
	// record callback only buffers
	{
		in := newInterp(p, fn)
		produced := false
		in.Hooks.Call = func(st *absint.State, call *ast.CallExpr, callee string, recv absint.Val, args []absint.Val) (absint.Val, bool) {
			if callee == "value:produce" {
				produced = true
				return absint.Nil{}, true
			}
			return nil, false
		}
		outs, err := runLit(in, rcs[0].Produce, nil, "")
		ok := err == nil && !produced && len(outs) > 0
		for _, o := range outs {
			v := o.Env["pending"]
			if v == nil || v.Canon() != "append(pending;[record])" {
				ok = false
			}
			if o.Kind != "return" || isNonNilErr(o.Values[0]) {
				ok = false
			}
		}
		c.Decide(ok, "ORD1", key+"/record", rcs[0].Produce.Pos(), len(outs), "pending = append(pending, record)", "an incoming record must only be appended to the pending list (it is not settled before a watermark covers it)")
	}
	// final flush
	{
		list := fn.Decl.Body.List
		ok := false
		if rs, isRet := list[len(list)-1].(*ast.ReturnStmt); isRet && len(rs.Results) == 1 {
			if call, isCall := rs.Results[0].(*ast.CallExpr); isCall && core.ExprStr(call.Fun) == flushName && len(call.Args) == 2 && core.ExprStr(call.Args[1]) == "WatermarkMaxValue" {
				ok = true
			}
		}
		c.Decide(ok, "ORD2", key+"/end of stream", fn.Decl.Pos(), 1, "return flush(WatermarkMaxValue)", "after the source ends everything pending must be sent (flush up to WatermarkMaxValue) as the function's result")
	}
	// the []bool made beside the pending list marks records that need no further attention in this round
	crossedName := ""
	var crossedObj types.Object
	ast.Inspect(flush.Body, func(n ast.Node) bool {
		if as, ok := n.(*ast.AssignStmt); ok && len(as.Lhs) == 1 && len(as.Rhs) == 1 {
			if call, ok := as.Rhs[0].(*ast.CallExpr); ok && core.ExprStr(call.Fun) == "make" && len(call.Args) >= 2 && core.ExprStr(call.Args[0]) == "[]bool" {
				if id, ok := as.Lhs[0].(*ast.Ident); ok && crossedName == "" {
					crossedName, crossedObj = id.Name, info.ObjectOf(id)
				}
			}
		}
		return true
	})
	// PART: the tests of the two partition loops and the hand-over of the kept records
	{
		var conds []ast.Expr
		var newPendingAssigned bool
		var loops []ast.Stmt
		for _, st := range flush.Body.List {
			if rs, ok := st.(*ast.RangeStmt); ok {
				loops = append(loops, rs)
			}
			if fs, ok := st.(*ast.ForStmt); ok {
				loops = append(loops, fs)
			}
			if as, ok := st.(*ast.AssignStmt); ok && len(as.Lhs) == 1 && len(as.Rhs) == 1 && as.Tok == token.ASSIGN && core.ExprStr(as.Lhs[0]) == "pending" {
				// the right-hand side is the list the kept records were appended to
				if id, ok := as.Rhs[0].(*ast.Ident); ok && regexp.MustCompile(`\b`+id.Name+` = append\(`+id.Name+`, `).MatchString(core.FullStr(flush.Body)) {
					newPendingAssigned = true
				}
			}
		}
		// the partition loops are the ones that do not emit
		var partLoops []ast.Stmt
		for _, l := range loops {
			emits := false
			ast.Inspect(l, func(n ast.Node) bool {
				if call, ok := n.(*ast.CallExpr); ok && p.CalleeName(info, call) == "value:produce" {
					emits = true
				}
				return true
			})
			if !emits {
				partLoops = append(partLoops, l)
			}
		}
		loops = partLoops
		for _, l := range loops {
			ast.Inspect(l, func(n ast.Node) bool {
				if is, ok := n.(*ast.IfStmt); ok {
					conds = append(conds, is.Cond)
				}
				return true
			})
		}
		// each test is evaluated for event time {<,=,>} watermark: kept iff strictly later
		table := func(cond ast.Expr) string {
			out := ""
			for _, rel := range []absint.Rel{absint.LT, absint.EQ, absint.GT} {
				rel := rel
				in := &absint.Interp{Info: info, Prog: p}
				in.Hooks.Call = func(st *absint.State, call *ast.CallExpr, callee string, recv absint.Val, args []absint.Val) (absint.Val, bool) {
					if len(args) != 1 {
						return nil, false
					}
					r := rel
					if !strings.HasSuffix(recv.Canon(), ".EventTime") {
						r = map[absint.Rel]absint.Rel{absint.LT: absint.GT, absint.GT: absint.LT, absint.EQ: absint.EQ}[rel]
					}
					switch callee {
					case "time.Time.After":
						return absint.Bool(r == absint.GT), true
					case "time.Time.Before":
						return absint.Bool(r == absint.LT), true
					case "time.Time.Equal":
						return absint.Bool(r == absint.EQ), true
					}
					return nil, false
				}
				res, err := in.RunCond(cond)
				if err != nil || len(res) != 1 {
					return "?"
				}
				if res[0].Value {
					out += "1"
				} else {
					out += "0"
				}
			}
			return out
		}
		ok := len(conds) == 2
		got := []string{}
		for _, cd := range conds {
			tb := table(cd)
			got = append(got, core.ExprStr(cd)+"→"+tb)
			if tb != "001" {
				ok = false
			}
		}
		c.Decide(ok, "PART", key+"/partition test", flush.Pos(), 6, "kept iff event time strictly after the watermark, same test for counting and collecting", fmt.Sprintf("both partition loops must keep a record iff its event time is strictly after the watermark (truth table over <,=,> must be 001); found %v", got))
		c.Decide(newPendingAssigned, "PART", key+"/hand-over", flush.Pos(), 1, "pending = newPending", "the kept records must become the new pending list")
		// collecting loop: appended to newPending and crossed out
		if len(loops) >= 2 {
			// names are taken from the code: the loop's index, the list it walks, the []bool made beside it
			s := core.FullStr(loops[1])
			idx, lst := "i", "pending"
			if rs, ok := loops[1].(*ast.RangeStmt); ok && rs.Key != nil {
				idx, lst = core.ExprStr(rs.Key), core.ExprStr(rs.X)
			}
			ok2 := regexp.MustCompile(`append\(\w+, `+regexp.QuoteMeta(lst+"["+idx+"]")+`\)`).MatchString(s) && crossedName != "" && strings.Contains(s, crossedName+"["+idx+"] = true")
			c.Decide(ok2, "PART", key+"/collect", loops[1].Pos(), 1, "kept records are collected and excluded from this round", "a kept record must be appended to newPending and crossed out for this round")
		}
	}
	// CANCEL
	// the emission loop is the loop of the flush that produces; the partner search is the counted loop it reaches
	// (in its own body or in a helper) — labels or not
	var pendingLoop, findLoop ast.Stmt
	var pendingRun ast.Stmt // pendingLoop with its label, if it has one
	for _, st := range flush.Body.List {
		inner := st
		if ls, ok := st.(*ast.LabeledStmt); ok {
			inner = ls.Stmt
		}
		rs, ok := inner.(*ast.RangeStmt)
		if !ok {
			continue
		}
		produces := false
		ast.Inspect(rs.Body, func(n ast.Node) bool {
			if call, ok := n.(*ast.CallExpr); ok && p.CalleeName(info, call) == "value:produce" {
				produces = true
			}
			return true
		})
		if produces {
			pendingLoop, pendingRun = rs, st
		}
	}
	if pendingLoop != nil {
		for _, body := range bodyClosure(p, fn.Pkg.PkgPath, info, pendingLoop.(*ast.RangeStmt).Body) {
			ast.Inspect(body, func(n ast.Node) bool {
				if fs, ok := n.(*ast.ForStmt); ok && findLoop == nil && fs.Init != nil && fs.Cond != nil {
					findLoop = fs
				}
				return true
			})
		}
	}
	if pendingLoop == nil || findLoop == nil || crossedObj == nil {
		c.Unknown("CANCEL", key, flush.Pos(), "emission loop / partner-search loop / crossed-out marks not found")
		return
	}
	outerVar, pendingName := "i", "pending"
	if rs := pendingLoop.(*ast.RangeStmt); rs.Key != nil {
		outerVar, pendingName = core.ExprStr(rs.Key), core.ExprStr(rs.X)
	}
	innerVar := ""
	if as, ok := findLoop.(*ast.ForStmt).Init.(*ast.AssignStmt); ok && len(as.Lhs) == 1 {
		innerVar = core.ExprStr(as.Lhs[0])
	}
	// loop variables carry the tag of their loop (i@L1)
	untag := func(s string) string { return loopTagRE.ReplaceAllString(s, "") }
	isOuter := func(idx string) bool { return untag(idx) == outerVar }
	outerCls := []string{"I:crossed", "I:retraction", "I:addition"}
	innerCls := []string{"J:crossed", "J:addition", "J:mismatch", "J:match"}
	for _, ic := range outerCls {
		ic := ic
		in := newInterp(p, fn)
		in.MaxPaths = 8000
		clsOf := func(st *absint.State, prefix string) string {
			for _, v := range st.Iter {
				if strings.HasPrefix(v, prefix) {
					return v
				}
			}
			return ""
		}
		in.Hooks.Loop = func(st *absint.State, loop ast.Stmt) *absint.LoopSpec {
			switch {
			case loop == pendingLoop:
				return &absint.LoopSpec{Cases: []string{ic}, MaxIter: 1, RefStep: func(ref, cs string) string { return ref }}
			case loop == findLoop:
				return &absint.LoopSpec{Cases: innerCls, MaxIter: 2, RefStep: func(ref, cs string) string { return ref }}
			}
			return &absint.LoopSpec{Cases: []string{"K"}, MaxIter: 1, MinIter: 1, RefStep: func(ref, cs string) string { return ref }}
		}
		in.Hooks.Ident = func(st *absint.State, obj types.Object) (absint.Val, bool) {
			if obj == crossedObj {
				return absint.S("CROSSED"), true
			}
			return nil, false
		}
		in.Hooks.Index = func(st *absint.State, x, i absint.Val) (absint.Val, bool) {
			if x.Canon() == "CROSSED" {
				if !isOuter(i.Canon()) {
					return absint.Bool(clsOf(st, "J:") == "J:crossed"), true
				}
				return absint.Bool(clsOf(st, "I:") == "I:crossed"), true
			}
			return nil, false
		}
		in.Hooks.Field = func(st *absint.State, base absint.Val, sel string) (absint.Val, bool) {
			if sel == "Retraction" && strings.HasPrefix(base.Canon(), pendingName+"[") {
				if untag(base.Canon()) != pendingName+"["+outerVar+"]" {
					j := clsOf(st, "J:")
					return absint.Bool(j != "J:addition"), true
				}
				return absint.Bool(clsOf(st, "I:") == "I:retraction"), true
			}
			return nil, false
		}
		in.Hooks.Cond = func(st *absint.State, atom string) (bool, bool) {
			// the partner's index starts above the (non-negative) index of the record at hand: it is never the
			// "not found" value of a search helper
			atom = untag(atom)
			if innerVar != "" && (atom == "(-1 == "+innerVar+")" || atom == "("+innerVar+" == -1)" || atom == "("+innerVar+" < 0)") {
				return false, true
			}
			if innerVar != "" && atom == "(0 <= "+innerVar+")" {
				return true, true
			}
			return false, false
		}
		in.Hooks.Call = chainCall(func(st *absint.State, call *ast.CallExpr, callee string, recv absint.Val, args []absint.Val) (absint.Val, bool) {
			switch callee {
			case "octosql.Value.Compare":
				// a crossed-out candidate is modelled with equal values: the worst case for reuse
				if j := clsOf(st, "J:"); j == "J:match" || j == "J:crossed" {
					return absint.Int(0), true
				}
				return absint.Int(1), true
			case "value:produce":
				st.Emit("PRODUCE", call.Pos(), args...)
				return absint.Nil{}, true
			}
			return nil, false
		}, ctorHook(ids), errorfHook)
		outs, err := in.Run(&ast.FuncType{Params: &ast.FieldList{}}, nil, &ast.BlockStmt{List: []ast.Stmt{pendingRun}}, nil, "")
		ckey := key + "/emission/" + ic
		if err != nil {
			c.Unknown("CANCEL", ckey, pendingLoop.Pos(), err.Error())
			continue
		}
		bad := ""
		n := 0
		for _, o := range outs {
			if len(o.Trace) == 0 {
				continue
			}
			n++
			produced := 0
			var stores []string
			for _, e := range o.Events {
				if e.Name == "PRODUCE" {
					produced++
					if len(e.Args) != 2 || untag(e.Args[1].Canon()) != pendingName+"["+outerVar+"]" {
						bad = "something other than the pending record itself is emitted: " + e.String()
					}
				}
				if strings.HasPrefix(e.Name, "store CROSSED[") {
					stores = append(stores, strings.TrimPrefix(e.Name, "store "))
				}
			}
			matched := false
			usedCrossedPartner := false
			var js []string
			for _, t := range o.Trace[1:] {
				js = append(js, t)
			}
			// the first J:match ends the search; anything crossed out before it must have been skipped
			for _, t := range js {
				if t == "J:match" {
					matched = true
					break
				}
			}
			_ = usedCrossedPartner
			switch ic {
			case "I:crossed":
				if produced != 0 || len(stores) != 0 {
					bad = "a record that is crossed out (kept for later, or already cancelled) must be skipped entirely"
				}
			case "I:retraction":
				if produced != 1 && o.Kind != "loop" {
					bad = fmt.Sprintf("a settled retraction must be emitted once (emitted %d times)", produced)
				}
			case "I:addition":
				if matched {
					if produced != 0 {
						bad = "an addition cancelled by a later retraction must not be emitted"
					}
					if len(stores) != 2 {
						bad = fmt.Sprintf("the addition and its partner must both be crossed out (stores: %v)", stores)
					}
				} else {
					if len(stores) != 0 {
						bad = fmt.Sprintf("with partner candidates %v (none a usable matching retraction) nothing may be crossed out, yet %v is — a retraction that is crossed out (kept for later or already used) or does not match is consumed", js, stores)
					}
					if len(stores) == 0 && produced != 1 && strings.HasPrefix(o.Ref, "exit:") && o.Kind != "loop" {
						bad = fmt.Sprintf("an addition without a matching retraction must be emitted once (emitted %d times): %s", produced, o.String())
					}
				}
			}
		}
		c.Decide(bad == "" && n > 0, "CANCEL", ckey, pendingLoop.Pos(), len(outs), "", bad)
	}
	_ = info
}

var loopTagRE = regexp.MustCompile(`@L\d+`)
