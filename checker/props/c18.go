package props

import (
	"fmt"
	"go/ast"
	"go/token"
	"go/types"
	"sort"
	"strings"

	"octoverif/core"
	"octoverif/engine/absint"
)

func init() {
	register(&Check{ID: "C18", Run: runC18,
		Explanation: "EMIT: RecordEventTimeBuffer.Emit is interpreted over scripted sequences of the tree's minimum (none / due: time ≤ watermark, both < and = / later): exactly the due items are released, smallest first (Min + DeleteMin over a tree ordered by Before), each with all its records in insertion order, and it stops at the first later item; AddRecord files a record under its own event time. " +
			"ORD1/ORD2: the event-time buffer node releases up to the watermark before forwarding it, forwards the message it received, releases everything (WatermarkMaxValue) after a successful source run, and passes zero-event-time records straight through. " +
			"JOINWM: in both stream joins the handling of a watermark from either input is interpreted for new-watermark {<,=,>} other side's watermark × candidate {>,≤} last forwarded: the side's watermark is stored first, the candidate is the minimum of the two sides, and only a strictly larger candidate is forwarded — after the buffers were flushed up to exactly that value; in the one-input phase the input's watermark is forwarded after flushing up to it; the final flush precedes the successful return. " +
			"ORD3: the triggering group-by triggers before forwarding (shared with C17). ORD8: a node hands its metaSend to at most one child Run that executes once per Run — never from inside a per-record callback or a loop (a re-run child's watermarks restart from the beginning). GEN: max_diff_watermark only emits strictly increasing watermarks (shared with C20).",
		NotDecided: []string{"event-time arithmetic of emitted records for arbitrary pipelines", "behaviour under every interleaving of the two join inputs (C19)"},
	})
}

func timeRelHook(o absint.OrderOracle) callHook {
	return func(st *absint.State, call *ast.CallExpr, callee string, recv absint.Val, args []absint.Val) (absint.Val, bool) {
		switch callee {
		case "time.Time.After", "time.Time.Before", "time.Time.Equal":
			if len(args) != 1 {
				return nil, false
			}
			r, ok := o[recv.Canon()+"|"+args[0].Canon()]
			if !ok {
				return nil, false
			}
			switch callee {
			case "time.Time.After":
				return absint.Bool(r == absint.GT), true
			case "time.Time.Before":
				return absint.Bool(r == absint.LT), true
			default:
				return absint.Bool(r == absint.EQ), true
			}
		}
		return nil, false
	}
}

func runC18(c *core.Ctx) {
	c.Rule("TIMEEQ", "time.Time values are compared with Equal/Before/After, never with ==")
	checkTimeEquality(c, "TIMEEQ", "execution", "execution/nodes", "octosql", "aggregates", "table_valued_functions", "outputs", "functions", "datasources")
	c.Rule("EMIT", "event-time buffer releases exactly the due items, in order")
	c.Rule("ORD1", "flush up to the watermark before forwarding it")
	c.Rule("ORD2", "final flush before the successful return")
	c.Rule("JOINWM", "joins forward min(left,right) only when it advances, after flushing up to it")
	c.Rule("ORD3", "group by: WatermarkReceived → trigger → metaSend")
	c.Rule("ORD8", "metaSend is handed to at most one once-per-Run child")
	c.Rule("GEN", "max_diff_watermark emits strictly increasing watermarks")
	checkBufferEmit(c)
	checkBufferAdd(c)
	checkEventTimeBufferNode(c)
	checkJoinWatermarks(c)
	checkGroupByWatermarkOrder(c)
	checkMetaSendOwnership(c)
	checkMaxDiffWatermark(c, "GEN")
	c.Rule("JOINTIME", "joins stamp what they emit with an event time not older than the processed record's")
	checkJoinRecordTimes(c, "JOINTIME")
	c.Rule("WMFWD", "a group by keeps its time field only with a trigger that fires on watermarks")
	checkWatermarkFiringTriggers(c, "WMFWD")
	c.Rule("TRIGTIME", "group by: retraction and new row carry the same, current event time")
	checkTriggerEventTime(c)
}

func checkBufferEmit(c *core.Ctx) {
	p := c.Prog
	fn := p.Func("execution", "(*RecordEventTimeBuffer).Emit")
	key := "execution.(*RecordEventTimeBuffer).Emit"
	if fn == nil {
		c.Unknown("EMIT", key, 0, "anchor not found")
		return
	}
	c.SawFunc(key)
	for _, script := range [][]string{{"none"}, {"later"}, {"due<", "none"}, {"due=", "later"}, {"due<", "due=", "none"}, {"due=", "due<", "later"}} {
		script := script
		in := newInterp(p, fn)
		in.Hooks.Assert = assertOK
		in.Hooks.Loop = func(st *absint.State, loop ast.Stmt) *absint.LoopSpec {
			if _, isRange := loop.(*ast.RangeStmt); isRange {
				return &absint.LoopSpec{Cases: []string{"rec"}, MaxIter: 2, RefStep: func(ref, cs string) string { return ref }}
			}
			return nil
		}
		in.Hooks.Call = chainCall(func(st *absint.State, call *ast.CallExpr, callee string, recv absint.Val, args []absint.Val) (absint.Val, bool) {
			switch {
			case strings.HasSuffix(callee, "btree.(*BTree).Min"):
				k := 0
				for _, e := range st.Events {
					if e.Name == "MIN" {
						k++
					}
				}
				st.Emit("MIN", call.Pos())
				cls := "none"
				if k < len(script) {
					cls = script[k]
				}
				if cls == "none" {
					return absint.Nil{}, true
				}
				return st.NewObj("item", map[string]absint.Val{"EventTime": absint.S("T" + fmt.Sprint(k) + ":" + cls), "Records": absint.S("RECS" + fmt.Sprint(k))}), true
			case strings.HasSuffix(callee, "btree.(*BTree).DeleteMin"):
				st.Emit("DELETEMIN", call.Pos())
				return absint.S("deleted"), true
			case strings.HasSuffix(callee, "btree.(*BTree).Max") || strings.HasSuffix(callee, "btree.(*BTree).DeleteMax"):
				st.Emit("WRONG-END "+callee, call.Pos())
				return absint.Nil{}, true
			case callee == "value:produce":
				st.Emit("PRODUCE", call.Pos(), args...)
				return absint.Nil{}, true
			case callee == "time.Time.After" || callee == "time.Time.Before" || callee == "time.Time.Equal":
				tcanon, wIsArg := recv.Canon(), true
				if !strings.HasPrefix(tcanon, "T") {
					tcanon, wIsArg = args[0].Canon(), false
				}
				var r absint.Rel
				switch {
				case strings.HasSuffix(tcanon, "due<"):
					r = absint.LT
				case strings.HasSuffix(tcanon, "due="):
					r = absint.EQ
				default:
					r = absint.GT
				}
				if !wIsArg {
					r = map[absint.Rel]absint.Rel{absint.LT: absint.GT, absint.GT: absint.LT, absint.EQ: absint.EQ}[r]
				}
				switch callee {
				case "time.Time.After":
					return absint.Bool(r == absint.GT), true
				case "time.Time.Before":
					return absint.Bool(r == absint.LT), true
				default:
					return absint.Bool(r == absint.EQ), true
				}
			}
			return nil, false
		}, errorfHook)
		outs, err := runDecl(in, fn, nil, "")
		ckey := key + "/min sequence " + strings.Join(script, ",")
		if err != nil {
			c.Unknown("EMIT", ckey, fn.Decl.Pos(), err.Error())
			continue
		}
		ndue := 0
		for _, s := range script {
			if strings.HasPrefix(s, "due") {
				ndue++
			}
		}
		bad := ""
		released := map[string]bool{}
		for _, o := range outs {
			for _, e := range o.Events {
				if e.Name == "PRODUCE" && len(e.Args) == 1 {
					src := e.Args[0].Canon()
					if i := strings.Index(src, "["); i > 0 {
						src = src[:i]
					}
					released[src] = true
				}
			}
			if o.Kind != "return" {
				continue
			}
			dels := 0
			produced := map[string]int{}
			var order []string
			for _, e := range o.Events {
				switch {
				case e.Name == "DELETEMIN":
					dels++
				case e.Name == "PRODUCE" && len(e.Args) == 1:
					src := e.Args[0].Canon()
					if i := strings.Index(src, "["); i > 0 {
						src = src[:i]
					}
					if produced[src] == 0 {
						order = append(order, src)
					}
					produced[src]++
				case strings.HasPrefix(e.Name, "WRONG-END"):
					bad = "the buffer must release from the smallest event time (Min/DeleteMin): " + e.Name
				}
			}
			if dels != ndue {
				bad = fmt.Sprintf("with the tree minimum going %v exactly %d item(s) are due (event time ≤ watermark); %d were removed", script, ndue, dels)
			}
			for i := 1; i < len(order); i++ {
				if order[i] <= order[i-1] {
					bad = "records are released out of event-time order: " + strings.Join(order, ",")
				}
			}
			if len(o.Values) == 1 && isNonNilErr(o.Values[0]) {
				bad = "returns an error although nothing failed"
			}
		}
		// paths that reach the loop head in the same state are merged, so the records of each due
		// item are looked for across all explored paths
		for k := 0; k < ndue && bad == ""; k++ {
			if !released[fmt.Sprintf("RECS%d", k)] {
				bad = fmt.Sprintf("the records of due item %d are never released", k)
			}
		}
		for src := range released {
			var k int
			fmt.Sscanf(src, "RECS%d", &k)
			if k >= ndue && bad == "" {
				bad = "records of an item that is not due (event time above the watermark) are released"
			}
		}
		c.Decide(bad == "", "EMIT", ckey, fn.Decl.Pos(), len(outs), fmt.Sprintf("%d due item(s) released in order, stops at the first later one", ndue), bad)
	}
	// produce error propagation
	{
		in := newInterp(p, fn)
		in.Hooks.Assert = assertOK
		n := 0
		in.Hooks.Loop = func(st *absint.State, loop ast.Stmt) *absint.LoopSpec {
			if _, isRange := loop.(*ast.RangeStmt); isRange {
				return &absint.LoopSpec{Cases: []string{"rec"}, MaxIter: 1, RefStep: func(ref, cs string) string { return ref }}
			}
			return nil
		}
		in.Hooks.Call = chainCall(func(st *absint.State, call *ast.CallExpr, callee string, recv absint.Val, args []absint.Val) (absint.Val, bool) {
			switch {
			case strings.HasSuffix(callee, "btree.(*BTree).Min"):
				n++
				if n > 1 {
					return absint.Nil{}, true
				}
				return st.NewObj("item", map[string]absint.Val{"EventTime": absint.S("T"), "Records": absint.S("RECS")}), true
			case callee == "time.Time.After":
				return absint.Bool(false), true
			case callee == "value:produce":
				return absint.NN("produceErr"), true
			}
			return nil, false
		}, errorfHook)
		outs, err := runDecl(in, fn, nil, "")
		ok := err == nil
		sawErr := false
		for _, o := range outs {
			if o.Kind == "return" && len(o.Trace) == 1 {
				if isNonNilErr(o.Values[0]) {
					sawErr = true
				} else {
					ok = false
				}
			}
		}
		c.Decide(ok && sawErr, "EMIT", key+"/produce error", fn.Decl.Pos(), len(outs), "a failing produce ends the release with that error", "the error of the downstream produce is not returned")
	}
}

func checkBufferAdd(c *core.Ctx) {
	p := c.Prog
	ids := typeIDs(p)
	_ = ids
	fn := p.Func("execution", "(*RecordEventTimeBuffer).AddRecord")
	key := "execution.(*RecordEventTimeBuffer).AddRecord"
	if fn == nil {
		c.Unknown("EMIT", key, 0, "anchor not found")
		return
	}
	c.SawFunc(key)
	for _, present := range []bool{false, true} {
		present := present
		in := newInterp(p, fn)
		in.Hooks.Assert = assertOK
		var lookupKey, existing absint.Val
		in.Hooks.Call = func(st *absint.State, call *ast.CallExpr, callee string, recv absint.Val, args []absint.Val) (absint.Val, bool) {
			switch {
			case msLookup.MatchString(callee):
				lookupKey = args[0]
				if !present {
					return absint.Nil{}, true
				}
				existing = st.NewObj("item", map[string]absint.Val{"EventTime": absint.S("record.EventTime"), "Records": absint.S("OLD")})
				return existing, true
			case msInsert.MatchString(callee):
				st.Emit("INSERT", call.Pos(), args...)
				return absint.S("prev"), true
			}
			return nil, false
		}
		outs, err := runDecl(in, fn, nil, "")
		ckey := fmt.Sprintf("%s/time already buffered=%v", key, present)
		if err != nil {
			c.Unknown("EMIT", ckey, fn.Decl.Pos(), err.Error())
			continue
		}
		bad := ""
		for _, o := range outs {
			if lk := o.Field(lookupKey, "EventTime"); lk == nil || lk.Canon() != "record.EventTime" {
				bad = "the item is not looked up under the record's event time"
			}
			var item absint.Val
			inserted := false
			for _, e := range o.Events {
				if e.Name == "INSERT" && len(e.Args) == 1 {
					inserted = true
					item = e.Args[0]
				}
			}
			if present {
				item = existing
				if inserted {
					// re-inserting the same item is harmless
				}
			} else if !inserted {
				bad = "a record with a new event time is not inserted into the tree"
			}
			if item == nil {
				continue
			}
			if et := o.Field(item, "EventTime"); et == nil || et.Canon() != "record.EventTime" {
				bad = "the record is filed under a time other than its own event time"
			}
			recs := o.Field(item, "Records")
			want := "[record]"
			if present {
				want = "append(OLD;[record])"
			}
			if recs == nil || recs.Canon() != want {
				bad = fmt.Sprintf("the record must be appended to the item's records (expected %s, got %s)", want, o.Show(recs))
			}
		}
		c.Decide(bad == "" && len(outs) > 0, "EMIT", ckey, fn.Decl.Pos(), len(outs), "appended under its own event time", bad)
	}
	// ordering of the tree
	if lf := p.Func("execution", "(*recordEventTimeBufferItem).Less"); lf != nil {
		for _, rel := range []absint.Rel{absint.LT, absint.EQ, absint.GT} {
			o := absint.OrderOracle{}
			o.Set("e.EventTime", "than.EventTime", rel)
			in := newInterp(p, lf)
			in.Hooks.Assert = assertOK
			in.Hooks.Call = timeRelHook(o)
			in.Hooks.Cond = func(st *absint.State, atom string) (bool, bool) { return o.Decide(atom) }
			outs, err := runDecl(in, lf, nil, "")
			ok := err == nil && len(outs) == 1 && outs[0].Kind == "return" && absint.IsTrue(outs[0].Values[0]) == (rel == absint.LT) && absint.IsConst(outs[0].Values[0])
			c.Decide(ok, "EMIT", "execution.(*recordEventTimeBufferItem).Less/"+string(rel), lf.Decl.Pos(), 1, "earlier event time sorts first", "the buffer's tree must order items by ascending event time (less ⇔ Before): "+showOutcomes(outs))
		}
	} else {
		c.Unknown("EMIT", "execution.(*recordEventTimeBufferItem).Less", 0, "anchor not found")
	}
}

func checkEventTimeBufferNode(c *core.Ctx) {
	p := c.Prog
	fn := p.Func("execution/nodes", "(*EventTimeBuffer).Run")
	key := "execution/nodes.(*EventTimeBuffer).Run"
	if fn == nil {
		c.Unknown("ORD1", key, 0, "anchor not found")
		return
	}
	c.SawFunc(key)
	rcs := nodeRunCalls(p, fn)
	if len(rcs) != 1 || rcs[0].Produce == nil || rcs[0].MetaSend == nil {
		c.Unknown("ORD1", key, fn.Decl.Pos(), "expected one source.Run with literal callbacks")
		return
	}
	// the callbacks' parameters, whatever they are called (the callbacks may be literals or methods of a run-state object)
	recName, msgName := "record", "msg"
	if pl := rcs[0].Produce.Type.Params.List; len(pl) >= 1 {
		if last := pl[len(pl)-1]; len(last.Names) > 0 {
			recName = last.Names[len(last.Names)-1].Name
		}
	}
	if pl := rcs[0].MetaSend.Type.Params.List; len(pl) >= 1 {
		if last := pl[len(pl)-1]; len(last.Names) > 0 {
			msgName = last.Names[len(last.Names)-1].Name
		}
	}
	wm := lookupConst(p, "execution", "MetadataMessageTypeWatermark")
	// metadata callback
	for _, emitErr := range []bool{false, true} {
		emitErr := emitErr
		in := newInterp(p, fn)
		in.Hooks.Field = func(st *absint.State, base absint.Val, sel string) (absint.Val, bool) {
			if sel == "Type" && base.Canon() == msgName {
				return wm, true
			}
			return nil, false
		}
		in.Hooks.Call = chainCall(func(st *absint.State, call *ast.CallExpr, callee string, recv absint.Val, args []absint.Val) (absint.Val, bool) {
			switch callee {
			case "execution.(*RecordEventTimeBuffer).Emit":
				st.Emit("EMIT", call.Pos(), args...)
				if emitErr {
					return absint.NN("emitErr"), true
				}
				return absint.Nil{}, true
			case "value:metaSend":
				st.Emit("METASEND", call.Pos(), args...)
				return absint.S("sendErr"), true
			}
			return nil, false
		}, errorfHook)
		outs, err := runLit(in, rcs[0].MetaSend, nil, "")
		ckey := fmt.Sprintf("%s/watermark/emit error=%v", key, emitErr)
		if err != nil {
			c.Unknown("ORD1", ckey, rcs[0].MetaSend.Pos(), err.Error())
			continue
		}
		bad := ""
		for _, o := range outs {
			seq := ""
			for _, e := range o.Events {
				switch e.Name {
				case "EMIT":
					seq += "E"
					if len(e.Args) < 1 || e.Args[0].Canon() != msgName+".Watermark" {
						bad = "records must be released up to the received watermark, not " + e.String()
					}
				case "METASEND":
					seq += "S"
					if len(e.Args) != 2 || e.Args[1].Canon() != msgName {
						bad = "the received message must be forwarded unchanged"
					}
				}
			}
			if !emitErr && seq != "ES" {
				bad = "on a watermark the buffer must release the due records and then forward the watermark (E,S); it does " + seq + " — a watermark forwarded first is followed by records at or below it (late data)"
			}
			if emitErr && (seq != "E" || !isNonNilErr(o.Values[0])) {
				bad = "a failing release must be returned before the watermark is forwarded"
			}
		}
		c.Decide(bad == "" && len(outs) > 0, "ORD1", ckey, rcs[0].MetaSend.Pos(), len(outs), "Emit(msg.Watermark) → metaSend(msg)", bad)
	}
	// record callback
	for _, zero := range []bool{true, false} {
		zero := zero
		in := newInterp(p, fn)
		in.Hooks.Call = chainCall(func(st *absint.State, call *ast.CallExpr, callee string, recv absint.Val, args []absint.Val) (absint.Val, bool) {
			switch callee {
			case "time.Time.IsZero":
				return absint.Bool(zero), true
			case "execution.(*RecordEventTimeBuffer).AddRecord":
				st.Emit("ADD", call.Pos(), args...)
				return absint.S("void"), true
			case "value:produce":
				st.Emit("PRODUCE", call.Pos(), args...)
				return absint.S("produceErr"), true
			}
			return nil, false
		}, errorfHook)
		outs, err := runLit(in, rcs[0].Produce, nil, "")
		ckey := fmt.Sprintf("%s/record/zero event time=%v", key, zero)
		if err != nil {
			c.Unknown("ORD1", ckey, rcs[0].Produce.Pos(), err.Error())
			continue
		}
		bad := ""
		for _, o := range outs {
			seq := ""
			for _, e := range o.Events {
				if e.Name == "ADD" || e.Name == "PRODUCE" {
					seq += e.Name[:1]
					if e.Args[len(e.Args)-1].Canon() != recName {
						bad = "a record other than the received one is handled"
					}
				}
			}
			if zero && seq != "P" {
				bad = "a record without event time passes straight through"
			}
			if !zero && seq != "A" {
				bad = "a record with an event time must be buffered until a watermark covers it (it does " + seq + ")"
			}
		}
		c.Decide(bad == "" && len(outs) > 0, "ORD1", ckey, rcs[0].Produce.Pos(), len(outs), "", bad)
	}
	// final flush
	for _, srcErr := range []bool{false, true} {
		srcErr := srcErr
		in := newInterp(p, fn)
		in.Hooks.Call = chainCall(func(st *absint.State, call *ast.CallExpr, callee string, recv absint.Val, args []absint.Val) (absint.Val, bool) {
			switch callee {
			case "execution.Node.Run":
				st.Emit("SOURCE", call.Pos())
				if srcErr {
					return absint.NN("sourceErr"), true
				}
				return absint.Nil{}, true
			case "execution.(*RecordEventTimeBuffer).Emit":
				st.Emit("EMIT", call.Pos(), args...)
				return absint.Nil{}, true
			}
			return nil, false
		}, errorfHook)
		outs, err := runDecl(in, fn, nil, "")
		ckey := fmt.Sprintf("%s/end of stream/source error=%v", key, srcErr)
		if err != nil {
			c.Unknown("ORD2", ckey, fn.Decl.Pos(), err.Error())
			continue
		}
		bad := ""
		for _, o := range outs {
			emitMax := false
			for _, e := range o.Events {
				if e.Name == "EMIT" && len(e.Args) > 0 && e.Args[0].Canon() == "execution.WatermarkMaxValue" {
					emitMax = true
				}
			}
			if !srcErr && (!emitMax || isNonNilErr(o.Values[0])) {
				bad = "after the source ends the buffer must release everything that is left (Emit(WatermarkMaxValue)) before returning nil"
			}
			if srcErr && !isNonNilErr(o.Values[0]) {
				bad = "a source error must be returned"
			}
		}
		c.Decide(bad == "" && len(outs) > 0, "ORD2", ckey, fn.Decl.Pos(), len(outs), "", bad)
	}
}

// checkJoinWatermarks interprets the `if msg.metadata { … }` blocks of both joins.
func checkJoinWatermarks(c *core.Ctx) {
	p := c.Prog
	for _, typ := range []string{"StreamJoin", "OuterJoin"} {
		fn := p.Func("execution/nodes", "(*"+typ+").Run")
		key := "execution/nodes.(*" + typ + ").Run"
		if fn == nil {
			c.Unknown("JOINWM", key, 0, "anchor not found")
			continue
		}
		c.SawFunc(key)
		var blocks []*ast.IfStmt
		ast.Inspect(fn.Decl.Body, func(n ast.Node) bool {
			if is, ok := n.(*ast.IfStmt); ok && core.ExprStr(is.Cond) == "msg.metadata" {
				blocks = append(blocks, is)
			}
			return true
		})
		if len(blocks) != 3 {
			c.Unknown("JOINWM", key, fn.Decl.Pos(), fmt.Sprintf("%d `if msg.metadata` blocks found, expected 3 (left, right, one-input phase)", len(blocks)))
			continue
		}
		for bi, blk := range blocks[:2] {
			side, other := "leftWatermark", "rightWatermark"
			if strings.Contains(core.FullStr(blk.Body.List[0]), "rightWatermark =") {
				side, other = other, side
			}
			W := "msg.metadataMessage.Watermark"
			for _, rel := range []absint.Rel{absint.LT, absint.EQ, absint.GT} {
				for _, adv := range []bool{true, false} {
					rel, adv := rel, adv
					M := W
					if rel == absint.GT {
						M = other
					}
					o := absint.OrderOracle{}
					o.Set(W, other, rel)
					if adv {
						o.Set(M, "minWatermark", absint.GT)
					} else {
						o.Set(M, "minWatermark", absint.EQ)
					}
					if M != W {
						o.Set(W, "minWatermark", absint.GT)
					} else if rel != absint.EQ {
						o.Set(other, "minWatermark", absint.GT)
					}
					in := newInterp(p, fn)
					in.Hooks.Cond = func(st *absint.State, atom string) (bool, bool) { return o.Decide(atom) }
					in.Hooks.Call = chainCall(timeRelHook(o), func(st *absint.State, call *ast.CallExpr, callee string, recv absint.Val, args []absint.Val) (absint.Val, bool) {
						switch callee {
						case "value:processRecordsUpTo":
							st.Emit("FLUSH", call.Pos(), args...)
							return absint.Nil{}, true
						case "value:metaSend":
							st.Emit("METASEND", call.Pos(), args...)
							return absint.Nil{}, true
						}
						return nil, false
					}, errorfHook)
					outs, err := in.Run(&ast.FuncType{Params: &ast.FieldList{}}, nil, blk.Body, nil, "")
					ckey := fmt.Sprintf("%s/two-input phase block %d/new %s other side, candidate advances=%v", key, bi+1, rel, adv)
					if err != nil {
						c.Unknown("JOINWM", ckey, blk.Pos(), err.Error())
						continue
					}
					bad := ""
					for _, out := range outs {
						if v := out.Env[side]; v == nil || v.Canon() != W {
							bad = "the input's watermark is not stored before the minimum is taken"
						}
						seq := ""
						for _, e := range out.Events {
							switch e.Name {
							case "FLUSH":
								seq += "F"
								if len(e.Args) < 2 || e.Args[1].Canon() != M {
									bad = fmt.Sprintf("buffers must be flushed up to min(left,right) = %s, flushed up to %s", M, e.Args[1].Canon())
								}
							case "METASEND":
								seq += "S"
								wmv := out.Field(e.Args[1], "Watermark")
								if wmv == nil || wmv.Canon() != M {
									bad = fmt.Sprintf("the forwarded watermark must be min(left,right) = %s, is %s", M, out.Show(wmv))
								}
							}
						}
						if adv {
							if seq != "FS" {
								bad = "an advancing minimum must be flushed up to and then forwarded (F,S); the block does " + seq
							}
							if v := out.Env["minWatermark"]; v == nil || v.Canon() != M {
								bad = "the last forwarded watermark is not updated to the new minimum"
							}
						} else if seq != "" && seq != "FS" {
							// re-forwarding an unchanged minimum keeps the sequence non-decreasing and is allowed,
							// but only after the flush
							bad = "an unchanged minimum may be forwarded again only after flushing up to it; the block does " + seq
						}
					}
					c.Decide(bad == "" && len(outs) > 0, "JOINWM", ckey, blk.Pos(), len(outs), "", bad)
				}
			}
		}
		// one-input phase
		{
			blk := blocks[2]
			in := newInterp(p, fn)
			in.Hooks.Call = chainCall(func(st *absint.State, call *ast.CallExpr, callee string, recv absint.Val, args []absint.Val) (absint.Val, bool) {
				switch {
				case callee == "value:processRecordsUpTo":
					st.Emit("FLUSH", call.Pos(), args...)
					return absint.Nil{}, true
				case callee == "value:metaSend":
					st.Emit("METASEND", call.Pos(), args...)
					return absint.Nil{}, true
				case callee == "value:markOneStreamRemains":
					return absint.S("void"), true
				case strings.HasSuffix(callee, ".Empty"):
					return absint.S("empty"), true
				}
				return nil, false
			}, errorfHook)
			outs, err := in.Run(&ast.FuncType{Params: &ast.FieldList{}}, nil, blk.Body, nil, "")
			ckey := key + "/one-input phase"
			bad := ""
			if err != nil {
				c.Unknown("JOINWM", ckey, blk.Pos(), err.Error())
			} else {
				for _, out := range outs {
					seq := ""
					for _, e := range out.Events {
						switch e.Name {
						case "FLUSH":
							seq += "F"
							if e.Args[1].Canon() != "msg.metadataMessage.Watermark" {
								bad = "buffers must be flushed up to the received watermark"
							}
						case "METASEND":
							seq += "S"
							if e.Args[1].Canon() != "msg.metadataMessage" {
								bad = "the received watermark must be forwarded unchanged"
							}
						}
					}
					if seq != "FS" {
						bad = "with one input left its watermark must be flushed up to and then forwarded (F,S); the block does " + seq
					}
				}
				c.Decide(bad == "" && len(outs) > 0, "JOINWM", ckey, blk.Pos(), len(outs), "flush → forward", bad)
			}
		}
		// final flush: the last statements of Run are processRecordsUpTo(WatermarkMaxValue) then return nil
		list := fn.Decl.Body.List
		okFinal := false
		if len(list) >= 2 {
			if is, ok := list[len(list)-2].(*ast.IfStmt); ok && is.Init != nil && strings.Contains(core.ExprStr(is.Init), "processRecordsUpTo(ctx, WatermarkMaxValue") {
				if rs, ok := list[len(list)-1].(*ast.ReturnStmt); ok && len(rs.Results) == 1 && core.ExprStr(rs.Results[0]) == "nil" {
					okFinal = true
				}
			}
		}
		c.Decide(okFinal, "ORD2", key+"/final flush", fn.Decl.Pos(), 1, "processRecordsUpTo(WatermarkMaxValue) → return nil", "the join must flush both buffers completely (WatermarkMaxValue) as its last step before returning nil")
		// processRecordsUpTo flushes both buffers up to the given watermark
		var pr *ast.FuncLit
		ast.Inspect(fn.Decl.Body, func(n ast.Node) bool {
			if as, ok := n.(*ast.AssignStmt); ok && len(as.Lhs) == 1 && core.ExprStr(as.Lhs[0]) == "processRecordsUpTo" {
				pr, _ = as.Rhs[0].(*ast.FuncLit)
			}
			return true
		})
		if pr != nil {
			wmParam := pr.Type.Params.List[1].Names[0].Name
			emits := map[string]bool{}
			ast.Inspect(pr.Body, func(n ast.Node) bool {
				if call, ok := n.(*ast.CallExpr); ok && p.CalleeName(fn.Info(), call) == "execution.(*RecordEventTimeBuffer).Emit" && len(call.Args) == 2 && core.ExprStr(call.Args[0]) == wmParam {
					emits[core.ExprStr(call.Fun)] = true
				}
				return true
			})
			c.Decide(emits["leftRecordBuffer.Emit"] && emits["rightRecordBuffer.Emit"], "JOINWM", key+"/processRecordsUpTo", pr.Pos(), 2, "both buffers released up to the given watermark", "processRecordsUpTo must release both the left and the right buffer up to its watermark argument")
		} else {
			c.Unknown("JOINWM", key+"/processRecordsUpTo", fn.Decl.Pos(), "closure not found")
		}
	}
}

// checkMetaSendOwnership (ORD8).
func checkMetaSendOwnership(c *core.Ctx) {
	p := c.Prog
	nodeI := ifaceOf(p, "execution", "Node")
	n := 0
	for _, fn := range p.AllFuncs("execution/nodes", "table_valued_functions", "outputs", "datasources") {
		if fn.Decl.Name.Name != "Run" || fn.Decl.Recv == nil || fn.Obj == nil || fn.Decl.Type.Params.NumFields() != 3 {
			continue
		}
		recvT := fn.Obj.Type().(*types.Signature).Recv().Type()
		if nodeI == nil || !types.Implements(recvT, nodeI) {
			continue
		}
		info := fn.Info()
		var ms types.Object
		last := fn.Decl.Type.Params.List[len(fn.Decl.Type.Params.List)-1]
		if len(last.Names) > 0 {
			ms = info.Defs[last.Names[len(last.Names)-1]]
		}
		if ms == nil {
			continue
		}
		n++
		handed := 0
		core.WalkStack(fn.Decl.Body, func(nd ast.Node, stack []ast.Node) bool {
			call, ok := nd.(*ast.CallExpr)
			if !ok || len(call.Args) != 3 || p.CalleeName(info, call) != "execution.Node.Run" {
				return true
			}
			id, ok := core.Unparen(call.Args[2]).(*ast.Ident)
			if !ok || info.Uses[id] != ms {
				return true
			}
			handed++
			key := fmt.Sprintf("%s/%s", p.FName(fn), core.ExprStr(call.Fun))
			nested := ""
			for _, s := range stack {
				switch s.(type) {
				case *ast.FuncLit:
					nested = "inside a callback that runs once per record"
				case *ast.ForStmt, *ast.RangeStmt:
					if nested == "" {
						nested = "inside a loop"
					}
				}
			}
			c.Decide(nested == "", "ORD8", key, call.Pos(), 1, "handed to a child that runs once per Run",
				"the node hands its metaSend to "+core.ExprStr(call.Fun)+" "+nested+": that child is run again and again and its watermarks start over each time, so the watermarks this node forwards go backwards")
			return true
		})
		if handed > 1 {
			c.Bad("ORD8", p.FName(fn)+"/several children", fn.Decl.Pos(), handed, "metaSend is handed to several child runs: their watermark sequences interleave")
		}
	}
	if n < 15 {
		c.Unknown("ORD8", "<Run implementations>", 0, fmt.Sprintf("only %d Node.Run implementations found", n))
	}
}

// checkTriggerEventTime (TRIGTIME): CustomTriggerGroupBy.trigger sends the retraction of the previously sent row and
// the new row with one and the same event time — the time of the event that fired the trigger (or the row's own
// event-time key column when that is earlier).  A retraction stamped with the time of the row it retracts may lie at or
// below a watermark that was forwarded in between.
func checkTriggerEventTime(c *core.Ctx) {
	p := c.Prog
	fn := p.Func("execution/nodes", "(*CustomTriggerGroupBy).trigger")
	key := "execution/nodes.(*CustomTriggerGroupBy).trigger"
	if fn == nil {
		c.Unknown("TRIGTIME", key, 0, "anchor not found")
		return
	}
	c.SawFunc(key)
	info := fn.Info()
	ids := typeIDs(p)
	curName := ""
	for _, f := range fn.Decl.Type.Params.List {
		if core.ExprStr(f.Type) == "time.Time" && len(f.Names) == 1 {
			curName = f.Names[0].Name
		}
	}
	if curName == "" {
		c.Unknown("TRIGTIME", key, fn.Decl.Pos(), "no time.Time parameter (the firing event's time) found")
		return
	}
	for _, sc := range []struct {
		name      string
		index     int64
		keyBefore bool
	}{{"no event-time key", -1, false}, {"event-time key earlier than the firing event", 1, true}, {"event-time key not earlier", 1, false}} {
		sc := sc
		in := newInterp(p, fn)
		in.MaxPaths = 4000
		in.Hooks.Assert = assertOK
		in.Hooks.Loop = func(st *absint.State, loop ast.Stmt) *absint.LoopSpec {
			if loopContainsCall(p, info, loop, "execution/nodes.Aggregate.Trigger") {
				if rs, ok := loop.(*ast.RangeStmt); ok && strings.Contains(core.ExprStr(rs.X), "Aggregates") {
					return &absint.LoopSpec{Cases: []string{"AGG"}, MaxIter: 1, RefStep: func(ref, cs string) string { return "" }}
				}
				return &absint.LoopSpec{Cases: []string{"KEY"}, MaxIter: 1, MinIter: 1, RefStep: func(ref, cs string) string { return "" }}
			}
			return nil
		}
		in.Hooks.Field = func(st *absint.State, base absint.Val, sel string) (absint.Val, bool) {
			if sel == "keyEventTimeIndex" {
				return absint.Int(sc.index), true
			}
			return nil, false
		}
		in.Hooks.Index = func(st *absint.State, x, i absint.Val) (absint.Val, bool) {
			if strings.HasSuffix(x.Canon(), "AggregatedSetSize") || x.Canon() == "SIZES" {
				return absint.Int(1), true
			}
			return nil, false
		}
		in.Hooks.Call = chainCall(func(st *absint.State, call *ast.CallExpr, callee string, recv absint.Val, args []absint.Val) (absint.Val, bool) {
			switch {
			case callee == "execution/nodes.Aggregate.Trigger":
				return absint.S("aggResult"), true
			case callee == "time.Time.After" && len(args) == 1:
				st.Emit("AFTER", call.Pos(), recv, args[0])
				return absint.Bool(sc.keyBefore), true
			case msLookup.MatchString(callee):
				return st.NewObj("item", map[string]absint.Val{"Aggregates": absint.S("AGGS"), "AggregatedSetSize": absint.S("SIZES")}), true
			case msRemove.MatchString(callee):
				return st.NewObj("prev", map[string]absint.Val{"Values": absint.S("PREVVALUES"), "EventTime": absint.S("PREVTIME")}), true
			case msInsert.MatchString(callee):
				if len(args) == 1 {
					st.Emit("REMEMBER", call.Pos(), args[0])
				}
				return absint.Nil{}, true
			case callee == "execution.NewRecord" && len(args) == 3:
				st.Emit("REC", call.Pos(), args...)
				return absint.S("REC@" + fmt.Sprint(len(st.Events))), true
			case callee == "value:produce":
				return absint.Nil{}, true
			}
			return nil, false
		}, ctorHook(ids), errorfHook)
		outs, err := in.Run(fn.Decl.Type, nil, fn.Decl.Body, nil, "")
		ckey := key + "/" + sc.name
		if err != nil {
			c.Unknown("TRIGTIME", ckey, fn.Decl.Pos(), err.Error())
			continue
		}
		bad := ""
		full := 0
		for _, o := range outs {
			if o.Kind != "return" || len(o.Values) != 1 || !absint.IsNilVal(o.Values[0]) {
				continue
			}
			var retr, add []string
			for _, e := range o.Events {
				if e.Name != "REC" {
					continue
				}
				if b, ok := e.Args[1].(absint.Const); ok && b.Canon() == "true" {
					retr = append(retr, e.Args[2].Canon())
				} else {
					add = append(add, e.Args[2].Canon())
				}
			}
			if len(retr) == 0 || len(add) == 0 {
				continue
			}
			full++
			want := curName
			if sc.keyBefore {
				want = "" // the row's own key column: only agreement is required
			}
			for _, r := range retr {
				if r != add[0] {
					bad = fmt.Sprintf("the retraction carries event time %s, the new row %s: both must carry the time of the firing event", r, add[0])
				}
			}
			if want != "" && add[0] != want {
				bad = fmt.Sprintf("the new row must carry the firing event's time %s; it carries %s", want, add[0])
			}
			if sc.keyBefore && (add[0] == curName || strings.Contains(add[0], "PREV")) {
				bad = fmt.Sprintf("with an event-time key column earlier than the firing event the rows must carry that column's time; they carry %s", add[0])
			}
		}
		if bad == "" && full == 0 {
			bad = "no path sends both a retraction and a new row"
		}
		c.Decide(bad == "", "TRIGTIME", ckey, fn.Decl.Pos(), len(outs), "retraction and new row carry the same, current event time", bad)
	}
}

// checkJoinRecordTimes (JOINTIME): a join processes a buffered record only once the forwarded watermark is still below
// its event time, so everything it emits while processing that record must carry an event time not older than the
// record's: the record's own event time, or a variable started from it and only ever raised (`if x.After(v) { v = x }`).
// An event time taken from stored state alone (the time of an old record of the other side) can lie behind a watermark
// that has already been forwarded.
func checkJoinRecordTimes(c *core.Ctx, rule string) {
	p := c.Prog
	total := 0
	for _, typ := range []string{"StreamJoin", "OuterJoin"} {
		root := p.Func("execution/nodes", "(*"+typ+").receiveRecord")
		if root == nil {
			continue
		}
		rootKey := "execution/nodes.(*" + typ + ").receiveRecord"
		c.SawFunc(rootKey)
		rootRec := ""
		for _, f := range root.Decl.Type.Params.List {
			for _, nm := range f.Names {
				if t := root.Info().TypeOf(f.Type); t != nil && strings.HasSuffix(t.String(), "execution.Record") {
					rootRec = nm.Name
				}
			}
		}
		if rootRec == "" {
			c.Unknown(rule, rootKey, root.Decl.Pos(), "no execution.Record parameter")
			continue
		}
		// every place a record is built while this record is processed: in the function, in the helpers it hands
		// the record to, in the callbacks they pass on. Each is interpreted with the stored time it compares with
		// earlier than / equal to / later than the record's: the stamp must be the record's time, or a time that was
		// found to be not earlier.
		seenUnit := map[string]bool{}
		n := 0
		for _, bf := range helperClosureBound(p, root) {
			bf := bf
			info := bf.fn.Info()
			// the processed record's event time, as this function sees it
			var rTimes []string
			if bf.fn == root {
				rTimes = []string{rootRec + ".EventTime"}
			} else {
				for prm, to := range bf.binds {
					switch to {
					case rootRec:
						rTimes = append(rTimes, prm+".EventTime")
					case rootRec + ".EventTime":
						rTimes = append(rTimes, prm)
					}
				}
			}
			type unit struct {
				lit *ast.FuncLit // nil: the function itself
			}
			var units []unit
			core.WalkStack(bf.fn.Decl.Body, func(nd ast.Node, stack []ast.Node) bool {
				call, ok := nd.(*ast.CallExpr)
				if !ok || len(call.Args) != 3 || !strings.HasSuffix(p.CalleeName(info, call), "execution.NewRecord") {
					return true
				}
				u := unit{core.InnermostFuncLit(stack)}
				for _, e := range units {
					if e == u {
						return true
					}
				}
				units = append(units, u)
				return true
			})
			for _, u := range units {
				sig := fmt.Sprintf("%s/%v/%v", p.FName(bf.fn), u.lit != nil && true, rTimes)
				if u.lit != nil {
					sig += fmt.Sprint(u.lit.Pos())
				}
				if seenUnit[sig] {
					continue
				}
				seenUnit[sig] = true
				if len(rTimes) == 0 {
					n++
					total++
					c.Bad(rule, fmt.Sprintf("%s/record %d", rootKey, n), bf.fn.Decl.Pos(), 1, p.FName(bf.fn)+" builds a record while a record is processed but is not handed that record (or its event time): the stamp cannot depend on it")
					continue
				}
				isR := func(s string) bool {
					for _, r := range rTimes {
						if s == r {
							return true
						}
					}
					return false
				}
				type stamp struct {
					pos  token.Pos
					flag string
					bad  string
				}
				stamps := map[token.Pos]*stamp{}
				var order []token.Pos
				cases := 0
				var runErr error
				for _, rel := range []absint.Rel{absint.LT, absint.EQ, absint.GT} {
					rel := rel
					in := newInterp(p, bf.fn)
					in.MaxPaths = 4000
					in.Hooks.Assert = assertOK
					in.Hooks.Loop = func(st *absint.State, loop ast.Stmt) *absint.LoopSpec {
						return &absint.LoopSpec{Cases: []string{"x"}, MaxIter: 1, MinIter: 1, RefStep: func(ref, cs string) string { return ref }}
					}
					in.Hooks.Call = chainCall(func(st *absint.State, call *ast.CallExpr, callee string, recv absint.Val, args []absint.Val) (absint.Val, bool) {
						switch callee {
						case "time.Time.After", "time.Time.Before", "time.Time.Equal":
							if len(args) != 1 || recv == nil {
								return nil, false
							}
							a, b := recv.Canon(), args[0].Canon()
							// rel is (stored time) rel (record's time)
							r := rel
							switch {
							case isR(b) && !isR(a):
								st.Emit("COMPARED", call.Pos(), recv)
							case isR(a) && !isR(b):
								st.Emit("COMPARED", call.Pos(), args[0])
								r = map[absint.Rel]absint.Rel{absint.LT: absint.GT, absint.GT: absint.LT, absint.EQ: absint.EQ}[rel]
							default:
								return nil, false
							}
							switch callee {
							case "time.Time.After":
								return absint.Bool(r == absint.GT), true
							case "time.Time.Before":
								return absint.Bool(r == absint.LT), true
							default:
								return absint.Bool(r == absint.EQ), true
							}
						case "execution.NewRecord":
							if len(args) == 3 {
								st.Emit("STAMP", call.Pos(), args[1], args[2])
							}
							return nil, false
						case "value:produce":
							return absint.Nil{}, true
						}
						if _, ok := isTreeOp(callee); ok {
							return absint.S("treeop"), true
						}
						return nil, false
					}, recordCtorHook, errorfHook)
					var outs []*absint.Outcome
					var err error
					if u.lit != nil {
						outs, err = runLit(in, u.lit, nil, "")
					} else {
						outs, err = runDecl(in, bf.fn, nil, "")
					}
					if err != nil {
						runErr = err
						break
					}
					for _, o := range outs {
						cases++
						compared := map[string]bool{}
						for _, e := range o.Events {
							switch e.Name {
							case "COMPARED":
								compared[e.Args[0].Canon()] = true
							case "STAMP":
								sp := stamps[e.Pos]
								if sp == nil {
									sp = &stamp{pos: e.Pos, flag: e.Args[0].Canon()}
									stamps[e.Pos] = sp
									order = append(order, e.Pos)
								}
								t := e.Args[1].Canon()
								switch {
								case isR(t):
								case compared[t] && rel != absint.LT:
								case compared[t]:
									sp.bad = fmt.Sprintf("the emitted record is stamped with %s although it was found to be earlier than the event time of the record being processed: it can lie behind a forwarded watermark", t)
								default:
									sp.bad = fmt.Sprintf("the emitted record is stamped with %s, which does not depend on the event time of the record being processed: a stored event time can lie at or below a watermark the join has already forwarded, which makes the emitted record late", t)
								}
							}
						}
					}
				}
				if runErr != nil {
					n++
					total++
					c.Unknown(rule, fmt.Sprintf("%s/record %d", rootKey, n), bf.fn.Decl.Pos(), runErr.Error())
					continue
				}
				sort.Slice(order, func(i, j int) bool { return order[i] < order[j] })
				for _, pos := range order {
					sp := stamps[pos]
					n++
					total++
					ckey := fmt.Sprintf("%s/record %d (retraction=%s)", rootKey, n, sp.flag)
					c.Decide(sp.bad == "", rule, ckey, pos, cases, "event time ≥ the processed record's event time", sp.bad)
				}
			}
		}
	}
	c.Floor(rule, 4, "records emitted by StreamJoin and OuterJoin while processing a record")
	_ = total
}

// checkWatermarkFiringTriggers (WMFWD): a GROUP BY by an event-time key forwards the watermarks it receives
// (ORD3: WatermarkReceived → trigger → metaSend) and stamps what it emits with the key's event time. That is only
// free of late data if every key at or below a watermark has been emitted before the watermark is forwarded — which
// only a trigger that reacts to watermarks guarantees. Triggers whose WatermarkReceived does nothing (counting, end of
// stream) leave such keys pending and emit them later, behind the forwarded watermark. So the planner must either
// keep the time field only when a watermark trigger is among the triggers, or add one.
func checkWatermarkFiringTriggers(c *core.Ctx, rule string) {
	p := c.Prog
	var inert []string
	for _, fr := range p.AllFuncs("execution") {
		if core.Rel(fr.Pkg) != "execution" || fr.Decl.Name.Name != "WatermarkReceived" || fr.Decl.Recv == nil {
			continue
		}
		if len(fr.Decl.Body.List) == 0 {
			inert = append(inert, p.FName(fr))
		}
	}
	sort.Strings(inert)
	fn := p.Func("logical", "(*GroupBy).Typecheck")
	key := "logical.(*GroupBy).Typecheck/time field kept for every trigger"
	if fn == nil {
		c.Unknown(rule, key, 0, "anchor not found")
		return
	}
	c.SawFunc("logical.(*GroupBy).Typecheck")
	// the schema's time field argument, and whether it is ever withdrawn depending on the triggers
	var timeArg string
	var pos token.Pos
	withdrawn := false
	ast.Inspect(fn.Decl.Body, func(n ast.Node) bool {
		switch v := n.(type) {
		case *ast.CallExpr:
			if strings.HasSuffix(p.CalleeName(fn.Info(), v), "physical.NewSchema") && len(v.Args) >= 2 {
				timeArg = core.ExprStr(v.Args[1])
				pos = v.Pos()
			}
		case *ast.IfStmt:
			cs := core.FullStr(v.Cond)
			if strings.Contains(cs, "TriggerType") || strings.Contains(cs, "trigger") || strings.Contains(cs, "Trigger") {
				ast.Inspect(v.Body, func(m ast.Node) bool {
					if as, ok := m.(*ast.AssignStmt); ok && len(as.Lhs) == 1 && strings.Contains(strings.ToLower(core.ExprStr(as.Lhs[0])), "eventtimeindex") {
						withdrawn = true
					}
					if call, ok := m.(*ast.CallExpr); ok && strings.HasPrefix(core.ExprStr(call.Fun), "append") && strings.Contains(core.FullStr(call), "Watermark") {
						withdrawn = true // a watermark trigger is added
					}
					return true
				})
			}
		}
		return true
	})
	if timeArg == "" {
		c.Unknown(rule, key, fn.Decl.Pos(), "the output schema construction was not found")
		return
	}
	c.Decide(len(inert) == 0 || withdrawn || timeArg == "-1", rule, key, pos, len(inert)+1, "the time field is kept only with a trigger that fires on watermarks",
		fmt.Sprintf("the output schema keeps the event-time key as time field (%s) whatever the trigger, and the node forwards every watermark; %s ignore watermarks, so with TRIGGER COUNTING n (n > 1) or ON END OF STREAM a key at or below a forwarded watermark is still pending and is emitted later with its old event time — late data created by the operator itself", timeArg, strings.Join(inert, ", ")))
}
