package props

import (
	"fmt"
	"go/ast"
	"go/constant"
	"go/types"
	"os"
	"strings"

	"octoverif/core"
	"octoverif/engine/absint"
	"octoverif/engine/tables"
)

func init() {
	register(&Check{ID: "C12", Run: runC12,
		Explanation: "LIKE: the pattern translator's loop is explored as a product with its reference automaton (state: previous rune was the escape character) over rune classes — every Go-regexp metacharacter, `_`, `%`, the escape character and an ordinary rune: a metacharacter is emitted escaped, `_`→`.`, `%`→`.*`, an escaped `_`/`%`/`\\` literally (the backslash doubled), anything else after the escape is an error, ordinary runes are copied; the pattern is anchored (^…$) and, because `.` is emitted, compiled with the s flag so that `_`/`%` match newlines; a trailing escape is an error. " +
			"RE: `~` compiles exactly its second argument and matches its first; `~*` does the same with the (?i) flag and never case-maps the pattern (which would turn \\S into \\s) or the subject; the cache key of all three operators is the string that determines the compiled expression. " +
			"REV: reverse() never indexes a rune slice with a byte offset. TAB2: upper/lower/replace/len delegate to strings.ToUpper/ToLower/Replace(-1)/len; position returns strings.Index, NULL for −1. SUB: substr slices values[0].Str from values[1].Int (bounds are C07's PAN2).",
		NotDecided: []string{"that Go's regexp engine implements the emitted expression as expected", "Unicode case mapping of upper/lower", "whether len and position should count bytes or characters (the descriptions do not say; bytes today)"},
	})
}

func findDesc(t *fnTable, name string, nargs int) *tables.Descriptor {
	for _, d := range t.descs {
		if d.Name == name && d.HasArgs && len(d.ArgTypes) == nargs {
			return d
		}
	}
	return nil
}

// litAssignedTo finds `name := func…` inside a function literal.
func litAssignedTo(lit *ast.FuncLit, name string) *ast.FuncLit {
	var out *ast.FuncLit
	ast.Inspect(lit.Body, func(n ast.Node) bool {
		if as, ok := n.(*ast.AssignStmt); ok && len(as.Lhs) == 1 && len(as.Rhs) == 1 {
			if id, ok := as.Lhs[0].(*ast.Ident); ok && id.Name == name {
				if fl, ok := as.Rhs[0].(*ast.FuncLit); ok {
					out = fl
				}
			}
		}
		return true
	})
	return out
}

const regexpSpecial = `\.+*?()|[]{}^$`

func runC12(c *core.Ctx) {
	ids := typeIDs(c.Prog)
	c.Rule("LIKE", "LIKE pattern → regexp translation per rune class (product with escape automaton)")
	c.Rule("RE", "~ / ~* compile the pattern unchanged (with (?i)); cache keys determine the compiled expression")
	c.Rule("REV", "reverse never mixes byte offsets and rune indices")
	c.Rule("TAB2", "string functions delegate to the intended library function")
	c.Rule("SUB", "substr slices the first argument from the second")
	t := loadFunctions(c, "LIKE")
	if t == nil {
		return
	}
	checkLikeTranslator(c, t, ids)
	checkRegexOperators(c, t, ids)
	checkReverse(c, t)
	checkDelegations(c, t, ids, stringDelegations, "TAB2")
	checkPosition(c, t, ids)
	checkSubstrShape(c, t, ids)
}

func checkLikeTranslator(c *core.Ctx, t *fnTable, ids map[string]int64) {
	d := findDesc(t, "like", 2)
	key := "functions.like"
	if d == nil || d.Function == nil {
		c.Unknown("LIKE", key, 0, "descriptor not found")
		return
	}
	// the translator: the local closure that returns (*regexp.Regexp, error)
	var tr *ast.FuncLit
	for _, fl := range findFuncLits(d.Function.Body) {
		if fl.Type.Results != nil && len(fl.Type.Results.List) == 2 && strings.Contains(core.ExprStr(fl.Type.Results.List[0].Type), "regexp.Regexp") {
			tr = fl
		}
	}
	if tr == nil {
		// the translation may live in the factory around the function or in package-level helpers: the whole function
		// is interpreted below with its helpers followed, so this literal only serves as the position of the report
		tr = d.Function
	}
	// constants likeEscape/likeAny/likeAll are read from the code (they are typed constants)
	classes := []string{}
	runeOf := map[string]rune{}
	for _, r := range regexpSpecial {
		n := "special " + string(r)
		classes = append(classes, n)
		runeOf[n] = r
	}
	for n, r := range map[string]rune{"any _": '_', "all %": '%', "ordinary a": 'a', "ordinary space": ' ', "ordinary é": 'é', "newline": '\n'} {
		classes = append(classes, n)
		runeOf[n] = r
	}
	sortStrings(classes)
	in := withMaxPaths(newLitInterp(c.Prog, t.info, "functions"), 8000)
	in.Hooks.Loop = func(st *absint.State, loop ast.Stmt) *absint.LoopSpec {
		return &absint.LoopSpec{Cases: classes, RefStep: func(ref, cs string) string {
			if strings.HasPrefix(ref, "err") {
				return "err!"
			}
			if ref == "esc" {
				r := runeOf[cs]
				if r == '_' || r == '%' || r == '\\' {
					return ""
				}
				return "err"
			}
			if runeOf[cs] == '\\' {
				return "esc"
			}
			return ""
		}}
	}
	in.Hooks.Index = func(st *absint.State, x, i absint.Val) (absint.Val, bool) {
		if st.IterNow != "" && (x.Canon() == "pattern" || x.Canon() == "values[1].Str") {
			st.Emit("ITER "+st.IterNow, 0)
			return absint.Const{V: constant.MakeInt64(int64(runeOf[st.IterNow]))}, true
		}
		return nil, false
	}
	var written func(e absint.Event) (string, bool)
	written = func(e absint.Event) (string, bool) {
		switch {
		case strings.HasSuffix(e.Name, "(*Builder).WriteRune") && len(e.Args) == 2:
			if k, ok := absint.AsInt(e.Args[1]); ok {
				return string(rune(k)), true
			}
			return "?", true
		case strings.HasSuffix(e.Name, "(*Builder).WriteString") && len(e.Args) == 2:
			if cst, ok := e.Args[1].(absint.Const); ok && cst.V.Kind() == constant.String {
				return constant.StringVal(cst.V), true
			}
			return "?", true
		}
		return "", false
	}
	in.Hooks.Call = chainCall(func(st *absint.State, call *ast.CallExpr, callee string, recv absint.Val, args []absint.Val) (absint.Val, bool) {
		switch {
		case strings.Contains(callee, "ristretto") && strings.HasSuffix(callee, ".Get"):
			return absint.Tuple{Elems: []absint.Val{absint.Nil{}, absint.Bool(false)}}, true
		case strings.Contains(callee, "ristretto") && strings.HasSuffix(callee, ".Set"):
			return absint.Bool(true), true
		case callee == "regexp.Compile":
			st.Emit("COMPILE", call.Pos(), args...)
			return absint.Tuple{Elems: []absint.Val{absint.NN("compiled"), absint.Nil{}}}, true
		case callee == "regexp.(*Regexp).MatchString":
			return absint.S("matched"), true
		case (callee == "strings.ContainsRune" || callee == "strings.IndexRune") && len(args) == 2:
			if sc, ok := args[0].(absint.Const); ok && sc.V.Kind() == constant.String {
				if r, ok := absint.AsInt(args[1]); ok {
					if callee == "strings.ContainsRune" {
						return absint.Bool(strings.ContainsRune(constant.StringVal(sc.V), rune(r))), true
					}
					return absint.Int(int64(strings.IndexRune(constant.StringVal(sc.V), rune(r)))), true
				}
			}
		}
		return nil, false
	}, ctorHook(ids), errorfHook)
	// interpret the whole closure so that the local helper closures (needsEscaping) are inlined
	outs, err := runLit(in, d.Function, nil, "")
	if err != nil {
		c.Unknown("LIKE", key, tr.Pos(), err.Error())
		return
	}
	bad := ""
	coveredNormal, coveredEsc := map[string]bool{}, map[string]bool{}
	for _, o := range outs {
		if os.Getenv("OCTOVERIF_DEBUG") != "" {
			fmt.Fprintln(os.Stderr, "TRACE", o.Kind, o.Trace, o.Ref)
		}
		// segment the writes by iteration
		type seg struct {
			cls string
			w   string
		}
		var pre, post string
		var segs []seg
		loopDone := o.Kind == "return" && strings.HasPrefix(o.Ref, "exit:")
		state := "pre"
		for _, e := range o.Events {
			if strings.HasPrefix(e.Name, "ITER ") {
				segs = append(segs, seg{cls: strings.TrimPrefix(e.Name, "ITER ")})
				state = "loop"
				continue
			}
			if e.Name == "COMPILE" {
				state = "done"
				continue
			}
			w, ok := written(e)
			if !ok {
				continue
			}
			switch state {
			case "pre":
				pre += w
			case "loop":
				segs[len(segs)-1].w += w
			}
		}
		// writes after the last iteration that belong to the suffix: only on completed paths, the
		// last segment then contains the suffix as well; recompute by re-running the automaton
		esc := false
		for i, s := range segs {
			r := runeOf[s.cls]
			want := ""
			isErr := false
			if esc {
				switch r {
				case '_', '%':
					want = string(r)
				case '\\':
					want = `\\`
				default:
					isErr = true
				}
				coveredEsc[s.cls] = true
				esc = false
			} else {
				coveredNormal[s.cls] = true
				switch {
				case r == '\\':
					esc = true
				case r == '_':
					want = "."
				case r == '%':
					want = ".*"
				case strings.ContainsRune(regexpSpecial, r):
					want = `\` + string(r)
				default:
					want = string(r)
				}
			}
			got := s.w
			if i == len(segs)-1 && loopDone {
				// the suffix written after the loop is attached to the last segment
				if strings.HasPrefix(got, want) {
					post = got[len(want):]
					got = want
				}
			}
			if isErr {
				if i == len(segs)-1 && o.Kind == "return" && len(o.Values) == 2 && isNonNilErr(o.Values[1]) {
					continue
				}
				if bad == "" {
					bad = fmt.Sprintf("escaping %q (not _, %% or the escape character) must be an error; path: %s", string(r), o.String())
				}
				continue
			}
			if got != want && bad == "" {
				st := "in normal state"
				if want == string(r) && (r == '_' || r == '%') || want == `\\` {
					st = "after the escape character"
				}
				bad = fmt.Sprintf("rune class %q %s must be translated to %q, the translator writes %q (a pattern containing it matches the wrong strings)", s.cls, st, want, got)
			}
		}
		if len(segs) == 0 && loopDone {
			// empty pattern: everything written is prefix + suffix
			post = ""
		}
		if loopDone && o.Kind == "return" && len(o.Values) == 2 {
			if esc {
				if !isNonNilErr(o.Values[1]) && bad == "" {
					bad = "a pattern ending in the escape character must be rejected: " + o.String()
				}
				continue
			}
			if isNonNilErr(o.Values[1]) {
				continue
			}
			full := pre
			if len(segs) == 0 {
				// pre holds prefix+suffix
				if !(strings.HasSuffix(full, "$")) && bad == "" {
					bad = "the expression is not anchored at the end: writes " + full
				}
				full = strings.TrimSuffix(full, "$")
			} else if post != "$" && bad == "" {
				bad = fmt.Sprintf("after the pattern the translator must write the end anchor $, writes %q", post)
			}
			if (full != "(?s)^" && full != "^(?s)") && bad == "" {
				bad = fmt.Sprintf("before the pattern the translator must write the start anchor and the s flag (so that _ and %% match newlines): writes %q, expected \"(?s)^\"", full)
			}
		}
	}
	for _, cls := range classes {
		if !coveredNormal[cls] && bad == "" {
			bad = "rune class " + cls + " was not explored in the normal state"
		}
	}
	for _, cls := range []string{"any _", "all %", `special \`, "ordinary a"} {
		if !coveredEsc[cls] && bad == "" {
			bad = "rune class " + cls + " was not explored after the escape character"
		}
	}
	c.Decide(bad == "", "LIKE", key+"/translator", tr.Pos(), len(outs), fmt.Sprintf("%d rune classes × 2 states agree with the reference translation; anchored; s flag", len(classes)), bad)

	// the closure matches values[0] against the translation of values[1]
	in2 := newLitInterp(c.Prog, t.info, "functions")
	trObj := ""
	in2.Hooks.Call = chainCall(func(st *absint.State, call *ast.CallExpr, callee string, recv absint.Val, args []absint.Val) (absint.Val, bool) {
		// the translation step: whatever is called (a local closure, a package-level function) that yields
		// (*regexp.Regexp, error); the pattern it is given is the string argument
		if tv, ok := t.info.Types[call]; ok && tv.Type != nil {
			if tup, isTup := tv.Type.(*types.Tuple); isTup && tup.Len() == 2 && strings.HasSuffix(tup.At(0).Type().String(), "regexp.Regexp") && !strings.HasPrefix(callee, "regexp.") {
				for _, a := range args {
					if a != nil && strings.HasSuffix(a.Canon(), ".Str") {
						trObj = a.Canon()
					}
				}
				return absint.Tuple{Elems: []absint.Val{absint.NN("REG"), absint.Nil{}}}, true
			}
		}
		if callee == "regexp.(*Regexp).MatchString" {
			st.Emit("MATCH", call.Pos(), append([]absint.Val{recv}, args...)...)
			return absint.S("matched"), true
		}
		return nil, false
	}, ctorHook(ids), errorfHook)
	outs2, err := runLit(in2, d.Function, nil, "")
	ok := err == nil && trObj == "values[1].Str"
	for _, o := range outs2 {
		m := false
		for _, e := range o.Events {
			if e.Name == "MATCH" && len(e.Args) == 2 && e.Args[0].Canon() == "REG" && e.Args[1].Canon() == "values[0].Str" {
				m = true
			}
		}
		if !m || o.Kind != "return" || o.Field(o.Values[0], "Boolean") == nil || o.Field(o.Values[0], "Boolean").Canon() != "matched" {
			ok = false
		}
	}
	c.Decide(ok && len(outs2) > 0, "LIKE", key+"/match", d.Function.Pos(), len(outs2), "NewBoolean(translate(values[1].Str).MatchString(values[0].Str))", "LIKE must match its first argument against the translation of its second: "+showOutcomes(outs2))
}

func checkRegexOperators(c *core.Ctx, t *fnTable, ids map[string]int64) {
	for _, op := range []struct {
		name string
		want []string // acceptable canonical forms of the compiled expression
	}{{"~", []string{"values[1].Str"}}, {"~*", []string{`("(?i)" + values[1].Str)`}}} {
		d := findDesc(t, op.name, 2)
		key := "functions." + op.name
		if d == nil || d.Function == nil {
			c.Unknown("RE", key, 0, "descriptor not found")
			continue
		}
		// the function's parameter (the argument values), whatever it is called
		vals := "values"
		if pl := d.Function.Type.Params; pl != nil && len(pl.List) > 0 && len(pl.List[0].Names) > 0 {
			vals = pl.List[0].Names[0].Name
		}
		rename := func(s string) string { return strings.ReplaceAll(s, vals+"[", "values[") }
		for _, cached := range []bool{false, true} {
			cached := cached
			in := newLitInterp(c.Prog, t.info, "functions")
			getKey, setKey, compiled, subject := "", "", "", ""
			in.Hooks.Assert = assertOK
			in.Hooks.Call = chainCall(func(st *absint.State, call *ast.CallExpr, callee string, recv absint.Val, args []absint.Val) (absint.Val, bool) {
				switch {
				case strings.Contains(callee, "ristretto") && strings.HasSuffix(callee, ".Get"):
					getKey = rename(args[0].Canon())
					if cached {
						return absint.Tuple{Elems: []absint.Val{absint.NN("CACHED"), absint.Bool(true)}}, true
					}
					return absint.Tuple{Elems: []absint.Val{absint.Nil{}, absint.Bool(false)}}, true
				case strings.Contains(callee, "ristretto") && strings.HasSuffix(callee, ".Set"):
					setKey = rename(args[0].Canon())
					return absint.Bool(true), true
				case callee == "regexp.Compile":
					compiled = rename(args[0].Canon())
					return absint.Tuple{Elems: []absint.Val{absint.NN("COMPILED"), absint.Nil{}}}, true
				case callee == "regexp.(*Regexp).MatchString":
					subject = rename(args[0].Canon())
					return absint.S("matched"), true
				}
				return nil, false
			}, ctorHook(ids), errorfHook)
			outs, err := runLit(in, d.Function, nil, "")
			ckey := fmt.Sprintf("%s/cached=%v", key, cached)
			if err != nil {
				c.Unknown("RE", ckey, d.Function.Pos(), err.Error())
				continue
			}
			bad := ""
			accept := func(s string) bool {
				for _, w := range op.want {
					if s == w {
						return true
					}
				}
				return false
			}
			if !cached {
				switch {
				case strings.Contains(compiled, "strings.To"):
					bad = "the pattern is case-mapped before it is compiled (" + compiled + "): escapes such as \\S, \\W, \\D, \\B and \\P change their meaning"
				case !accept(compiled):
					bad = fmt.Sprintf("compiles %s, expected %s", compiled, strings.Join(op.want, " or "))
				case setKey != getKey:
					bad = "the cache is written under " + setKey + " but read under " + getKey
				}
			}
			if bad == "" && !(getKey == "values[1].Str" || accept(getKey)) {
				bad = "the cache key (" + getKey + ") is not the string that determines the compiled expression"
			}
			if bad == "" && subject != "values[0].Str" {
				bad = "matches " + subject + " instead of the unmodified first argument (case-mapping the subject changes what e.g. [A-Z] or \\p{Lu} match)"
			}
			c.Decide(bad == "" && len(outs) > 0, "RE", ckey, d.Function.Pos(), len(outs), "compile "+op.want[0]+", match values[0].Str", bad)
		}
	}
}

// checkReverse: inside `reverse`, a []rune is never indexed with the byte offset of a string range.
func checkReverse(c *core.Ctx, t *fnTable) {
	d := findDesc(t, "reverse", 1)
	key := "functions.reverse"
	if d == nil || d.Function == nil {
		c.Unknown("REV", key, 0, "descriptor not found")
		return
	}
	bad := ""
	runeBased := false
	info := t.info
	// the function and the helpers it hands the work to
	for _, body := range bodyClosure(c.Prog, t.fm.Pkg.PkgPath, info, d.Function.Body) {
		ast.Inspect(body, func(n ast.Node) bool {
			rs, ok := n.(*ast.RangeStmt)
			if !ok {
				return true
			}
			tv, ok := info.Types[rs.X]
			if !ok {
				return true
			}
			if b, ok := tv.Type.Underlying().(*types.Basic); !ok || b.Info()&types.IsString == 0 {
				return true
			}
			kid, ok := rs.Key.(*ast.Ident)
			if !ok || kid.Name == "_" {
				return true
			}
			kobj := info.Defs[kid]
			ast.Inspect(rs.Body, func(m ast.Node) bool {
				ix, ok := m.(*ast.IndexExpr)
				if !ok {
					return true
				}
				xt, ok := info.Types[ix.X]
				if !ok {
					return true
				}
				sl, ok := xt.Type.Underlying().(*types.Slice)
				if !ok {
					return true
				}
				if eb, ok := sl.Elem().Underlying().(*types.Basic); ok && eb.Kind() == types.Int32 && core.ReadsObj(info, ix.Index, kobj) {
					bad = "the byte offset of `range " + core.ExprStr(rs.X) + "` indexes the rune slice " + core.ExprStr(ix.X) + ": for multi-byte characters the positions do not correspond (zero runes / wrong order in the result)"
				}
				return true
			})
			return true
		})
		// a rune slice sized by the byte length is the other half of the same mistake
		ast.Inspect(body, func(n ast.Node) bool {
			call, ok := n.(*ast.CallExpr)
			if !ok || core.ExprStr(call.Fun) != "make" || len(call.Args) < 2 || core.ExprStr(call.Args[0]) != "[]rune" {
				return true
			}
			if strings.HasPrefix(core.ExprStr(call.Args[1]), "len(values[0].Str") && bad == "" {
				bad = "a []rune is allocated with the byte length of the string: the surplus elements end up as NUL characters in the result"
			}
			return true
		})
		// the unit that is reversed is the character: element writes go to a []rune (or the body decodes with unicode/utf8)
		ast.Inspect(body, func(n ast.Node) bool {
			switch x := n.(type) {
			case *ast.CallExpr:
				f := core.ExprStr(x.Fun)
				if f == "[]rune" || strings.HasPrefix(f, "utf8.") {
					runeBased = true
				}
			case *ast.AssignStmt:
				for _, l := range x.Lhs {
					ix, ok := l.(*ast.IndexExpr)
					if !ok {
						continue
					}
					if xt, ok := info.Types[ix.X]; ok {
						if sl, ok := xt.Type.Underlying().(*types.Slice); ok {
							if eb, ok := sl.Elem().Underlying().(*types.Basic); ok && (eb.Kind() == types.Uint8 || eb.Kind() == types.Byte) && bad == "" {
								bad = "the elements that are swapped are bytes (" + core.ExprStr(ix.X) + " is a []byte): a multi-byte character is reversed byte by byte and the result is not valid UTF-8"
							}
						}
					}
				}
			}
			return true
		})
	}
	if bad == "" && !runeBased {
		bad = "reverse does not decode its argument into characters ([]rune(…) or unicode/utf8): multi-byte characters are not kept intact"
	}
	c.Decide(bad == "", "REV", key, d.Function.Pos(), 1, "reverses runes, by rune index only", bad)
}

func checkPosition(c *core.Ctx, t *fnTable, ids map[string]int64) {
	d := findDesc(t, "position", 2)
	key := "functions.position"
	if d == nil || d.Function == nil {
		c.Unknown("TAB2", key, 0, "descriptor not found")
		return
	}
	for _, found := range []bool{true, false} {
		found := found
		idx := ""
		res, err := evalDescriptor(c, t, d, ids, func(st *absint.State, call *ast.CallExpr, callee string, recv absint.Val, args []absint.Val) (absint.Val, bool) {
			if callee == "strings.Index" && len(args) == 2 {
				idx = args[0].Canon() + "," + args[1].Canon()
				if found {
					return absint.S("IDX"), true
				}
				return absint.Int(-1), true
			}
			return nil, false
		}, func(st *absint.State, atom string) (bool, bool) {
			if strings.Contains(atom, "IDX") {
				switch atom {
				case "(-1 == IDX)", "(IDX == -1)", "(IDX < 0)":
					return false, true
				case "(0 <= IDX)":
					return true, true
				}
			}
			return false, false
		})
		ckey := fmt.Sprintf("%s/found=%v", key, found)
		if err != nil {
			c.Unknown("TAB2", ckey, d.Function.Pos(), err.Error())
			continue
		}
		bad := ""
		if idx != "values[0].Str,values[1].Str" {
			bad = "position must be strings.Index(values[0].Str, values[1].Str); called with " + idx
		}
		for _, r := range res {
			if found && (r.cls != "Int" || r.payload != "IDX") {
				bad = "a found substring must yield its index: " + r.cls + "(" + r.payload + ")"
			}
			if !found && r.cls != "NULL" {
				bad = "an absent substring must yield NULL: " + r.cls + "(" + r.payload + ")"
			}
		}
		c.Decide(bad == "" && len(res) > 0, "TAB2", ckey, d.Function.Pos(), len(res), "", bad)
	}
}

func checkSubstrShape(c *core.Ctx, t *fnTable, ids map[string]int64) {
	for _, n := range []int{2, 3} {
		d := findDesc(t, "substr", n)
		key := fmt.Sprintf("functions.substr/%d", n)
		if d == nil || d.Function == nil {
			c.Unknown("SUB", key, 0, "descriptor not found")
			continue
		}
		res, err := evalDescriptor(c, t, d, ids, nil, nil)
		if err != nil {
			c.Unknown("SUB", key, d.Function.Pos(), err.Error())
			continue
		}
		bad := ""
		full := 0
		byteCut := false
		for _, r := range res {
			if r.cls == "err" {
				continue
			}
			if r.cls != "String" {
				bad = "returns " + r.cls
				continue
			}
			if r.payload == `""` {
				continue
			}
			full++
			s0, st, ln := "values[0].Str", "values[1].Int", "values[2].Int"
			okForms := []string{s0 + "[" + st + ":]"}
			if n == 3 {
				okForms = append(okForms,
					s0+"["+st+":][:"+ln+"]",
					s0+"["+st+":("+st+" + "+ln+")]",
					s0+"["+st+":len("+s0+")]")
			}
			match := false
			for _, f := range okForms {
				if r.payload == f {
					match = true
					byteCut = true
				}
			}
			if strings.Contains(r.payload, "[]rune("+s0+")") {
				match = true // a character-based slice of the first argument
			}
			if !match {
				bad = "the result must be " + strings.Join(okForms, " or ") + "; a path returns " + r.payload
			}
		}
		if bad == "" && full == 0 {
			bad = "no path returns a slice of the first argument"
		}
		c.Decide(bad == "", "SUB", key, d.Function.Pos(), len(res), "values[0].Str[values[1].Int:…]", bad)
		// the property names multibyte UTF-8: a cut at a byte offset can fall inside a character
		c.Decide(!byteCut, "SUB", key+"/character boundaries", d.Function.Pos(), 1, "the first argument is cut between characters",
			"substr slices the string's bytes at values[1].Int (and values[2].Int): for a string with a multibyte character before the cut the result holds half a character — not a substring, not valid UTF-8 (substr('żółw', 1) is \"\\xbcółw\", and -o json then prints invalid JSON)")
	}
}
