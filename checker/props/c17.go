package props

import (
	"fmt"
	"go/ast"
	"go/types"
	"strings"

	"octoverif/core"
	"octoverif/engine/absint"
)

func init() {
	register(&Check{ID: "C17", Run: runC17,
		Explanation: "ABS7: CountingTrigger.KeyReceived is interpreted for count-before k ∈ {0,1,2} × triggerAfter n ∈ {1,2,3} (k+1 ≤ n): the key fires iff k+1 == n, and in that branch the per-key count is reset (item deleted); otherwise the item stays with count k+1. " +
			"ABS8: WatermarkTrigger.Poll's walk is interpreted for key time {<,=,>} watermark: keys with time ≤ watermark fire, the walk stops at the first later key, every fired key is deleted; at end of stream every remaining key fires. EndOfStreamTrigger.Poll fires nothing before end of stream and everything after. CountingTrigger.Poll hands out and clears the pending list and flushes the rest at end of stream. " +
			"ORD3: the group-by's metadata callback runs WatermarkReceived → trigger → metaSend in that order on the watermark path and returns a trigger error before forwarding. MULTI: every MultiTrigger method forwards to every child with no early exit. " +
			"KEY: watermarkTriggerKey.Less orders by time, then by group key.",
		NotDecided: []string{"'no key beyond W has been emitted unless another trigger fired it' across arbitrary histories", "event-time arithmetic of the keys"},
	})
}

func boolFieldHook(vals map[string]absint.Val) func(st *absint.State, base absint.Val, sel string) (absint.Val, bool) {
	return func(st *absint.State, base absint.Val, sel string) (absint.Val, bool) {
		if v, ok := vals[sel]; ok {
			return v, true
		}
		return nil, false
	}
}

func runC17(c *core.Ctx) {
	c.Rule("ENDFLUSH", "the end-of-stream flush bound is above every event time")
	checkFlushBound(c, "ENDFLUSH")
	c.Rule("TIMEEQ", "time.Time values are compared with Equal/Before/After, never with ==")
	checkTimeEquality(c, "TIMEEQ", "execution", "execution/nodes", "octosql", "aggregates", "table_valued_functions", "outputs", "functions", "datasources")
	_ = c.Prog
	c.Rule("ABS7", "CountingTrigger fires exactly on every n-th record of a key and resets")
	c.Rule("ABS8", "WatermarkTrigger/EndOfStreamTrigger/CountingTrigger Poll fire exactly the due keys")
	c.Rule("ORD3", "group by: WatermarkReceived → trigger → metaSend")
	c.Rule("MULTI", "MultiTrigger forwards every call to every child")
	c.Rule("KEY", "watermarkTriggerKey.Less: time, then key")
	c.Rule("KEYREC", "every trigger records every key it is told about")
	checkKeyRecorded(c)
	checkCountingKeyReceived(c)
	checkWatermarkPoll(c)
	checkEOSPoll(c)
	checkCountingPoll(c)
	checkGroupByWatermarkOrder(c)
	c.Rule("EMIT", "the event-time buffer in front of the group-by releases a record at its watermark, not after it (shared with C18)")
	checkBufferEmit(c)
	checkMultiTrigger(c)
	checkWatermarkKeyLess(c)
}

func checkCountingKeyReceived(c *core.Ctx) {
	p := c.Prog
	fn := p.Func("execution", "(*CountingTrigger).KeyReceived")
	key := "execution.(*CountingTrigger).KeyReceived"
	if fn == nil {
		c.Unknown("ABS7", key, 0, "anchor not found")
		return
	}
	c.SawFunc(key)
	for n := int64(1); n <= 3; n++ {
		for k := int64(0); k < n; k++ {
			n, k := n, k
			in := newInterp(p, fn)
			in.Hooks.Assert = assertOK
			in.Hooks.Field = func(st *absint.State, base absint.Val, sel string) (absint.Val, bool) {
				if sel == "triggerAfter" {
					return absint.Int(n), true
				}
				return nil, false
			}
			in.Hooks.Call = func(st *absint.State, call *ast.CallExpr, callee string, recv absint.Val, args []absint.Val) (absint.Val, bool) {
				switch {
				case msLookup.MatchString(callee):
					if k == 0 {
						return absint.Nil{}, true
					}
					return st.NewObj("item", map[string]absint.Val{"Count": absint.Int(k), "GroupKey": absint.S("key")}), true
				case msInsert.MatchString(callee):
					st.Emit("INSERT", call.Pos(), args...)
					return absint.S("prev"), true
				case msRemove.MatchString(callee):
					st.Emit("REMOVE", call.Pos(), args...)
					return absint.S("removed"), true
				}
				return nil, false
			}
			outs, err := runDecl(in, fn, nil, "")
			ckey := fmt.Sprintf("%s/count=%d,triggerAfter=%d", key, k, n)
			if err != nil {
				c.Unknown("ABS7", ckey, fn.Decl.Pos(), err.Error())
				continue
			}
			bad := ""
			for _, o := range outs {
				fired, inserted, removed := 0, false, false
				for _, e := range o.Events {
					switch {
					case e.Name == "INSERT":
						inserted, removed = true, false
					case e.Name == "REMOVE":
						removed, inserted = true, false
					case strings.HasPrefix(e.Name, "append") && strings.Contains(e.Name, "toTrigger"):
						fired++
						if len(e.Args) != 1 || e.Args[0].Canon() != "key" {
							bad = "a key other than the received one is scheduled: " + e.String()
						}
					}
				}
				// count value of the item
				var cnt absint.Val
				for _, ob := range o.Heap {
					if v, ok := ob.Fields["Count"]; ok && (ob.Type == "item" || k == 0) {
						if ob.Type == "item" || ob.Type != "item" && k == 0 {
							cnt = v
						}
					}
				}
				got, _ := absint.AsInt(cnt)
				shouldFire := k+1 == n
				present := (k > 0 || inserted) && !removed
				switch {
				case got != k+1:
					bad = fmt.Sprintf("count must become %d, got %d", k+1, got)
				case shouldFire && fired != 1:
					bad = fmt.Sprintf("the %d-th record of the key must fire it exactly once, fired %d times", n, fired)
				case !shouldFire && fired != 0:
					bad = fmt.Sprintf("record %d of %d must not fire, fired %d times", k+1, n, fired)
				case shouldFire && present:
					bad = "the key fired but its count is not reset (item not deleted): the next firing would be off"
				case !shouldFire && !present:
					bad = "the key did not fire but its count is dropped"
				}
			}
			c.Decide(bad == "" && len(outs) > 0, "ABS7", ckey, fn.Decl.Pos(), len(outs), "fires iff count+1 == triggerAfter, reset on firing", bad)
		}
	}
	c.Floor("ABS7", 6, "k<n≤3")
}

// ascendCallbacks returns the literals passed to (*BTree).Ascend in a block.
func ascendCallbacks(info *types.Info, n ast.Node) []*ast.FuncLit {
	var out []*ast.FuncLit
	ast.Inspect(n, func(m ast.Node) bool {
		if call, ok := m.(*ast.CallExpr); ok && len(call.Args) == 1 {
			if f, ok := core.Callee(info, call).(*types.Func); ok && f.FullName() == "(*github.com/google/btree.BTree).Ascend" {
				if fl, ok := call.Args[0].(*ast.FuncLit); ok {
					out = append(out, fl)
				}
			}
		}
		return true
	})
	return out
}

// eosBranches finds `if [!]x.endOfStreamReached {A} else {B}` and returns (eosBlock, notEosBlock).
func eosBranches(p *core.Program, fn *core.FuncRef) (eos, notEos ast.Node, found bool) {
	ast.Inspect(fn.Decl.Body, func(n ast.Node) bool {
		is, ok := n.(*ast.IfStmt)
		if !ok || found || !strings.Contains(core.ExprStr(is.Cond), "endOfStreamReached") {
			return true
		}
		in := &absint.Interp{Info: fn.Info(), Prog: p}
		in.Hooks.Field = boolFieldHook(map[string]absint.Val{"endOfStreamReached": absint.Bool(true)})
		res, err := in.RunCond(is.Cond)
		if err != nil || len(res) != 1 {
			return true
		}
		found = true
		if res[0].Value {
			eos = is.Body
			if is.Else != nil {
				notEos = is.Else
			}
		} else {
			notEos = is.Body
			if is.Else != nil {
				eos = is.Else
			}
		}
		return false
	})
	return
}

// walkAll: the callback appends its item's key and returns true on every path.
func walkAllCallback(p *core.Program, fn *core.FuncRef, cb *ast.FuncLit) string {
	in := newInterp(p, fn)
	in.Hooks.Assert = assertOK
	outs, err := runLit(in, cb, nil, "")
	if err != nil {
		return err.Error()
	}
	for _, o := range outs {
		if o.Kind == "panic" {
			continue // failed type assertion branch is cut by assertOK; any remaining panic is a defect
		}
		app := 0
		for _, e := range o.Events {
			if strings.HasPrefix(e.Name, "append") {
				app++
			}
		}
		if o.Kind != "return" || !absint.IsTrue(o.Values[0]) || app != 1 {
			return "at end of stream every remaining key must fire: the walk must append each key and continue; got " + o.String()
		}
	}
	if len(outs) == 0 {
		return "no path"
	}
	return ""
}

// checkWatermarkPoll interprets the whole of Poll for end of stream reached / not reached × the walked key's time
// <, =, > the watermark. The walk over the stored keys is one abstract iteration (Visit): the callback runs once on
// a symbolic item, in the state Poll is in when it starts the walk — so it does not matter whether the two modes are
// two walks in two branches or one walk with a flag.
func checkWatermarkPoll(c *core.Ctx) {
	p := c.Prog
	fn := p.Func("execution", "(*WatermarkTrigger).Poll")
	key := "execution.(*WatermarkTrigger).Poll"
	if fn == nil {
		c.Unknown("ABS8", key, 0, "anchor not found")
		return
	}
	c.SawFunc(key)
	recvName := "c"
	if fn.Decl.Recv != nil && len(fn.Decl.Recv.List) == 1 && len(fn.Decl.Recv.List[0].Names) == 1 {
		recvName = fn.Decl.Recv.List[0].Names[0].Name
	}
	slice := recvName + ".outputKeysSlice"
	delBad, resBad := "", ""
	for _, eos := range []bool{false, true} {
		for _, rel := range []absint.Rel{absint.LT, absint.EQ, absint.GT} {
			eos, rel := eos, rel
			in := newInterp(p, fn)
			in.Hooks.Assert = assertOK
			in.Hooks.Field = boolFieldHook(map[string]absint.Val{"endOfStreamReached": absint.Bool(eos)})
			in.Hooks.Loop = func(st *absint.State, loop ast.Stmt) *absint.LoopSpec {
				return &absint.LoopSpec{Cases: []string{"FIRED"}, MaxIter: 1, MinIter: 1, RefStep: func(ref, cs string) string { return "" }}
			}
			in.Hooks.Visit = func(st *absint.State, callee string, recv absint.Val, args []absint.Val) (int, []absint.Val, bool) {
				if strings.HasSuffix(callee, "BTree).Ascend") && len(args) == 1 {
					return 0, []absint.Val{absint.S("ITEM")}, true
				}
				return 0, nil, false
			}
			in.Hooks.Call = func(st *absint.State, call *ast.CallExpr, callee string, recv absint.Val, args []absint.Val) (absint.Val, bool) {
				// key time vs watermark
				timeIsRecv := strings.HasSuffix(recv2(recv), ".Time")
				r := rel
				if !timeIsRecv {
					r = map[absint.Rel]absint.Rel{absint.LT: absint.GT, absint.GT: absint.LT, absint.EQ: absint.EQ}[rel]
				}
				switch callee {
				case "time.Time.After":
					return absint.Bool(r == absint.GT), true
				case "time.Time.Before":
					return absint.Bool(r == absint.LT), true
				case "time.Time.Equal":
					return absint.Bool(r == absint.EQ), true
				}
				if msRemove.MatchString(callee) && len(args) == 1 {
					st.Emit("DELETE", call.Pos(), args[0])
					return absint.S("deleted"), true
				}
				return nil, false
			}
			outs, err := runDecl(in, fn, nil, "")
			ckey := fmt.Sprintf("%s/end of stream=%v/key time %s watermark", key, eos, rel)
			if err != nil {
				c.Unknown("ABS8", ckey, fn.Decl.Pos(), err.Error())
				continue
			}
			bad := ""
			due := eos || rel != absint.GT
			for _, o := range outs {
				if o.Kind == "panic" {
					continue // the failed type assertion, cut by assertOK elsewhere
				}
				app, visited := 0, 0
				var cont absint.Val
				firstStore := ""
				for _, e := range o.Events {
					switch {
					case strings.HasPrefix(e.Name, "append "+slice):
						app++
					case strings.HasPrefix(e.Name, "visited "):
						visited++
						if len(e.Args) == 1 {
							cont = e.Args[0]
						}
					case strings.HasPrefix(e.Name, "store "+slice) && firstStore == "" && len(e.Args) == 1:
						firstStore = e.Args[0].Canon()
					case e.Name == "DELETE":
						// the fired key is deleted under the key it was stored with: (its time field, the group key)
						gk, tm := o.Field(e.Args[0], "GroupKey"), o.Field(e.Args[0], "Time")
						if gk == nil || tm == nil || tm.Canon() != gk.Canon()+"["+recvName+".timeFieldKeyIndex].Time" || !strings.Contains(gk.Canon(), "outputKeysSlice") {
							delBad = "a fired key is deleted as " + o.Show(e.Args[0])
						}
					}
				}
				switch {
				case o.Kind != "return" || len(o.Values) != 1:
					bad = "unexpected " + o.String()
				case visited != 1:
					bad = fmt.Sprintf("the stored keys are walked %d times", visited)
				case due && (app != 1 || !absint.IsTrue(cont)):
					bad = "a key that is due (end of stream, or time ≤ watermark) must fire and the walk continue: " + o.String()
				case !due && (app != 0 || !absint.IsFalse(cont)):
					bad = "a key with time > watermark must not fire before the end of the stream, and ends the walk: " + o.String()
				}
				if due {
					dels := 0
					for _, e := range o.Events {
						if e.Name == "DELETE" {
							dels++
						}
					}
					if dels == 0 {
						delBad = "the keys that fired are not deleted from timeKeys: they would fire again on every watermark"
					}
				}
				// what is returned is the freshly collected list: built on the emptied slice (or nil), holding only what
				// this walk appended — whether it was collected in the field itself or in a local stored back
				if len(o.Values) == 1 {
					rv := o.Values[0].Canon()
					fresh := false
					for _, base := range []string{slice + "[:0]", slice + "[:0:0]", "nil"} {
						if rv == base || strings.HasPrefix(rv, "append("+base+";") {
							fresh = true
						}
					}
					if !fresh {
						resBad = "Poll must return the keys collected by this call, on the emptied " + slice + " (returns " + rv + ", first store " + firstStore + ")"
					}
					if app > 0 && !strings.Contains(rv, "ITEM.GroupKey") {
						resBad = "Poll must return the collected keys; it returns " + rv
					}
				}
			}
			c.Decide(bad == "" && len(outs) > 0, "ABS8", ckey, fn.Decl.Pos(), len(outs), "fires iff at end of stream or time ≤ watermark", bad)
		}
	}
	c.Decide(delBad == "", "ABS8", key+"/fired keys deleted", fn.Decl.Pos(), 1, "each fired key is removed with the key (time field, group key) it was stored under", "the keys that fired are not deleted from timeKeys with the key they were inserted under: "+delBad)
	c.Decide(resBad == "", "ABS8", key+"/result", fn.Decl.Pos(), 1, "returns the freshly collected keys", resBad)
}

func recv2(v absint.Val) string {
	if v == nil {
		return ""
	}
	return v.Canon()
}

func checkEOSPoll(c *core.Ctx) {
	p := c.Prog
	fn := p.Func("execution", "(*EndOfStreamTrigger).Poll")
	key := "execution.(*EndOfStreamTrigger).Poll"
	if fn == nil {
		c.Unknown("ABS8", key, 0, "anchor not found")
		return
	}
	c.SawFunc(key)
	// before end of stream: returns nil, walks nothing
	in := newInterp(p, fn)
	in.Hooks.Field = boolFieldHook(map[string]absint.Val{"endOfStreamReached": absint.Bool(false)})
	outs, err := runDecl(in, fn, nil, "")
	bad := ""
	if err != nil {
		bad = err.Error()
	}
	for _, o := range outs {
		walked := false
		for _, e := range o.Events {
			if strings.Contains(e.Name, "Ascend") {
				walked = true
			}
		}
		if o.Kind != "return" || walked || !(absint.IsNilVal(o.Values[0]) || o.Values[0].Canon() == "[]") {
			bad = "before end of stream nothing may fire: " + o.String()
		}
	}
	c.Decide(bad == "" && len(outs) > 0, "ABS8", key+"/before end of stream", fn.Decl.Pos(), len(outs), "returns nil", bad)
	cbs := ascendCallbacks(fn.Info(), fn.Decl.Body)
	if len(cbs) != 1 {
		c.Bad("ABS8", key+"/at end of stream", fn.Decl.Pos(), 1, "no Ascend walk over the stored keys")
		return
	}
	why := walkAllCallback(p, fn, cbs[0])
	c.Decide(why == "", "ABS8", key+"/at end of stream", cbs[0].Pos(), 1, "every key fires", why)
}

func checkCountingPoll(c *core.Ctx) {
	p := c.Prog
	fn := p.Func("execution", "(*CountingTrigger).Poll")
	key := "execution.(*CountingTrigger).Poll"
	if fn == nil {
		c.Unknown("ABS8", key, 0, "anchor not found")
		return
	}
	c.SawFunc(key)
	for _, eosv := range []bool{false, true} {
		eosv := eosv
		in := newInterp(p, fn)
		in.Hooks.Field = boolFieldHook(map[string]absint.Val{"endOfStreamReached": absint.Bool(eosv), "toTrigger": absint.S("PENDING")})
		outs, err := runDecl(in, fn, nil, "")
		ckey := fmt.Sprintf("%s/endOfStream=%v", key, eosv)
		if err != nil {
			c.Unknown("ABS8", ckey, fn.Decl.Pos(), err.Error())
			continue
		}
		bad := ""
		for _, o := range outs {
			walked, cleared := false, false
			for _, e := range o.Events {
				if strings.Contains(e.Name, "Ascend") {
					walked = true
				}
				if strings.HasPrefix(e.Name, "store ") && strings.HasSuffix(e.Name, ".toTrigger") && len(e.Args) == 1 && strings.Contains(e.Args[0].Canon(), "[") {
					cleared = true
				}
			}
			if o.Kind != "return" || !strings.Contains(o.Values[0].Canon(), "PENDING") {
				bad = "the pending keys are not returned: " + o.String()
			} else if !cleared {
				bad = "the pending list is not cleared after being handed out (keys would fire again)"
			} else if walked != eosv {
				bad = fmt.Sprintf("endOfStream=%v: remaining keys walked=%v", eosv, walked)
			}
		}
		c.Decide(bad == "" && len(outs) > 0, "ABS8", ckey, fn.Decl.Pos(), len(outs), "returns and clears pending; flushes the rest at end of stream only", bad)
	}
	if cbs := ascendCallbacks(fn.Info(), fn.Decl.Body); len(cbs) == 1 {
		why := walkAllCallback(p, fn, cbs[0])
		c.Decide(why == "", "ABS8", key+"/flush walk", cbs[0].Pos(), 1, "every remaining key fires", why)
	} else {
		c.Bad("ABS8", key+"/flush walk", fn.Decl.Pos(), 1, "no Ascend walk flushing the remaining counts at end of stream")
	}
}

func checkGroupByWatermarkOrder(c *core.Ctx) {
	p := c.Prog
	fn := p.Func("execution/nodes", "(*CustomTriggerGroupBy).Run")
	key := "execution/nodes.(*CustomTriggerGroupBy).Run/metadata callback"
	if fn == nil {
		c.Unknown("ORD3", key, 0, "anchor not found")
		return
	}
	c.SawFunc("execution/nodes.(*CustomTriggerGroupBy).Run")
	rcs := nodeRunCalls(p, fn)
	if len(rcs) != 1 || rcs[0].MetaSend == nil {
		c.Unknown("ORD3", key, fn.Decl.Pos(), "expected one source.Run with a literal metadata callback")
		return
	}
	lit := rcs[0].MetaSend
	wmConst := int64(0)
	if cst, ok := p.Pkg("execution").Types.Scope().Lookup("MetadataMessageTypeWatermark").(*types.Const); ok {
		wmConst, _ = absint.AsInt(absint.Const{V: cst.Val()})
	}
	for _, trigErr := range []bool{false, true} {
		trigErr := trigErr
		in := newInterp(p, fn)
		in.Hooks.Field = func(st *absint.State, base absint.Val, sel string) (absint.Val, bool) {
			if sel == "Type" && base.Canon() == "msg" {
				return absint.Int(wmConst), true
			}
			return nil, false
		}
		in.Hooks.Call = chainCall(func(st *absint.State, call *ast.CallExpr, callee string, recv absint.Val, args []absint.Val) (absint.Val, bool) {
			switch callee {
			case "execution.Trigger.WatermarkReceived":
				st.Emit("WATERMARK-RECEIVED", call.Pos(), args...)
				return absint.S("void"), true
			case "execution/nodes.(*CustomTriggerGroupBy).trigger":
				st.Emit("TRIGGER", call.Pos(), args...)
				if trigErr {
					return absint.NN("triggerErr"), true
				}
				return absint.Nil{}, true
			case "value:metaSend":
				st.Emit("METASEND", call.Pos(), args...)
				return absint.S("sendErr"), true
			}
			return nil, false
		}, errorfHook)
		outs, err := runLit(in, lit, nil, "")
		ckey := fmt.Sprintf("%s/trigger error=%v", key, trigErr)
		if err != nil {
			c.Unknown("ORD3", ckey, lit.Pos(), err.Error())
			continue
		}
		bad := ""
		for _, o := range outs {
			var seq []string
			for _, e := range o.Events {
				switch e.Name {
				case "WATERMARK-RECEIVED":
					seq = append(seq, "W")
					if len(e.Args) != 1 || e.Args[0].Canon() != "msg.Watermark" {
						bad = "the trigger is told a time other than the message's watermark: " + e.String()
					}
				case "TRIGGER":
					seq = append(seq, "T")
				case "METASEND":
					seq = append(seq, "S")
					if len(e.Args) != 2 || e.Args[1].Canon() != "msg" {
						bad = "a message other than the received one is forwarded: " + e.String()
					}
				}
			}
			s := strings.Join(seq, "")
			if !trigErr && s != "WTS" {
				bad = "on a watermark the callback must run WatermarkReceived, trigger the due keys, then forward the watermark (W,T,S); it runs " + s
			}
			if trigErr && (s != "WT" || o.Kind != "return" || !isNonNilErr(o.Values[0])) {
				bad = "a failing trigger must stop the callback before the watermark is forwarded: " + o.String()
			}
			if !trigErr && o.Kind == "return" && o.Values[0].Canon() != "sendErr" {
				bad = "the result of metaSend is not returned: " + o.String()
			}
		}
		c.Decide(bad == "" && len(outs) > 0, "ORD3", ckey, lit.Pos(), len(outs), "WatermarkReceived → trigger → metaSend", bad)
	}
}

func checkMultiTrigger(c *core.Ctx) {
	p := c.Prog
	for _, m := range []string{"EndOfStreamReached", "WatermarkReceived", "KeyReceived", "Poll"} {
		fn := p.Func("execution", "(*MultiTrigger)."+m)
		key := "execution.(*MultiTrigger)." + m
		if fn == nil {
			c.Unknown("MULTI", key, 0, "anchor not found")
			continue
		}
		c.SawFunc(key)
		in := newInterp(p, fn)
		in.Hooks.Loop = func(st *absint.State, loop ast.Stmt) *absint.LoopSpec {
			return &absint.LoopSpec{Cases: []string{"child"}, RefStep: func(ref, cs string) string { return "n" }}
		}
		in.Hooks.Call = func(st *absint.State, call *ast.CallExpr, callee string, recv absint.Val, args []absint.Val) (absint.Val, bool) {
			if callee == "execution.Trigger."+m {
				st.Emit("CHILD", call.Pos(), append([]absint.Val{recv}, args...)...)
				return absint.S("childResult"), true
			}
			return nil, false
		}
		outs, err := runDecl(in, fn, nil, "")
		if err != nil {
			c.Unknown("MULTI", key, fn.Decl.Pos(), err.Error())
			continue
		}
		bad := ""
		var params []string
		for _, f := range fn.Decl.Type.Params.List {
			for _, n := range f.Names {
				params = append(params, n.Name)
			}
		}
		for _, o := range outs {
			if strings.HasPrefix(o.Ref, "break:") {
				bad = "the loop over the children is left with break: later children are skipped: " + o.String()
			}
			if (o.Kind == "return" || o.Kind == "fallthrough") && !strings.HasPrefix(o.Ref, "exit:") && bad == "" {
				bad = "returns from inside the loop over the children: later children are skipped: " + o.String()
			}
			iter := len(o.Trace)
			calls := 0
			for _, e := range o.Events {
				if e.Name == "CHILD" {
					calls++
					if !strings.Contains(e.Args[0].Canon(), "triggers[") {
						bad = "the call does not go to the i-th child: " + e.String()
					}
					for i, pn := range params {
						if i+1 >= len(e.Args) || e.Args[i+1].Canon() != pn {
							bad = "the argument is not passed through unchanged: " + e.String()
						}
					}
				}
			}
			if calls != iter {
				bad = fmt.Sprintf("%d children visited but %d calls made: %s", iter, calls, o.String())
			}
			if m == "Poll" && o.Kind == "return" && iter > 0 && !strings.Contains(o.Values[0].Canon(), "append") {
				bad = "Poll does not accumulate the children's results: " + o.String()
			}
		}
		if m == "Poll" {
			// the append must spread the child's result
			spread := false
			ast.Inspect(fn.Decl.Body, func(n ast.Node) bool {
				if call, ok := n.(*ast.CallExpr); ok && core.ExprStr(call.Fun) == "append" && call.Ellipsis.IsValid() {
					spread = true
				}
				return true
			})
			if !spread {
				bad = "Poll must concatenate every child's keys (append(output, child.Poll()...))"
			}
		}
		c.Decide(bad == "" && len(outs) > 0, "MULTI", key, fn.Decl.Pos(), len(outs), "forwards to every child, arguments unchanged", bad)
	}
	c.Floor("MULTI", 4, "four Trigger methods")
}

func checkWatermarkKeyLess(c *core.Ctx) {
	p := c.Prog
	fn := p.Func("execution", "watermarkTriggerKey.Less")
	key := "execution.watermarkTriggerKey.Less"
	if fn == nil {
		c.Unknown("KEY", key, 0, "anchor not found")
		return
	}
	c.SawFunc(key)
	for _, rel := range []absint.Rel{absint.LT, absint.EQ, absint.GT} {
		rel := rel
		in := newInterp(p, fn)
		in.Hooks.Assert = assertOK
		o := absint.OrderOracle{}
		o.Set("key.Time", "than.Time", rel)
		in.Hooks.Cond = func(st *absint.State, atom string) (bool, bool) { return o.Decide(atom) }
		in.Hooks.Call = func(st *absint.State, call *ast.CallExpr, callee string, recv absint.Val, args []absint.Val) (absint.Val, bool) {
			switch callee {
			case "time.Time.Before":
				return absint.Bool((recv.Canon() == "key.Time") == (rel == absint.LT) && rel != absint.EQ), true
			case "time.Time.After":
				return absint.Bool((recv.Canon() == "key.Time") == (rel == absint.GT) && rel != absint.EQ), true
			case "time.Time.Equal":
				return absint.Bool(rel == absint.EQ), true
			case "execution.GroupKey.Less":
				st.Emit("KEYLESS", call.Pos(), recv, args[0])
				return absint.S("keyLess"), true
			}
			return nil, false
		}
		outs, err := runDecl(in, fn, nil, "")
		ckey := fmt.Sprintf("%s/time %s", key, rel)
		if err != nil {
			c.Unknown("KEY", ckey, fn.Decl.Pos(), err.Error())
			continue
		}
		bad := ""
		for _, out := range outs {
			if out.Kind != "return" {
				bad = "unexpected " + out.String()
				continue
			}
			v := out.Values[0]
			switch rel {
			case absint.LT:
				if !absint.IsTrue(v) {
					bad = "earlier time must be less: " + out.String()
				}
			case absint.GT:
				if !absint.IsFalse(v) {
					bad = "later time must not be less: " + out.String()
				}
			default:
				if v.Canon() != "keyLess" {
					bad = "equal times must be ordered by the group key: " + out.String()
				}
				for _, e := range out.Events {
					if e.Name == "KEYLESS" && !(strings.HasPrefix(e.Args[0].Canon(), "key.") && strings.HasPrefix(e.Args[1].Canon(), "than")) {
						bad = "group keys compared in the wrong order: " + e.String()
					}
				}
			}
		}
		c.Decide(bad == "" && len(outs) > 0, "KEY", ckey, fn.Decl.Pos(), len(outs), "", bad)
	}
}

// checkKeyRecorded (KEYREC): every trigger's KeyReceived records the key on every path — no early return, and the
// recording step (insert of the key, per-key counter increment, or forwarding to all children) is unconditional.
// A trigger that forgets an updated key (e.g. "already past the watermark") never re-fires it, and the group's last
// state is never emitted.
func checkKeyRecorded(c *core.Ctx) {
	p := c.Prog
	n := 0
	for _, fr := range p.AllFuncs("execution") {
		if fr.Decl.Name.Name != "KeyReceived" || fr.Decl.Recv == nil {
			continue
		}
		n++
		name := p.FName(fr)
		c.SawFunc(name)
		keyParam := ""
		if len(fr.Decl.Type.Params.List) == 1 && len(fr.Decl.Type.Params.List[0].Names) == 1 {
			keyParam = fr.Decl.Type.Params.List[0].Names[0].Name
		}
		early := false
		ast.Inspect(fr.Decl.Body, func(nd ast.Node) bool {
			if _, ok := nd.(*ast.FuncLit); ok {
				return false
			}
			if _, ok := nd.(*ast.ReturnStmt); ok {
				early = true
			}
			return true
		})
		recorded := ""
		for _, s := range fr.Decl.Body.List {
			switch x := s.(type) {
			case *ast.ExprStmt:
				if call, ok := x.X.(*ast.CallExpr); ok {
					f := core.ExprStr(call.Fun)
					if strings.HasSuffix(f, ".ReplaceOrInsert") && strings.Contains(core.FullStr(call), keyParam) {
						recorded = "inserts the key"
					}
				}
			case *ast.IncDecStmt:
				if strings.HasSuffix(core.ExprStr(x.X), ".Count") {
					recorded = "counts the key"
				}
			case *ast.RangeStmt:
				if strings.HasSuffix(core.ExprStr(x.X), ".triggers") && len(x.Body.List) == 1 {
					if es, ok := x.Body.List[0].(*ast.ExprStmt); ok {
						if call, ok := es.X.(*ast.CallExpr); ok && strings.HasSuffix(core.ExprStr(call.Fun), ".KeyReceived") && len(call.Args) == 1 && core.ExprStr(call.Args[0]) == keyParam {
							recorded = "forwards the key to every child"
						}
					}
				}
			}
		}
		c.Decide(!early && recorded != "", "KEYREC", name, fr.Decl.Pos(), 1, recorded+" on every path",
			fmt.Sprintf("KeyReceived must record every key it is told about, unconditionally (early return: %v, unconditional recording step: %q): a key dropped here — for instance because its event time is not after the watermark — is never fired again and the group's latest state is never emitted", early, recorded))
	}
	c.Floor("KEYREC", 4, "counting, watermark, end-of-stream and multi triggers")
	_ = n
}
