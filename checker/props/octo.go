package props

import (
	"go/ast"
	"strings"

	"octoverif/core"
	"octoverif/engine/absint"
)

// ctor maps octosql.NewX(v) to a structured abstract value {TypeID, payload}.
var ctorPayload = map[string]string{"NewNull": "", "NewInt": "Int", "NewFloat": "Float", "NewBoolean": "Boolean", "NewString": "Str", "NewTime": "Time", "NewDuration": "Duration", "NewList": "List", "NewStruct": "Struct", "NewTuple": "Tuple"}
var ctorTypeID = map[string]string{"NewNull": "TypeIDNull", "NewInt": "TypeIDInt", "NewFloat": "TypeIDFloat", "NewBoolean": "TypeIDBoolean", "NewString": "TypeIDString", "NewTime": "TypeIDTime", "NewDuration": "TypeIDDuration", "NewList": "TypeIDList", "NewStruct": "TypeIDStruct", "NewTuple": "TypeIDTuple"}

// mkValue builds an abstract octosql.Value object.
func mkValue(st *absint.State, ids map[string]int64, tid string, payloadField string, payload absint.Val) absint.Val {
	f := map[string]absint.Val{"TypeID": absint.Int(ids[tid]), "Boolean": absint.Bool(false)}
	if payloadField != "" {
		f[payloadField] = payload
	}
	return st.NewObj("octosql.Value", f)
}

func ctorCall(st *absint.State, ids map[string]int64, callee string, args []absint.Val) (absint.Val, bool) {
	if !strings.HasPrefix(callee, "octosql.New") {
		return nil, false
	}
	name := strings.TrimPrefix(callee, "octosql.")
	tid, ok := ctorTypeID[name]
	if !ok {
		return nil, false
	}
	var payload absint.Val
	if len(args) > 0 {
		payload = args[0]
	}
	return mkValue(st, ids, tid, ctorPayload[name], payload), true
}

// valueClass classifies an abstract octosql.Value: TRUE, FALSE, NULL, <TypeIDName>, or sym:<canon>.
func valueClass(o *absint.Outcome, ids map[string]int64, v absint.Val) string {
	t := o.Field(v, "TypeID")
	if t == nil {
		if v == nil {
			return "?"
		}
		return "sym:" + v.Canon()
	}
	id, ok := absint.AsInt(t)
	if !ok {
		return "sym:" + v.Canon()
	}
	for n, x := range ids {
		if x == id {
			switch n {
			case "TypeIDNull":
				return "NULL"
			case "TypeIDBoolean":
				b := o.Field(v, "Boolean")
				if absint.IsTrue(b) {
					return "TRUE"
				}
				if absint.IsFalse(b) {
					return "FALSE"
				}
				return "Boolean(" + b.Canon() + ")"
			}
			return strings.TrimPrefix(n, "TypeID")
		}
	}
	return "?"
}

// chainCall combines hooks: the first that handles the call wins.
type callHook = func(st *absint.State, call *ast.CallExpr, callee string, recv absint.Val, args []absint.Val) (absint.Val, bool)

func chainCall(hs ...callHook) callHook {
	return func(st *absint.State, call *ast.CallExpr, callee string, recv absint.Val, args []absint.Val) (absint.Val, bool) {
		for _, h := range hs {
			if h == nil {
				continue
			}
			if v, ok := h(st, call, callee, recv, args); ok {
				return v, true
			}
		}
		return nil, false
	}
}

func ctorHook(ids map[string]int64) callHook {
	return func(st *absint.State, call *ast.CallExpr, callee string, recv absint.Val, args []absint.Val) (absint.Val, bool) {
		return ctorCall(st, ids, callee, args)
	}
}

// errorfHook models fmt.Errorf / errors.New / errors.Wrap as a non-nil error.
func errorfHook(st *absint.State, call *ast.CallExpr, callee string, recv absint.Val, args []absint.Val) (absint.Val, bool) {
	switch callee {
	case "fmt.Errorf", "errors.New", "github.com/pkg/errors.Wrap", "github.com/pkg/errors.Wrapf", "github.com/pkg/errors.Errorf", "github.com/pkg/errors.New":
		return absint.NN("error@" + callee), true
	}
	return nil, false
}

func isNonNilErr(v absint.Val) bool {
	if v == nil {
		return false
	}
	if absint.IsNilVal(v) {
		return false
	}
	return true
}

var _ = core.ModPath
