package props

import (
	"fmt"
	"go/ast"
	"strings"

	"octoverif/core"
	"octoverif/engine/absint"
	"octoverif/engine/tables"
)

func init() {
	register(&Check{ID: "C11", Run: runC11,
		Explanation: "ABS2: (*And).Evaluate and (*Or).Evaluate are explored as a product of the implementation (loop over the arguments, classes TRUE/FALSE/NULL/ERR per argument) with the Kleene reference automaton until the (state, reference state) pairs repeat — an inductive argument valid for every arity and every order of operands. " +
			"ORD5: (*FunctionCall).Evaluate returns NULL without calling the function whenever an argument listed in nullCheckIndices is NULL, evaluates every argument and propagates evaluation errors. " +
			"TAB1: the strictness table extracted from the FunctionMap literal — comparison, arithmetic, string and conversion functions are Strict; `is null`/`is not null` are not strict and construct only Booleans. NOT: truth table of the `not` body. " +
			"ABS3: the Filter node forwards a record iff the predicate evaluated to Boolean TRUE (cases TRUE/FALSE/NULL/non-Boolean/error). " +
			"ASSERT: an argument wrapped in a runtime type assertion keeps the static type target ∩ argument type with the nullable target for strict functions, so the NULL check is still inserted. " +
			"MIR4: the strict-null predicate used by the type checker (output becomes nullable) and by Materialize (null check inserted) is the same.",
		NotDecided: []string{"the results of the individual comparison functions on non-NULL arguments (C09/C13)", "NULL handling inside non-strict functions other than IS [NOT] NULL"},
	})
}

// evalArgHook models `X.Evaluate(ctx)` on an element of an argument list by the
// class of the current loop iteration.
func evalClassHook(ids map[string]int64) callHook {
	return func(st *absint.State, call *ast.CallExpr, callee string, recv absint.Val, args []absint.Val) (absint.Val, bool) {
		if callee != "execution.Expression.Evaluate" {
			return nil, false
		}
		st.Emit("Evaluate", call.Pos(), recv)
		switch st.IterNow {
		case "TRUE":
			return absint.Tuple{Elems: []absint.Val{mkValue(st, ids, "TypeIDBoolean", "Boolean", absint.Bool(true)), absint.Nil{}}}, true
		case "FALSE":
			return absint.Tuple{Elems: []absint.Val{mkValue(st, ids, "TypeIDBoolean", "Boolean", absint.Bool(false)), absint.Nil{}}}, true
		case "NULL":
			return absint.Tuple{Elems: []absint.Val{mkValue(st, ids, "TypeIDNull", "", nil), absint.Nil{}}}, true
		case "ERR":
			return absint.Tuple{Elems: []absint.Val{absint.S("garbage"), absint.NN("evalErr")}}, true
		case "VAL":
			return absint.Tuple{Elems: []absint.Val{absint.S("argValue"), absint.Nil{}}}, true
		}
		return nil, false
	}
}

func kleene(short string) func(ref, c string) string {
	// short is the dominating class: FALSE for AND, TRUE for OR
	return func(ref, c string) string {
		if strings.HasPrefix(ref, "ret:") {
			if strings.HasSuffix(ref, "!") {
				return ref
			}
			return ref + "!"
		}
		switch c {
		case short:
			return "ret:" + short
		case "ERR":
			return "ret:ERR"
		case "NULL":
			return "null"
		}
		return ref
	}
}

func checkKleene(c *core.Ctx, ids map[string]int64, typ, short, neutral string) {
	p := c.Prog
	fn := p.Func("execution", "(*"+typ+").Evaluate")
	key := "execution.(*" + typ + ").Evaluate"
	if fn == nil {
		c.Unknown("ABS2", key, 0, "anchor not found")
		return
	}
	c.SawFunc(key)
	in := newInterp(p, fn)
	in.Hooks.Call = chainCall(evalClassHook(ids), ctorHook(ids), errorfHook)
	in.Hooks.Loop = func(st *absint.State, loop ast.Stmt) *absint.LoopSpec {
		return &absint.LoopSpec{Cases: []string{"TRUE", "FALSE", "NULL", "ERR"}, RefStep: kleene(short)}
	}
	outs, err := runDecl(in, fn, nil, "")
	if err != nil {
		c.Unknown("ABS2", key, fn.Decl.Pos(), err.Error())
		return
	}
	bad := ""
	returns := 0
	for _, o := range outs {
		if o.Kind == "loop" {
			if strings.HasSuffix(o.Ref, "!") {
				bad = "evaluation continues after the result was decided: " + o.String()
			}
			continue
		}
		if o.Kind != "return" || len(o.Values) != 2 {
			bad = "unexpected outcome " + o.String()
			break
		}
		returns++
		cls := valueClass(o, ids, o.Values[0])
		errv := o.Values[1]
		want := ""
		switch {
		case strings.HasSuffix(o.Ref, "!"):
			bad = "evaluation continues after the result was decided: " + o.String()
		case o.Ref == "ret:ERR" || o.Ref == "exit:ret:ERR":
			if !isNonNilErr(errv) {
				bad = "an argument's evaluation error is not returned: " + o.String()
			}
			continue
		case o.Ref == "ret:"+short || o.Ref == "exit:ret:"+short:
			want = short
		case o.Ref == "exit:null":
			want = "NULL"
		case o.Ref == "exit:":
			want = neutral
		default:
			bad = "returns in the middle of the operand list although the result is not yet decided (operands so far " + fmt.Sprint(o.Trace) + "): " + o.String()
		}
		if bad != "" {
			break
		}
		if cls != want || isNonNilErr(errv) {
			bad = fmt.Sprintf("after operands %v Kleene %s gives %s, the code returns %s (err=%s)", o.Trace, strings.ToUpper(typ), want, cls, o.Show(errv))
			break
		}
	}
	if bad == "" && returns < 4 {
		bad = fmt.Sprintf("only %d returning paths", returns)
	}
	c.Decide(bad == "", "ABS2", key, fn.Decl.Pos(), len(outs), fmt.Sprintf("%d paths agree with the Kleene fold (short-circuit on %s, NULL if any NULL, else %s)", len(outs), short, neutral), bad)
}

func runC11(c *core.Ctx) {
	c.Rule("NULLT", "AND/OR are nullable iff an operand is")
	checkConnectiveTypes(c, "NULLT")
	c.Rule("NCI", "strict calls test the planned argument positions for NULL")
	checkNullCheckIndices(c, "NCI")
	p := c.Prog
	ids := typeIDs(p)
	c.Rule("ABS2", "And/Or Evaluate equal the Kleene fold for every arity (product with reference automaton)")
	c.Rule("ORD5", "FunctionCall.Evaluate: NULL in a checked argument ⇒ NULL result, function not called")
	c.Rule("TAB1", "strictness table of the FunctionMap literal")
	c.Rule("NOT", "truth table of not")
	c.Rule("ABS3", "Filter forwards exactly the records whose predicate is Boolean TRUE")
	c.Rule("MIR4", "typecheck and materialize agree on which arguments get a null check")
	checkKleene(c, ids, "And", "FALSE", "TRUE")
	checkKleene(c, ids, "Or", "TRUE", "FALSE")
	checkFunctionCall(c, ids)
	checkStrictTable(c, ids)
	checkFilter(c, ids)
	checkStrictMirror(c)
	c.Rule("ASSERT", "runtime type assertions keep the nullability of their target, so strict calls still see (and short-circuit on) NULL")
	checkAssertionSites(c)
	checkAssertionFlow(c)
}

func checkFunctionCall(c *core.Ctx, ids map[string]int64) {
	p := c.Prog
	fn := p.Func("execution", "(*FunctionCall).Evaluate")
	key := "execution.(*FunctionCall).Evaluate"
	if fn == nil {
		c.Unknown("ORD5", key, 0, "anchor not found")
		return
	}
	c.SawFunc(key)
	in := newInterp(p, fn)
	loopNo := map[ast.Stmt]int{}
	in.Hooks.Loop = func(st *absint.State, loop ast.Stmt) *absint.LoopSpec {
		if _, ok := loopNo[loop]; !ok {
			loopNo[loop] = len(loopNo) + 1
		}
		if loopNo[loop] == 1 {
			return &absint.LoopSpec{Cases: []string{"VAL", "ERR"}, RefStep: func(ref, cs string) string {
				if cs == "ERR" && ref == "" {
					return "ret:ERR"
				}
				return ref
			}}
		}
		return &absint.LoopSpec{Cases: []string{"NULLARG", "NONNULL"}, RefStep: func(ref, cs string) string {
			if cs == "NULLARG" && !strings.Contains(ref, "ret:") {
				return "ret:NULL"
			}
			return ref
		}}
	}
	in.Hooks.Call = chainCall(evalClassHook(ids), ctorHook(ids), errorfHook, func(st *absint.State, call *ast.CallExpr, callee string, recv absint.Val, args []absint.Val) (absint.Val, bool) {
		if callee == "value:function" {
			st.Emit("FUNCTION", call.Pos(), args...)
			return absint.Tuple{Elems: []absint.Val{absint.S("fnResult"), absint.S("fnErr")}}, true
		}
		return nil, false
	})
	// argValues[index].TypeID under the class of the current null-check iteration
	in.Hooks.Field = func(st *absint.State, base absint.Val, sel string) (absint.Val, bool) {
		if sel == "TypeID" && strings.Contains(base.Canon(), "[") {
			switch st.IterNow {
			case "NULLARG":
				return absint.Int(ids["TypeIDNull"]), true
			case "NONNULL":
				return absint.Int(ids["TypeIDInt"]), true
			}
		}
		return nil, false
	}
	outs, err := runDecl(in, fn, nil, "")
	if err != nil {
		c.Unknown("ORD5", key, fn.Decl.Pos(), err.Error())
		return
	}
	bad := ""
	sawNull, sawCall := false, false
	for _, o := range outs {
		if o.Kind == "loop" {
			continue
		}
		called := false
		for _, e := range o.Events {
			if e.Name == "FUNCTION" {
				called = true
				if len(e.Args) != 1 || !strings.HasPrefix(e.Args[0].Canon(), "make@") {
					bad = "the function is not applied to the evaluated argument slice: " + e.String()
				}
			}
		}
		if o.Kind != "return" || len(o.Values) != 2 {
			bad = "unexpected outcome " + o.String()
			break
		}
		ref := strings.TrimPrefix(strings.TrimPrefix(o.Ref, "exit:"), "exit:")
		switch ref {
		case "ret:ERR":
			if called || !isNonNilErr(o.Values[1]) {
				bad = "an argument evaluation error must be returned and the function not called: " + o.String()
			}
		case "ret:NULL":
			sawNull = true
			if called {
				bad = "the function is called although a null-checked argument is NULL: " + o.String()
			} else if valueClass(o, ids, o.Values[0]) != "NULL" || isNonNilErr(o.Values[1]) {
				bad = "a NULL in a null-checked argument must yield NULL: " + o.String()
			}
		default:
			if !called {
				bad = "no NULL and no error, but the function is not called: " + o.String()
				break
			}
			sawCall = true
			// both results of the function are handed back (error wrapped or value)
			assumedErr := false
			for k, v := range o.Assumed {
				if strings.Contains(k, "fnErr") && strings.Contains(k, "nil") && !v {
					assumedErr = true
				}
			}
			if assumedErr {
				if !isNonNilErr(o.Values[1]) {
					bad = "function error dropped: " + o.String()
				}
			} else if o.Values[0].Canon() != "fnResult" {
				bad = "function result not returned: " + o.String()
			}
		}
		if bad != "" {
			break
		}
	}
	if bad == "" && (!sawNull || !sawCall) {
		bad = "the null-check loop or the function call was not reached"
	}
	c.Decide(bad == "", "ORD5", key, fn.Decl.Pos(), len(outs), "NULL short-circuit precedes the call on every path", bad)
}

// strictExpect: functions that must be strict (NULL in ⇒ NULL out) and those that must not.
var mustBeStrict = []string{"<", "<=", "=", "!=", ">=", ">", "+", "-", "*", "/", "abs", "sqrt", "ceil", "floor", "log2", "log", "log10", "pow", "not", "like", "~", "~*", "upper", "lower", "reverse", "substr", "replace", "position", "len", "time_from_unix", "time_to_unix", "int", "float", "[]", "in", "not in", "parse_time"}
var mustNotBeStrict = []string{"is null", "is not null"}

func checkStrictTable(c *core.Ctx, ids map[string]int64) {
	p := c.Prog
	descs, fm, err := tables.FunctionMap(p)
	if err != nil {
		c.Unknown("TAB1", "functions.FunctionMap", 0, err.Error())
		return
	}
	c.SawFunc("functions.FunctionMap")
	by := map[string][]*tables.Descriptor{}
	for _, d := range descs {
		by[d.Name] = append(by[d.Name], d)
	}
	for _, n := range mustBeStrict {
		ds := by[n]
		if len(ds) == 0 {
			c.Note("function %q is not registered (nothing to check)", n)
			continue
		}
		for _, d := range ds {
			c.Decide(d.Strict, "TAB1", "functions."+d.Key()+" strict", d.Lit.Pos(), 1, "Strict: true", fmt.Sprintf("%q must be Strict (a NULL argument must yield NULL), the descriptor says Strict: false", n))
		}
	}
	for _, n := range mustNotBeStrict {
		for _, d := range by[n] {
			c.Decide(!d.Strict, "TAB1", "functions."+d.Key()+" non-strict", d.Lit.Pos(), 1, "Strict: false", fmt.Sprintf("%q must not be Strict: it has to answer for NULL arguments", n))
			if d.Function == nil {
				c.Unknown("TAB1", "functions."+d.Key()+" body", d.Lit.Pos(), "Function is not a literal")
				continue
			}
			// evaluate the body for a NULL and a non-NULL argument: must be Boolean, never NULL
			for _, argNull := range []bool{true, false} {
				argNull := argNull
				in := newLitInterp(p, fm.Info(), "functions")
				in.Hooks.Call = chainCall(ctorHook(ids), errorfHook)
				in.Hooks.Field = func(st *absint.State, base absint.Val, sel string) (absint.Val, bool) {
					if sel == "TypeID" {
						if argNull {
							return absint.Int(ids["TypeIDNull"]), true
						}
						return absint.Int(ids["TypeIDInt"]), true
					}
					return nil, false
				}
				outs, err := runLit(in, d.Function, nil, "")
				key := fmt.Sprintf("functions.%s body/argNull=%v", d.Key(), argNull)
				if err != nil {
					c.Unknown("TAB1", key, d.Function.Pos(), err.Error())
					continue
				}
				want := map[string]string{"is null": "FALSE", "is not null": "TRUE"}[n]
				if argNull {
					want = map[string]string{"is null": "TRUE", "is not null": "FALSE"}[n]
				}
				bad := ""
				for _, o := range outs {
					if o.Kind != "return" || len(o.Values) != 2 || valueClass(o, ids, o.Values[0]) != want || isNonNilErr(o.Values[1]) {
						bad = fmt.Sprintf("%q with argNull=%v must return %s: %s", n, argNull, want, o.String())
					}
				}
				c.Decide(bad == "" && len(outs) > 0, "TAB1", key, d.Function.Pos(), len(outs), "returns "+want, bad)
			}
		}
	}
	// not: truth table
	for _, d := range by["not"] {
		if d.Function == nil {
			c.Unknown("NOT", "functions."+d.Key(), d.Lit.Pos(), "Function is not a literal")
			continue
		}
		for _, b := range []bool{true, false} {
			b := b
			in := newLitInterp(p, fm.Info(), "functions")
			in.Hooks.Call = chainCall(ctorHook(ids), errorfHook)
			in.Hooks.Field = func(st *absint.State, base absint.Val, sel string) (absint.Val, bool) {
				switch sel {
				case "TypeID":
					return absint.Int(ids["TypeIDBoolean"]), true
				case "Boolean":
					return absint.Bool(b), true
				}
				return nil, false
			}
			outs, err := runLit(in, d.Function, nil, "")
			key := fmt.Sprintf("functions.%s/%v", d.Key(), b)
			if err != nil {
				c.Unknown("NOT", key, d.Function.Pos(), err.Error())
				continue
			}
			want := "TRUE"
			if b {
				want = "FALSE"
			}
			bad := ""
			for _, o := range outs {
				if o.Kind != "return" || len(o.Values) != 2 || valueClass(o, ids, o.Values[0]) != want {
					bad = fmt.Sprintf("not(%v) must be %s: %s", b, want, o.String())
				}
			}
			c.Decide(bad == "" && len(outs) > 0, "NOT", key, d.Function.Pos(), len(outs), "not("+fmt.Sprint(b)+") = "+want, bad)
		}
	}
	c.Floor("TAB1", 40, "strictness entries (76 descriptors; ~70 must be strict)")
	c.Floor("NOT", 2, "not(true), not(false)")
}
