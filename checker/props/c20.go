package props

import (
	"fmt"
	"go/ast"
	"strings"

	"octoverif/core"
	"octoverif/engine/absint"
)

func init() {
	register(&Check{ID: "C20", Run: runC20,
		Explanation: "The per-record callback of max_diff_watermark is interpreted for record time {<,=,>} current watermark × rounded time {>,≤} largest rounded time seen: a record passes iff its time is strictly above the current watermark, unchanged except that its event time is set to the time field before it is produced; the candidate is the time rounded down to the resolution (UnixNano / resolution * resolution, same resolution twice); a watermark is emitted only when the rounded time strictly exceeds the largest seen, which is updated in the same step, and its value is that rounded time minus max_diff — hence strictly increasing; watermarks of the source are not forwarded. PAN1: the resolution cannot be zero when the division runs.",
		NotDecided:  []string{"the arithmetic of rounding for times before 1970 or beyond the int64 nanosecond range"},
	})
}

func runC20(c *core.Ctx) {
	c.Rule("GEN", "max_diff_watermark: drop condition, event time, rounded candidate, strictly increasing watermark")
	c.Rule("PAN1", "no division by a zero resolution")
	checkMaxDiffWatermark(c, "GEN")
	p := c.Prog
	if fn := p.Func("table_valued_functions", "(*maxDifferenceWatermarkGenerator).Run"); fn != nil {
		for _, s := range integerDivisions(p, fn) {
			reach, why, paths := zeroDivisorReachable(p, s)
			c.Decide(!reach, "PAN1", p.FName(fn)+"/"+core.ExprStr(s.expr), s.expr.Pos(), paths, why, "integer division can panic: "+why)
		}
	}
}

func checkMaxDiffWatermark(c *core.Ctx, rule string) {
	p := c.Prog
	fn := p.Func("table_valued_functions", "(*maxDifferenceWatermarkGenerator).Run")
	key := "table_valued_functions.(*maxDifferenceWatermarkGenerator).Run"
	if fn == nil {
		c.Unknown(rule, key, 0, "anchor not found")
		return
	}
	c.SawFunc(key)
	rcs := nodeRunCalls(p, fn)
	if len(rcs) != 1 || rcs[0].Produce == nil || rcs[0].MetaSend == nil {
		c.Unknown(rule, key, fn.Decl.Pos(), "expected one source.Run with literal callbacks")
		return
	}
	T := "record.Values[m.timeFieldIndex].Time"
	R := "time.Unix(0,((time.Time.UnixNano(" + T + ") / resolution.Duration) * resolution.Duration))"
	for _, rel := range []absint.Rel{absint.LT, absint.EQ, absint.GT} {
		for _, adv := range []bool{true, false} {
			rel, adv := rel, adv
			o := absint.OrderOracle{}
			o.Set(T, "curWatermark", rel)
			if adv {
				o.Set(R, "maxValue", absint.GT)
			} else {
				o.Set(R, "maxValue", absint.EQ)
			}
			in := newInterp(p, fn)
			in.Hooks.Call = chainCall(timeRelHook(o), recordCtorHook, func(st *absint.State, call *ast.CallExpr, callee string, recv absint.Val, args []absint.Val) (absint.Val, bool) {
				switch callee {
				case "value:produce":
					st.Emit("PRODUCE", call.Pos(), args...)
					return absint.Nil{}, true
				case "value:metaSend":
					st.Emit("METASEND", call.Pos(), args...)
					return absint.Nil{}, true
				case "time.Unix":
					return absint.S("time.Unix(" + args[0].Canon() + "," + args[1].Canon() + ")"), true
				case "time.Time.Add":
					return absint.S("time.Time.Add(" + recv.Canon() + "," + args[0].Canon() + ")"), true
				case "time.Time.UnixNano":
					return absint.S("time.Time.UnixNano(" + recv.Canon() + ")"), true
				}
				return nil, false
			}, errorfHook)
			outs, err := runLit(in, rcs[0].Produce, nil, "")
			ckey := fmt.Sprintf("%s/record time %s watermark, rounded time advances=%v", key, rel, adv)
			if err != nil {
				c.Unknown(rule, ckey, rcs[0].Produce.Pos(), err.Error())
				continue
			}
			bad := ""
			for _, out := range outs {
				produced, sent := 0, 0
				evSet := ""
				for _, e := range out.Events {
					switch {
					case e.Name == "store record.EventTime" && len(e.Args) == 1:
						evSet = e.Args[0].Canon()
						if produced > 0 {
							bad = "the event time is set after the record was produced"
						}
					case e.Name == "PRODUCE":
						produced++
						if len(e.Args) != 2 || e.Args[1].Canon() != "record" {
							bad = "a record other than the received one is produced"
						}
					case e.Name == "METASEND":
						sent++
						w := out.Field(e.Args[1], "Watermark")
						want := "time.Time.Add(" + R + ",(-maxDifference.Duration))"
						if w == nil || w.Canon() != want {
							bad = fmt.Sprintf("the emitted watermark must be (time rounded down to the resolution) − max_diff = %s; it is %s", want, out.Show(w))
						}
					}
				}
				if (rel == absint.GT) != (produced == 1) {
					bad = fmt.Sprintf("a record must pass iff its time is strictly above the current watermark (time %s watermark): produced %d time(s)", rel, produced)
				}
				if produced == 1 && evSet != T {
					bad = "a passing record's event time must be set to its time field before it is produced (set to: " + evSet + ")"
				}
				if adv != (sent == 1) {
					bad = fmt.Sprintf("a watermark must be emitted iff the rounded time strictly exceeds the largest seen (advances=%v): emitted %d", adv, sent)
				}
				if adv {
					if v := out.Env["maxValue"]; v == nil || v.Canon() != R {
						bad = "the largest rounded time seen is not updated when a watermark is emitted: watermarks could repeat"
					}
					if v := out.Env["curWatermark"]; v == nil || v.Canon() != "time.Time.Add("+R+",(-maxDifference.Duration))" {
						bad = "the current watermark (used to drop late records) is not updated to the emitted one"
					}
				}
			}
			c.Decide(bad == "" && len(outs) > 0, rule, ckey, rcs[0].Produce.Pos(), len(outs), "", bad)
		}
	}
	// the source's own watermarks are swallowed, other metadata passes
	wm := lookupConst(p, "execution", "MetadataMessageTypeWatermark")
	for _, isWM := range []bool{true, false} {
		isWM := isWM
		in := newInterp(p, fn)
		in.Hooks.Field = func(st *absint.State, base absint.Val, sel string) (absint.Val, bool) {
			if sel == "Type" && base.Canon() == "msg" {
				if isWM {
					return wm, true
				}
				return absint.Int(99), true
			}
			return nil, false
		}
		sent := 0
		in.Hooks.Call = func(st *absint.State, call *ast.CallExpr, callee string, recv absint.Val, args []absint.Val) (absint.Val, bool) {
			if callee == "value:metaSend" {
				sent++
				return absint.Nil{}, true
			}
			return nil, false
		}
		outs, err := runLit(in, rcs[0].MetaSend, nil, "")
		ckey := fmt.Sprintf("%s/source metadata is a watermark=%v", key, isWM)
		ok := err == nil && len(outs) > 0 && (sent == 0) == isWM
		c.Decide(ok, rule, ckey, rcs[0].MetaSend.Pos(), len(outs), "", "watermarks of the source must not be forwarded (this node generates the stream's watermarks); other metadata must be")
	}
	_ = strings.TrimSpace
}
