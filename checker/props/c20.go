package props

import (
	"fmt"
	"go/ast"
	"go/constant"
	"go/token"
	"go/types"
	"strings"

	"octoverif/core"
	"octoverif/engine/absint"
)

func init() {
	register(&Check{ID: "C20", Run: runC20,
		Explanation: "The per-record callback of max_diff_watermark is interpreted for record time {<,=,>} current watermark × rounded time {>,≤} largest rounded time seen: a record passes iff its time is strictly above the current watermark, unchanged except that its event time is set to the time field before it is produced; the candidate is the time rounded down to the resolution — the nanosecond expression is folded for every residue and sign of the time (ROUND), so truncating division, which rounds pre-1970 times up, is rejected; a watermark is emitted only when the rounded time strictly exceeds the largest seen, which is updated in the same step, and its value is that rounded time minus max_diff — hence strictly increasing; watermarks of the source are not forwarded. PAN1: the resolution cannot be zero when the division runs.",
		NotDecided:  []string{"times beyond the int64 nanosecond range (years before 1678 or after 2262)"},
	})
}

func runC20(c *core.Ctx) {
	c.Rule("GEN", "max_diff_watermark: drop condition, event time, rounded candidate, strictly increasing watermark")
	c.Rule("PAN1", "no division by a zero resolution")
	checkMaxDiffWatermark(c, "GEN")
	p := c.Prog
	if fn := p.Func("table_valued_functions", "(*maxDifferenceWatermarkGenerator).Run"); fn != nil {
		for _, h := range helperClosure(p, fn) {
			for _, s := range integerDivisions(p, h) {
				reach, why, paths := divisionVerdict(p, s)
				c.Decide(!reach, "PAN1", p.FName(fn)+"/"+core.ExprStr(s.expr), s.expr.Pos(), paths, why, "integer division can panic: "+why)
			}
		}
	}
}

func checkMaxDiffWatermark(c *core.Ctx, rule string) {
	p := c.Prog
	fn := p.Func("table_valued_functions", "(*maxDifferenceWatermarkGenerator).Run")
	key := "table_valued_functions.(*maxDifferenceWatermarkGenerator).Run"
	if fn == nil {
		c.Unknown(rule, key, 0, "anchor not found")
		return
	}
	c.SawFunc(key)
	rcs := nodeRunCalls(p, fn)
	if len(rcs) != 1 || rcs[0].Produce == nil || rcs[0].MetaSend == nil {
		c.Unknown(rule, key, fn.Decl.Pos(), "expected one source.Run with literal callbacks")
		return
	}
	// names are taken from the code: the callback's record parameter, the receiver, the variables holding the evaluated
	// resolution and max difference, and — by a discovery pass — the two state variables the callback compares with
	recName, recvName := "record", "m"
	if pl := rcs[0].Produce.Type.Params.List; len(pl) == 2 && len(pl[1].Names) == 1 {
		recName = pl[1].Names[0].Name
	}
	if fn.Decl.Recv != nil && len(fn.Decl.Recv.List) == 1 && len(fn.Decl.Recv.List[0].Names) == 1 {
		recvName = fn.Decl.Recv.List[0].Names[0].Name
	}
	evaluated := func(field string) string {
		name := ""
		ast.Inspect(fn.Decl.Body, func(n ast.Node) bool {
			if as, ok := n.(*ast.AssignStmt); ok && len(as.Rhs) == 1 && len(as.Lhs) >= 1 {
				if call, ok := as.Rhs[0].(*ast.CallExpr); ok && core.ExprStr(call.Fun) == recvName+"."+field+".Evaluate" {
					name = core.ExprStr(as.Lhs[0])
				}
			}
			return true
		})
		return name
	}
	resVar, diffVar := evaluated("resolution"), evaluated("maxDifference")
	if resVar == "" || diffVar == "" {
		c.Unknown(rule, key, fn.Decl.Pos(), "the resolution and the max difference are not evaluated into variables (x, err := m.resolution.Evaluate(ctx))")
		return
	}
	T := recName + ".Values[" + recvName + ".timeFieldIndex].Time"
	// the rounded candidate: whatever expression builds it from the record's time and the resolution is named ROUNDED
	// here and judged separately (ROUND below): time.Unix(0, f(UnixNano(T), resolution)); T.Truncate(resolution) is recognised and rejected (other origin)
	R := "ROUNDED"
	roundExprs := map[string]token.Pos{}
	roundingCalls := func(st *absint.State, call *ast.CallExpr, callee string, recv absint.Val, args []absint.Val) (absint.Val, bool) {
		switch callee {
		case "time.Unix":
			if len(args) == 2 && args[0].Canon() == "0" && strings.Contains(args[1].Canon(), "time.Time.UnixNano("+T+")") {
				roundExprs[args[1].Canon()] = call.Pos()
				return absint.S(R), true
			}
			return absint.S("time.Unix(" + args[0].Canon() + "," + args[1].Canon() + ")"), true
		case "time.Time.Truncate":
			if recv.Canon() == T && len(args) == 1 {
				roundExprs["TRUNCATE("+args[0].Canon()+")"] = call.Pos()
				return absint.S(R), true
			}
		case "time.Time.Add":
			return absint.S("time.Time.Add(" + recv.Canon() + "," + args[0].Canon() + ")"), true
		case "time.Time.UnixNano":
			return absint.S("time.Time.UnixNano(" + recv.Canon() + ")"), true
		}
		return nil, false
	}
	// discovery: the variable the record's time is compared with (the current watermark) and the one the rounded
	// time is compared with (the largest rounded time seen)
	curVar, maxVar := "", ""
	{
		in := newInterp(p, fn)
		in.Hooks.Call = chainCall(func(st *absint.State, call *ast.CallExpr, callee string, recv absint.Val, args []absint.Val) (absint.Val, bool) {
			if (callee == "time.Time.After" || callee == "time.Time.Before") && len(args) == 1 {
				a, b := recv.Canon(), args[0].Canon()
				for _, pr := range [][2]string{{a, b}, {b, a}} {
					if pr[0] == T && curVar == "" {
						curVar = pr[1]
					}
					if pr[0] == R && maxVar == "" {
						maxVar = pr[1]
					}
				}
			}
			return nil, false
		}, recordCtorHook, roundingCalls, func(st *absint.State, call *ast.CallExpr, callee string, recv absint.Val, args []absint.Val) (absint.Val, bool) {
			if callee == "value:produce" || callee == "value:metaSend" {
				return absint.Nil{}, true
			}
			return nil, false
		}, errorfHook)
		if _, err := runLit(in, rcs[0].Produce, nil, ""); err != nil || curVar == "" || maxVar == "" {
			c.Unknown(rule, key, rcs[0].Produce.Pos(), fmt.Sprintf("the callback does not compare the record's time and the rounded time with state variables through After/Before (found %q, %q; %v)", curVar, maxVar, err))
			return
		}
		roundExprs = map[string]token.Pos{}
	}
	for _, rel := range []absint.Rel{absint.LT, absint.EQ, absint.GT} {
		for _, adv := range []bool{true, false} {
			rel, adv := rel, adv
			o := absint.OrderOracle{}
			o.Set(T, curVar, rel)
			if adv {
				o.Set(R, maxVar, absint.GT)
			} else {
				o.Set(R, maxVar, absint.EQ)
			}
			in := newInterp(p, fn)
			in.Hooks.Call = chainCall(timeRelHook(o), recordCtorHook, func(st *absint.State, call *ast.CallExpr, callee string, recv absint.Val, args []absint.Val) (absint.Val, bool) {
				switch callee {
				case "value:produce":
					st.Emit("PRODUCE", call.Pos(), args...)
					return absint.Nil{}, true
				case "value:metaSend":
					st.Emit("METASEND", call.Pos(), args...)
					return absint.Nil{}, true
				}
				return nil, false
			}, roundingCalls, errorfHook)
			outs, err := runLit(in, rcs[0].Produce, nil, "")
			ckey := fmt.Sprintf("%s/record time %s watermark, rounded time advances=%v", key, rel, adv)
			if err != nil {
				c.Unknown(rule, ckey, rcs[0].Produce.Pos(), err.Error())
				continue
			}
			bad := ""
			for _, out := range outs {
				produced, sent := 0, 0
				evSet := ""
				for _, e := range out.Events {
					switch {
					case e.Name == "store "+recName+".EventTime" && len(e.Args) == 1:
						evSet = e.Args[0].Canon()
						if produced > 0 {
							bad = "the event time is set after the record was produced"
						}
					case e.Name == "PRODUCE":
						produced++
						if len(e.Args) != 2 || e.Args[1].Canon() != recName {
							bad = "a record other than the received one is produced"
						}
					case e.Name == "METASEND":
						sent++
						w := out.Field(e.Args[1], "Watermark")
						want := "time.Time.Add(" + R + ",(-" + diffVar + ".Duration))"
						if w == nil || w.Canon() != want {
							bad = fmt.Sprintf("the emitted watermark must be (time rounded down to the resolution) − max_diff = %s; it is %s", want, out.Show(w))
						}
					}
				}
				if (rel == absint.GT) != (produced == 1) {
					bad = fmt.Sprintf("a record must pass iff its time is strictly above the current watermark (time %s watermark): produced %d time(s)", rel, produced)
				}
				if produced == 1 && evSet != T {
					bad = "a passing record's event time must be set to its time field before it is produced (set to: " + evSet + ")"
				}
				if adv != (sent == 1) {
					bad = fmt.Sprintf("a watermark must be emitted iff the rounded time strictly exceeds the largest seen (advances=%v): emitted %d", adv, sent)
				}
				// the state may be plain variables or fields of a state struct: its final value is the variable's,
				// or what was last stored under that name
				final := func(name string) absint.Val {
					if v, ok := out.Env[name]; ok && v != nil && !strings.Contains(name, ".") {
						return v
					}
					var last absint.Val
					for _, e := range out.Events {
						if e.Name == "store "+name && len(e.Args) == 1 {
							last = e.Args[0]
						}
					}
					if last == nil {
						// a field of a state object
						if i := strings.LastIndex(name, "."); i > 0 {
							if base, ok := out.Env[name[:i]]; ok && base != nil {
								if fv := out.Field(base, name[i+1:]); fv != nil && fv.Canon() != name {
									last = fv
								}
							}
						}
					}
					return last
				}
				if adv {
					if v := final(maxVar); v == nil || v.Canon() != R {
						bad = "the largest rounded time seen is not updated when a watermark is emitted: watermarks could repeat"
					}
					if v := final(curVar); v == nil || v.Canon() != "time.Time.Add("+R+",(-"+diffVar+".Duration))" {
						bad = "the current watermark (used to drop late records) is not updated to the emitted one"
					}
				}
			}
			c.Decide(bad == "" && len(outs) > 0, rule, ckey, rcs[0].Produce.Pos(), len(outs), "", bad)
		}
	}
	// ROUND: the candidate is the record's time rounded *down* to a multiple of the resolution, for every sign
	if len(roundExprs) == 0 {
		c.Unknown(rule, key+"/rounding", rcs[0].Produce.Pos(), "the rounded candidate is not built by time.Unix(0, f(time.UnixNano(), resolution)) or time.Truncate(resolution)")
	}
	for expr, pos := range roundExprs {
		rkey := key + "/rounding"
		if strings.HasPrefix(expr, "TRUNCATE(") {
			c.Bad(rule, rkey, pos, 1, "time.Truncate rounds down to multiples of the duration counted from January 1 of year 1, not from the Unix epoch the generator counts from: the two origins are 719162 days apart, so for a resolution that does not divide a day (7s, 11s, 7m) the buckets shift, watermarks are emitted at other records and other records are dropped as late")
			continue
		}
		ok, cases, why := isFloorToMultiple(expr, "time.Time.UnixNano("+T+")", resVar+".Duration")
		c.Decide(ok, rule, rkey, pos, cases, "the nanosecond arithmetic yields the largest multiple of the resolution not above the time, for negative (pre-1970) and positive times", why)
	}
	// the source's own watermarks are swallowed, other metadata passes
	wm := lookupConst(p, "execution", "MetadataMessageTypeWatermark")
	for _, isWM := range []bool{true, false} {
		isWM := isWM
		in := newInterp(p, fn)
		in.Hooks.Field = func(st *absint.State, base absint.Val, sel string) (absint.Val, bool) {
			if sel == "Type" && base.Canon() == "msg" {
				if isWM {
					return wm, true
				}
				return absint.Int(99), true
			}
			return nil, false
		}
		sent := 0
		in.Hooks.Call = func(st *absint.State, call *ast.CallExpr, callee string, recv absint.Val, args []absint.Val) (absint.Val, bool) {
			if callee == "value:metaSend" {
				sent++
				return absint.Nil{}, true
			}
			return nil, false
		}
		outs, err := runLit(in, rcs[0].MetaSend, nil, "")
		ckey := fmt.Sprintf("%s/source metadata is a watermark=%v", key, isWM)
		ok := err == nil && len(outs) > 0 && (sent == 0) == isWM
		c.Decide(ok, rule, ckey, rcs[0].MetaSend.Pos(), len(outs), "", "watermarks of the source must not be forwarded (this node generates the stream's watermarks); other metadata must be")
	}
	_ = strings.TrimSpace
}

// isFloorToMultiple decides whether the integer expression expr over n (nName) and r (rName), given in Go syntax,
// equals floor(n / r) * r under Go's integer semantics (division truncates toward zero, % takes the dividend's sign).
// Such an expression is a composition of +, -, *, / and % of n and r: for a fixed r its deviation from n is periodic in
// n with period r on each side of zero, so the constant folder's verdict on every n in [-3r, 3r] for r in 1..7 is a
// complete case analysis of the residues and signs, not a sample. Nothing of octosql runs: go/types folds constants.
func isFloorToMultiple(expr, nName, rName string) (bool, int, string) {
	cases := 0
	for r := int64(1); r <= 7; r++ {
		for n := -3 * r; n <= 3*r; n++ {
			src := strings.ReplaceAll(strings.ReplaceAll(expr, nName, fmt.Sprintf("int64(%d)", n)), rName, fmt.Sprintf("int64(%d)", r))
			tv, err := types.Eval(token.NewFileSet(), nil, token.NoPos, src)
			if err != nil || tv.Value == nil {
				return false, cases, fmt.Sprintf("the rounding expression %s is not integer arithmetic over the time's nanoseconds and the resolution (%v)", expr, err)
			}
			got, exact := constant.Int64Val(tv.Value)
			want := n - ((n%r)+r)%r
			cases++
			if !exact || got != want {
				return false, cases, fmt.Sprintf("the candidate must be the time rounded down to the resolution; %s gives %d for nanoseconds=%d, resolution=%d (rounded down: %d) — Go's integer division rounds toward zero, i.e. up for times before 1970: the watermark runs ahead of the data and in-order records are dropped as late", expr, got, n, r, want)
			}
		}
	}
	return true, cases, ""
}
