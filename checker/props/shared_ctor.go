package props

import (
	"fmt"
	"go/ast"
	"go/types"
	"strings"

	"octoverif/core"
	"octoverif/engine/absint"
)

// checkConstructors (CTOR): the constructors of plan operators (types implementing
// execution.Expression or execution.Node) store their arguments verbatim, each parameter exactly
// once, and a parameter named like a field initialises that field. Evaluation methods index
// parallel structures (layout fixer mappings, null-check indices, key expression lists) by the
// position of the arguments as given.
func checkConstructors(c *core.Ctx, rule string, pkgs ...string) {
	p := c.Prog
	exprI := ifaceOf(p, "execution", "Expression")
	nodeI := ifaceOf(p, "execution", "Node")
	n := 0
	for _, fn := range p.AllFuncs(pkgs...) {
		if fn.Decl.Recv != nil || !strings.HasPrefix(fn.Decl.Name.Name, "New") || fn.Obj == nil {
			continue
		}
		sig := fn.Obj.Type().(*types.Signature)
		if sig.Results().Len() != 1 {
			continue
		}
		rt := sig.Results().At(0).Type()
		if (exprI == nil || !types.Implements(rt, exprI)) && (nodeI == nil || !types.Implements(rt, nodeI)) {
			continue
		}
		n++
		key := p.FName(fn)
		c.SawFunc(key)
		in := newInterp(p, fn)
		outs, err := runDecl(in, fn, nil, "")
		if err != nil {
			c.Unknown(rule, key, fn.Decl.Pos(), err.Error())
			continue
		}
		var params []string
		for _, f := range fn.Decl.Type.Params.List {
			for _, nm := range f.Names {
				params = append(params, nm.Name)
			}
		}
		bad := ""
		for _, o := range outs {
			if o.Kind != "return" || len(o.Values) != 1 {
				bad = "unexpected " + o.String()
				continue
			}
			r, ok := o.Values[0].(absint.Ref)
			if !ok {
				bad = "does not return a freshly built operator: " + o.Values[0].Canon()
				continue
			}
			ob := o.Heap[r.ID]
			used := map[string]int{}
			for f, v := range ob.Fields {
				cv := v.Canon()
				isParam := false
				for _, pn := range params {
					if cv == pn {
						isParam = true
						used[pn]++
						for f2 := range ob.Fields {
							if strings.EqualFold(f2, pn) && f2 != f {
								bad = fmt.Sprintf("parameter %s is stored in field %s although the operator has a field %s", pn, f, f2)
							}
						}
					}
				}
				if isParam {
					continue
				}
				// an input wrapped into another operator (NewEventTimeBuffer(source)) still counts as stored once
				wrapped := false
				for _, pn := range params {
					if strings.HasSuffix(cv, "("+pn+")") && strings.Contains(cv, ".New") {
						wrapped = true
						used[pn]++
					}
				}
				if wrapped {
					continue
				}
				for _, pn := range params {
					if strings.Contains(cv, pn) && !absint.IsConst(v) {
						bad = fmt.Sprintf("field %s is not the argument as given but %s: evaluation indexes parallel structures by the original argument positions", f, o.Show(v))
					}
				}
			}
			for _, pn := range params {
				if used[pn] != 1 && bad == "" {
					bad = fmt.Sprintf("parameter %s is stored %d times (expected exactly once)", pn, used[pn])
				}
			}
		}
		c.Decide(bad == "" && len(outs) > 0, rule, key, fn.Decl.Pos(), len(outs), "stores every argument verbatim, once, in the field of the same name", bad)
	}
	if n < 12 {
		c.Unknown(rule, "<constructors>", 0, fmt.Sprintf("only %d operator constructors found", n))
	}
}

func ifaceOf(p *core.Program, rel, name string) *types.Interface {
	nt := p.NamedType(rel, name)
	if nt == nil {
		return nil
	}
	i, _ := nt.Underlying().(*types.Interface)
	return i
}

var _ = ast.IsExported
