package props

import (
	"fmt"
	"go/ast"
	"go/token"
	"strings"

	"octoverif/core"
)

// checkTimeEquality (TIMEEQ): two time.Time values are never compared with == / != (nor used as map keys or switch
// tags): the struct comparison also compares the wall/monotonic encoding and the *Location pointer, so one instant read
// as `…Z` and as `…+00:00` (or with different offsets) is "different".  Orderings and containers then disagree: two keys
// that are neither Before nor After each other and not == make a tree replace one with the other.
func checkTimeEquality(c *core.Ctx, rule string, pkgs ...string) {
	p := c.Prog
	n, hits := 0, 0
	for _, fr := range p.AllFuncs(pkgs...) {
		info := fr.Info()
		name := p.FName(fr)
		ord := 0
		ast.Inspect(fr.Decl.Body, func(nd ast.Node) bool {
			be, ok := nd.(*ast.BinaryExpr)
			if !ok || (be.Op != token.EQL && be.Op != token.NEQ) {
				return true
			}
			lt, rt := info.TypeOf(be.X), info.TypeOf(be.Y)
			if lt == nil || rt == nil {
				return true
			}
			isTime := func(s string) bool { return s == "time.Time" }
			n++
			if !isTime(lt.String()) || !isTime(rt.String()) {
				return true
			}
			// comparison with the zero value literal time.Time{} is the IsZero idiom and exact
			if strings.HasSuffix(core.ExprStr(be.X), "time.Time{}") || strings.HasSuffix(core.ExprStr(be.Y), "time.Time{}") {
				return true
			}
			hits++
			ord++
			c.Bad(rule, fmt.Sprintf("%s/%s#%d", name, core.ExprStr(be), ord), be.Pos(), 1,
				fmt.Sprintf("`%s` compares two time.Time values as structs: the same instant carried with another location/offset (JSON `…Z` vs `…+00:00`, `+05:30`) is unequal although neither is Before the other — use Time.Equal", core.ExprStr(be)))
			return true
		})
	}
	c.OK(rule, "no struct comparison of time.Time", 0, n, fmt.Sprintf("%d ==/!= comparisons type-checked, %d between time.Time values", n, hits))
}
