package props

import (
	"fmt"
	"go/ast"
	"go/constant"
	"go/token"
	"strings"

	"octoverif/core"
)

// checkTimeEquality (TIMEEQ): two time.Time values are never compared with == / != (nor used as map keys or switch
// tags): the struct comparison also compares the wall/monotonic encoding and the *Location pointer, so one instant read
// as `…Z` and as `…+00:00` (or with different offsets) is "different".  Orderings and containers then disagree: two keys
// that are neither Before nor After each other and not == make a tree replace one with the other.
func checkTimeEquality(c *core.Ctx, rule string, pkgs ...string) {
	p := c.Prog
	n, hits := 0, 0
	for _, fr := range p.AllFuncs(pkgs...) {
		info := fr.Info()
		name := p.FName(fr)
		ord := 0
		ast.Inspect(fr.Decl.Body, func(nd ast.Node) bool {
			be, ok := nd.(*ast.BinaryExpr)
			if !ok || (be.Op != token.EQL && be.Op != token.NEQ) {
				return true
			}
			lt, rt := info.TypeOf(be.X), info.TypeOf(be.Y)
			if lt == nil || rt == nil {
				return true
			}
			isTime := func(s string) bool { return s == "time.Time" }
			n++
			if !isTime(lt.String()) || !isTime(rt.String()) {
				return true
			}
			// comparison with the zero value literal time.Time{} is the IsZero idiom and exact
			if strings.HasSuffix(core.ExprStr(be.X), "time.Time{}") || strings.HasSuffix(core.ExprStr(be.Y), "time.Time{}") {
				return true
			}
			hits++
			ord++
			c.Bad(rule, fmt.Sprintf("%s/%s#%d", name, core.ExprStr(be), ord), be.Pos(), 1,
				fmt.Sprintf("`%s` compares two time.Time values as structs: the same instant carried with another location/offset (JSON `…Z` vs `…+00:00`, `+05:30`) is unequal although neither is Before the other — use Time.Equal", core.ExprStr(be)))
			return true
		})
	}
	c.OK(rule, "no struct comparison of time.Time", 0, n, fmt.Sprintf("%d ==/!= comparisons type-checked, %d between time.Time values", n, hits))
}

// checkFlushBound (ENDFLUSH): at end of stream the buffers (event-time buffer, both joins, the output wrapper) are
// emptied by "flush everything up to WatermarkMaxValue". That empties them only if no event time can lie above the
// constant. time.Unix(0, math.MaxInt64) is the year 2262 — records dated later never leave the buffers, silently.
// The bound must be the largest representable time.Time: seconds 1<<63-62135596801 (and the largest nanosecond part).
func checkFlushBound(c *core.Ctx, rule string) {
	p := c.Prog
	pkg := p.Pkg("execution")
	key := "execution.WatermarkMaxValue"
	if pkg == nil {
		c.Unknown(rule, key, 0, "package not found")
		return
	}
	var call *ast.CallExpr
	for _, f := range pkg.Syntax {
		ast.Inspect(f, func(n ast.Node) bool {
			vs, ok := n.(*ast.ValueSpec)
			if !ok || len(vs.Names) != 1 || vs.Names[0].Name != "WatermarkMaxValue" || len(vs.Values) != 1 {
				return true
			}
			call, _ = vs.Values[0].(*ast.CallExpr)
			return false
		})
	}
	if call == nil || p.CalleeName(pkg.TypesInfo, call) != "time.Unix" || len(call.Args) != 2 {
		c.Unknown(rule, key, 0, "WatermarkMaxValue is not initialised by a time.Unix(sec, nsec) call")
		return
	}
	sec, nsec := pkg.TypesInfo.Types[call.Args[0]].Value, pkg.TypesInfo.Types[call.Args[1]].Value
	if sec == nil || nsec == nil {
		c.Unknown(rule, key, call.Pos(), "the arguments of time.Unix are not constants")
		return
	}
	// total seconds = sec + nsec / 1e9; the largest time.Time has unix seconds 1<<63 - 1 - 62135596800
	total := constant.BinaryOp(sec, token.ADD, constant.BinaryOp(nsec, token.QUO_ASSIGN, constant.MakeInt64(1000000000)))
	maxSec := constant.BinaryOp(constant.MakeInt64(1<<63-1), token.SUB, constant.MakeInt64(62135596800))
	ok := constant.Compare(total, token.GEQ, maxSec)
	c.Decide(ok, rule, key, call.Pos(), 1, "the flush bound is the largest representable time",
		fmt.Sprintf("WatermarkMaxValue = %s is unix second %s (the year 2262 for time.Unix(0, math.MaxInt64)), far below the largest time.Time (unix second %s): a record with a later event time is never released by the end-of-stream flush of the event-time buffer, the joins and the output wrapper — it disappears without an error", core.ExprStr(call), total.ExactString(), maxSec.ExactString()))
}
