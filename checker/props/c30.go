package props

import (
	"fmt"
	"go/ast"
	"go/constant"
	"go/token"
	"go/types"
	"os"
	"path/filepath"
	"regexp"
	"sort"
	"strings"

	"octoverif/core"
)

// C30 — SQL formatting round-trips through the parser.
//
// Equivalence of the re-parsed tree for every statement is a statement about runtime values; what is decided are the
// two tables that have to agree for any round trip to work — what the grammar's actions store and what the printers
// read — and the keywords both sides use:
//
//	FMT1  every field of a node that the generated parser (sql.go, compiled from sql.y) populates — by composite literal
//	      or by assignment — is read by some Format method (the node's own, one it calls, or its parent's): a populated
//	      field nobody prints is lost on the way back.
//	FMT2  for productions whose node prints nothing but literals and child nodes (no string-typed field carries
//	      keywords), the keywords of the production's terminals appear in the printer's literals, in order.
//	FMT3  two node types implementing the same interface never print the same constant text.
//	FMT4  every Myprintf call has as many verbs as arguments and each verb fits its argument's type (%v SQLNode,
//	      %s string/[]byte, %c byte/rune, %a string) — a mismatch panics while printing.
func init() {
	register(&Check{ID: "C30", Run: runC30,
		Explanation: "FMT1: every AST field the generated parser populates (composite literals and field assignments in sql.go, positions mapped back to sql.y) is read by a Format method — the node's own, a helper it calls, or another node's printer. " +
			"FMT2: for nodes printed purely from literals and child nodes, the production's terminal keywords (via token.go's keyword table) occur in the printer's literals in order. " +
			"FMT3: implementations of one AST interface never print the same constant text. FMT4: Myprintf verbs and arguments agree in number and type.",
		NotDecided: []string{
			"equivalence of the re-parsed tree for every accepted statement (operator precedence/parenthesisation, identifier quoting and literal escaping are not decided)",
			"nodes whose keywords travel through string-typed fields (vitess's Select.Distinct, JoinTableExpr.Join, DDL.Action …) are outside FMT2; FMT1 still covers their fields",
		},
		Assumptions: []string{"sql.go is the goyacc output of sql.y (positions come from its //line directives)"},
	})
}

// derivedFields are populated by the grammar but determined by text the printer emits through another field.
var fmtDerived = map[string]string{
	"IndexInfo.Spatial": "set together with Type from the production's own keywords (SPATIAL …), which Type carries verbatim",
	"IndexInfo.Unique":  "set together with Type from the production's own keywords (UNIQUE … / PRIMARY KEY), which Type carries verbatim",
}

// fmtBareNames: node-typed fields printed without identifier quoting that can only ever hold a word the grammar reads
// bare (confirmed by reading). Three former entries — FuncExpr.Name, SetExpr.Name, VindexParam.Key — were wrong: the
// grammar fills them from sql_id / reserved_sql_id, which accept any back-quoted identifier, so `select`(a) prints as
// select(a) and does not parse (audit H5-8). They are reported by the rule and listed as open known findings.
var fmtBareNames = map[string]string{
	"CurTimeFuncExpr.Name via String()": "the grammar builds the name from the CURRENT_TIMESTAMP-family keyword tokens only, which are read bare",
}

// fmtPartial: node-typed fields of which deliberately only a part is printed (confirmed by reading).
var fmtPartial = map[string]string{}

func runC30(c *core.Ctx) {
	c.Rule("FMT1", "every field the grammar populates is printed")
	c.Rule("FMT2", "structural printers use the production's keywords")
	c.Rule("FMT3", "sibling node types print distinct constant text")
	c.Rule("FMT4", "Myprintf verbs fit their arguments")
	c.Rule("FMT5", "fields are printed in the order some production reads them")
	c.Rule("FMT6", "node-typed fields are printed through their own printer")
	c.Rule("FMT7", "the printer's string literal escapes are the ones the tokenizer decodes")
	checkLiteralEscapes(c, "FMT7")
	p := c.Prog
	pkg := p.Pkg("parser/sqlparser")
	if pkg == nil {
		c.Unknown("FMT1", "parser/sqlparser", 0, "package not found")
		return
	}
	info := pkg.TypesInfo
	methods := map[*types.Named]map[string]*ast.FuncDecl{}
	formats := map[*types.Named]*ast.FuncDecl{}
	for _, f := range pkg.Syntax {
		for _, d := range f.Decls {
			fd, ok := d.(*ast.FuncDecl)
			if !ok || fd.Recv == nil || fd.Body == nil {
				continue
			}
			rt := info.TypeOf(fd.Recv.List[0].Type)
			if pt, ok := rt.(*types.Pointer); ok {
				rt = pt.Elem()
			}
			n, ok := rt.(*types.Named)
			if !ok {
				continue
			}
			if methods[n] == nil {
				methods[n] = map[string]*ast.FuncDecl{}
			}
			methods[n][fd.Name.Name] = fd
			if fd.Name.Name == "Format" {
				formats[n] = fd
			}
		}
	}
	c.Rule("FMT8", "free-text string fields are not printed through a bare %s")
	checkRawTextFields(c, "FMT8", formats)
	c.Rule("FMT9", "each action arm of a printer prints a sentence some production accepts")
	checkActionArms(c, "FMT9", formats)
	// ---- printed: field reads inside Format methods and the methods they call on their receiver
	printed := map[string]bool{} // "Type.Field"
	var visit func(n *types.Named, fd *ast.FuncDecl, seen map[*ast.FuncDecl]bool)
	visit = func(n *types.Named, fd *ast.FuncDecl, seen map[*ast.FuncDecl]bool) {
		if fd == nil || seen[fd] {
			return
		}
		seen[fd] = true
		ast.Inspect(fd.Body, func(x ast.Node) bool {
			se, ok := x.(*ast.SelectorExpr)
			if !ok {
				return true
			}
			sel := info.Selections[se]
			if sel == nil {
				return true
			}
			rt := sel.Recv()
			if pt, ok := rt.(*types.Pointer); ok {
				rt = pt.Elem()
			}
			rn, ok := rt.(*types.Named)
			if !ok {
				return true
			}
			switch sel.Kind() {
			case types.FieldVal:
				printed[rn.Obj().Name()+"."+se.Sel.Name] = true
			case types.MethodVal:
				if m := methods[rn][se.Sel.Name]; m != nil && se.Sel.Name != "Format" && se.Sel.Name != "walkSubtree" {
					visit(rn, m, seen)
				}
			}
			return true
		})
	}
	seen := map[*ast.FuncDecl]bool{}
	for n, fd := range formats {
		visit(n, fd, seen)
	}
	// ---- populated: the generated parser
	type popSite struct{ pos token.Pos }
	populated := map[string]popSite{}
	var order []string
	nLits := 0
	sawParser := false
	for _, f := range pkg.Syntax {
		if filepath.Base(pkg.Fset.File(f.Package).Name()) != "sql.go" {
			continue
		}
		sawParser = true
		ast.Inspect(f, func(x ast.Node) bool {
			switch v := x.(type) {
			case *ast.CompositeLit:
				n, ok := info.TypeOf(v).(*types.Named)
				if !ok || formats[n] == nil {
					return true
				}
				if _, ok := n.Underlying().(*types.Struct); !ok {
					return true
				}
				nLits++
				for _, el := range v.Elts {
					if kv, ok := el.(*ast.KeyValueExpr); ok {
						k := n.Obj().Name() + "." + kv.Key.(*ast.Ident).Name
						if _, ok := populated[k]; !ok {
							populated[k] = popSite{kv.Pos()}
							order = append(order, k)
						}
					}
				}
			case *ast.AssignStmt:
				for _, l := range v.Lhs {
					se, ok := l.(*ast.SelectorExpr)
					if !ok {
						continue
					}
					sel := info.Selections[se]
					if sel == nil || sel.Kind() != types.FieldVal {
						continue
					}
					rt := sel.Recv()
					if pt, ok := rt.(*types.Pointer); ok {
						rt = pt.Elem()
					}
					n, ok := rt.(*types.Named)
					if !ok || formats[n] == nil {
						continue
					}
					k := n.Obj().Name() + "." + se.Sel.Name
					if _, ok := populated[k]; !ok {
						populated[k] = popSite{se.Pos()}
						order = append(order, k)
					}
				}
			}
			return true
		})
	}
	if !sawParser {
		c.Unknown("FMT1", "parser/sqlparser/sql.go", 0, "generated parser not found")
		return
	}
	sort.Strings(order)
	for _, k := range order {
		site := populated[k]
		if why, ok := fmtDerived[k]; ok {
			c.OK("FMT1", k, site.pos, 1, "derived: "+why)
			continue
		}
		c.Decide(printed[k], "FMT1", k, site.pos, 1, "populated by the grammar and read by a printer",
			fmt.Sprintf("the grammar stores %s (at %s) but no Format method reads it: the printed statement loses it and re-parsing cannot restore it", k, p.Pos(site.pos)))
	}
	c.Floor("FMT1", 150, "the grammar populates well over 150 fields of printable nodes")
	c.Note(fmt.Sprintf("FMT1: %d printable node types, %d composite literals in sql.go, %d populated fields", len(formats), nLits, len(order)))

	// ---- FMT4 + literal skeletons
	sqlNode, _ := pkg.Types.Scope().Lookup("SQLNode").Type().Underlying().(*types.Interface)
	finfo := map[*types.Named]*fmtInfoT{}
	nCalls := 0
	for n, fd := range formats {
		fi := &fmtInfoT{structural: true}
		finfo[n] = fi
		ast.Inspect(fd.Body, func(x ast.Node) bool {
			call, ok := x.(*ast.CallExpr)
			if !ok {
				return true
			}
			se, ok := call.Fun.(*ast.SelectorExpr)
			if !ok {
				return true
			}
			switch se.Sel.Name {
			case "Myprintf":
			case "WriteString", "WriteByte", "WriteRune", "Write", "WriteArg", "WriteNode":
				if tv, ok := info.Types[call.Args[0]]; ok && tv.Value != nil && tv.Value.Kind() == constant.String {
					fi.literal = append(fi.literal, constant.StringVal(tv.Value))
				} else {
					fi.structural = false
				}
				return true
			default:
				return true
			}
			if len(call.Args) == 0 {
				return true
			}
			nCalls++
			fi.calls++
			tv, ok := info.Types[call.Args[0]]
			key := fmt.Sprintf("%s.Format/Myprintf@%s", n.Obj().Name(), strings.TrimPrefix(core.ExprStr(call.Args[0]), `"`))
			if len(key) > 90 {
				key = key[:90]
			}
			if !ok || tv.Value == nil || tv.Value.Kind() != constant.String {
				fi.structural = false
				return true
			}
			format := constant.StringVal(tv.Value)
			args := call.Args[1:]
			var verbs []byte
			lit := ""
			for i := 0; i < len(format); i++ {
				if format[i] != '%' {
					lit += string(format[i])
					continue
				}
				if lit != "" {
					fi.literal = append(fi.literal, lit)
					lit = ""
				}
				i++
				if i < len(format) {
					verbs = append(verbs, format[i])
				}
			}
			if lit != "" {
				fi.literal = append(fi.literal, lit)
			}
			bad := ""
			if call.Ellipsis.IsValid() {
				fi.structural = false
				return true
			}
			if len(verbs) != len(args) {
				bad = fmt.Sprintf("format %q has %d verb(s) but %d argument(s)", format, len(verbs), len(args))
			} else {
				for i, v := range verbs {
					at := info.TypeOf(args[i])
					switch v {
					case 'v':
						ok := sqlNode == nil || types.Implements(at, sqlNode) || types.Implements(types.NewPointer(at), sqlNode)
						if _, isIface := at.Underlying().(*types.Interface); !ok && isIface {
							// a variable of a wider interface type: every value assigned to it must be a SQLNode
							if id, isID := args[i].(*ast.Ident); isID {
								obj := info.ObjectOf(id)
								assigned, allNodes := 0, true
								ast.Inspect(fd.Body, func(y ast.Node) bool {
									as, isAs := y.(*ast.AssignStmt)
									if !isAs || len(as.Lhs) != len(as.Rhs) {
										return true
									}
									for k, l := range as.Lhs {
										if lid, isL := l.(*ast.Ident); isL && info.ObjectOf(lid) == obj {
											assigned++
											rt := info.TypeOf(as.Rhs[k])
											if !types.Implements(rt, sqlNode) && !types.Implements(types.NewPointer(rt), sqlNode) {
												allNodes = false
											}
										}
									}
									return true
								})
								ok = assigned > 0 && allNodes
							}
						}
						if !ok {
							bad = fmt.Sprintf("%%v needs a SQLNode, argument %d (%s) is %s", i+1, core.ExprStr(args[i]), at)
						}
						if isNilable(at) == false && false {
							_ = at
						}
					case 's':
						fi.structural = false
						if b, ok := at.Underlying().(*types.Basic); !(ok && b.Info()&types.IsString != 0) && at.String() != "[]byte" {
							bad = fmt.Sprintf("%%s needs a string or []byte, argument %d (%s) is %s", i+1, core.ExprStr(args[i]), at)
						}
					case 'c':
						fi.structural = false
						if b, ok := at.Underlying().(*types.Basic); !(ok && (b.Kind() == types.Byte || b.Kind() == types.Rune || b.Kind() == types.Uint8 || b.Kind() == types.Int32 || b.Kind() == types.UntypedRune)) {
							bad = fmt.Sprintf("%%c needs a byte or rune, argument %d is %s", i+1, at)
						}
					case 'a':
						fi.structural = false
						if b, ok := at.Underlying().(*types.Basic); !(ok && b.Info()&types.IsString != 0) {
							bad = fmt.Sprintf("%%a needs a string, argument %d is %s", i+1, at)
						}
					default:
						bad = fmt.Sprintf("unknown verb %%%c", v)
					}
				}
			}
			fi.verbs += len(verbs)
			c.Decide(bad == "", "FMT4", key, call.Pos(), 1, "verbs fit arguments", "TrackedBuffer.Myprintf panics on this call: "+bad)
			return true
		})
	}
	c.Floor("FMT4", 150, "the printers hold well over 150 Myprintf calls")

	// ---- FMT6/FMT7: node-typed fields are printed as nodes (through their own Format), whole
	wholePrinted := map[string]bool{}   // "Type.Field" passed whole to %v (or ranged over / passed to a helper)
	viaString := map[string]token.Pos{} // "Type.Field" rendered through a method call into %s
	partial := map[string]token.Pos{}   // "Type.Field.Sub" printed instead of the whole field
	for n, fd := range formats {
		if len(fd.Recv.List[0].Names) == 0 {
			continue
		}
		ast.Inspect(fd.Body, func(x ast.Node) bool {
			call, ok := x.(*ast.CallExpr)
			if !ok {
				return true
			}
			se, ok := call.Fun.(*ast.SelectorExpr)
			if !ok || se.Sel.Name != "Myprintf" || len(call.Args) < 2 {
				return true
			}
			tv, ok := info.Types[call.Args[0]]
			if !ok || tv.Value == nil || tv.Value.Kind() != constant.String {
				return true
			}
			format := constant.StringVal(tv.Value)
			var verbs []byte
			for i := 0; i+1 < len(format); i++ {
				if format[i] == '%' {
					verbs = append(verbs, format[i+1])
					i++
				}
			}
			for i, a := range call.Args[1:] {
				if i >= len(verbs) {
					break
				}
				switch verbs[i] {
				case 'v':
					if fs, ok := a.(*ast.SelectorExpr); ok {
						if sel := info.Selections[fs]; sel != nil && sel.Kind() == types.FieldVal {
							wholePrinted[n.Obj().Name()+"."+fs.Sel.Name] = true
							// node.F.G: only a part of the node-typed field F is printed
							if inner, ok := fs.X.(*ast.SelectorExpr); ok {
								if isel := info.Selections[inner]; isel != nil && isel.Kind() == types.FieldVal {
									if id, ok := inner.X.(*ast.Ident); ok && len(fd.Recv.List[0].Names) == 1 && info.Uses[id] == info.Defs[fd.Recv.List[0].Names[0]] {
										ft := info.TypeOf(inner)
										if sqlNode != nil && (types.Implements(ft, sqlNode) || types.Implements(types.NewPointer(ft), sqlNode)) {
											partial[n.Obj().Name()+"."+inner.Sel.Name+"."+fs.Sel.Name] = call.Pos()
										}
									}
								}
							}
						}
					}
				case 's':
					// a method call on a node-typed field, e.g. node.Field.String()
					if mc, ok := a.(*ast.CallExpr); ok {
						if ms, ok := mc.Fun.(*ast.SelectorExpr); ok {
							if fs, ok := ms.X.(*ast.SelectorExpr); ok {
								if sel := info.Selections[fs]; sel != nil && sel.Kind() == types.FieldVal {
									ft := info.TypeOf(fs)
									if sqlNode != nil && (types.Implements(ft, sqlNode) || types.Implements(types.NewPointer(ft), sqlNode)) {
										viaString[n.Obj().Name()+"."+fs.Sel.Name+" via "+ms.Sel.Name+"()"] = call.Pos()
									}
								}
							}
						}
					}
				}
			}
			return true
		})
	}
	var ps []string
	for k := range partial {
		ps = append(ps, k)
	}
	sort.Strings(ps)
	for _, k := range ps {
		parts := strings.Split(k, ".")
		// harmless when the parent prints the whole field elsewhere
		if wholePrinted[parts[0]+"."+parts[1]] {
			c.OK("FMT6", k+" (part of a node)", partial[k], 1, "the whole field is printed elsewhere in the same printer")
			continue
		}
		if why, ok := fmtPartial[k]; ok {
			c.OK("FMT6", k+" (part of a node)", partial[k], 1, "by design: "+why)
			continue
		}
		c.Bad("FMT6", k+" (part of a node)", partial[k], 1, fmt.Sprintf("only %s of the node-typed field %s.%s is printed, never the field itself: whatever else that node carries (qualifier, alias, …) is lost on the way back", parts[2], parts[0], parts[1]))
	}
	var vs []string
	for k := range viaString {
		vs = append(vs, k)
	}
	sort.Strings(vs)
	for _, k := range vs {
		if why, ok := fmtBareNames[k]; ok {
			c.OK("FMT6", k, viaString[k], 1, "bare by design: "+why)
			continue
		}
		c.Bad("FMT6", k, viaString[k], 1, "a field that is itself a node (with its own quoting/escaping printer) is rendered through a string method into %s: identifiers that need back-quotes come out bare and parse differently — print it with %v")
	}
	c.OK("FMT6", "node-typed fields rendered through %s", 0, len(formats), fmt.Sprintf("%d printers scanned, %d node-typed fields bypass their printer", len(formats), len(vs)))

	// ---- FMT6 (glue): an operator string printed directly against a child expression needs a guard for the child
	// starting with an operator itself (`-` glued to `-a` is `--a`, a comment)
	nGlue := 0
	for n, fd := range formats {
		if len(fd.Recv.List[0].Names) == 0 {
			continue
		}
		recvName := fd.Recv.List[0].Names[0].Name
		ast.Inspect(fd.Body, func(x ast.Node) bool {
			call, ok := x.(*ast.CallExpr)
			if !ok {
				return true
			}
			se, ok := call.Fun.(*ast.SelectorExpr)
			if !ok || se.Sel.Name != "Myprintf" || len(call.Args) != 3 {
				return true
			}
			tv, ok := info.Types[call.Args[0]]
			if !ok || tv.Value == nil || constant.StringVal(tv.Value) != "%s%v" {
				return true
			}
			op, child := core.ExprStr(call.Args[1]), core.ExprStr(call.Args[2])
			if op != recvName+".Operator" || !strings.HasPrefix(child, recvName+".") {
				return true
			}
			nGlue++
			guard := false
			ast.Inspect(fd.Body, func(y ast.Node) bool {
				if ta, ok := y.(*ast.TypeAssertExpr); ok && core.ExprStr(ta.X) == child && core.ExprStr(ta.Type) == "*"+n.Obj().Name() {
					guard = true
				}
				return true
			})
			c.Decide(guard, "FMT6", n.Obj().Name()+".Format/operator glued to operand", call.Pos(), 1, "a nested "+n.Obj().Name()+" operand is separated from the operator",
				fmt.Sprintf("%s prints its operator directly against the operand (%q): when the operand is itself a %s the two operators fuse (`- -a` becomes `--a`, which the lexer reads as a comment); the nested case needs a separating space", n.Obj().Name(), "%s%v", n.Obj().Name()))
			return true
		})
	}
	if nGlue == 0 {
		c.Unknown("FMT6", "operator glued to operand", 0, "no printer gluing an operator to its operand found (UnaryExpr expected)")
	}

	// ---- FMT3: implementations of one interface print distinct constant text
	var ifaces []*types.Named
	for _, name := range pkg.Types.Scope().Names() {
		if tn, ok := pkg.Types.Scope().Lookup(name).(*types.TypeName); ok {
			if n, ok := tn.Type().(*types.Named); ok {
				if it, ok := n.Underlying().(*types.Interface); ok && it.NumMethods() > 0 && name != "SQLNode" {
					ifaces = append(ifaces, n)
				}
			}
		}
	}
	nPairs := 0
	for _, in := range ifaces {
		it := in.Underlying().(*types.Interface)
		var impls []*types.Named
		for n := range formats {
			if types.Implements(n, it) || types.Implements(types.NewPointer(n), it) {
				impls = append(impls, n)
			}
		}
		sort.Slice(impls, func(i, j int) bool { return impls[i].Obj().Name() < impls[j].Obj().Name() })
		byText := map[string][]string{}
		for _, n := range impls {
			fi := finfo[n]
			if fi == nil || fi.verbs != 0 || !fi.structural || len(fi.literal) == 0 {
				continue // not a constant printer
			}
			txt := strings.ToLower(strings.Join(fi.literal, ""))
			byText[txt] = append(byText[txt], n.Obj().Name())
		}
		for txt, names := range byText {
			nPairs++
			c.Decide(len(names) == 1, "FMT3", in.Obj().Name()+"/"+strings.Join(names, "="), formats[lookupNamed(formats, names[0])].Pos(), len(names),
				"constant text unique among the interface's implementations",
				fmt.Sprintf("%s all print %q: the parser can only give one of them back", strings.Join(names, ", "), txt))
		}
	}
	c.Floor("FMT3", 2, "WatermarkTrigger / EndOfStreamTrigger are constant printers")

	// ---- FMT2: structural printers vs. the production's terminals
	checkGrammarKeywords(c, pkg.Fset, formats, finfo)
}

func isNilable(t types.Type) bool { return false }

type fmtInfoT struct {
	literal    []string // literal parts in order
	structural bool     // only %v verbs over SQLNode arguments, no %s
	verbs      int
	calls      int
}

func lookupNamed(m map[*types.Named]*ast.FuncDecl, name string) *types.Named {
	for n := range m {
		if n.Obj().Name() == name {
			return n
		}
	}
	return nil
}

type production struct {
	lhs     string
	symbols []string
	action  string
	line    int
}

// parseYacc reads the rules section of a yacc grammar.
func parseYacc(src string) []production {
	i := strings.Index(src, "\n%%")
	if i < 0 {
		return nil
	}
	body := src[i+3:]
	if j := strings.Index(body, "\n%%"); j >= 0 {
		body = body[:j]
	}
	baseLine := strings.Count(src[:i+3], "\n") + 1
	var prods []production
	var lhs string
	var cur production
	var tok strings.Builder
	line := baseLine
	flushTok := func() {
		if tok.Len() > 0 {
			cur.symbols = append(cur.symbols, tok.String())
			tok.Reset()
		}
	}
	endAlt := func() {
		flushTok()
		if lhs != "" {
			cur.lhs = lhs
			prods = append(prods, cur)
		}
		cur = production{line: line}
	}
	n := len(body)
	for k := 0; k < n; k++ {
		ch := body[k]
		switch {
		case ch == '\n':
			line++
			flushTok()
		case ch == '/' && k+1 < n && body[k+1] == '/':
			for k < n && body[k] != '\n' {
				k++
			}
			line++
			flushTok()
		case ch == '/' && k+1 < n && body[k+1] == '*':
			for k+1 < n && !(body[k] == '*' && body[k+1] == '/') {
				if body[k] == '\n' {
					line++
				}
				k++
			}
			k++
		case ch == '{':
			flushTok()
			depth := 0
			start := k
			for ; k < n; k++ {
				switch body[k] {
				case '{':
					depth++
				case '}':
					depth--
				case '\n':
					line++
				case '/':
					if k+1 < n && body[k+1] == '/' {
						for k < n && body[k] != '\n' {
							k++
						}
						line++
					}
				case '"':
					k++
					for k < n && body[k] != '"' && body[k] != '\n' {
						if body[k] == '\\' {
							k++
						}
						k++
					}
					if k < n && body[k] == '\n' {
						line++
					}
				case '\'':
					k++
					for k < n && body[k] != '\'' && body[k] != '\n' {
						if body[k] == '\\' {
							k++
						}
						k++
					}
					if k < n && body[k] == '\n' {
						line++
					}
				}
				if depth == 0 {
					break
				}
			}
			cur.action += body[start : k+1]
		case ch == '\'':
			flushTok()
			end := k + 1
			for end < n && body[end] != '\'' {
				if body[end] == '\\' {
					end++
				}
				end++
			}
			cur.symbols = append(cur.symbols, body[k:end+1])
			k = end
		case ch == ':':
			// the token just read is a rule name
			flushTok()
			if len(cur.symbols) > 0 {
				name := cur.symbols[len(cur.symbols)-1]
				cur.symbols = cur.symbols[:len(cur.symbols)-1]
				if lhs != "" && (len(cur.symbols) > 0 || cur.action != "") {
					cur.lhs = lhs
					prods = append(prods, cur)
				} else if lhs != "" {
					// previous rule's last alternative was empty but complete
					cur.lhs = lhs
					prods = append(prods, cur)
				}
				lhs = name
				cur = production{line: line}
			}
		case ch == '|':
			endAlt()
		case ch == ';':
			endAlt()
			lhs = ""
		case ch == ' ' || ch == '\t' || ch == '\r':
			flushTok()
		default:
			tok.WriteByte(ch)
		}
	}
	endAlt()
	return prods
}

var compositeRe = regexp.MustCompile(`\$\$\s*=\s*&?([A-Z]\w*)\{`)

func checkGrammarKeywords(c *core.Ctx, fset *token.FileSet, formats map[*types.Named]*ast.FuncDecl, finfo map[*types.Named]*fmtInfoT) {
	p := c.Prog
	src, err := os.ReadFile(filepath.Join(p.Root, "parser/sqlparser/sql.y"))
	if err != nil {
		c.Unknown("FMT2", "parser/sqlparser/sql.y", 0, err.Error())
		return
	}
	prods := parseYacc(string(src))
	if len(prods) < 500 {
		c.Unknown("FMT2", "parser/sqlparser/sql.y", 0, fmt.Sprintf("only %d productions parsed from the grammar", len(prods)))
		return
	}
	// keyword table: token name -> text
	pkg := p.Pkg("parser/sqlparser")
	kw := map[string]string{}
	for _, f := range pkg.Syntax {
		ast.Inspect(f, func(n ast.Node) bool {
			vs, ok := n.(*ast.ValueSpec)
			if !ok || len(vs.Names) != 1 || vs.Names[0].Name != "keywords" || len(vs.Values) != 1 {
				return true
			}
			cl, ok := vs.Values[0].(*ast.CompositeLit)
			if !ok {
				return true
			}
			for _, el := range cl.Elts {
				kv := el.(*ast.KeyValueExpr)
				if bl, ok := kv.Key.(*ast.BasicLit); ok {
					if id, ok := kv.Value.(*ast.Ident); ok && id.Name != "UNUSED" {
						txt := strings.Trim(bl.Value, `"`)
						if _, dup := kw[id.Name]; !dup {
							kw[id.Name] = txt
						}
					}
				}
			}
			return true
		})
	}
	if len(kw) < 150 {
		c.Unknown("FMT2", "parser/sqlparser/token.go", 0, fmt.Sprintf("only %d keywords found in the tokenizer's table", len(kw)))
		return
	}
	byName := map[string]*types.Named{}
	for n := range formats {
		byName[n.Obj().Name()] = n
	}
	// a printer may normalise alternative spellings (CAST → convert, LIMIT a OFFSET b → limit b, a): what every round
	// trip needs is that the printed keywords are those of at least one production building the same node
	type cand struct {
		words []string
		text  string
		line  int
	}
	perType := map[*types.Named][]cand{}
	for _, pr := range prods {
		m := compositeRe.FindStringSubmatch(pr.action)
		if m == nil {
			continue
		}
		t := byName[m[1]]
		if t == nil {
			continue
		}
		fi := finfo[t]
		if fi == nil || !fi.structural {
			continue
		}
		var words []string
		for _, s := range pr.symbols {
			if txt, ok := kw[s]; ok {
				words = append(words, txt)
			}
		}
		perType[t] = append(perType[t], cand{words, pr.lhs + ": " + strings.Join(pr.symbols, " "), pr.line})
	}
	var tnames []string
	for t := range perType {
		tnames = append(tnames, t.Obj().Name())
	}
	sort.Strings(tnames)
	for _, name := range tnames {
		t := byName[name]
		fi := finfo[t]
		lit := strings.ToLower(strings.Join(fi.literal, " "))
		matched, withWords := "", 0
		var all []string
		for _, cd := range perType[t] {
			if len(cd.words) > 0 {
				withWords++
			}
			all = append(all, fmt.Sprintf("`%s` (sql.y:%d)", cd.text, cd.line))
			pos, ok := 0, true
			for _, w := range cd.words {
				loc := regexp.MustCompile(`\b` + regexp.QuoteMeta(w) + `\b`).FindStringIndex(lit[pos:])
				if loc == nil {
					ok = false
					break
				}
				pos += loc[1]
			}
			if ok && matched == "" {
				matched = cd.text
			}
		}
		if withWords == 0 {
			continue
		}
		c.Decide(matched != "", "FMT2", name, formats[t].Pos(), len(perType[t]), "prints the keywords of `"+matched+"`",
			fmt.Sprintf("%s.Format prints %q, which carries the keywords of none of the productions that build a %s: %s — the printed text parses as something else or not at all", name, strings.Join(fi.literal, "…"), name, strings.Join(all, "; ")))
	}
	// ---- FMT5: each Myprintf call prints fields in the order at least one production reads them
	posRe := regexp.MustCompile(`\$(\d+)`)
	type prodFields struct {
		pos  map[string]int
		text string
	}
	prodsOf := map[*types.Named][]prodFields{}
	for _, pr := range prods {
		m := compositeRe.FindStringSubmatchIndex(pr.action)
		if m == nil {
			continue
		}
		t := byName[pr.action[m[2]:m[3]]]
		if t == nil {
			continue
		}
		// the literal's body
		body := pr.action[m[1]:]
		depth, end := 1, -1
		for i := 0; i < len(body) && end < 0; i++ {
			switch body[i] {
			case '{', '(':
				depth++
			case '}', ')':
				depth--
				if depth == 0 {
					end = i
				}
			}
		}
		if end < 0 {
			continue
		}
		body = body[:end]
		pf := prodFields{pos: map[string]int{}, text: pr.lhs + ": " + strings.Join(pr.symbols, " ")}
		// split on top-level commas
		d, start := 0, 0
		var parts []string
		for i := 0; i < len(body); i++ {
			switch body[i] {
			case '(', '{', '[':
				d++
			case ')', '}', ']':
				d--
			case ',':
				if d == 0 {
					parts = append(parts, body[start:i])
					start = i + 1
				}
			}
		}
		parts = append(parts, body[start:])
		for _, part := range parts {
			kv := strings.SplitN(part, ":", 2)
			if len(kv) != 2 {
				continue
			}
			if mm := posRe.FindStringSubmatch(kv[1]); mm != nil {
				n := 0
				fmt.Sscanf(mm[1], "%d", &n)
				pf.pos[strings.TrimSpace(kv[0])] = n
			}
		}
		if len(pf.pos) >= 2 {
			prodsOf[t] = append(prodsOf[t], pf)
		}
	}
	pinfo := pkg.TypesInfo
	nOrder := 0
	var onames []string
	for t := range prodsOf {
		onames = append(onames, t.Obj().Name())
	}
	sort.Strings(onames)
	for _, name := range onames {
		t := byName[name]
		fd := formats[t]
		if len(fd.Recv.List[0].Names) == 0 {
			continue
		}
		recv := pinfo.Defs[fd.Recv.List[0].Names[0]]
		callNo := 0
		ast.Inspect(fd.Body, func(x ast.Node) bool {
			call, ok := x.(*ast.CallExpr)
			if !ok {
				return true
			}
			se, ok := call.Fun.(*ast.SelectorExpr)
			if !ok || se.Sel.Name != "Myprintf" {
				return true
			}
			var seq []string
			for _, a := range call.Args[1:] {
				// node.F, node.F.M(), or a conversion thereof
				var fsel *ast.SelectorExpr
				ast.Inspect(a, func(y ast.Node) bool {
					if s2, ok := y.(*ast.SelectorExpr); ok && fsel == nil {
						if id, ok := s2.X.(*ast.Ident); ok && pinfo.Uses[id] == recv {
							if sel := pinfo.Selections[s2]; sel != nil && sel.Kind() == types.FieldVal {
								fsel = s2
							}
						}
					}
					return true
				})
				if fsel != nil {
					seq = append(seq, fsel.Sel.Name)
				}
			}
			if len(seq) < 2 {
				return true
			}
			callNo++
			fits := ""
			relevant := false
			// the fields of this call any production populates; a fitting production must populate all of them
			anyPop := map[string]bool{}
			for _, pf := range prodsOf[t] {
				for _, f := range seq {
					if _, has := pf.pos[f]; has {
						anyPop[f] = true
					}
				}
			}
			for _, pf := range prodsOf[t] {
				covers := true
				for f := range anyPop {
					if _, has := pf.pos[f]; !has {
						covers = false
					}
				}
				if !covers {
					continue
				}
				last, ok, seen := -1, true, 0
				for _, f := range seq {
					if k, has := pf.pos[f]; has {
						seen++
						if k < last {
							ok = false
						}
						last = k
					}
				}
				if seen >= 2 {
					relevant = true
					if ok && fits == "" {
						fits = pf.text
					}
				}
			}
			if !relevant {
				return true
			}
			nOrder++
			c.Decide(fits != "", "FMT5", fmt.Sprintf("%s.Format/call %d (%s)", name, callNo, strings.Join(seq, ",")), call.Pos(), len(prodsOf[t]),
				"field order matches `"+fits+"`",
				fmt.Sprintf("%s.Format prints %s in this order, but no production of %s reads them in that order: the printed clauses/keywords come out transposed and parse as something else or not at all", name, strings.Join(seq, ", "), name))
			return true
		})
	}
	// ---- FMT5b: an operator node built by a production that is not of the infix shape `x OP y` needs its own print form
	opRe := regexp.MustCompile(`Operator:\s*([A-Za-z_]\w*)`)
	nOps := 0
	for _, pr := range prods {
		m := compositeRe.FindStringSubmatch(pr.action)
		if m == nil || byName[m[1]] == nil {
			continue
		}
		om := opRe.FindStringSubmatch(pr.action)
		if om == nil || !strings.Contains(pr.action, "Left:") || !strings.Contains(pr.action, "Right:") {
			continue
		}
		nOps++
		var syms []string
		for i := 0; i < len(pr.symbols); i++ {
			if pr.symbols[i] == "%prec" {
				i++
				continue
			}
			syms = append(syms, pr.symbols[i])
		}
		// infix shape: operand, one or more operator terminals, operand, then only optional non-terminals
		shape := ""
		for _, sy := range syms {
			if sy[0] == '\'' || (sy[0] >= 'A' && sy[0] <= 'Z') {
				shape += "T"
			} else {
				shape += "N"
			}
		}
		if regexp.MustCompile(`^NT+N+$`).MatchString(shape) {
			continue // x OP y: the generic "%v %s %v" form fits
		}
		t := byName[m[1]]
		special := false
		ast.Inspect(formats[t].Body, func(x ast.Node) bool {
			if id, ok := x.(*ast.Ident); ok && id.Name == om[1] {
				special = true
			}
			return true
		})
		c.Decide(special, "FMT5", fmt.Sprintf("%s operator %s ← %s", m[1], om[1], strings.Join(syms, " ")), formats[t].Pos(), 1,
			"non-infix operator has its own print form",
			fmt.Sprintf("the grammar reads operator %s as `%s` (sql.y:%d), which is not of the infix shape `x OP y`, but %s.Format has no case for it and prints it infix: the text does not parse back", om[1], strings.Join(syms, " "), pr.line, m[1]))
	}
	if nOps < 10 {
		c.Unknown("FMT5", "operator productions", 0, fmt.Sprintf("only %d operator productions found in the grammar", nOps))
	}
	c.Floor("FMT5", 20, "dozens of printers print two or more grammar-populated fields in one call")
	c.Floor("FMT2", 8, "the OctoSQL extension productions (triggers, descriptors, …) are structural printers")
}
