package props

import (
	"fmt"
	"go/ast"
	"go/constant"
	"go/token"
	"go/types"
	"regexp"
	"strings"

	"octoverif/core"
	"octoverif/engine/absint"
	"octoverif/engine/tables"
)

var payloadOf = map[string]string{"Int": "Int", "Float": "Float", "Boolean": "Boolean", "String": "Str", "Time": "Time", "Duration": "Duration", "List": "List", "Struct": "Struct", "Tuple": "Tuple"}
var payloadFields = map[string]bool{"Int": true, "Float": true, "Boolean": true, "Str": true, "Time": true, "Duration": true, "List": true, "Struct": true, "Tuple": true}

type fnTable struct {
	descs []*tables.Descriptor
	fm    *core.FuncRef
	info  *types.Info
}

func loadFunctions(c *core.Ctx, rule string) *fnTable {
	descs, fm, err := tables.FunctionMap(c.Prog)
	if err != nil {
		c.Unknown(rule, "functions.FunctionMap", 0, err.Error())
		return nil
	}
	c.SawFunc("functions.FunctionMap")
	if len(descs) < 60 {
		c.Unknown(rule, "functions.FunctionMap", fm.Decl.Pos(), fmt.Sprintf("only %d descriptors extracted (76 expected)", len(descs)))
		return nil
	}
	for _, d := range descs {
		if d.Function != nil && len(d.Binds) > 0 {
			setLitBinds(d.Function, d.Binds)
		}
	}
	return &fnTable{descs: descs, fm: fm, info: fm.Info()}
}

// argKinds returns, per argument position, the set of TypeID names the descriptor
// admits: from ArgumentTypes, or from the guards of a TypeFn (`ts[k].TypeID != X → false`).
func (t *fnTable) argKinds(d *tables.Descriptor) (kinds []tables.TypeSet, arity int, known bool) {
	if d.HasArgs {
		return d.ArgTypes, len(d.ArgTypes), true
	}
	if d.TypeFn == nil {
		return nil, 0, false
	}
	arity = -1
	byIdx := map[int]string{}
	param := ""
	if len(d.TypeFn.Type.Params.List) > 0 && len(d.TypeFn.Type.Params.List[0].Names) > 0 {
		param = d.TypeFn.Type.Params.List[0].Names[0].Name
	}
	// A guard is an if statement whose body returns (_, false); its condition is a disjunction, and each
	// disjunct `len(p) != N` or `p[k].TypeID != X` constrains the accepted arguments.
	var disjuncts func(e ast.Expr) []ast.Expr
	disjuncts = func(e ast.Expr) []ast.Expr {
		e = core.Unparen(e)
		if be, ok := e.(*ast.BinaryExpr); ok && be.Op == token.LOR {
			return append(disjuncts(be.X), disjuncts(be.Y)...)
		}
		return []ast.Expr{e}
	}
	idxRe := regexp.MustCompile(`^` + regexp.QuoteMeta(param) + `\[(\d+)\]\.TypeID$`)
	ast.Inspect(d.TypeFn.Body, func(n ast.Node) bool {
		is, ok := n.(*ast.IfStmt)
		if !ok {
			return true
		}
		retFalse := false
		for _, st := range is.Body.List {
			if rs, ok := st.(*ast.ReturnStmt); ok && len(rs.Results) == 2 && core.ExprStr(rs.Results[1]) == "false" {
				retFalse = true
			}
		}
		if !retFalse {
			return true
		}
		for _, dj := range disjuncts(is.Cond) {
			be, ok := dj.(*ast.BinaryExpr)
			if !ok || be.Op != token.NEQ {
				continue
			}
			l := core.ExprStr(be.X)
			if l == "len("+param+")" {
				if tv, ok := t.info.Types[be.Y]; ok && tv.Value != nil {
					n, _ := constant.Int64Val(tv.Value)
					arity = int(n)
				}
				continue
			}
			if m := idxRe.FindStringSubmatch(l); m != nil {
				k := int(m[1][0] - '0')
				if sel, ok := core.Unparen(be.Y).(*ast.SelectorExpr); ok {
					byIdx[k] = strings.TrimPrefix(sel.Sel.Name, "TypeID")
				}
			}
		}
		return true
	})
	if arity < 0 {
		return nil, 0, false
	}
	kinds = make([]tables.TypeSet, arity)
	for i := range kinds {
		if id, ok := byIdx[i]; ok {
			kinds[i] = tables.TypeSet{IDs: []string{id}}
		} else {
			kinds[i] = tables.TypeSet{IDs: []string{"Any"}}
		}
	}
	return kinds, arity, true
}

// outputKinds: declared OutputType or the constant type every successful TypeFn return yields.
func (t *fnTable) outputKinds(d *tables.Descriptor) (tables.TypeSet, bool) {
	if d.HasOutput {
		return d.Output, !d.Output.Dynamic
	}
	if d.TypeFn == nil {
		return tables.TypeSet{}, false
	}
	var out *tables.TypeSet
	ok := true
	for _, rs := range tables.ReturnsOf(d.TypeFn) {
		if len(rs.Results) != 2 || core.ExprStr(rs.Results[1]) != "true" {
			continue
		}
		ts := tables.EvalType(t.info, rs.Results[0])
		if ts.Dynamic {
			ok = false
			continue
		}
		if out == nil {
			out = &ts
		} else if out.String() != ts.String() {
			ok = false
		}
	}
	if out == nil || !ok {
		return tables.TypeSet{}, false
	}
	return *out, true
}

// valuesParam is the name of the Function literal's argument slice.
func valuesParam(lit *ast.FuncLit) string {
	if lit.Type.Params != nil && len(lit.Type.Params.List) > 0 && len(lit.Type.Params.List[0].Names) > 0 {
		return lit.Type.Params.List[0].Names[0].Name
	}
	return "values"
}

// checkPayloadAgreement (UNI2): values[k].<payload> agrees with the k-th argument type.
func checkPayloadAgreement(c *core.Ctx, rule string) {
	t := loadFunctions(c, rule)
	if t == nil {
		return
	}
	n := 0
	for _, d := range t.descs {
		key := "functions." + d.Key()
		if d.Function == nil {
			c.Unknown(rule, key, d.Lit.Pos(), "Function is not a function literal")
			continue
		}
		kinds, arity, known := t.argKinds(d)
		if !known {
			c.Unknown(rule, key, d.Lit.Pos(), "argument kinds cannot be determined (no ArgumentTypes and no recognisable TypeFn guards)")
			continue
		}
		vp := valuesParam(d.Function)
		bad := ""
		acc := 0
		ast.Inspect(d.Function.Body, func(nd ast.Node) bool {
			ix, ok := nd.(*ast.IndexExpr)
			if !ok || core.ExprStr(ix.X) != vp {
				return true
			}
			tv, ok := t.info.Types[ix.Index]
			if !ok || tv.Value == nil {
				return true
			}
			k64, _ := constant.Int64Val(tv.Value)
			k := int(k64)
			acc++
			if k >= arity {
				bad = fmt.Sprintf("reads %s[%d] but the descriptor takes %d argument(s): index out of range at run time", vp, k, arity)
			}
			return true
		})
		core.WalkStack(d.Function.Body, func(nd ast.Node, stack []ast.Node) bool {
			sel, ok := nd.(*ast.SelectorExpr)
			if !ok || !payloadFields[sel.Sel.Name] {
				return true
			}
			ix, ok := core.Unparen(sel.X).(*ast.IndexExpr)
			if !ok || core.ExprStr(ix.X) != vp {
				return true
			}
			tv, ok := t.info.Types[ix.Index]
			if !ok || tv.Value == nil {
				return true
			}
			k64, _ := constant.Int64Val(tv.Value)
			k := int(k64)
			if k >= arity {
				return true
			}
			okField := false
			for _, id := range kinds[k].IDs {
				if payloadOf[id] == sel.Sel.Name {
					okField = true
				}
			}
			// a read under a test of the value's own TypeID is a read of the payload that value carries
			if !okField {
				tid := core.ExprStr(ix) + ".TypeID"
				for i := len(stack) - 1; i >= 0 && !okField; i-- {
					switch g := stack[i].(type) {
					case *ast.CaseClause:
						if i == 0 {
							continue
						}
						// the clause's switch is two levels up (SwitchStmt → BlockStmt → CaseClause)
						for j := i - 1; j >= 0 && j >= i-2; j-- {
							if sw, ok := stack[j].(*ast.SwitchStmt); ok && sw.Tag != nil && core.ExprStr(sw.Tag) == tid {
								for _, e := range g.List {
									if payloadOf[strings.TrimPrefix(core.ExprStr(e), "octosql.TypeID")] == sel.Sel.Name {
										okField = true
									}
								}
							}
						}
					case *ast.IfStmt:
						if i+1 < len(stack) && stack[i+1] == ast.Node(g.Body) {
							for id := range payloadOf {
								cs := core.ExprStr(g.Cond)
								if payloadOf[id] == sel.Sel.Name && (cs == tid+" == octosql.TypeID"+id || cs == "octosql.TypeID"+id+" == "+tid) {
									okField = true
								}
							}
						}
					}
				}
			}
			if !okField {
				bad = fmt.Sprintf("argument %d is declared %s but the body reads %s[%d].%s — that payload is empty for such a value", k, kinds[k].String(), vp, k, sel.Sel.Name)
			}
			return true
		})
		n++
		c.Decide(bad == "", rule, key, d.Function.Pos(), acc, "payload reads agree with the declared argument types", bad)
	}
	c.Floor(rule, 60, "function descriptors")
}

// checkOutputConstructors (UNI3): constructors at the non-error returns ⊆ declared output type.
func checkOutputConstructors(c *core.Ctx, rule string) {
	t := loadFunctions(c, rule)
	if t == nil {
		return
	}
	for _, d := range t.descs {
		key := "functions." + d.Key()
		if d.Function == nil {
			c.Unknown(rule, key, d.Lit.Pos(), "Function is not a function literal")
			continue
		}
		out, static := t.outputKinds(d)
		if !static {
			c.Note("%s: output type is computed dynamically by TypeFn; constructor check skipped", key)
			continue
		}
		kinds, _, _ := t.argKinds(d)
		vp := valuesParam(d.Function)
		bad := ""
		nret := 0
		for _, rs := range tables.ReturnsOf(d.Function) {
			if len(rs.Results) != 2 {
				continue
			}
			if !core.IsNilIdent(t.info, rs.Results[1]) {
				continue // error return
			}
			nret++
			e := core.Unparen(rs.Results[0])
			var ids []string
			switch x := e.(type) {
			case *ast.CallExpr:
				name := c.Prog.CalleeName(t.info, x)
				if strings.HasPrefix(name, "octosql.New") {
					ids = []string{strings.TrimPrefix(name, "octosql.New")}
				}
			case *ast.IndexExpr:
				if core.ExprStr(x.X) == vp {
					if tv, ok := t.info.Types[x.Index]; ok && tv.Value != nil {
						k, _ := constant.Int64Val(tv.Value)
						if int(k) < len(kinds) {
							ids = kinds[k].IDs
						}
					}
				}
			case *ast.SelectorExpr:
				if core.ExprStr(x) == "octosql.ZeroValue" {
					ids = []string{"Null"}
				}
			case *ast.CompositeLit:
				if len(x.Elts) == 0 {
					ids = []string{"Null"}
				}
			}
			if ids == nil {
				bad = "cannot determine the constructor of " + core.ExprStr(e)
				continue
			}
			for _, id := range ids {
				if !out.Has(id) {
					bad = fmt.Sprintf("returns a %s value (%s) but the declared result type is %s", id, core.ExprStr(e), out.String())
				}
			}
		}
		if nret == 0 && bad == "" {
			// only error returns (panic())
			c.OK(rule, key, d.Function.Pos(), 0, "no successful return")
			continue
		}
		c.Decide(bad == "", rule, key, d.Function.Pos(), nret, "constructors ⊆ "+out.String(), bad)
	}
	c.Floor(rule, 60, "function descriptors with a static result type")
}

// ---------------------------------------------------------------------------
// PAN1: integer division by a possibly-zero divisor

type divSite struct {
	fn   *core.FuncRef
	expr *ast.BinaryExpr
	lit  *ast.FuncLit // innermost literal or nil
}

func integerDivisions(p *core.Program, fn *core.FuncRef) []divSite {
	info := fn.Info()
	var out []divSite
	core.WalkStack(fn.Decl.Body, func(n ast.Node, stack []ast.Node) bool {
		be, ok := n.(*ast.BinaryExpr)
		if !ok || (be.Op != token.QUO && be.Op != token.REM) {
			return true
		}
		tv, ok := info.Types[be]
		if !ok || tv.Value != nil {
			return true
		}
		b, ok := tv.Type.Underlying().(*types.Basic)
		if !ok || b.Info()&types.IsInteger == 0 {
			return true
		}
		if dtv, ok := info.Types[be.Y]; ok && dtv.Value != nil {
			if constant.Sign(dtv.Value) != 0 {
				return true
			}
		}
		out = append(out, divSite{fn: fn, expr: be, lit: core.InnermostFuncLit(stack)})
		return true
	})
	return out
}

// zeroDivisorReachable interprets the enclosing function with the divisor forced to
// zero; the division is safe iff no path reaches it.
func zeroDivisorReachable(p *core.Program, s divSite) (bool, string, int) {
	run := func(cond func(st *absint.State, atom string) (bool, bool), onDiv func(st *absint.State, d string)) ([]*absint.Outcome, error) {
		in := newInterp(p, s.fn)
		in.ErrorsNil = true
		in.MaxPaths = 3000
		in.Hooks.Assert = assertOK
		in.Hooks.Cond = cond
		in.Hooks.Call = chainCall(errorfHook)
		in.Hooks.Binary = func(st *absint.State, e *ast.BinaryExpr, l, r absint.Val) {
			if e == s.expr {
				onDiv(st, r.Canon())
			}
		}
		if s.lit != nil {
			return runLit(in, s.lit, nil, "")
		}
		return runDecl(in, s.fn, nil, "")
	}
	divisors := map[string]bool{}
	if _, err := run(nil, func(st *absint.State, d string) { divisors[d] = true }); err != nil {
		return true, "cannot interpret: " + err.Error(), 0
	}
	if len(divisors) == 0 {
		return false, "division not reachable", 0
	}
	zeroOracle := func(d string) func(st *absint.State, atom string) (bool, bool) {
		return func(st *absint.State, atom string) (bool, bool) {
			switch atom {
			case "(0 == " + d + ")", "(" + d + " == 0)", "(" + d + " <= 0)", "(0 <= " + d + ")":
				return true, true
			case "(" + d + " < 0)", "(0 < " + d + ")":
				return false, true
			}
			return false, false
		}
	}
	paths := 0
	for d := range divisors {
		if _, isConst := constantInt(d); isConst {
			continue
		}
		d := d
		reached := ""
		outs, err := run(zeroOracle(d), func(st *absint.State, dd string) {
			if dd == d {
				reached = dd
			}
		})
		if err != nil {
			return true, "cannot interpret: " + err.Error(), paths
		}
		paths += len(outs)
		if reached == "" {
			continue
		}
		// the division sits in a callback: a guard in the enclosing function may keep the callback
		// from ever being installed when the divisor is zero
		if s.lit != nil {
			root := rootIdent(s.expr.Y)
			// a divisor defined inside the callback (n := int64(resolution.Duration)) is guarded through the
			// variable its value is built on: take the root of the resolved divisor instead
			if m := canonRootRE.FindStringSubmatch(d); m != nil && m[1] != root {
				root = m[1]
			}
			in := newInterp(p, s.fn)
			in.ErrorsNil = true
			in.MaxPaths = 3000
			in.Hooks.Assert = assertOK
			in.Hooks.Cond = zeroOracle(d)
			installed := false
			in.Hooks.Store = func(st *absint.State, obj types.Object, v absint.Val) {
				if root != "" && obj.Name() == root {
					st.Set(obj, absint.S(root))
				}
			}
			in.Hooks.Call = chainCall(func(st *absint.State, call *ast.CallExpr, callee string, recv absint.Val, args []absint.Val) (absint.Val, bool) {
				for _, a := range args {
					if cl, ok := a.(absint.Closure); ok && cl.Lit == interface{}(s.lit) {
						installed = true
					}
				}
				return nil, false
			}, errorfHook)
			outs2, err := runDecl(in, s.fn, nil, "")
			paths += len(outs2)
			if err == nil && !installed && root != "" {
				continue // guarded outside the callback
			}
		}
		return true, "with " + d + " = 0 the division is still reached", paths
	}
	return false, "every path with a zero divisor leaves before the division", paths
}

// rootIdent: the variable a divisor expression is built on (through conversions, selectors, calls' receivers).
func rootIdent(e ast.Expr) string {
	for {
		switch x := core.Unparen(e).(type) {
		case *ast.Ident:
			return x.Name
		case *ast.SelectorExpr:
			e = x.X
		case *ast.CallExpr:
			if len(x.Args) == 1 {
				e = x.Args[0]
			} else {
				return ""
			}
		case *ast.IndexExpr:
			e = x.X
		default:
			return ""
		}
	}
}

func constantInt(s string) (int64, bool) {
	var v int64
	if _, err := fmt.Sscanf(s, "%d", &v); err == nil && fmt.Sprint(v) == s {
		return v, true
	}
	return 0, false
}

// divisionJustified: divisions whose divisor cannot be zero for a reason another obligation establishes.
var divisionJustified = map[string]string{
	"aggregates.(*AverageInt).Trigger":      "the group-by calls Trigger() only when AggregatedSetSize[i] > 0 (rule EMPTY, C03), and the inner count equals that set size",
	"aggregates.(*AverageDuration).Trigger": "the group-by calls Trigger() only when AggregatedSetSize[i] > 0 (rule EMPTY, C03), and the inner count equals that set size",
}

// divisionVerdict is zeroDivisorReachable, with the guard of an unexported helper looked for in its callers: a helper
// dividing by (something built on) a parameter is judged from each static call site, the helper followed into.
func divisionVerdict(p *core.Program, s divSite) (bool, string, int) {
	return divisionVerdictFrom(p, s, 0)
}

func divisionVerdictFrom(p *core.Program, s divSite, depth int) (bool, string, int) {
	reach, why, paths := zeroDivisorReachable(p, s)
	fn := s.fn
	if reach && fn.Obj != nil && !fn.Obj.Exported() && depth < 3 {
		if callers := staticCallers(p, fn); len(callers) > 0 {
			reach = false
			for _, cs := range callers {
				r, w, pp := divisionVerdictFrom(p, divSite{fn: cs.fn, expr: s.expr, lit: cs.lit}, depth+1)
				paths += pp
				if r {
					reach, why = true, "called from "+p.FName(cs.fn)+": "+w
				}
			}
			if !reach {
				why = fmt.Sprintf("in each of the %d callers, every path with a zero divisor leaves before the call", len(callers))
			}
		}
	}
	return reach, why, paths
}

func checkDivisions(c *core.Ctx, rule string) {
	p := c.Prog
	n := 0
	for _, fn := range p.AllFuncs() {
		if !onQueryPath(core.Rel(fn.Pkg)) {
			continue
		}
		if strings.HasSuffix(p.Fset.Position(fn.Decl.Pos()).Filename, ".pb.go") {
			continue
		}
		sites := integerDivisions(p, fn)
		ord := 0
		for _, s := range sites {
			ord++
			n++
			key := fmt.Sprintf("%s/%s", p.FName(fn), core.ExprStr(s.expr))
			if ord > 1 {
				key += fmt.Sprintf("#%d", ord)
			}
			c.SawFunc(p.FName(fn))
			if why, ok := divisionJustified[p.FName(fn)]; ok {
				c.OK(rule, key, s.expr.Pos(), 1, "justified: "+why)
				continue
			}
			reach, why, paths := divisionVerdict(p, s)
			c.Decide(!reach, rule, key, s.expr.Pos(), paths, why, "integer division can panic (runtime error: integer divide by zero): "+why)
		}
	}
	if n < 3 {
		c.Unknown(rule, "<integer divisions>", 0, fmt.Sprintf("only %d integer divisions found on the query path (≥5 on the pinned tree)", n))
	}
}

// ---------------------------------------------------------------------------
// PAN2/3: query-controlled integers as index, slice bound or repeat count

type fact struct{ assumed map[string]bool }

func (f fact) is(atom string, v bool) bool {
	got, ok := f.assumed[atom]
	return ok && got == v
}

func (f fact) nonNeg(t absint.Val) bool {
	if t == nil {
		return true
	}
	if k, ok := absint.AsInt(t); ok {
		return k >= 0
	}
	c := t.Canon()
	if strings.HasPrefix(c, "len(") {
		return true
	}
	return f.is("("+c+" < 0)", false) || f.is("(0 <= "+c+")", true) || f.is("(0 < "+c+")", true)
}

func (f fact) lt(t absint.Val, L string) bool {
	c := t.Canon()
	return f.is("("+c+" < "+L+")", true) || f.is("("+L+" <= "+c+")", false)
}

func (f fact) le(t absint.Val, L string) bool {
	if t == nil {
		return true
	}
	c := t.Canon()
	if c == L {
		return true
	}
	if k, ok := absint.AsInt(t); ok && k == 0 {
		return true
	}
	return f.lt(t, L) || f.is("("+L+" < "+c+")", false) || f.is("("+c+" <= "+L+")", true)
}

func tainted(vs ...absint.Val) bool {
	for _, v := range vs {
		if v != nil && (strings.Contains(v.Canon(), ".Int") || strings.Contains(v.Canon(), ".Duration")) {
			return true
		}
	}
	return false
}

// checkIndexSinks runs over the bodies of all function descriptors.
func checkIndexSinks(c *core.Ctx, rule string) {
	t := loadFunctions(c, rule)
	if t == nil {
		return
	}
	p := c.Prog
	nSinks := 0
	for _, d := range t.descs {
		if d.Function == nil {
			continue
		}
		key := "functions." + d.Key()
		in := withMaxPaths(newLitInterp(p, t.info, "functions"), 3000)
		type viol struct {
			pos  token.Pos
			what string
		}
		var viols []viol
		sinks := 0
		in.Hooks.Call = chainCall(func(st *absint.State, call *ast.CallExpr, callee string, recv absint.Val, args []absint.Val) (absint.Val, bool) {
			if callee == "strings.Repeat" && len(args) == 2 && tainted(args[1]) {
				sinks++
				f := fact{st.Assumed}
				if !f.nonNeg(args[1]) {
					viols = append(viols, viol{call.Pos(), "strings.Repeat is reached with a count (" + args[1].Canon() + ") that may be negative: it panics"})
				}
			}
			return nil, false
		}, errorfHook)
		in.Hooks.Access = func(st *absint.State, e ast.Expr, x absint.Val, lo, hi absint.Val, slice bool) {
			if !tainted(lo, hi) {
				return
			}
			sinks++
			f := fact{st.Assumed}
			L := "len(" + x.Canon() + ")"
			if !slice {
				if !f.nonNeg(lo) {
					viols = append(viols, viol{e.Pos(), core.ExprStr(e) + ": the index may be negative on a path with assumptions " + showAssumed(st.Assumed)})
				}
				if !f.lt(lo, L) {
					viols = append(viols, viol{e.Pos(), core.ExprStr(e) + ": the index is not shown to be below " + L + " on a path with assumptions " + showAssumed(st.Assumed)})
				}
				return
			}
			if lo != nil && !f.nonNeg(lo) {
				viols = append(viols, viol{e.Pos(), core.ExprStr(e) + ": the lower bound may be negative on a path with assumptions " + showAssumed(st.Assumed)})
			}
			if hi != nil {
				if !f.le(hi, L) {
					viols = append(viols, viol{e.Pos(), core.ExprStr(e) + ": the upper bound is not shown to be ≤ " + L + " on a path with assumptions " + showAssumed(st.Assumed)})
				}
				if lo != nil {
					okOrder := false
					hc, lc := hi.Canon(), lo.Canon()
					switch {
					case strings.HasPrefix(hc, "("+lc+" + ") && strings.HasSuffix(hc, ")"):
						// lo ≤ lo+n needs n ≥ 0 and no int64 overflow of the sum: n must be bounded by the length
						n := absint.S(strings.TrimSuffix(strings.TrimPrefix(hc, "("+lc+" + "), ")"))
						okOrder = f.nonNeg(n) && f.le(n, L)
					case hc == L:
						okOrder = f.le(lo, L)
					default:
						okOrder = f.is("("+hc+" < "+lc+")", false) || f.is("("+lc+" <= "+hc+")", true)
						if k, ok := absint.AsInt(lo); ok && k == 0 {
							okOrder = f.nonNeg(hi)
						}
					}
					if !okOrder {
						viols = append(viols, viol{e.Pos(), core.ExprStr(e) + ": lower bound ≤ upper bound is not shown (a sum of two query-controlled integers may overflow int64 and turn negative) on a path with assumptions " + showAssumed(st.Assumed)})
					}
				}
			} else if lo != nil && !f.le(lo, L) {
				viols = append(viols, viol{e.Pos(), core.ExprStr(e) + ": the lower bound is not shown to be ≤ " + L})
			}
		}
		outs, err := runLit(in, d.Function, nil, "")
		if err != nil {
			// only matters if the body has candidate sinks at all
			has := false
			ast.Inspect(d.Function.Body, func(n ast.Node) bool {
				switch n.(type) {
				case *ast.SliceExpr:
					has = true
				}
				return true
			})
			if has {
				c.Unknown(rule, key, d.Function.Pos(), err.Error())
			}
			continue
		}
		if sinks == 0 {
			continue
		}
		nSinks++
		if len(viols) == 0 {
			c.OK(rule, key, d.Function.Pos(), len(outs), fmt.Sprintf("%d sink evaluations, all bounds entailed by the guards on their path", sinks))
			continue
		}
		seen := map[string]bool{}
		for _, v := range viols {
			if seen[v.what] {
				continue
			}
			seen[v.what] = true
			c.Bad(rule, key, v.pos, len(outs), v.what)
			break // one report per descriptor
		}
	}
	if nSinks < 4 {
		c.Unknown(rule, "<sinks>", 0, fmt.Sprintf("only %d descriptors with query-controlled index/slice/repeat sinks found (substr×2, [], *(String,Int)×2 expected)", nSinks))
	}
}

func showAssumed(a map[string]bool) string {
	parts := []string{}
	for k, v := range a {
		parts = append(parts, fmt.Sprintf("%s=%v", k, v))
	}
	sortStrings(parts)
	return "{" + strings.Join(parts, ", ") + "}"
}

func sortStrings(s []string) {
	for i := 1; i < len(s); i++ {
		for j := i; j > 0 && s[j] < s[j-1]; j-- {
			s[j], s[j-1] = s[j-1], s[j]
		}
	}
}

var canonRootRE = regexp.MustCompile(`^(?:\(|int64\(|int\(|float64\()*([A-Za-z_][A-Za-z0-9_]*)`)
