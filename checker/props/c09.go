package props

import (
	"fmt"
	"go/ast"
	"go/types"
	"strings"

	"octoverif/core"
	"octoverif/engine/absint"
)

func init() {
	register(&Check{ID: "C09", Run: runC09,
		Explanation: "Finite-domain abstract interpretation of (octosql.Value).Compare, Equal, hash and execution.CompareValueSlices. " +
			"ABS1: for every TypeID arm and every abstract ordering of the two payloads (lt/eq/gt; NaN-unordered ×3 for Float; ff/ft/tf/tt for Boolean; per-iteration classes endA/endB/lt/eq/gt for the list-like arms, explored as a product with the lexicographic reference automaton) every path returns the value a total preorder requires; the cross-type prefix orders by TypeID. Each abstract case stands for all concrete values with that ordering, so the verdict holds for every value (NaN, ±0, MinInt64 included). " +
			"TAB5: each hash arm may read only the payload its Compare arm compares, through a projection that is constant on Compare-equality classes (Float needs ±0/NaN canonicalisation; Time must hash the instant). " +
			"EQ: Equal is `false` for two NULLs and `Compare == 0` otherwise. USERS: every hashmap.New site pairs an equality built from Compare with Hash/HashManyValues; every Less/comparator reduces to Compare/CompareValueSlices.",
		NotDecided: []string{"transitivity is argued from each arm being the standard order of a totally ordered carrier, not checked on triples", "third-party containers (btree, hashmap) are trusted to honour their comparator contracts"},
	})
}

// valueFieldHook makes value.TypeID / other.TypeID constants and leaves payloads symbolic.
func typeIDHook(tid map[string]absint.Val) func(st *absint.State, base absint.Val, sel string) (absint.Val, bool) {
	return func(st *absint.State, base absint.Val, sel string) (absint.Val, bool) {
		if sel == "TypeID" {
			if v, ok := tid[base.Canon()]; ok {
				return v, true
			}
		}
		return nil, false
	}
}

func runC09(c *core.Ctx) {
	c.Rule("TIMEEQ", "time.Time values are compared with Equal/Before/After, never with ==")
	checkTimeEquality(c, "TIMEEQ", "execution", "execution/nodes", "octosql", "aggregates", "table_valued_functions", "outputs", "functions", "datasources")
	p := c.Prog
	c.Rule("ABS1", "Value.Compare returns the sign a total preorder requires, per arm and abstract ordering")
	c.Rule("ABS1L", "list-like arms and CompareValueSlices are the lexicographic order (product with reference automaton)")
	c.Rule("TAB5", "hash arms read only Compare-invariant projections of the compared payload")
	c.Rule("EQ", "Value.Equal = not both NULL and Compare==0")
	c.Rule("USERS", "hash/equality pairing and comparator reduction at every container site")
	ids := typeIDs(p)
	cmp := p.Func("octosql", "Value.Compare")
	if cmp == nil || len(ids) < 10 {
		c.Unknown("ABS1", "octosql.Value.Compare", 0, "anchor not found")
		return
	}
	c.SawFunc("octosql.Value.Compare")
	recvName := cmp.Decl.Recv.List[0].Names[0].Name
	argName := cmp.Decl.Type.Params.List[0].Names[0].Name

	run := func(tidA, tidB absint.Val, oracle absint.OrderOracle, extra func(h *absint.Hooks)) ([]*absint.Outcome, error) {
		in := newInterp(p, cmp)
		in.Hooks.Field = typeIDHook(map[string]absint.Val{recvName: tidA, argName: tidB})
		in.Hooks.Cond = func(st *absint.State, atom string) (bool, bool) { return oracle.Decide(atom) }
		in.Hooks.Call = func(st *absint.State, call *ast.CallExpr, callee string, recv absint.Val, args []absint.Val) (absint.Val, bool) {
			// time.Time ordering methods on the payloads
			switch callee {
			case "time.Time.Before", "time.Time.After", "time.Time.Equal":
				r, ok := oracle[recv.Canon()+"|"+args[0].Canon()]
				if !ok {
					return nil, false
				}
				switch callee {
				case "time.Time.Before":
					return absint.Bool(r == absint.LT), true
				case "time.Time.After":
					return absint.Bool(r == absint.GT), true
				default:
					return absint.Bool(r == absint.EQ), true
				}
			}
			// the standard library's three-way comparisons of ordered operands (strings.Compare, bytes.Compare,
			// cmp.Compare, time.Time.Compare) give the sign of the operands' order
			var x, y absint.Val
			switch callee {
			case "strings.Compare", "bytes.Compare", "cmp.Compare":
				if len(args) == 2 {
					x, y = args[0], args[1]
				}
			case "time.Time.Compare":
				if len(args) == 1 {
					x, y = recv, args[0]
				}
			}
			if x != nil && y != nil {
				if r, ok := oracle[x.Canon()+"|"+y.Canon()]; ok {
					switch r {
					case absint.LT:
						return absint.Int(-1), true
					case absint.EQ:
						return absint.Int(0), true
					case absint.GT:
						return absint.Int(1), true
					}
				}
			}
			return nil, false
		}
		if extra != nil {
			extra(&in.Hooks)
		}
		return runDecl(in, cmp, nil, "")
	}

	// --- cross-type prefix: different TypeIDs order by TypeID
	for _, rel := range []absint.Rel{absint.LT, absint.GT} {
		o := absint.OrderOracle{}
		o.Set(recvName+".TypeID", argName+".TypeID", rel)
		outs, err := run(absint.S(recvName+".TypeID"), absint.S(argName+".TypeID"), o, nil)
		key := "octosql.Value.Compare/cross-type/" + string(rel)
		if err != nil {
			c.Unknown("ABS1", key, cmp.Decl.Pos(), err.Error())
			continue
		}
		want := int64(-1)
		if rel == absint.GT {
			want = 1
		}
		ok, why := allReturnInt(outs, want)
		c.Decide(ok, "ABS1", key, cmp.Decl.Pos(), len(outs), fmt.Sprintf("TypeID %s ⇒ %d on all %d paths", rel, want, len(outs)), "values of different types must order by TypeID (NULL first): "+why)
	}
	// NULL sorts first relies on TypeIDNull being the smallest TypeID
	minName := ""
	for n, v := range ids {
		if minName == "" || v < ids[minName] {
			minName = n
		}
	}
	c.Decide(minName == "TypeIDNull", "ABS1", "octosql.TypeIDNull is the smallest TypeID", cmp.Decl.Pos(), len(ids), "TypeIDNull = min", "smallest TypeID is "+minName+": NULL no longer sorts first")

	// --- primitive arms
	prims := []prim{{"TypeIDInt", "Int"}, {"TypeIDFloat", "Float"}, {"TypeIDString", "Str"}, {"TypeIDTime", "Time"}, {"TypeIDDuration", "Duration"}}
	for _, pr := range prims {
		tv := absint.Int(ids[pr.tid])
		a, b := recvName+"."+pr.field, argName+"."+pr.field
		rels := []absint.Rel{absint.LT, absint.EQ, absint.GT}
		for _, rel := range rels {
			o := absint.OrderOracle{}
			o.Set(a, b, rel)
			o.Set(a, a, absint.EQ)
			o.Set(b, b, absint.EQ)
			// ordered operands are numbers: neither is NaN (the NaN cases are judged separately below)
			outs, err := run(tv, tv, o, func(h *absint.Hooks) {
				prev := h.Call
				h.Call = func(st *absint.State, call *ast.CallExpr, callee string, recv absint.Val, args []absint.Val) (absint.Val, bool) {
					if callee == "math.IsNaN" && len(args) == 1 && (args[0].Canon() == a || args[0].Canon() == b) {
						return absint.Bool(false), true
					}
					return prev(st, call, callee, recv, args)
				}
			})
			key := "octosql.Value.Compare/" + pr.tid + "/" + string(rel)
			if err != nil {
				c.Unknown("ABS1", key, cmp.Decl.Pos(), err.Error())
				continue
			}
			want := map[absint.Rel]int64{absint.LT: -1, absint.EQ: 0, absint.GT: 1}[rel]
			ok, why := allReturnInt(outs, want)
			c.Decide(ok, "ABS1", key, cmp.Decl.Pos(), len(outs), fmt.Sprintf("%s %s %s ⇒ %d", a, rel, b, want), fmt.Sprintf("%s %s %s must give %d: %s", a, rel, b, want, why))
		}
	}
	// Float with NaN: NaN is unordered with everything including itself. A total
	// preorder needs r(NaN,NaN)=0 and r(NaN,x) = -r(x,NaN) != 0 for every number x.
	{
		tv := absint.Int(ids["TypeIDFloat"])
		a, b := recvName+".Float", argName+".Float"
		nanRun := func(aNaN, bNaN bool) (int64, bool, string, int) {
			o := absint.OrderOracle{}
			o.Set(a, b, absint.UN)
			if aNaN {
				o.Set(a, a, absint.UN)
			} else {
				o.Set(a, a, absint.EQ)
			}
			if bNaN {
				o.Set(b, b, absint.UN)
			} else {
				o.Set(b, b, absint.EQ)
			}
			outs, err := run(tv, tv, o, func(h *absint.Hooks) {
				prev := h.Call
				h.Call = func(st *absint.State, call *ast.CallExpr, callee string, recv absint.Val, args []absint.Val) (absint.Val, bool) {
					if callee == "math.IsNaN" && len(args) == 1 {
						switch args[0].Canon() {
						case a:
							return absint.Bool(aNaN), true
						case b:
							return absint.Bool(bNaN), true
						}
					}
					return prev(st, call, callee, recv, args)
				}
			})
			if err != nil {
				return 0, false, err.Error(), 0
			}
			var val int64
			for i, out := range outs {
				v, ok := int64(0), false
				if out.Kind == "return" && len(out.Values) == 1 {
					v, ok = absint.AsInt(out.Values[0])
				}
				if !ok {
					return 0, false, "outcome " + out.String(), len(outs)
				}
				if i > 0 && v != val {
					return 0, false, "paths disagree: " + showOutcomes(outs), len(outs)
				}
				val = v
			}
			return val, len(outs) > 0, "", len(outs)
		}
		nn, ok1, w1, n1 := nanRun(true, true)
		nx, ok2, w2, n2 := nanRun(true, false)
		xn, ok3, w3, n3 := nanRun(false, true)
		key := "octosql.Value.Compare/TypeIDFloat/NaN"
		switch {
		case !ok1 || !ok2 || !ok3:
			c.Unknown("ABS1", key, cmp.Decl.Pos(), w1+w2+w3)
		case nn == 0 && nx != 0 && xn == -nx:
			c.OK("ABS1", key, cmp.Decl.Pos(), n1+n2+n3, fmt.Sprintf("r(NaN,NaN)=0, r(NaN,x)=%d, r(x,NaN)=%d", nx, xn))
		default:
			c.Bad("ABS1", key, cmp.Decl.Pos(), n1+n2+n3, fmt.Sprintf("Float arm with NaN: r(NaN,NaN)=%d r(NaN,x)=%d r(x,NaN)=%d — a total preorder needs 0, s, -s with s≠0 (NaN currently compares equal to every number, so equality is not transitive: 1 = NaN = 2)", nn, nx, xn))
		}
	}
	// Boolean
	{
		tv := absint.Int(ids["TypeIDBoolean"])
		for _, cs := range []struct {
			a, b bool
			want int64
		}{{false, false, 0}, {false, true, -1}, {true, false, 1}, {true, true, 0}} {
			cs := cs
			in := newInterp(p, cmp)
			in.Hooks.Field = func(st *absint.State, base absint.Val, sel string) (absint.Val, bool) {
				switch {
				case sel == "TypeID":
					return tv, true
				case sel == "Boolean" && base.Canon() == recvName:
					return absint.Bool(cs.a), true
				case sel == "Boolean" && base.Canon() == argName:
					return absint.Bool(cs.b), true
				}
				return nil, false
			}
			outs, err := runDecl(in, cmp, nil, "")
			key := fmt.Sprintf("octosql.Value.Compare/TypeIDBoolean/%v,%v", cs.a, cs.b)
			if err != nil {
				c.Unknown("ABS1", key, cmp.Decl.Pos(), err.Error())
				continue
			}
			ok, why := allReturnInt(outs, cs.want)
			c.Decide(ok, "ABS1", key, cmp.Decl.Pos(), len(outs), fmt.Sprintf("⇒ %d", cs.want), "false < true expected: "+why)
		}
	}
	// NULL arm
	{
		tv := absint.Int(ids["TypeIDNull"])
		outs, err := run(tv, tv, absint.OrderOracle{}, nil)
		if err != nil {
			c.Unknown("ABS1", "octosql.Value.Compare/TypeIDNull", cmp.Decl.Pos(), err.Error())
		} else {
			ok, why := allReturnInt(outs, 0)
			c.Decide(ok, "ABS1", "octosql.Value.Compare/TypeIDNull", cmp.Decl.Pos(), len(outs), "NULL vs NULL ⇒ 0", why)
		}
	}
	checkCompareListArms(c)

	checkEqual(c, ids)
	checkHash(c, ids)
	checkCompareValueSlices(c)
	checkContainerUsers(c)
	c.Floor("ABS1", 20, "2 cross-type + 15 primitive + NaN + 4 Boolean + NULL")
	c.Floor("ABS1L", 9, "3 list-like arms × 3 length relations")
}

// lexRun explores a loop that walks two sequences a and b in lock-step. The
// per-iteration classes are: endA (index == len(a)), endB (index == len(b)),
// lt/eq/gt (element comparison result). The reference automaton state is
// "eq*" while every element so far compared equal and "decided:<class>" after the
// first non-eq class (after which the implementation must already have returned).
func lexRun(p *core.Program, fn *core.FuncRef, fieldHook func(*absint.State, absint.Val, string) (absint.Val, bool), a, b string, lenRel absint.Rel, elemCompare string) ([]*absint.Outcome, error) {
	in := newInterp(p, fn)
	in.Hooks.Field = fieldHook
	la, lb := "len("+a+")", "len("+b+")"
	lens := absint.OrderOracle{}
	lens.Set(la, lb, lenRel)
	in.Hooks.Loop = func(st *absint.State, loop ast.Stmt) *absint.LoopSpec {
		var cases []string
		// a loop that ranges over one of the two sequences: it has an iteration exactly for the positions of that
		// sequence — it cannot meet that sequence's end inside an iteration, and it cannot run out before it met the
		// end of the other, shorter one
		ranged := ""
		if rs, ok := loop.(*ast.RangeStmt); ok {
			x := core.ExprStr(rs.X)
			if id, ok := core.Unparen(rs.X).(*ast.Ident); ok {
				if v := st.Lookup(id.Name); v != nil {
					x = v.Canon()
				}
			}
			switch x {
			case a:
				ranged = "a"
			case b:
				ranged = "b"
			}
		}
		// with equal lengths neither sequence can end before the other inside the loop
		switch {
		case lenRel == absint.LT && ranged != "a":
			cases = []string{"endA", "lt", "eq", "gt"}
		case lenRel == absint.GT && ranged != "b":
			cases = []string{"endB", "lt", "eq", "gt"}
		default:
			cases = []string{"lt", "eq", "gt"}
		}
		var exhaust func(st *absint.State) bool
		if (ranged == "a" && lenRel == absint.GT) || (ranged == "b" && lenRel == absint.LT) {
			want := map[string]string{"a": "endB", "b": "endA"}[ranged]
			exhaust = func(st *absint.State) bool {
				for _, t := range st.Trace {
					if t == want {
						return true
					}
				}
				return false
			}
		}
		return &absint.LoopSpec{Cases: cases, Exhaust: exhaust, RefStep: func(ref, cs string) string {
			if ref != "" && ref != "eq*" {
				if strings.HasSuffix(ref, "!") {
					return ref
				}
				return ref + "!" // an iteration after the order was decided
			}
			if cs == "eq" {
				return "eq*"
			}
			return "decided:" + cs
		}}
	}
	in.Hooks.Cond = func(st *absint.State, atom string) (bool, bool) {
		if v, ok := lens.Decide(atom); ok {
			return v, true
		}
		cls := st.IterNow
		if cls == "" {
			// loop condition at the head: the bound must be the longer sequence
			inner := strings.TrimSuffix(strings.TrimPrefix(atom, "("), ")")
			if parts := strings.Split(inner, " < "); len(parts) == 2 && strings.Contains(parts[0], "@L") {
				longer := map[absint.Rel][]string{absint.LT: {lb}, absint.GT: {la}, absint.EQ: {la, lb}}[lenRel]
				ok := false
				for _, l := range longer {
					if parts[1] == l {
						ok = true
					}
				}
				// which bound the loop uses is not judged here: a loop that stops with the shorter sequence is judged
				// by what is returned after it (the lengths must then decide), one that runs past a sequence's end by
				// OUT-OF-RANGE. Before the first iteration the strictly longer sequence certainly has an element.
				if ok && lenRel != absint.EQ {
					return true, true
				}
			}
			return false, false
		}
		// (i@L == len(a)) / (i@L == len(b)) and their mirrored forms
		inner := strings.TrimSuffix(strings.TrimPrefix(atom, "("), ")")
		if parts := strings.Split(inner, " == "); len(parts) == 2 {
			x, y := parts[0], parts[1]
			if strings.Contains(y, "@L") {
				x, y = y, x
			}
			if strings.Contains(x, "@L") && !strings.Contains(y, "@L") {
				switch y {
				case la:
					return cls == "endA", true
				case lb:
					return cls == "endB", true
				}
			}
		}
		// index < len(x): true inside the loop unless this class is the end of x
		if parts := strings.Split(inner, " < "); len(parts) == 2 && strings.Contains(parts[0], "@L") {
			switch parts[1] {
			case la:
				return cls != "endA" && cls != "", true
			case lb:
				return cls != "endB" && cls != "", true
			}
		}
		if parts := strings.Split(inner, " <= "); len(parts) == 2 && strings.Contains(parts[1], "@L") {
			switch parts[0] {
			case la:
				return cls == "endA" || cls == "", true
			case lb:
				return cls == "endB" || cls == "", true
			}
		}
		return false, false
	}
	in.Hooks.Call = func(st *absint.State, call *ast.CallExpr, callee string, recv absint.Val, args []absint.Val) (absint.Val, bool) {
		if callee == elemCompare {
			switch st.IterNow {
			case "lt":
				return absint.Int(-1), true
			case "eq":
				return absint.Int(0), true
			case "gt":
				return absint.Int(1), true
			default:
				// the iteration class says one sequence has ended; if this path got here by assuming the loop
				// condition `index < len(that sequence)` true, the path does not exist
				ended := map[string]string{"endA": la, "endB": lb}[st.IterNow]
				for atom, val := range st.Assumed {
					if val && strings.Contains(atom, "@L") && strings.HasSuffix(atom, " < "+ended+")") {
						st.Emit("INFEASIBLE", call.Pos())
						return absint.Int(0), true
					}
				}
				st.Emit("OUT-OF-RANGE element comparison in class "+st.IterNow, call.Pos())
				return absint.S("oob"), true
			}
		}
		return nil, false
	}
	return runDecl(in, fn, nil, "")
}

// lexCheck validates the outcomes of lexRun against the lexicographic order.
func lexCheck(outs []*absint.Outcome, result func(*absint.Outcome) (int64, bool), perClass map[string]int64, allEqual int64, lenRel ...absint.Rel) (bool, string) {
	// when the loop ends with every compared position equal, the shorter sequence (if any) comes first
	if len(lenRel) == 1 {
		switch lenRel[0] {
		case absint.LT:
			allEqual = perClass["endA"]
		case absint.GT:
			allEqual = perClass["endB"]
		}
	}
	if len(outs) == 0 {
		return false, "no outcome"
	}
	returns := 0
	for _, o := range outs {
		infeasible := false
		for _, e := range o.Events {
			if e.Name == "INFEASIBLE" {
				infeasible = true
			}
		}
		if infeasible {
			continue
		}
		for _, e := range o.Events {
			if strings.HasPrefix(e.Name, "OUT-OF-RANGE") {
				return false, "an element past the end of a sequence is compared: " + o.String()
			}
			if strings.HasPrefix(e.Name, "WRONG-BOUND") {
				return false, e.Name
			}
		}
		if strings.HasSuffix(o.Ref, "!") {
			return false, "the loop continues after the order was decided by a non-equal element: " + o.String()
		}
		switch o.Kind {
		case "loop":
			continue
		case "return":
			returns++
			v, ok := result(o)
			if !ok {
				return false, "non-constant result: " + o.String()
			}
			if o.Ref == "exit:decided:endA" || o.Ref == "exit:decided:endB" {
				// the loop stopped because the shorter sequence ended (common-prefix form): the lengths decide
				cls := strings.TrimPrefix(o.Ref, "exit:decided:")
				if v != perClass[cls] {
					return false, fmt.Sprintf("a sequence that ends first (%s) with all earlier positions equal must give %d, got %d: %s", cls, perClass[cls], v, o.String())
				}
				continue
			}
			if strings.HasPrefix(o.Ref, "exit:decided:") {
				return false, "the loop ends normally after a non-equal element: " + o.String()
			}
			if !strings.HasPrefix(o.Ref, "exit:") && !strings.HasPrefix(o.Ref, "decided:") {
				return false, "returns inside the loop although every element so far compared equal: " + o.String()
			}
			if strings.HasPrefix(o.Ref, "decided:") {
				cls := strings.TrimPrefix(o.Ref, "decided:")
				if v != perClass[cls] {
					return false, fmt.Sprintf("first differing position of class %s must give %d, got %d: %s", cls, perClass[cls], v, o.String())
				}
			} else {
				// every compared position was equal and the loop ended (both sequences exhausted)
				if v != allEqual {
					return false, fmt.Sprintf("all positions equal must give %d, got %d: %s", allEqual, v, o.String())
				}
			}
		default:
			return false, "unexpected outcome: " + o.String()
		}
	}
	if returns < 3 {
		return false, fmt.Sprintf("only %d returning paths explored", returns)
	}
	return true, ""
}

var _ = types.Universe

type prim struct{ tid, field string }

// checkCompareListArms (ABS1L): the List/Struct/Tuple arms of Value.Compare are the lexicographic order and never
// compare an element past the end of either sequence (shared by C09 and, for the crash, C07).
func checkCompareListArms(c *core.Ctx) {
	p := c.Prog
	ids := typeIDs(p)
	cmp := p.Func("octosql", "Value.Compare")
	if cmp == nil {
		c.Unknown("ABS1L", "octosql.Value.Compare", 0, "anchor not found")
		return
	}
	c.SawFunc("octosql.Value.Compare")
	recvName := cmp.Decl.Recv.List[0].Names[0].Name
	argName := cmp.Decl.Type.Params.List[0].Names[0].Name
	// --- list-like arms: lexicographic order
	for _, arm := range []prim{{"TypeIDList", "List"}, {"TypeIDStruct", "Struct"}, {"TypeIDTuple", "Tuple"}} {
		tv := absint.Int(ids[arm.tid])
		a, b := recvName+"."+arm.field, argName+"."+arm.field
		for _, lenRel := range []absint.Rel{absint.LT, absint.EQ, absint.GT} {
			key := "octosql.Value.Compare/" + arm.tid + "/len " + string(lenRel)
			outs, err := lexRun(p, cmp, typeIDHook(map[string]absint.Val{recvName: tv, argName: tv}), a, b, lenRel, "octosql.Value.Compare")
			if err != nil {
				c.Unknown("ABS1L", key, cmp.Decl.Pos(), err.Error())
				continue
			}
			ok, why := lexCheck(outs, func(o *absint.Outcome) (int64, bool) {
				if len(o.Values) != 1 {
					return 0, false
				}
				return absint.AsInt(o.Values[0])
			}, map[string]int64{"endA": -1, "endB": 1, "lt": -1, "gt": 1}, 0, lenRel)
			c.Decide(ok, "ABS1L", key, cmp.Decl.Pos(), len(outs), fmt.Sprintf("%d paths agree with the lexicographic reference", len(outs)), why)
		}
	}
}
