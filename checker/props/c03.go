package props

import (
	"fmt"
	"go/ast"
	"go/types"
	"strings"

	"octoverif/core"
	"octoverif/engine/absint"
	"octoverif/engine/tables"
)

func init() {
	register(&Check{ID: "C03", Run: runC03,
		Explanation: "NULLSKIP: in both group-by nodes the per-record update of every aggregate is interpreted for input class NULL / non-NULL × addition / retraction: a NULL input touches neither the aggregate nor its set size; a non-NULL input moves the set size by ±1 and calls Add(record.Retraction, input). " +
			"EMPTY: in both output paths every Trigger() call is reached only with AggregatedSetSize[i] > 0 and a zero size yields NULL. " +
			"ABS5: the per-key record count moves by ±1 per record and the group is dropped exactly when it reaches 0 (count-before ∈ {0,1,2,≥3} × {add, retract}) — one row per key incl. the NULL key follows with C09 (key equality is Compare/Hash). " +
			"UNI7: every aggregate descriptor's Trigger constructs a value of its declared OutputType. TRG/ABS4: Min/Max/Array read the right end / ascending order (shared with C14).",
		NotDecided: []string{"numeric results per group (sums, averages) beyond payload/constructor agreement", "overload resolution in logical/group_by.go for every argument type", "AVG over Int truncating toward zero is Go's int64 division once the payloads are Int (UNI7 shows they are)"},
	})
}

// groupByUpdateSites: (function, countField) of the two per-record update callbacks.
var groupBySites = []struct{ rel, fn string }{{"execution/nodes", "(*SimpleGroupBy).Run"}, {"execution/nodes", "(*CustomTriggerGroupBy).Run"}}

func runC03(c *core.Ctx) {
	c.Rule("UNIQ", "output column names are made pairwise distinct")
	checkUniqueNaming(c, "UNIQ")
	c.Rule("PARSECOV", "no clause the grammar accepts is silently ignored by the parser")
	checkParserCoverage(c, "PARSECOV")
	p := c.Prog
	ids := typeIDs(p)
	c.Rule("NULLSKIP", "NULL aggregate inputs are skipped; set size follows non-NULL inputs")
	c.Rule("EMPTY", "Trigger only when the set is non-empty, else NULL")
	c.Rule("ABS5", "per-key record count and group removal")
	c.Rule("UNI7", "aggregate Trigger constructs the declared OutputType")
	c.Rule("TRG", "Trigger reads the right end / order of the container")
	c.Rule("AVG", "average = running sum / running count")
	checkAverageTrigger(c)
	c.Rule("PROTO", "aggregate prototypes hand out fresh state")
	checkPrototypeFreshState(c)
	c.Rule("ORD4", "a triggered key retracts its previously sent row and remembers the new one (one live row per key; shared with C15/C16)")
	checkTriggerRetraction(c, ids)
	c.Rule("ABS4", "key comparators are ascending")
	for _, s := range groupBySites {
		checkNullSkip(c, s.rel, s.fn, ids)
		checkMultiset(c, "ABS5", msSite{rel: s.rel, fn: s.fn, callback: true, countField: "OverallRecordCount"}, ids)
	}
	c.Floor("ABS5", 14, "2 group-by nodes × 7 cases")
	c.Rule("USERS", "SimpleGroupBy keys its groups with Compare-equality (NULL = NULL) and the hash of the whole key")
	hashmapOwners := map[string]bool{}
	if fn := p.Func("execution/nodes", "(*SimpleGroupBy).Run"); fn != nil {
		for _, h := range helperClosure(p, fn) {
			hashmapOwners[p.FName(h)] = true
		}
	}
	if checkHashmapSites(c, hashmapOwners) != 1 {
		c.Unknown("USERS", "execution/nodes.(*SimpleGroupBy).Run/hashmap.New", 0, "hashmap site not found")
	}
	// the ordered group-by keys its tree with GroupKey.Less → CompareValueSlices (C09 ABS1L)
	checkCompareValueSlices(c)
	// output paths
	if fn := p.Func("execution/nodes", "(*SimpleGroupBy).Run"); fn != nil {
		var lit *ast.FuncLit
		// the output walk, in Run or in the helper that emits the groups
		for _, h := range helperClosure(p, fn) {
			h := h
			ast.Inspect(h.Decl.Body, func(n ast.Node) bool {
				if call, ok := n.(*ast.CallExpr); ok && len(call.Args) == 1 && strings.HasSuffix(p.CalleeName(h.Info(), call), ".Each") && lit == nil {
					if l := funcValueLit(p, h, call.Args[0]); l != nil {
						lit, fn = l, h
					}
				}
				return true
			})
		}
		if lit == nil {
			c.Unknown("EMPTY", "execution/nodes.(*SimpleGroupBy).Run/output", fn.Decl.Pos(), "no aggregates.Each(func…) output walk found")
		} else {
			checkEmptyGuard(c, fn, lit.Type, lit.Body, "execution/nodes.(*SimpleGroupBy).Run/output", ids)
		}
	} else {
		c.Unknown("EMPTY", "execution/nodes.(*SimpleGroupBy).Run/output", 0, "anchor not found")
	}
	if fn := p.Func("execution/nodes", "(*CustomTriggerGroupBy).trigger"); fn != nil {
		checkEmptyGuard(c, fn, fn.Decl.Type, fn.Decl.Body, "execution/nodes.(*CustomTriggerGroupBy).trigger", ids)
	} else {
		c.Unknown("EMPTY", "execution/nodes.(*CustomTriggerGroupBy).trigger", 0, "anchor not found")
	}
	checkAggregateOutputTypes(c)
	checkAggTriggers(c)
}

// loopContainsCall reports whether the loop body calls a function with the given resolved name.
func loopContainsCall(p *core.Program, info *types.Info, loop ast.Stmt, callee string) bool {
	found := false
	ast.Inspect(loop, func(n ast.Node) bool {
		if call, ok := n.(*ast.CallExpr); ok && p.CalleeName(info, call) == callee {
			found = true
		}
		return !found
	})
	return found
}

func checkNullSkip(c *core.Ctx, rel, fname string, ids map[string]int64) {
	p := c.Prog
	fn := p.Func(rel, fname)
	key := rel + "." + fname
	if fn == nil {
		c.Unknown("NULLSKIP", key, 0, "anchor not found")
		return
	}
	c.SawFunc(key)
	fn = runSite(p, fn)
	rcs := nodeRunCalls(p, fn)
	if len(rcs) != 1 || rcs[0].Produce == nil {
		c.Unknown("NULLSKIP", key, fn.Decl.Pos(), "expected one source.Run with a literal produce callback")
		return
	}
	lit := rcs[0].Produce
	info := fn.Info()
	for _, retract := range []bool{false, true} {
		retract := retract
		in := newInterp(p, fn)
		in.MaxPaths = 20000
		in.Hooks.Assert = assertOK
		in.Hooks.Field = func(st *absint.State, base absint.Val, sel string) (absint.Val, bool) {
			if sel == "Retraction" {
				return absint.Bool(retract), true
			}
			return nil, false
		}
		in.Hooks.Loop = func(st *absint.State, loop ast.Stmt) *absint.LoopSpec {
			if loopContainsCall(p, info, loop, "execution/nodes.Aggregate.Add") {
				return &absint.LoopSpec{Cases: []string{"NULLIN", "VALIN"}, RefStep: func(ref, cs string) string { return "" }}
			}
			return nil
		}
		in.Hooks.Call = chainCall(func(st *absint.State, call *ast.CallExpr, callee string, recv absint.Val, args []absint.Val) (absint.Val, bool) {
			switch {
			case callee == "execution.Expression.Evaluate":
				switch st.IterNow {
				case "NULLIN":
					return absint.Tuple{Elems: []absint.Val{mkValue(st, ids, "TypeIDNull", "", nil), absint.Nil{}}}, true
				case "VALIN":
					return absint.Tuple{Elems: []absint.Val{mkValue(st, ids, "TypeIDInt", "Int", absint.S("x")), absint.Nil{}}}, true
				}
				return absint.Tuple{Elems: []absint.Val{absint.S("keyValue"), absint.Nil{}}}, true
			case msLookup.MatchString(callee):
				item := st.NewObj("item", map[string]absint.Val{"OverallRecordCount": absint.Int(2), "Aggregates": absint.S("AGGS"), "AggregatedSetSize": absint.S("SIZES")})
				if strings.Contains(callee, "hashmap") {
					return absint.Tuple{Elems: []absint.Val{item, absint.Bool(true)}}, true
				}
				return item, true
			case callee == "execution/nodes.Aggregate.Add":
				st.Emit("ADD", call.Pos(), append([]absint.Val{recv}, args...)...)
				return absint.S("empty"), true
			case callee == "execution/nodes.(*CustomTriggerGroupBy).trigger":
				return absint.Nil{}, true
			case callee == "execution.Trigger.KeyReceived":
				return absint.S("void"), true
			}
			return nil, false
		}, ctorHook(ids), errorfHook)
		outs, err := runLit(in, lit, nil, "")
		ckey := fmt.Sprintf("%s/retraction=%v", key, retract)
		if err != nil {
			c.Unknown("NULLSKIP", ckey, lit.Pos(), err.Error())
			continue
		}
		bad := ""
		seen := map[string]int{}
		for _, o := range outs {
			if len(o.Trace) == 0 {
				continue
			}
			cls := o.Trace[len(o.Trace)-1]
			if len(o.Trace) > 1 {
				continue // longer traces repeat the one-iteration behaviour (state repeats)
			}
			seen[cls]++
			sizeUpd, adds := []string{}, []absint.Event{}
			for _, e := range o.Events {
				if strings.HasPrefix(e.Name, "store SIZES[") && len(e.Args) == 1 {
					sizeUpd = append(sizeUpd, e.Args[0].Canon())
				}
				if e.Name == "ADD" {
					adds = append(adds, e)
				}
			}
			switch cls {
			case "NULLIN":
				if len(sizeUpd) != 0 || len(adds) != 0 {
					bad = fmt.Sprintf("a NULL input must be skipped, but the set size is updated %v / Add is called %d times", sizeUpd, len(adds))
				}
			case "VALIN":
				op := "+"
				if retract {
					op = "-"
				}
				// x + -1 and x - 1 are the same step (a signed delta variable is a common way to write it)
				for i := range sizeUpd {
					sizeUpd[i] = strings.ReplaceAll(strings.ReplaceAll(sizeUpd[i], " + -1)", " - 1)"), " - -1)", " + 1)")
				}
				if len(sizeUpd) != 1 || !strings.HasSuffix(sizeUpd[0], " "+op+" 1)") || !strings.HasPrefix(sizeUpd[0], "(SIZES[") {
					bad = fmt.Sprintf("a non-NULL input must move AggregatedSetSize[i] by %s1 exactly once; updates: %v", op, sizeUpd)
				} else if len(adds) != 1 {
					bad = fmt.Sprintf("a non-NULL input must be fed to the aggregate exactly once; Add called %d times", len(adds))
				} else {
					a := adds[0]
					if !strings.HasPrefix(a.Args[0].Canon(), "AGGS[") || !(absint.IsTrue(a.Args[1]) == retract && absint.IsConst(a.Args[1])) {
						bad = "the aggregate must be Aggregates[i] and receive record.Retraction unchanged: " + a.String()
					}
					// same index for the size and the aggregate
					i1 := a.Args[0].Canon()[len("AGGS["):]
					i2 := sizeUpd[0][len("(SIZES["):]
					if strings.SplitN(i1, "]", 2)[0] != strings.SplitN(i2, "]", 2)[0] {
						bad = "set size and aggregate are updated at different indices: " + sizeUpd[0] + " vs " + a.Args[0].Canon()
					}
					if valueClass(o, ids, a.Args[2]) != "Int" {
						bad = "the aggregate is not fed the evaluated input: " + a.String()
					}
				}
			}
		}
		if bad == "" && (seen["NULLIN"] == 0 || seen["VALIN"] == 0) {
			bad = fmt.Sprintf("the aggregate update loop was not reached for both input classes (%v)", seen)
		}
		c.Decide(bad == "", "NULLSKIP", ckey, lit.Pos(), len(outs), "NULL skipped; non-NULL: size±1 and Add(retraction, input)", bad)
	}
}

// checkEmptyGuard: in the loop that fills the output row, Trigger() is called iff the set size is positive.
func checkEmptyGuard(c *core.Ctx, fn *core.FuncRef, ft *ast.FuncType, body *ast.BlockStmt, key string, ids map[string]int64) {
	p := c.Prog
	info := fn.Info()
	c.SawFunc(p.FName(fn))
	in := newInterp(p, fn)
	in.MaxPaths = 20000
	in.Hooks.Assert = assertOK
	in.Hooks.Loop = func(st *absint.State, loop ast.Stmt) *absint.LoopSpec {
		if loopContainsCall(p, info, loop, "execution/nodes.Aggregate.Trigger") {
			// innermost loop only
			inner := false
			ast.Inspect(loop, func(n ast.Node) bool {
				if n != ast.Node(loop) {
					switch n.(type) {
					case *ast.ForStmt, *ast.RangeStmt:
						if loopContainsCall(p, info, n.(ast.Stmt), "execution/nodes.Aggregate.Trigger") {
							inner = true
						}
					}
				}
				return true
			})
			if !inner {
				return &absint.LoopSpec{Cases: []string{"ZERO", "ONE", "MANY"}, RefStep: func(ref, cs string) string { return "" }}
			}
		}
		return nil
	}
	in.Hooks.Field = func(st *absint.State, base absint.Val, sel string) (absint.Val, bool) {
		if sel == "keyEventTimeIndex" {
			return absint.Int(-1), true // the event-time override is C15's business; keep this run small
		}
		return nil, false
	}
	in.Hooks.Index = func(st *absint.State, x, i absint.Val) (absint.Val, bool) {
		if strings.HasSuffix(x.Canon(), "AggregatedSetSize") || x.Canon() == "SIZES" {
			switch st.IterNow {
			case "ZERO":
				return absint.Int(0), true
			case "ONE":
				return absint.Int(1), true
			case "MANY":
				return absint.Int(5), true
			}
		}
		return nil, false
	}
	in.Hooks.Call = chainCall(func(st *absint.State, call *ast.CallExpr, callee string, recv absint.Val, args []absint.Val) (absint.Val, bool) {
		switch {
		case callee == "execution/nodes.Aggregate.Trigger":
			st.Emit("TRIGGER", call.Pos(), recv)
			return absint.S("aggResult"), true
		case msLookup.MatchString(callee):
			return st.NewObj("item", map[string]absint.Val{"Aggregates": absint.S("AGGS"), "AggregatedSetSize": absint.S("SIZES")}), true
		case msRemove.MatchString(callee):
			return absint.Nil{}, true
		case callee == "value:produce":
			return absint.Nil{}, true
		}
		return nil, false
	}, ctorHook(ids), errorfHook)
	outs, err := in.Run(ft, nil, body, nil, "")
	if err != nil {
		c.Unknown("EMPTY", key, body.Pos(), err.Error())
		return
	}
	bad := ""
	seen := map[string]int{}
	for _, o := range outs {
		// consider the events of the last iteration class of the innermost loop only when the trace has one inner class
		var inner []string
		for _, t := range o.Trace {
			if t == "ZERO" || t == "ONE" || t == "MANY" {
				inner = append(inner, t)
			}
		}
		if len(inner) != 1 {
			continue
		}
		cls := inner[0]
		seen[cls]++
		trig := 0
		var stored absint.Val
		for _, e := range o.Events {
			if e.Name == "TRIGGER" {
				trig++
			}
			if strings.HasPrefix(e.Name, "store ") && strings.Contains(e.Name, "[") && len(e.Args) == 1 && !strings.Contains(e.Name, "SIZES") {
				stored = e.Args[0]
			}
		}
		if cls == "ZERO" {
			if trig != 0 {
				bad = "Trigger() is called on an aggregate whose set is empty (AggregatedSetSize = 0): min/max/avg of nothing (panic or garbage)"
			} else if stored == nil || valueClass(o, ids, stored) != "NULL" {
				bad = "an aggregate over no non-NULL input must yield NULL; the row gets " + o.Show(stored)
			}
		} else {
			if trig != 1 || stored == nil || stored.Canon() != "aggResult" {
				bad = fmt.Sprintf("set size %s: the aggregate's Trigger() result must be placed in the row (Trigger called %d times, stored %s)", cls, trig, o.Show(stored))
			}
		}
	}
	if bad == "" && (seen["ZERO"] == 0 || seen["ONE"] == 0) {
		bad = fmt.Sprintf("output loop not reached for both set-size classes (%v)", seen)
	}
	c.Decide(bad == "", "EMPTY", key, body.Pos(), len(outs), "Trigger() iff set size > 0, else NULL", bad)
}

// checkAggregateOutputTypes (UNI7): for every AggregateDescriptor literal with a
// constant OutputType, the constructors returned by the prototype's Trigger ⊆ OutputType.
func checkAggregateOutputTypes(c *core.Ctx) {
	p := c.Prog
	pkg := p.Pkg("aggregates")
	if pkg == nil {
		c.Unknown("UNI7", "aggregates", 0, "package not found")
		return
	}
	info := pkg.TypesInfo
	n := 0
	for _, f := range pkg.Syntax {
		ast.Inspect(f, func(nd ast.Node) bool {
			cl, ok := nd.(*ast.CompositeLit)
			if !ok {
				return true
			}
			tv, ok := info.Types[cl]
			if !ok || !strings.HasSuffix(tv.Type.String(), "physical.AggregateDescriptor") {
				return true
			}
			var out, arg *tables.TypeSet
			var proto ast.Expr
			for _, el := range cl.Elts {
				kv, ok := el.(*ast.KeyValueExpr)
				if !ok {
					continue
				}
				switch kv.Key.(*ast.Ident).Name {
				case "OutputType":
					t := tables.EvalType(info, kv.Value)
					out = &t
				case "ArgumentType":
					t := tables.EvalType(info, kv.Value)
					arg = &t
				case "Prototype":
					proto = kv.Value
				}
			}
			if proto == nil || out == nil || out.Dynamic {
				return true // TypeFn-typed (array_agg) or the DISTINCT wrapper copying its inner descriptor
			}
			call, ok := core.Unparen(proto).(*ast.CallExpr)
			if !ok {
				return true
			}
			ctor, ok := core.Callee(info, call).(*types.Func)
			if !ok {
				return true
			}
			// concrete aggregate type: the &T{…} literal inside the constructor
			ctorDecl := p.Func("aggregates", ctor.Name())
			var aggType *types.Named
			if ctorDecl != nil {
				ast.Inspect(ctorDecl.Decl.Body, func(m ast.Node) bool {
					if ue, ok := m.(*ast.UnaryExpr); ok {
						if lit, ok := ue.X.(*ast.CompositeLit); ok {
							if t, ok := info.Types[lit].Type.(*types.Named); ok && aggType == nil {
								aggType = t
							}
						}
					}
					return true
				})
			}
			n++
			key := fmt.Sprintf("aggregates.%s(%s)→%s", ctor.Name(), argStr(arg), out.String())
			if aggType == nil {
				c.Unknown("UNI7", key, cl.Pos(), "cannot resolve the aggregate type built by "+ctor.Name())
				return true
			}
			trig := p.Func("aggregates", "(*"+aggType.Obj().Name()+").Trigger")
			if trig == nil {
				c.Unknown("UNI7", key, cl.Pos(), "no Trigger method on "+aggType.Obj().Name())
				return true
			}
			bad := ""
			nret := 0
			for _, st := range trig.Decl.Body.List {
				_ = st
			}
			ast.Inspect(trig.Decl.Body, func(m ast.Node) bool {
				if _, ok := m.(*ast.FuncLit); ok {
					return false
				}
				rs, ok := m.(*ast.ReturnStmt)
				if !ok || len(rs.Results) != 1 {
					return true
				}
				nret++
				if rc, ok := core.Unparen(rs.Results[0]).(*ast.CallExpr); ok {
					name := p.CalleeName(info, rc)
					if strings.HasPrefix(name, "octosql.New") {
						id := strings.TrimPrefix(name, "octosql.New")
						if !out.Has(id) {
							bad = fmt.Sprintf("Trigger returns octosql.New%s but the descriptor declares OutputType %s", id, out.String())
						}
						return true
					}
				}
				// pass-through of a stored input value (min/max): its type is the argument type
				if strings.HasSuffix(core.ExprStr(rs.Results[0]), ".value") && arg != nil && !arg.Dynamic {
					for _, id := range arg.IDs {
						if !out.Has(id) {
							bad = fmt.Sprintf("Trigger returns a stored input of type %s but the descriptor declares OutputType %s", arg.String(), out.String())
						}
					}
					return true
				}
				bad = "cannot determine the type of " + core.ExprStr(rs.Results[0])
				return true
			})
			if nret == 0 {
				bad = "Trigger has no return"
			}
			c.Decide(bad == "", "UNI7", key, cl.Pos(), nret, "constructors ⊆ OutputType", bad)
			return true
		})
	}
	if n < 13 {
		c.Unknown("UNI7", "<descriptors>", 0, fmt.Sprintf("only %d aggregate descriptors with constant output types found (13 expected: count, sum×3, avg×3, min×3, max×3)", n))
	}
}

func argStr(t *tables.TypeSet) string {
	if t == nil {
		return "?"
	}
	return t.String()
}
