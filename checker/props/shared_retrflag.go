package props

import (
	"fmt"
	"go/ast"
	"strings"

	"octoverif/core"
)

// checkRetractionFlags (RETRFLAG): consumers (Limit vs OrderSensitiveTransform, the printers' pruning) trust
// Schema.NoRetractions.  A plan node whose execution node retracts rows *of its own accord* — it builds records with
// the retraction flag `true` that are not copies of an input record's flag — must therefore declare NoRetractions
// false, whatever its inputs promise.
func checkRetractionFlags(c *core.Ctx, rule string) {
	p := c.Prog
	type site struct{ logicalFn, nodeType, execType string }
	sites := []site{
		{"(*OuterJoin).Typecheck", "NodeTypeOuterJoin", "OuterJoin"},
		{"(*StreamJoin).Typecheck", "NodeTypeStreamJoin", "StreamJoin"},
	}
	for _, s := range sites {
		fn := p.Func("logical", s.logicalFn)
		key := "logical." + s.logicalFn + "/NoRetractions"
		if fn == nil {
			c.Unknown(rule, key, 0, "anchor not found")
			continue
		}
		c.SawFunc("logical." + s.logicalFn)
		// does the execution node originate retractions?
		originates, where := false, ""
		for _, fr := range p.AllFuncs("execution/nodes") {
			if fr.Decl.Recv == nil || !strings.Contains(core.ExprStr(fr.Decl.Recv.List[0].Type), s.execType) {
				continue
			}
			info := fr.Info()
			ast.Inspect(fr.Decl.Body, func(nd ast.Node) bool {
				call, ok := nd.(*ast.CallExpr)
				if !ok || p.CalleeName(info, call) != "execution.NewRecord" || len(call.Args) != 3 {
					return true
				}
				if core.ExprStr(call.Args[1]) == "true" {
					originates, where = true, p.Pos(call.Pos())
				}
				return true
			})
		}
		// the NoRetractions value of the literal that carries this node type
		val := ""
		ast.Inspect(fn.Decl.Body, func(nd ast.Node) bool {
			cl, ok := nd.(*ast.CompositeLit)
			if !ok || !strings.HasSuffix(core.ExprStr(cl.Type), "physical.Node") || !strings.Contains(core.FullStr(cl), s.nodeType) {
				return true
			}
			ast.Inspect(cl, func(m ast.Node) bool {
				if kv, ok := m.(*ast.KeyValueExpr); ok && core.ExprStr(kv.Key) == "NoRetractions" {
					val = core.ExprStr(kv.Value)
				}
				return true
			})
			return true
		})
		if val == "" {
			c.Unknown(rule, key, fn.Decl.Pos(), "no NoRetractions value found for "+s.nodeType)
			continue
		}
		if originates {
			c.Decide(val == "false", rule, key, fn.Decl.Pos(), 2, "the node retracts rows of its own and says so",
				fmt.Sprintf("nodes.%s builds retraction records of its own (%s), but the plan node declares NoRetractions: %s: LIMIT takes the streaming Limit node, ORDER BY … LIMIT prunes its buffer and the table printer drops rows it thinks are final — wrong rows, or `received retraction before value`", s.execType, where, val))
		} else {
			c.Decide(strings.Contains(val, "left.Schema.NoRetractions") && strings.Contains(val, "right.Schema.NoRetractions") || val == "false", rule, key, fn.Decl.Pos(), 2, "retraction-free iff both inputs are",
				fmt.Sprintf("a join that only passes on its inputs' retractions is retraction-free iff both inputs are; it declares %s", val))
		}
	}
}
