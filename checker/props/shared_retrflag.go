package props

import (
	"fmt"
	"go/ast"
	"go/token"
	"strings"

	"octoverif/core"
)

// checkRetractionFlags (RETRFLAG): consumers (Limit vs OrderSensitiveTransform, the printers' pruning) trust
// Schema.NoRetractions.  A plan node whose execution node retracts rows *of its own accord* — it builds records with
// the retraction flag `true` that are not copies of an input record's flag — must therefore declare NoRetractions
// false, whatever its inputs promise.
func checkRetractionFlags(c *core.Ctx, rule string) {
	p := c.Prog
	type site struct{ logicalFn, nodeType, execType string }
	sites := []site{
		{"(*OuterJoin).Typecheck", "NodeTypeOuterJoin", "OuterJoin"},
		{"(*StreamJoin).Typecheck", "NodeTypeStreamJoin", "StreamJoin"},
	}
	for _, s := range sites {
		fn := p.Func("logical", s.logicalFn)
		key := "logical." + s.logicalFn + "/NoRetractions"
		if fn == nil {
			c.Unknown(rule, key, 0, "anchor not found")
			continue
		}
		c.SawFunc("logical." + s.logicalFn)
		// does the execution node originate retractions?
		originates, where := false, ""
		for _, fr := range p.AllFuncs("execution/nodes") {
			if fr.Decl.Recv == nil || !strings.Contains(core.ExprStr(fr.Decl.Recv.List[0].Type), s.execType) {
				continue
			}
			info := fr.Info()
			ast.Inspect(fr.Decl.Body, func(nd ast.Node) bool {
				call, ok := nd.(*ast.CallExpr)
				if !ok || p.CalleeName(info, call) != "execution.NewRecord" || len(call.Args) != 3 {
					return true
				}
				if core.ExprStr(call.Args[1]) == "true" {
					originates, where = true, p.Pos(call.Pos())
				}
				return true
			})
		}
		// the NoRetractions value of the literal that carries this node type
		val := ""
		ast.Inspect(fn.Decl.Body, func(nd ast.Node) bool {
			cl, ok := nd.(*ast.CompositeLit)
			if !ok || !strings.HasSuffix(core.ExprStr(cl.Type), "physical.Node") || !strings.Contains(core.FullStr(cl), s.nodeType) {
				return true
			}
			ast.Inspect(cl, func(m ast.Node) bool {
				if kv, ok := m.(*ast.KeyValueExpr); ok && core.ExprStr(kv.Key) == "NoRetractions" {
					val = core.ExprStr(kv.Value)
				}
				return true
			})
			return true
		})
		if val == "" {
			c.Unknown(rule, key, fn.Decl.Pos(), "no NoRetractions value found for "+s.nodeType)
			continue
		}
		if originates {
			c.Decide(val == "false", rule, key, fn.Decl.Pos(), 2, "the node retracts rows of its own and says so",
				fmt.Sprintf("nodes.%s builds retraction records of its own (%s), but the plan node declares NoRetractions: %s: LIMIT takes the streaming Limit node, ORDER BY … LIMIT prunes its buffer and the table printer drops rows it thinks are final — wrong rows, or `received retraction before value`", s.execType, where, val))
		} else {
			c.Decide(strings.Contains(val, "left.Schema.NoRetractions") && strings.Contains(val, "right.Schema.NoRetractions") || val == "false", rule, key, fn.Decl.Pos(), 2, "retraction-free iff both inputs are",
				fmt.Sprintf("a join that only passes on its inputs' retractions is retraction-free iff both inputs are; it declares %s", val))
		}
	}
}

// checkDeterministicFunctions (NONDET): a retraction cancels the record it retracts only if every operator computes
// the same values for both. Expressions are re-evaluated for the retraction, so a function whose result is not a
// function of its arguments (the wall clock, a random source) yields a retraction that matches nothing: the table
// printer panics ("received retraction before value"), joins slice out of range, GROUP BY keeps phantom groups.
func checkDeterministicFunctions(c *core.Ctx, rule string) {
	t := loadFunctions(c, rule)
	if t == nil {
		return
	}
	n := 0
	for _, d := range t.descs {
		if d.Function == nil {
			continue
		}
		n++
		src := ""
		ast.Inspect(d.Function.Body, func(nd ast.Node) bool {
			if call, ok := nd.(*ast.CallExpr); ok {
				switch callee := c.Prog.CalleeName(t.info, call); {
				case callee == "time.Now", strings.HasPrefix(callee, "math/rand."), strings.HasPrefix(callee, "crypto/rand."):
					src = callee
				}
			}
			return true
		})
		if src == "" {
			continue
		}
		c.Bad(rule, "functions."+d.Key(), d.Function.Pos(), 1,
			fmt.Sprintf("%s() reads %s each time it is evaluated; the expression is evaluated again for the retraction of a record, so the retraction carries other values than the record it should cancel", d.Name, src))
	}
	c.OK(rule, "function library", 0, n, fmt.Sprintf("%d function bodies scanned for wall-clock and random sources", n))
	c.Floor(rule, 1, "function bodies scanned")
}

// checkJoinNullKeyDepth (NULLDEEP): an equality never matches NULL. The joins test each key part for NULL by its
// TypeID only; a key part may be a tuple (row-value equality, `ON (a.k, a.id) = (b.k, b.id)`), whose NULL components
// are then compared by Value.Compare, for which NULL equals NULL.
func checkJoinNullKeyDepth(c *core.Ctx, rule string) {
	p := c.Prog
	cmp := p.Func("octosql", "Value.Compare")
	if cmp == nil {
		c.Unknown(rule, "octosql.Value.Compare", 0, "anchor not found")
		return
	}
	// does Compare look inside tuples, and does it call NULL equal to NULL?
	recursesIntoTuples := strings.Contains(core.FullStr(cmp.Decl.Body), ".Tuple[i].Compare(") || strings.Contains(core.FullStr(cmp.Decl.Body), "Tuple[i]")
	for _, typ := range []string{"StreamJoin", "OuterJoin"} {
		fn := p.Func("execution/nodes", "(*"+typ+").receiveRecord")
		key := "execution/nodes.(*" + typ + ").receiveRecord/NULL inside a composite key part"
		if fn == nil {
			c.Unknown(rule, key, 0, "anchor not found")
			continue
		}
		c.SawFunc("execution/nodes.(*" + typ + ").receiveRecord")
		shallow, deep := false, false
		var pos token.Pos
		ast.Inspect(fn.Decl.Body, func(n ast.Node) bool {
			switch v := n.(type) {
			case *ast.BinaryExpr:
				if s := core.ExprStr(v); strings.HasSuffix(s, ".TypeID == octosql.TypeIDNull") && strings.HasPrefix(s, "key[") {
					shallow = true
					pos = v.Pos()
				}
			case *ast.CallExpr:
				if strings.Contains(strings.ToLower(core.ExprStr(v.Fun)), "null") && len(v.Args) >= 1 && strings.HasPrefix(core.ExprStr(v.Args[0]), "key") {
					deep = true
				}
			}
			return true
		})
		c.Decide(!(shallow && recursesIntoTuples) || deep, rule, key, pos, 1, "NULL components of composite key parts do not match",
			"the join tests a key part for NULL by its TypeID only, while a key part can be a tuple whose components Value.Compare compares with NULL equal to NULL: `ON (a.k, a.id) = (b.k, b.id - 9)` pairs the row with NULL k of one side with the row with NULL k of the other, and (NULL,3) = (NULL,3) is true")
	}
}
