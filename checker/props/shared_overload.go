package props

import (
	"fmt"
	"go/ast"
	"go/token"
	"go/types"
	"strings"

	"octoverif/core"
)

// checkOverloadLoops (OVL): the typechecker's loops over candidate overloads decide per candidate; what one candidate
// does to the call (wrapping an argument in a type assertion) must not leak into the next candidate.  A loop over
// Descriptors that writes an element of a slice declared outside the loop must leave the loop in the same iteration
// (break/return as the last statement), otherwise the assertions of several candidates stack on one argument: the
// intersection of their types is empty (nil dereference at typecheck) or NULL (every non-NULL row fails at run time).
func checkOverloadLoops(c *core.Ctx, rule string) {
	p := c.Prog
	n := 0
	for _, spec := range [][2]string{{"logical", "(*FunctionExpression).Typecheck"}} {
		fn := p.Func(spec[0], spec[1])
		key := spec[0] + "." + spec[1]
		if fn == nil {
			c.Unknown(rule, key, 0, "anchor not found")
			continue
		}
		c.SawFunc(key)
		info := fn.Info()
		loopNo := 0
		ast.Inspect(fn.Decl.Body, func(nd ast.Node) bool {
			rs, ok := nd.(*ast.RangeStmt)
			if !ok || !strings.HasSuffix(core.ExprStr(rs.X), ".Descriptors") {
				return true
			}
			loopNo++
			n++
			lkey := fmt.Sprintf("%s/candidate loop %d", key, loopNo)
			var leaked []string
			ast.Inspect(rs.Body, func(m ast.Node) bool {
				as, ok := m.(*ast.AssignStmt)
				if !ok {
					return true
				}
				for _, l := range as.Lhs {
					ix, ok := l.(*ast.IndexExpr)
					if !ok {
						continue
					}
					id, ok := ix.X.(*ast.Ident)
					if !ok {
						continue
					}
					if obj := info.ObjectOf(id); obj != nil && (obj.Pos() < rs.Pos() || obj.Pos() > rs.End()) {
						leaked = append(leaked, fmt.Sprintf("%s (%s)", core.ExprStr(l), p.Pos(as.Pos())))
					}
				}
				return true
			})
			leaves := false
			if k := len(rs.Body.List); k > 0 {
				switch x := rs.Body.List[k-1].(type) {
				case *ast.BranchStmt:
					leaves = x.Tok == token.BREAK
				case *ast.ReturnStmt:
					leaves = true
				}
			}
			c.Decide(len(leaked) == 0 || leaves, rule, lkey, rs.Pos(), 1+len(leaked), "candidates do not modify shared state, or the loop stops at the accepted one",
				fmt.Sprintf("the loop over candidate overloads writes %s, which is shared by all candidates, and goes on to the next candidate: with two overloads the argument may fit, their type assertions stack on the same argument (nil intersection at typecheck, or a NULL-only static type and a failure on every non-NULL row)", strings.Join(leaked, ", ")))
			return true
		})
	}
	c.Floor(rule, 2, "exact and maybe-matching overload loops of FunctionExpression.Typecheck")
	_ = n
}

// checkMaybeLoops (MAYBE): a typechecker loop over candidate overloads that accepts an argument whose type only *may*
// fit (TypeRelationMaybe) must (a) wrap that argument in a runtime type assertion — otherwise a value of another kind
// is read through the wrong payload as a zero value — and (b) not consider overloads declared by a type function, which
// have no static argument list to compare against (an empty call would "match" them and index past its arguments).
func checkMaybeLoops(c *core.Ctx, rule string) {
	p := c.Prog
	n := 0
	for _, fr := range p.AllFuncs("logical") {
		if core.Rel(fr.Pkg) != "logical" {
			continue
		}
		name := p.FName(fr)
		loopNo := 0
		ast.Inspect(fr.Decl.Body, func(nd ast.Node) bool {
			rs, ok := nd.(*ast.RangeStmt)
			if !ok || !strings.HasSuffix(core.ExprStr(rs.X), ".Descriptors") {
				return true
			}
			loopNo++
			body := core.FullStr(rs.Body)
			if !strings.Contains(body, "TypeRelationMaybe") {
				return true
			}
			n++
			c.SawFunc(name)
			key := fmt.Sprintf("%s/maybe-matching loop %d", name, loopNo)
			asserts := strings.Contains(body, "ExpressionTypeTypeAssertion")
			c.Decide(asserts, rule, key+"/assertion", rs.Pos(), 1, "a maybe-fitting argument is wrapped in a type assertion",
				"the loop accepts arguments whose static type only may fit the overload, but does not wrap them in a TypeAssertion: at run time a value of another kind is read through the wrong payload (a String as Int 0) without any error")
			if strings.Contains(body, ".ArgumentTypes") {
				valueName := ""
				if id, ok := rs.Value.(*ast.Ident); ok {
					valueName = id.Name
				}
				skipsTypeFn := false
				for _, s := range rs.Body.List {
					if is, ok := s.(*ast.IfStmt); ok && core.ExprStr(is.Cond) == valueName+".TypeFn != nil" && len(is.Body.List) > 0 {
						if b, ok := is.Body.List[len(is.Body.List)-1].(*ast.BranchStmt); ok && b.Tok == token.CONTINUE {
							skipsTypeFn = true
						}
					}
				}
				hasTypeFn := false
				if rs.Value != nil {
					if st, ok := fr.Info().TypeOf(rs.Value).Underlying().(*types.Struct); ok {
						for i := 0; i < st.NumFields(); i++ {
							if st.Field(i).Name() == "TypeFn" {
								hasTypeFn = true
							}
						}
					}
				}
				c.Decide(!hasTypeFn || skipsTypeFn, rule, key+"/type-function overloads", rs.Pos(), 1, "overloads declared by a type function are skipped",
					"the loop compares the call's arity with the overload's static argument list, which is empty for overloads declared by a type function: a call without arguments matches them and the implementation indexes past its arguments")
			}
			return true
		})
	}
	c.Floor(rule, 2, "function and table-valued-function maybe-matching loops")
	_ = n
}
