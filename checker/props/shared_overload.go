package props

import (
	"fmt"
	"go/ast"
	"go/token"
	"strings"

	"octoverif/core"
)

// checkOverloadLoops (OVL): the typechecker's loops over candidate overloads decide per candidate; what one candidate
// does to the call (wrapping an argument in a type assertion) must not leak into the next candidate.  A loop over
// Descriptors that writes an element of a slice declared outside the loop must leave the loop in the same iteration
// (break/return as the last statement), otherwise the assertions of several candidates stack on one argument: the
// intersection of their types is empty (nil dereference at typecheck) or NULL (every non-NULL row fails at run time).
func checkOverloadLoops(c *core.Ctx, rule string) {
	p := c.Prog
	n := 0
	for _, spec := range [][2]string{{"logical", "(*FunctionExpression).Typecheck"}} {
		fn := p.Func(spec[0], spec[1])
		key := spec[0] + "." + spec[1]
		if fn == nil {
			c.Unknown(rule, key, 0, "anchor not found")
			continue
		}
		c.SawFunc(key)
		info := fn.Info()
		loopNo := 0
		ast.Inspect(fn.Decl.Body, func(nd ast.Node) bool {
			rs, ok := nd.(*ast.RangeStmt)
			if !ok || !strings.HasSuffix(core.ExprStr(rs.X), ".Descriptors") {
				return true
			}
			loopNo++
			n++
			lkey := fmt.Sprintf("%s/candidate loop %d", key, loopNo)
			var leaked []string
			ast.Inspect(rs.Body, func(m ast.Node) bool {
				as, ok := m.(*ast.AssignStmt)
				if !ok {
					return true
				}
				for _, l := range as.Lhs {
					ix, ok := l.(*ast.IndexExpr)
					if !ok {
						continue
					}
					id, ok := ix.X.(*ast.Ident)
					if !ok {
						continue
					}
					if obj := info.ObjectOf(id); obj != nil && (obj.Pos() < rs.Pos() || obj.Pos() > rs.End()) {
						leaked = append(leaked, fmt.Sprintf("%s (%s)", core.ExprStr(l), p.Pos(as.Pos())))
					}
				}
				return true
			})
			leaves := false
			if k := len(rs.Body.List); k > 0 {
				switch x := rs.Body.List[k-1].(type) {
				case *ast.BranchStmt:
					leaves = x.Tok == token.BREAK
				case *ast.ReturnStmt:
					leaves = true
				}
			}
			c.Decide(len(leaked) == 0 || leaves, rule, lkey, rs.Pos(), 1+len(leaked), "candidates do not modify shared state, or the loop stops at the accepted one",
				fmt.Sprintf("the loop over candidate overloads writes %s, which is shared by all candidates, and goes on to the next candidate: with two overloads the argument may fit, their type assertions stack on the same argument (nil intersection at typecheck, or a NULL-only static type and a failure on every non-NULL row)", strings.Join(leaked, ", ")))
			return true
		})
	}
	c.Floor(rule, 2, "exact and maybe-matching overload loops of FunctionExpression.Typecheck")
	_ = n
}
