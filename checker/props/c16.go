package props

import (
	"fmt"
	"go/ast"
	"go/token"
	"strings"

	"octoverif/core"
	"octoverif/engine/absint"
)

func init() {
	register(&Check{ID: "C16", Run: runC16,
		Explanation: "Conditions under which the consolidated output at end of stream is independent of the trigger configuration, each decided on all paths: " +
			"ORD7: after the source ends without error, CustomTriggerGroupBy.Run calls EndOfStreamReached() and then triggers once more before returning, so every key still pending is emitted; a source error is returned without that. " +
			"FLUSH: every trigger's Poll hands out all remaining keys once end of stream was signalled (Counting, Watermark, EndOfStream) and MultiTrigger forwards every call to every child (shared with C17). " +
			"KEYRCV: for every record (count-before ∈ {0,1,2} × add/retract, including the retraction that empties a group) the callback calls trigger.KeyReceived(key) and then triggers. " +
			"ORD4: when a key fires, the previously sent row for that key is retracted before the new row is emitted, the new row is remembered iff one is emitted, and a key whose group is gone only retracts — so superseded results never survive in the consolidated output (cases current-group present/absent × previous-row present/absent). " +
			"NULLSKIP/EMPTY/ABS5: both group-by nodes update aggregates identically (shared with C03), so SimpleGroupBy (no trigger) and CustomTriggerGroupBy agree on the values.",
		NotDecided: []string{"the equality of consolidated outputs itself (quantifies over histories)", "duplicate firing of one key by several triggers in one Poll (retract+re-emit, harmless for the consolidated result)"},
	})
}

func runC16(c *core.Ctx) {
	c.Rule("ENDFLUSH", "the end-of-stream flush bound is above every event time")
	checkFlushBound(c, "ENDFLUSH")
	c.Rule("TIMEEQ", "time.Time values are compared with Equal/Before/After, never with ==")
	checkTimeEquality(c, "TIMEEQ", "execution", "execution/nodes", "octosql", "aggregates", "table_valued_functions", "outputs", "functions", "datasources")
	c.Rule("TRIGNR", "a trigger declared retraction-free cannot fire a key twice")
	checkTriggerRetractionClaims(c, "TRIGNR")
	p := c.Prog
	ids := typeIDs(p)
	c.Rule("ORD7", "end of stream: EndOfStreamReached → final trigger → return")
	c.Rule("ORD4", "firing a key retracts the superseded row before emitting the new one")
	c.Rule("ABS8", "Poll flushes everything at end of stream")
	c.Rule("MULTI", "MultiTrigger forwards every call to every child")
	c.Rule("NULLSKIP", "both group-by nodes update aggregates identically")
	c.Rule("EMPTY", "Trigger only when the set is non-empty")
	c.Rule("ABS5", "per-key record count and group removal")
	c.Rule("KEYRCV", "every record's key is reported to the trigger before triggering")
	c.Rule("KEYREC", "every trigger records every key it is told about")
	checkKeyRecorded(c)
	checkEndOfStreamOrder(c)
	checkKeyReceived(c, ids)
	checkTriggerRetraction(c, ids)
	checkWatermarkPoll(c)
	checkEOSPoll(c)
	checkCountingPoll(c)
	checkMultiTrigger(c)
	for _, s := range groupBySites {
		checkNullSkip(c, s.rel, s.fn, ids)
		checkMultiset(c, "ABS5", msSite{rel: s.rel, fn: s.fn, callback: true, countField: "OverallRecordCount"}, ids)
	}
	if fn := p.Func("execution/nodes", "(*CustomTriggerGroupBy).trigger"); fn != nil {
		checkEmptyGuard(c, fn, fn.Decl.Type, fn.Decl.Body, "execution/nodes.(*CustomTriggerGroupBy).trigger", ids)
	}
}

func checkEndOfStreamOrder(c *core.Ctx) {
	p := c.Prog
	fn := p.Func("execution/nodes", "(*CustomTriggerGroupBy).Run")
	key := "execution/nodes.(*CustomTriggerGroupBy).Run/end of stream"
	if fn == nil {
		c.Unknown("ORD7", key, 0, "anchor not found")
		return
	}
	c.SawFunc("execution/nodes.(*CustomTriggerGroupBy).Run")
	for _, cs := range []string{"ok", "sourceErr", "triggerErr"} {
		cs := cs
		in := newInterp(p, fn)
		in.Hooks.Call = chainCall(func(st *absint.State, call *ast.CallExpr, callee string, recv absint.Val, args []absint.Val) (absint.Val, bool) {
			switch callee {
			case "execution.Node.Run":
				st.Emit("SOURCE", call.Pos())
				if cs == "sourceErr" {
					return absint.NN("sourceErr"), true
				}
				return absint.Nil{}, true
			case "execution.Trigger.EndOfStreamReached":
				st.Emit("EOS", call.Pos())
				return absint.S("void"), true
			case "execution/nodes.(*CustomTriggerGroupBy).trigger":
				st.Emit("TRIGGER", call.Pos(), args...)
				if cs == "triggerErr" {
					return absint.NN("triggerErr"), true
				}
				return absint.Nil{}, true
			}
			return nil, false
		}, errorfHook)
		outs, err := runDecl(in, fn, nil, "")
		ckey := key + "/" + cs
		if err != nil {
			c.Unknown("ORD7", ckey, fn.Decl.Pos(), err.Error())
			continue
		}
		bad := ""
		for _, o := range outs {
			var seq []string
			for _, e := range o.Events {
				switch e.Name {
				case "SOURCE":
					seq = append(seq, "S")
				case "EOS":
					seq = append(seq, "E")
				case "TRIGGER":
					seq = append(seq, "T")
				}
			}
			s := strings.Join(seq, "")
			if o.Kind != "return" || len(o.Values) != 1 {
				bad = "unexpected " + o.String()
				continue
			}
			switch cs {
			case "ok":
				if s != "SET" || isNonNilErr(o.Values[0]) {
					bad = "after the source ends, Run must signal end of stream to the trigger and then trigger once more (S,E,T) and return nil; it does " + s + " and returns " + o.Show(o.Values[0])
				}
			case "sourceErr":
				if s != "S" || !isNonNilErr(o.Values[0]) {
					bad = "a source error must be returned without a final trigger: " + s + " / " + o.Show(o.Values[0])
				}
			case "triggerErr":
				if s != "SET" || !isNonNilErr(o.Values[0]) {
					bad = "an error of the final trigger must be returned: " + s + " / " + o.Show(o.Values[0])
				}
			}
		}
		c.Decide(bad == "" && len(outs) > 0, "ORD7", ckey, fn.Decl.Pos(), len(outs), "source → EndOfStreamReached → trigger → return", bad)
	}
}

// recordCtorHook models execution.NewRecord(values, retraction, eventTime).
func recordCtorHook(st *absint.State, call *ast.CallExpr, callee string, recv absint.Val, args []absint.Val) (absint.Val, bool) {
	if callee == "execution.NewRecord" && len(args) == 3 {
		return st.NewObj("Record", map[string]absint.Val{"Values": args[0], "Retraction": args[1], "EventTime": args[2]}), true
	}
	return nil, false
}

func checkTriggerRetraction(c *core.Ctx, ids map[string]int64) {
	p := c.Prog
	fn := p.Func("execution/nodes", "(*CustomTriggerGroupBy).trigger")
	key := "execution/nodes.(*CustomTriggerGroupBy).trigger"
	if fn == nil {
		c.Unknown("ORD4", key, 0, "anchor not found")
		return
	}
	c.SawFunc(key)
	for _, hasCur := range []bool{true, false} {
		for _, hasPrev := range []bool{true, false} {
			hasCur, hasPrev := hasCur, hasPrev
			in := newInterp(p, fn)
			in.Hooks.Assert = assertOK
			in.Hooks.Field = func(st *absint.State, base absint.Val, sel string) (absint.Val, bool) {
				if sel == "keyEventTimeIndex" {
					return absint.Int(-1), true
				}
				return nil, false
			}
			in.Hooks.Call = chainCall(recordCtorHook, func(st *absint.State, call *ast.CallExpr, callee string, recv absint.Val, args []absint.Val) (absint.Val, bool) {
				switch {
				case msLookup.MatchString(callee):
					if !hasCur {
						return absint.Nil{}, true
					}
					return st.NewObj("item", map[string]absint.Val{"Aggregates": absint.S("AGGS"), "AggregatedSetSize": absint.S("SIZES")}), true
				case msRemove.MatchString(callee):
					st.Emit("PREV-DELETE", call.Pos(), args...)
					if !hasPrev {
						return absint.Nil{}, true
					}
					return st.NewObj("prev", map[string]absint.Val{"Values": absint.S("PREVVALUES"), "EventTime": absint.S("prevTime")}), true
				case msInsert.MatchString(callee):
					st.Emit("PREV-STORE", call.Pos(), args...)
					return absint.S("old"), true
				case callee == "value:produce":
					st.Emit("PRODUCE", call.Pos(), args...)
					return absint.Nil{}, true
				case callee == "execution/nodes.Aggregate.Trigger":
					return absint.S("aggResult"), true
				}
				return nil, false
			}, ctorHook(ids), errorfHook)
			outs, err := runDecl(in, fn, nil, "")
			ckey := fmt.Sprintf("%s/group present=%v,previous row=%v", key, hasCur, hasPrev)
			if err != nil {
				c.Unknown("ORD4", ckey, fn.Decl.Pos(), err.Error())
				continue
			}
			bad := ""
			checked := 0
			for _, o := range outs {
				// one key per path: the events of the first iteration
				var seq []string
				var newVals, storedVals string
				deleted := false
				for _, e := range o.Events {
					switch e.Name {
					case "PREV-DELETE":
						if !deleted {
							deleted = true
						} else {
							seq = append(seq, "|") // next key
						}
						if len(e.Args) != 1 || !strings.Contains(e.Args[0].Canon(), "Poll") {
							bad = "the previous row is looked up under something other than the fired key: " + e.String()
						}
					case "PRODUCE":
						if len(e.Args) != 2 {
							continue
						}
						rec := e.Args[1]
						r := o.Field(rec, "Retraction")
						v := o.Field(rec, "Values")
						switch {
						case absint.IsTrue(r):
							seq = append(seq, "R")
							if v == nil || v.Canon() != "PREVVALUES" {
								bad = "the retraction does not carry the previously sent values: " + o.Show(rec)
							}
						case absint.IsFalse(r):
							seq = append(seq, "N")
							if v != nil {
								newVals = v.Canon()
							}
						default:
							bad = "a record with an undetermined retraction flag is emitted: " + o.Show(rec)
						}
					case "PREV-STORE":
						seq = append(seq, "S")
						if len(e.Args) == 1 {
							if v := o.Field(e.Args[0], "Values"); v != nil {
								storedVals = v.Canon()
							}
						}
					}
				}
				s := strings.Join(seq, "")
				if i := strings.Index(s, "|"); i >= 0 {
					s = s[:i]
				}
				if len(o.Trace) == 0 && !deleted {
					continue // no key fired on this path
				}
				checked++
				want := ""
				if hasPrev {
					want += "R"
				}
				if hasCur {
					want += "NS"
				}
				if s != want {
					bad = fmt.Sprintf("firing a key with group present=%v and previous row=%v must do %q (R=retract previous, N=emit new, S=remember new), does %q", hasCur, hasPrev, want, s)
				} else if hasCur && (newVals == "" || newVals != storedVals) {
					bad = "the remembered row differs from the emitted one: emitted " + newVals + ", stored " + storedVals
				}
				if !deleted {
					bad = "the previously sent row is not removed when the key fires"
				}
			}
			if bad == "" && checked == 0 {
				bad = "no firing path explored"
			}
			c.Decide(bad == "", "ORD4", ckey, fn.Decl.Pos(), len(outs), "retract previous → emit new → remember new", bad)
		}
	}
	c.Floor("ORD4", 4, "group present × previous row present")
}

// checkKeyReceived (KEYRCV): for every record — also a retraction that empties its group — the
// trigger is told about the key before the due keys are triggered; otherwise a result that was
// already emitted for the key is never superseded.
func checkKeyReceived(c *core.Ctx, ids map[string]int64) {
	p := c.Prog
	fn := p.Func("execution/nodes", "(*CustomTriggerGroupBy).Run")
	key := "execution/nodes.(*CustomTriggerGroupBy).Run/record callback"
	if fn == nil {
		c.Unknown("KEYRCV", key, 0, "anchor not found")
		return
	}
	rcs := nodeRunCalls(p, fn)
	if len(rcs) != 1 || rcs[0].Produce == nil {
		c.Unknown("KEYRCV", key, fn.Decl.Pos(), "expected one source.Run with a literal produce callback")
		return
	}
	lit := rcs[0].Produce
	for _, k := range []int64{0, 1, 2} {
		for _, retract := range []bool{false, true} {
			if k == 0 && retract {
				continue
			}
			k, retract := k, retract
			in := newInterp(p, fn)
			in.MaxPaths = 20000
			in.Hooks.Assert = assertOK
			in.Hooks.Field = func(st *absint.State, base absint.Val, sel string) (absint.Val, bool) {
				if sel == "Retraction" {
					return absint.Bool(retract), true
				}
				return nil, false
			}
			in.Hooks.Call = chainCall(func(st *absint.State, call *ast.CallExpr, callee string, recv absint.Val, args []absint.Val) (absint.Val, bool) {
				switch {
				case callee == "execution.Expression.Evaluate":
					return absint.Tuple{Elems: []absint.Val{absint.S("v"), absint.Nil{}}}, true
				case msLookup.MatchString(callee):
					if k == 0 {
						return absint.Nil{}, true
					}
					return st.NewObj("item", map[string]absint.Val{"OverallRecordCount": absint.Int(k), "Aggregates": absint.S("AGGS"), "AggregatedSetSize": absint.S("SIZES")}), true
				case callee == "execution.Trigger.KeyReceived":
					st.Emit("KEYRECEIVED", call.Pos(), args...)
					return absint.S("void"), true
				case callee == "execution/nodes.(*CustomTriggerGroupBy).trigger":
					st.Emit("TRIGGER", call.Pos())
					return absint.Nil{}, true
				case callee == "execution/nodes.Aggregate.Add":
					return absint.S("empty"), true
				}
				return nil, false
			}, ctorHook(ids), errorfHook)
			outs, err := runLit(in, lit, nil, "")
			ckey := fmt.Sprintf("%s/count=%d,%s", key, k, map[bool]string{false: "add", true: "retract"}[retract])
			if err != nil {
				c.Unknown("KEYRCV", ckey, lit.Pos(), err.Error())
				continue
			}
			bad := ""
			done := 0
			for _, o := range outs {
				if o.Kind != "return" || len(o.Values) != 1 || isNonNilErr(o.Values[0]) {
					continue
				}
				done++
				seq := ""
				for _, e := range o.Events {
					switch e.Name {
					case "KEYRECEIVED":
						seq += "K"
						if len(e.Args) != 1 || !strings.HasPrefix(e.Args[0].Canon(), "make@") {
							bad = "the trigger is told a key other than the record's group key: " + e.String()
						}
					case "TRIGGER":
						seq += "T"
					}
				}
				if seq != "KT" {
					bad = fmt.Sprintf("for every record the callback must tell the trigger about the key and then trigger the due keys (K,T); with %d records in the group and retraction=%v it does %q — a result already emitted for the key would never be superseded", k, retract, seq)
				}
			}
			if bad == "" && done == 0 {
				bad = "no successful path"
			}
			c.Decide(bad == "", "KEYRCV", ckey, lit.Pos(), len(outs), "KeyReceived(key) → trigger", bad)
		}
	}
}

// checkTriggerRetractionClaims (TRIGNR): physical.Trigger.NoRetractions promises the planner that a key is fired at most
// once; csv/json printing and every LIMIT rely on it (no consolidation is planned). For the watermark trigger that is
// true only if no key can be (re-)registered at or below the current watermark. WatermarkTrigger.KeyReceived registers
// every key it is given without looking at the watermark, so a record arriving for an already fired key fires it again:
// retract old row, emit new row — from a node that said it never retracts.
func checkTriggerRetractionClaims(c *core.Ctx, rule string) {
	p := c.Prog
	nr := p.Func("physical", "(*Trigger).NoRetractions")
	kr := p.Func("execution", "(*WatermarkTrigger).KeyReceived")
	key := "physical.(*Trigger).NoRetractions/TriggerTypeWatermark"
	if nr == nil || kr == nil {
		c.Unknown(rule, key, 0, "anchor not found")
		return
	}
	c.SawFunc("physical.(*Trigger).NoRetractions")
	c.SawFunc("execution.(*WatermarkTrigger).KeyReceived")
	claims := false
	var pos token.Pos
	ast.Inspect(nr.Decl.Body, func(n ast.Node) bool {
		cc, ok := n.(*ast.CaseClause)
		if !ok {
			return true
		}
		has := false
		for _, e := range cc.List {
			if strings.HasSuffix(core.ExprStr(e), "TriggerTypeWatermark") {
				has = true
			}
		}
		if has {
			for _, s := range cc.Body {
				if rs, ok := s.(*ast.ReturnStmt); ok && len(rs.Results) == 1 && core.ExprStr(rs.Results[0]) == "true" {
					claims = true
					pos = rs.Pos()
				}
			}
		}
		return true
	})
	if !claims {
		c.OK(rule, key, nr.Decl.Pos(), 1, "the watermark trigger does not claim to be retraction-free")
		return
	}
	// does KeyReceived refuse (or treat specially) keys at or below the watermark?
	looksAtWatermark := false
	ast.Inspect(kr.Decl.Body, func(n ast.Node) bool {
		if se, ok := n.(*ast.SelectorExpr); ok && se.Sel.Name == "watermark" {
			looksAtWatermark = true
		}
		return true
	})
	c.Decide(looksAtWatermark, rule, key, pos, 2, "keys at or below the watermark are not registered again",
		"NoRetractions is true for the watermark trigger, but WatermarkTrigger.KeyReceived registers every key without comparing it with the current watermark: a record for a key that has already fired (late input — e.g. from an inner GROUP BY whose trigger ignores watermarks, or a time column other than the watermarked one) fires it again, and the retraction and the new row are printed as two ordinary rows by -o csv/json and counted by LIMIT")
}
