package props

import (
	"fmt"
	"go/ast"
	"go/token"
	"go/types"
	"strings"

	"octoverif/core"
	"octoverif/engine/absint"
)

func init() {
	register(&Check{ID: "C10", Run: runC10,
		Explanation: "Only the clauses of the type-algebra property whose truth is in the code shape are decided. " +
			"UNI1: (Value).Type and (Value).ToRawGoValue touch, inside each TypeID arm, only that arm's payload — so a struct value reports its own fields' types ('every value matches the type it reports'). " +
			"NN: NonNullable keeps exactly the alternatives whose TypeID is not Null (classes Null / other per alternative) and unwraps a single survivor. " +
			"FOLD: the two union folds of Type.Is are explored as a product with their reference automata: a union receiver Is iff every alternative Is, Maybe iff some alternative Is or Maybe, else Isnt; a union argument yields the maximum over its alternatives; Any accepts everything. " +
			"REFL: the inductive step of reflexivity — Is interpreted with both operands the same symbolic type, recursive calls on identical components answered by the induction hypothesis — returns Is for every TypeID, lists of known and unknown element type included. SUM: TypeSum returns the larger operand when one subsumes the other (idempotence given reflexivity), threads its accumulator through every alternative in the union+union case, reduces single+union to union+single, merges or appends-and-sorts in union+single, and builds a sorted two-element union otherwise. " +
			"LOOPREF: TypeIntersection/TypeSum keep no pointer to a shared loop variable.",
		NotDecided: []string{"the laws themselves as universally quantified statements: reflexivity is reduced to its inductive step (REFL) plus the union folds (FOLD); the upper-bound/commutativity laws of TypeSum for structs, lists and tuples and the containment law of TypeIntersection are not decided (inductive facts about recursive functions — theorem proving)"},
	})
}

func runC10(c *core.Ctx) {
	p := c.Prog
	c.Rule("UNI1", "Value.Type / ToRawGoValue read the payload of their own arm")
	c.Rule("NN", "NonNullable removes exactly the NULL alternative")
	c.Rule("FOLD", "Type.Is folds over union alternatives as specified")
	c.Rule("LOOPREF", "no pointer to a shared loop variable escapes its iteration")
	_, nr := checkEnumSwitches(c, []string{"octosql"}, func(name string) bool {
		return name == "octosql.Value.Type" || name == "octosql.Value.ToRawGoValue" || name == "octosql.Value.append"
	})
	if nr < 8 {
		c.Unknown("UNI1", "<octosql.Value arms>", 0, "too few arm regions resolved")
	}
	checkNonNullable(c)
	checkIsFolds(c)
	c.Rule("REFL", "inductive step of reflexivity of Is, per TypeID")
	c.Rule("SUM", "case structure of TypeSum: subsumption, accumulator threading, normal form")
	c.Rule("VTYPE", "Value.Type folds every element's type")
	c.Rule("UB", "TypeSum of two structs/tuples is a type both operands are")
	checkReflexiveStep(c)
	checkTypeSumShape(c)
	checkLoopRefs(c, "LOOPREF", []string{"octosql"})
	_ = p
	checkValueTypeFold(c)
	checkSumUpperBoundArity(c)
}

func checkNonNullable(c *core.Ctx) {
	p := c.Prog
	ids := typeIDs(p)
	fn := p.Func("octosql", "NonNullable")
	key := "octosql.NonNullable"
	if fn == nil {
		c.Unknown("NN", key, 0, "anchor not found")
		return
	}
	c.SawFunc(key)
	in := newInterp(p, fn)
	in.Hooks.Field = func(st *absint.State, base absint.Val, sel string) (absint.Val, bool) {
		if sel != "TypeID" {
			return nil, false
		}
		switch {
		case base.Canon() == "t":
			return absint.Int(ids["TypeIDUnion"]), true
		case st.IterNow == "null":
			return absint.Int(ids["TypeIDNull"]), true
		case st.IterNow == "other":
			return absint.Int(ids["TypeIDInt"]), true
		}
		return nil, false
	}
	in.Hooks.Loop = func(st *absint.State, loop ast.Stmt) *absint.LoopSpec {
		return &absint.LoopSpec{Cases: []string{"null", "other"}, RefStep: func(ref, cs string) string { return "" }}
	}
	outs, err := runDecl(in, fn, nil, "")
	if err != nil {
		c.Unknown("NN", key, fn.Decl.Pos(), err.Error())
		return
	}
	bad := ""
	seen := map[string]bool{}
	for _, o := range outs {
		if len(o.Trace) != 1 {
			continue
		}
		cls := o.Trace[0]
		seen[cls] = true
		kept := false
		for _, e := range o.Events {
			if strings.HasPrefix(e.Name, "append") {
				kept = true
			}
		}
		if cls == "null" && kept {
			bad = "the NULL alternative is kept"
		}
		if cls == "other" && !kept {
			bad = "a non-NULL alternative is dropped"
		}
	}
	if bad == "" && (!seen["null"] || !seen["other"]) {
		bad = "filter loop not reached for both alternative classes"
	}
	c.Decide(bad == "", "NN", key+"/filter", fn.Decl.Pos(), len(outs), "keeps an alternative iff its TypeID is not Null", bad)
	// non-union input is returned unchanged
	in2 := newInterp(p, fn)
	in2.Hooks.Field = func(st *absint.State, base absint.Val, sel string) (absint.Val, bool) {
		if sel == "TypeID" && base.Canon() == "t" {
			return absint.Int(ids["TypeIDInt"]), true
		}
		return nil, false
	}
	outs2, err := runDecl(in2, fn, nil, "")
	ok := err == nil && len(outs2) == 1 && outs2[0].Kind == "return" && outs2[0].Values[0].Canon() == "t"
	c.Decide(ok, "NN", key+"/non-union", fn.Decl.Pos(), len(outs2), "a non-union type is returned unchanged", "a type that is not a union must be returned unchanged: "+showOutcomes(outs2))
	// single survivor unwrap: `if len(out) == 1 { return out[0] }`
	unwrap := false
	ast.Inspect(fn.Decl.Body, func(n ast.Node) bool {
		if is, ok := n.(*ast.IfStmt); ok {
			s := core.ExprStr(is.Cond)
			if strings.HasPrefix(s, "len(") && strings.HasSuffix(s, ") == 1") && len(is.Body.List) == 1 {
				if rs, ok := is.Body.List[0].(*ast.ReturnStmt); ok && len(rs.Results) == 1 && strings.HasSuffix(core.ExprStr(rs.Results[0]), "[0]") {
					unwrap = true
				}
			}
		}
		return true
	})
	c.Decide(unwrap, "NN", key+"/unwrap", fn.Decl.Pos(), 1, "a single remaining alternative is returned as itself", "a union with one remaining alternative must be unwrapped (Int | NULL → Int), otherwise NonNullable(Int|NULL) is not Int")
}

func checkIsFolds(c *core.Ctx) {
	p := c.Prog
	ids := typeIDs(p)
	fn := p.Func("octosql", "Type.Is")
	key := "octosql.Type.Is"
	if fn == nil {
		c.Unknown("FOLD", key, 0, "anchor not found")
		return
	}
	c.SawFunc(key)
	rel := map[string]int64{"isnt": 0, "maybe": 1, "is": 2}
	relConst := func(name string) int64 {
		v, _ := absint.AsInt(lookupConst(p, "octosql", name))
		return v
	}
	rel["isnt"], rel["maybe"], rel["is"] = relConst("TypeRelationIsnt"), relConst("TypeRelationMaybe"), relConst("TypeRelationIs")
	name := map[int64]string{rel["isnt"]: "Isnt", rel["maybe"]: "Maybe", rel["is"]: "Is"}
	// Any accepts everything
	{
		in := newInterp(p, fn)
		in.Hooks.Field = func(st *absint.State, base absint.Val, sel string) (absint.Val, bool) {
			if sel == "TypeID" && base.Canon() == "other" {
				return absint.Int(ids["TypeIDAny"]), true
			}
			return nil, false
		}
		outs, err := runDecl(in, fn, nil, "")
		ok := err == nil && len(outs) > 0
		for _, o := range outs {
			v, isInt := absint.AsInt(o.Values[0])
			if o.Kind != "return" || !isInt || v != rel["is"] {
				ok = false
			}
		}
		c.Decide(ok, "FOLD", key+"/other=Any", fn.Decl.Pos(), len(outs), "everything Is Any", "every type must be Any: "+showOutcomes(outs))
	}
	for _, side := range []string{"receiver", "argument"} {
		side := side
		in := newInterp(p, fn)
		in.Hooks.Field = func(st *absint.State, base absint.Val, sel string) (absint.Val, bool) {
			if sel != "TypeID" {
				return nil, false
			}
			switch base.Canon() {
			case "t":
				if side == "receiver" {
					return absint.Int(ids["TypeIDUnion"]), true
				}
				return absint.Int(ids["TypeIDInt"]), true
			case "other":
				if side == "argument" {
					return absint.Int(ids["TypeIDUnion"]), true
				}
				return absint.Int(ids["TypeIDString"]), true
			}
			return nil, false
		}
		in.Hooks.Loop = func(st *absint.State, loop ast.Stmt) *absint.LoopSpec {
			return &absint.LoopSpec{Cases: []string{"isnt", "maybe", "is"}, RefStep: func(ref, cs string) string {
				// reference state: (all is so far, any is/maybe so far, max so far)
				if ref == "" {
					ref = "all=1,any=0,max=isnt"
				}
				all := strings.Contains(ref, "all=1")
				any := strings.Contains(ref, "any=1")
				mx := ref[strings.Index(ref, "max=")+4:]
				if cs != "is" {
					all = false
				}
				if cs != "isnt" {
					any = true
				}
				if rel[cs] > rel[mx] {
					mx = cs
				}
				b := func(x bool) string {
					if x {
						return "1"
					}
					return "0"
				}
				return "all=" + b(all) + ",any=" + b(any) + ",max=" + mx
			}}
		}
		in.Hooks.Call = func(st *absint.State, call *ast.CallExpr, callee string, recv absint.Val, args []absint.Val) (absint.Val, bool) {
			if callee == "octosql.Type.Is" && st.IterNow != "" {
				return absint.Int(rel[st.IterNow]), true
			}
			return nil, false
		}
		outs, err := runDecl(in, fn, nil, "")
		ckey := key + "/union " + side
		if err != nil {
			c.Unknown("FOLD", ckey, fn.Decl.Pos(), err.Error())
			continue
		}
		bad := ""
		nret := 0
		for _, o := range outs {
			if o.Kind != "return" {
				continue
			}
			if !strings.HasPrefix(o.Ref, "exit:") {
				bad = "returns inside the fold before all alternatives were examined: " + o.String()
				continue
			}
			nret++
			got, _ := absint.AsInt(o.Values[0])
			ref := strings.TrimPrefix(o.Ref, "exit:")
			want := rel["isnt"]
			if ref == "" {
				// empty union
				if side == "receiver" {
					want = rel["is"]
				}
			} else if side == "receiver" {
				switch {
				case strings.Contains(ref, "all=1"):
					want = rel["is"]
				case strings.Contains(ref, "any=1"):
					want = rel["maybe"]
				}
			} else {
				want = rel[ref[strings.Index(ref, "max=")+4:]]
			}
			if got != want {
				bad = fmt.Sprintf("after alternatives %v the fold must give %s, gives %s", o.Trace, name[want], name[got])
			}
		}
		if bad == "" && nret < 3 {
			bad = fmt.Sprintf("only %d completed folds explored", nret)
		}
		c.Decide(bad == "", "FOLD", ckey, fn.Decl.Pos(), len(outs), "agrees with the reference fold on every explored alternative sequence", bad)
	}
}

// checkReflexiveStep (REFL): the inductive step of `t.Is(t) == Is`. Type.Is is interpreted with
// both operands bound to the same symbolic type T, for every TypeID of T (lists with known and
// unknown element type separately); recursive calls on identical components are answered with the
// induction hypothesis (Is), an alternative of a union is taken to fit that union (which rule FOLD
// establishes for the argument-side fold). Every path must return Is.
func checkReflexiveStep(c *core.Ctx) {
	p := c.Prog
	ids := typeIDs(p)
	fn := p.Func("octosql", "Type.Is")
	if fn == nil {
		c.Unknown("REFL", "octosql.Type.Is", 0, "anchor not found")
		return
	}
	is := lookupConst(p, "octosql", "TypeRelationIs")
	norm := func(s string) string { return strings.TrimPrefix(s, "*") }
	type variant struct {
		tid     string
		elemNil *bool
	}
	var vs []variant
	for _, name := range sortedKeys(ids) {
		if name == "TypeIDList" {
			t, f := true, false
			vs = append(vs, variant{name, &t}, variant{name, &f})
			continue
		}
		vs = append(vs, variant{name, nil})
	}
	for _, v := range vs {
		v := v
		in := newInterp(p, fn)
		in.Hooks.Field = func(st *absint.State, base absint.Val, sel string) (absint.Val, bool) {
			if sel == "TypeID" && base.Canon() == "T" {
				return absint.Int(ids[v.tid]), true
			}
			return nil, false
		}
		in.Hooks.Cond = func(st *absint.State, atom string) (bool, bool) {
			if v.elemNil != nil && (atom == "(T.List.Element == nil)" || atom == "(nil == T.List.Element)") {
				return *v.elemNil, true
			}
			return false, false
		}
		in.Hooks.Loop = func(st *absint.State, loop ast.Stmt) *absint.LoopSpec {
			return &absint.LoopSpec{Cases: []string{"component"}, MaxIter: 2, RefStep: func(ref, cs string) string { return ref }}
		}
		derefNil := false
		in.Hooks.Call = func(st *absint.State, call *ast.CallExpr, callee string, recv absint.Val, args []absint.Val) (absint.Val, bool) {
			if callee == "octosql.Type.Is" && len(args) == 1 {
				a, b := norm(recv.Canon()), norm(args[0].Canon())
				if v.elemNil != nil && *v.elemNil && strings.Contains(a+b, "List.Element") {
					derefNil = true
				}
				if a == b || strings.HasPrefix(a, b+".Union.Alternatives[") {
					return is, true
				}
				return absint.S("rel(" + a + "," + b + ")"), true
			}
			return nil, false
		}
		outs, err := runDecl(in, fn, func(st *absint.State, bind func(string, absint.Val)) {
			bind("t", absint.S("T"))
			bind("other", absint.S("T"))
		}, "")
		key := "octosql.Type.Is/reflexive step/" + v.tid
		if v.elemNil != nil {
			key += fmt.Sprintf("(element type unknown=%v)", *v.elemNil)
		}
		if err != nil {
			c.Unknown("REFL", key, fn.Decl.Pos(), err.Error())
			continue
		}
		bad := ""
		if derefNil {
			bad = "the unknown (nil) element type of a list is dereferenced"
		}
		n := 0
		for _, o := range outs {
			if o.Kind != "return" || len(o.Values) != 1 {
				if o.Kind == "panic" {
					bad = "panics: " + o.String()
				}
				continue
			}
			n++
			if o.Values[0].Canon() != is.Canon() {
				bad = fmt.Sprintf("with both operands the same %s type (components reflexive by induction hypothesis) Is returns %s instead of Is: a type is not a subtype of itself", strings.TrimPrefix(v.tid, "TypeID"), o.Show(o.Values[0]))
			}
		}
		c.Decide(bad == "" && n > 0, "REFL", key, fn.Decl.Pos(), len(outs), "t.Is(t) = Is given reflexive components", bad)
	}
	c.Floor("REFL", 12, "one inductive step per TypeID")
}

// checkTypeSumShape (SUM): the case structure of TypeSum that its laws rest on.
func checkTypeSumShape(c *core.Ctx) {
	p := c.Prog
	ids := typeIDs(p)
	fn := p.Func("octosql", "TypeSum")
	if fn == nil {
		c.Unknown("SUM", "octosql.TypeSum", 0, "anchor not found")
		return
	}
	isC := lookupConst(p, "octosql", "TypeRelationIs")
	isnt := lookupConst(p, "octosql", "TypeRelationIsnt")
	run := func(tid1, tid2 string, rel12, rel21 absint.Val, loop *absint.LoopSpec, iterTID func(cls string) (absint.Val, bool)) ([]*absint.Outcome, error) {
		in := newInterp(p, fn)
		in.MaxPaths = 6000
		in.Hooks.Field = func(st *absint.State, base absint.Val, sel string) (absint.Val, bool) {
			if sel != "TypeID" {
				return nil, false
			}
			switch base.Canon() {
			case "t1":
				return absint.Int(ids[tid1]), true
			case "t2":
				return absint.Int(ids[tid2]), true
			}
			if iterTID != nil && st.IterNow != "" {
				return iterTID(st.IterNow)
			}
			return nil, false
		}
		in.Hooks.Loop = func(st *absint.State, l ast.Stmt) *absint.LoopSpec { return loop }
		in.Hooks.Call = func(st *absint.State, call *ast.CallExpr, callee string, recv absint.Val, args []absint.Val) (absint.Val, bool) {
			switch callee {
			case "octosql.Type.Is":
				if recv.Canon() == "t1" && args[0].Canon() == "t2" {
					return rel12, true
				}
				if recv.Canon() == "t2" && args[0].Canon() == "t1" {
					return rel21, true
				}
			case "octosql.TypeSum":
				return absint.S("TS(" + showForSum(st, args[0]) + "," + showForSum(st, args[1]) + ")"), true
			}
			return nil, false
		}
		return runDecl(in, fn, nil, "")
	}
	// S1: subsumption
	for _, cs := range []struct {
		r12, r21  absint.Val
		want, why string
	}{{isC, isnt, "t2", "t1 ⊆ t2 ⇒ the sum is t2"}, {isnt, isC, "t1", "t2 ⊆ t1 ⇒ the sum is t1"}, {isC, isC, "t2", "equal types ⇒ the sum is that type (idempotence)"}} {
		outs, err := run("TypeIDInt", "TypeIDString", cs.r12, cs.r21, nil, nil)
		key := "octosql.TypeSum/subsumption/" + cs.want + " " + cs.r12.Canon() + cs.r21.Canon()
		bad := ""
		if err != nil {
			bad = err.Error()
		}
		for _, o := range outs {
			if o.Kind != "return" || (o.Values[0].Canon() != cs.want && !(cs.r12.Canon() == isC.Canon() && cs.r21.Canon() == isC.Canon() && o.Values[0].Canon() == "t1")) {
				bad = cs.why + "; returns " + o.Show(o.Values[0])
			}
		}
		c.Decide(bad == "" && len(outs) > 0, "SUM", key, fn.Decl.Pos(), len(outs), cs.why, bad)
	}
	// S2: union × union threads the accumulator through every alternative of t2
	{
		outs, err := run("TypeIDUnion", "TypeIDUnion", isnt, isnt, &absint.LoopSpec{Cases: []string{"alt"}, MaxIter: 2, RefStep: func(ref, cs string) string { return ref }}, nil)
		key := "octosql.TypeSum/union+union"
		bad := ""
		if err != nil {
			bad = err.Error()
		}
		two := 0
		for _, o := range outs {
			if o.Kind != "return" || len(o.Trace) != 2 {
				continue
			}
			two++
			r := o.Values[0].Canon()
			if !strings.HasPrefix(r, "TS(TS(") || !strings.Contains(r, "t1.Union.Alternatives") || strings.Count(r, "t2.Union.Alternatives[") != 2 {
				bad = "after two alternatives of t2 the sum must be TypeSum(TypeSum(<t1's alternatives>, a1), a2); it is " + r + " — alternatives are lost and the result is not an upper bound of t2"
			}
		}
		c.Decide(bad == "" && two > 0, "SUM", key, fn.Decl.Pos(), len(outs), "accumulator threaded through all alternatives", bad)
	}
	// S3: only t2 a union ⇒ TypeSum(t2, t1)
	{
		outs, err := run("TypeIDInt", "TypeIDUnion", isnt, isnt, nil, nil)
		bad := ""
		if err != nil {
			bad = err.Error()
		}
		for _, o := range outs {
			if o.Kind != "return" || o.Values[0].Canon() != "TS(t2,t1)" {
				bad = "with only the second operand a union the sum must be TypeSum(t2, t1) (commutativity); returns " + o.Show(o.Values[0])
			}
		}
		c.Decide(bad == "" && len(outs) > 0, "SUM", "octosql.TypeSum/single+union", fn.Decl.Pos(), len(outs), "reduces to union+single", bad)
	}
	// S4: union + single keeps t2
	{
		outs, err := run("TypeIDUnion", "TypeIDString", isnt, isnt, &absint.LoopSpec{Cases: []string{"sameID", "otherID"}, MaxIter: 2, RefStep: func(ref, cs string) string {
			if cs == "sameID" {
				return "merged"
			}
			return ref
		}}, func(cls string) (absint.Val, bool) {
			if cls == "sameID" {
				return absint.Int(ids["TypeIDString"]), true
			}
			return absint.Int(ids["TypeIDInt"]), true
		})
		bad := ""
		if err != nil {
			bad = err.Error()
		}
		n := 0
		for _, o := range outs {
			if o.Kind != "return" {
				continue
			}
			n++
			ev := ""
			for _, e := range o.Events {
				ev += e.String() + ";"
			}
			alts := fieldAt(o, o.Values[0], "Union.Alternatives")
			as := ""
			if alts != nil {
				as = alts.Canon()
			}
			// the operands are values shared with the caller: the sum must be built in a fresh slice
			for _, e := range o.Events {
				if strings.HasPrefix(e.Name, "store t1.") || strings.HasPrefix(e.Name, "store t2.") {
					bad = "TypeSum writes into its operand (" + e.Name + "): the caller's type changes under its feet, and TypeSum(a,b) ≠ TypeSum(b,a) afterwards"
				}
			}
			if strings.HasPrefix(as, "append(t1.Union.Alternatives;") || strings.HasPrefix(as, "append(t2.Union.Alternatives;") {
				bad = "the sum's alternatives are appended to the operand's own slice (" + as + "): with spare capacity the operand's backing array is overwritten and then re-sorted in place; copy the alternatives first"
			}
			if strings.Contains(o.Ref, "merged") {
				if !strings.Contains(ev, "TS(") || !strings.Contains(ev, ",t2)") {
					bad = "an alternative with t2's TypeID must be merged with t2 (TypeSum(alternative, t2)); events: " + ev
				}
			} else if strings.HasPrefix(o.Ref, "exit:") {
				if !strings.Contains(as, "t2") {
					bad = "t2 must be appended to the alternatives when none has its TypeID; alternatives: " + as
				}
				if !strings.Contains(ev, "sort.Slice") {
					bad = "the alternatives must be re-sorted by TypeID after appending (normal form: NULL first)"
				}
			}
		}
		c.Decide(bad == "" && n > 0, "SUM", "octosql.TypeSum/union+single", fn.Decl.Pos(), len(outs), "t2 merged into the alternative of its TypeID or appended and sorted", bad)
	}
	// S5: two different non-union types ⇒ sorted two-element union
	{
		outs, err := run("TypeIDInt", "TypeIDString", isnt, isnt, nil, nil)
		bad := ""
		if err != nil {
			bad = err.Error()
		}
		for _, o := range outs {
			if o.Kind != "return" {
				continue
			}
			alts := fieldAt(o, o.Values[0], "Union.Alternatives")
			tid := fieldAt(o, o.Values[0], "TypeID")
			sorted := false
			for _, e := range o.Events {
				if strings.Contains(e.Name, "sort.Slice") {
					sorted = true
				}
			}
			if alts == nil || alts.Canon() != "[t1,t2]" || tid == nil || tid.Canon() != fmt.Sprint(ids["TypeIDUnion"]) || !sorted {
				bad = "two unrelated non-union types must sum to the union {t1, t2} sorted by TypeID; returns " + o.Show(o.Values[0])
			}
		}
		c.Decide(bad == "" && len(outs) > 0, "SUM", "octosql.TypeSum/single+single", fn.Decl.Pos(), len(outs), "union {t1,t2} in normal form", bad)
	}
}

func showForSum(st *absint.State, v absint.Val) string {
	if r, ok := v.(absint.Ref); ok {
		if ob := st.Obj(r); ob != nil {
			if u, ok := ob.Fields["Union"].(absint.Ref); ok {
				if uo := st.Obj(u); uo != nil && uo.Fields["Alternatives"] != nil {
					return "U{" + uo.Fields["Alternatives"].Canon() + "}"
				}
			}
			return "obj"
		}
	}
	return v.Canon()
}

// checkValueTypeFold (VTYPE): Value.Type() of a container folds the type of *every* element into the reported type
// (list: TypeSum over all elements; struct/tuple: one slot per element).  An element that is skipped — because it
// "looks like" the ones before — can be of a different nested type, and the value then does not match its own type.
func checkValueTypeFold(c *core.Ctx) {
	p := c.Prog
	ids := typeIDs(p)
	fn := p.Func("octosql", "Value.Type")
	key := "octosql.Value.Type"
	if fn == nil {
		c.Unknown("VTYPE", key, 0, "anchor not found")
		return
	}
	c.SawFunc(key)
	recv := fn.Decl.Recv.List[0].Names[0].Name
	for _, kind := range []string{"TypeIDList", "TypeIDStruct", "TypeIDTuple"} {
		kind := kind
		in := newInterp(p, fn)
		in.MaxPaths = 4000
		in.Hooks.Field = func(st *absint.State, base absint.Val, sel string) (absint.Val, bool) {
			if sel == "TypeID" && base.Canon() == recv {
				return absint.Int(ids[kind]), true
			}
			return nil, false
		}
		in.Hooks.Loop = func(st *absint.State, loop ast.Stmt) *absint.LoopSpec {
			return &absint.LoopSpec{Cases: []string{"E"}, MaxIter: 3, MinIter: 1, RefStep: func(ref, cs string) string { return "" }}
		}
		in.Hooks.Call = func(st *absint.State, call *ast.CallExpr, callee string, rv absint.Val, args []absint.Val) (absint.Val, bool) {
			switch callee {
			case "octosql.Value.Type":
				st.Emit("ELEMTYPE", call.Pos(), rv)
				return absint.S("T(" + rv.Canon() + ")"), true
			case "octosql.TypeSum":
				st.Emit("SUM", call.Pos())
				return absint.S("TS(" + args[0].Canon() + "," + args[1].Canon() + ")"), true
			}
			return nil, false
		}
		outs, err := runDecl(in, fn, nil, "")
		ckey := key + "/" + strings.TrimPrefix(kind, "TypeID")
		if err != nil {
			c.Unknown("VTYPE", ckey, fn.Decl.Pos(), err.Error())
			continue
		}
		bad := ""
		n := 0
		for _, o := range outs {
			if o.Kind != "return" {
				continue
			}
			n++
			iters := len(o.Trace)
			recs := 0
			for _, e := range o.Events {
				if e.Name == "ELEMTYPE" {
					recs++
				}
			}
			if recs != iters {
				bad = fmt.Sprintf("over %d element(s) only %d element type(s) are taken into the reported type: a skipped element can have a different (nested) type, and the value then does not match the type it reports for itself", iters, recs)
			}
			// every element type that was taken must also end up in the result (a conditional TypeSum drops it again)
			if kind == "TypeIDList" {
				sums := 0
				for _, e := range o.Events {
					if e.Name == "SUM" {
						sums++
					}
				}
				if iters > 0 && sums != iters-1 {
					bad = fmt.Sprintf("over %d element(s) only %d are summed into the element type: an element whose type is not summed in can differ from the others inside (a list of [1] and ['a'] would report [[Int]]), and the value then does not match the type it reports for itself", iters, sums+1)
				}
			}
			if t := fieldAt(o, o.Values[0], "TypeID"); t == nil || t.Canon() != fmt.Sprint(ids[kind]) {
				bad = "the reported type must be of the value's own kind"
			}
		}
		if bad == "" && n < 2 {
			bad = fmt.Sprintf("only %d returning path(s) explored", n)
		}
		c.Decide(bad == "", "VTYPE", ckey, fn.Decl.Pos(), len(outs), "every element's type is folded into the reported type", bad)
	}
}

// checkSumUpperBoundArity (UB): Is demands equal arity for structs and tuples (a length mismatch is Isnt).  TypeSum's
// arm for two structs / two tuples therefore has to produce a type of the operands' arity, or fall back to a union,
// whenever the arities (field name sets) differ; merging into a wider struct/tuple yields a "sum" neither operand Is.
func checkSumUpperBoundArity(c *core.Ctx) {
	p := c.Prog
	is := p.Func("octosql", "Type.Is")
	sum := p.Func("octosql", "TypeSum")
	if is == nil || sum == nil {
		c.Unknown("UB", "octosql.TypeSum", 0, "anchor not found")
		return
	}
	for _, k := range []struct{ kind, field string }{{"Struct", "Struct.Fields"}, {"Tuple", "Tuple.Elements"}} {
		// does Is reject a length mismatch for this kind?
		strict := false
		ast.Inspect(is.Decl.Body, func(n ast.Node) bool {
			ifs, ok := n.(*ast.IfStmt)
			if !ok {
				return true
			}
			cs := core.ExprStr(ifs.Cond)
			if strings.Contains(cs, "len(") && strings.Contains(cs, "."+k.field+") != len(") {
				for _, s := range ifs.Body.List {
					if rs, ok := s.(*ast.ReturnStmt); ok && len(rs.Results) == 1 && core.ExprStr(rs.Results[0]) == "TypeRelationIsnt" {
						strict = true
					}
				}
			}
			return true
		})
		// TypeSum's arm for two values of the kind
		var arm *ast.IfStmt
		ast.Inspect(sum.Decl.Body, func(n ast.Node) bool {
			ifs, ok := n.(*ast.IfStmt)
			if ok && core.ExprStr(ifs.Cond) == "t1.TypeID == TypeID"+k.kind+" && t2.TypeID == TypeID"+k.kind {
				arm = ifs
			}
			return true
		})
		key := "octosql.TypeSum/" + k.kind + " + " + k.kind + " of different arity"
		if arm == nil {
			c.OK("UB", key, sum.Decl.Pos(), 1, "no merging arm for two "+k.kind+"s: they sum to a union, which both are")
			continue
		}
		guarded := false
		ast.Inspect(arm.Body, func(n ast.Node) bool {
			if ifs, ok := n.(*ast.IfStmt); ok {
				cs := core.ExprStr(ifs.Cond)
				if strings.Contains(cs, "len(t1."+k.field) && strings.Contains(cs, "len(t2."+k.field) && (strings.Contains(cs, "!=") || strings.Contains(cs, "==")) {
					guarded = true
				}
			}
			return true
		})
		if k.kind == "Struct" {
			checkSumKeepsFieldOrder(c, is, arm)
		}
		c.Decide(!strict || guarded, "UB", key, arm.Pos(), 1, "merged only when the arities agree",
			fmt.Sprintf("TypeSum merges two %ss of different arity / field sets into one wider %s (missing positions become nullable), but Type.Is requires equal arity: neither operand Is the sum, so TypeSum is not an upper bound for them", k.kind, k.kind))
	}
}

// checkSumKeepsFieldOrder (UB): Type.Is matches object fields by position (the i-th names must be equal), and values
// carry no names at all. If TypeSum's object arm collects the fields in a map and emits them sorted by name, two
// operands with the same fields in the same, non-alphabetical order sum to a re-ordered object neither of them Is —
// and fields with equal (e.g. empty) names collapse into one. The arm therefore needs a positional path, taken when the
// name sequences agree, that returns before anything is re-ordered.
func checkSumKeepsFieldOrder(c *core.Ctx, is *core.FuncRef, arm *ast.IfStmt) {
	key := "octosql.TypeSum/Struct + Struct with the same field names"
	positionalIs := false
	ast.Inspect(is.Decl.Body, func(n ast.Node) bool {
		if be, ok := n.(*ast.BinaryExpr); ok && be.Op == token.NEQ {
			x, y := core.ExprStr(be.X), core.ExprStr(be.Y)
			if strings.HasSuffix(x, ".Struct.Fields[i].Name") && strings.HasSuffix(y, ".Struct.Fields[i].Name") {
				positionalIs = true
			}
		}
		return true
	})
	if !positionalIs {
		c.OK("UB", key, arm.Pos(), 1, "Type.Is does not match object fields by position")
		return
	}
	// first re-ordering construct in the arm: a sort call or a range over a map
	reorder := token.NoPos
	info := c.Prog.Func("octosql", "TypeSum").Info()
	ast.Inspect(arm.Body, func(n ast.Node) bool {
		switch v := n.(type) {
		case *ast.CallExpr:
			if strings.HasPrefix(core.ExprStr(v.Fun), "sort.") && (reorder == token.NoPos || v.Pos() < reorder) {
				reorder = v.Pos()
			}
		case *ast.RangeStmt:
			if _, isMap := info.TypeOf(v.X).Underlying().(*types.Map); isMap && (reorder == token.NoPos || v.Pos() < reorder) {
				reorder = v.Pos()
			}
		}
		return true
	})
	if reorder == token.NoPos {
		c.OK("UB", key, arm.Pos(), 1, "the object arm neither sorts nor iterates a map: the operands' field order is kept")
		return
	}
	// The arm is interpreted for two operands whose name sequences agree (equal lengths, every pair of names at the
	// same position equal; a helper that makes the comparison is followed): every such path must return before it
	// meets a re-ordering construct (a sort call, a loop over a map).
	sumFn := c.Prog.Func("octosql", "TypeSum")
	p1, p2 := "t1", "t2"
	if ps := sumFn.Decl.Type.Params; ps != nil {
		var names []string
		for _, f := range ps.List {
			for _, nm := range f.Names {
				names = append(names, nm.Name)
			}
		}
		if len(names) == 2 {
			p1, p2 = names[0], names[1]
		}
	}
	in := newInterp(c.Prog, sumFn)
	in.MaxPaths = 4000
	in.Hooks.Loop = func(st *absint.State, loop ast.Stmt) *absint.LoopSpec {
		if rs, ok := loop.(*ast.RangeStmt); ok {
			if t := info.TypeOf(rs.X); t != nil {
				if _, isMap := t.Underlying().(*types.Map); isMap {
					st.Emit("REORDER", rs.Pos())
				}
			}
		}
		return &absint.LoopSpec{Cases: []string{"f"}, MaxIter: 1, RefStep: func(ref, cs string) string { return ref }}
	}
	in.Hooks.Cond = func(st *absint.State, atom string) (bool, bool) {
		if !strings.Contains(atom, " == ") {
			return false, false
		}
		both := strings.Contains(atom, p1+".Struct.Fields") && strings.Contains(atom, p2+".Struct.Fields")
		if both && strings.Count(atom, ".Name") == 2 {
			return true, true
		}
		if both && strings.Count(atom, "len(") == 2 {
			return true, true
		}
		return false, false
	}
	in.Hooks.Call = func(st *absint.State, call *ast.CallExpr, callee string, recv absint.Val, args []absint.Val) (absint.Val, bool) {
		if strings.HasPrefix(callee, "sort.") {
			st.Emit("REORDER", call.Pos())
			return absint.S("void"), true
		}
		if callee == "octosql.TypeSum" {
			return absint.S("SUM"), true
		}
		return nil, false
	}
	outs, err := in.Run(&ast.FuncType{Params: &ast.FieldList{}, Results: sumFn.Decl.Type.Results}, nil, arm.Body, nil, "")
	returnsEarly := err == nil && len(outs) > 0
	for _, o := range outs {
		reordered := false
		for _, e := range o.Events {
			if e.Name == "REORDER" {
				reordered = true
			}
		}
		if reordered || o.Kind != "return" {
			returnsEarly = false
		}
	}
	c.Decide(returnsEarly, "UB", key, arm.Pos(), 1, "operands with the same name sequence are merged by position before anything is re-ordered",
		"TypeSum collects the fields of two objects in a map and emits them sorted by name, while Type.Is matches fields by position: TypeSum({b: Int; a: Int}, {b: Int; a: String}) = {a: Int | String; b: Int}, which neither operand Is; and the unnamed fields Value.Type() reports collapse into one ([{1,'x'},{2,NULL}] reports [{: NULL | String}])")
}
