package props

import (
	"fmt"
	"go/ast"
	"strings"

	"octoverif/core"
	"octoverif/engine/absint"
)

func init() {
	register(&Check{ID: "C10", Run: runC10,
		Explanation: "Only the clauses of the type-algebra property whose truth is in the code shape are decided. " +
			"UNI1: (Value).Type and (Value).ToRawGoValue touch, inside each TypeID arm, only that arm's payload — so a struct value reports its own fields' types ('every value matches the type it reports'). " +
			"NN: NonNullable keeps exactly the alternatives whose TypeID is not Null (classes Null / other per alternative) and unwraps a single survivor. " +
			"FOLD: the two union folds of Type.Is are explored as a product with their reference automata: a union receiver Is iff every alternative Is, Maybe iff some alternative Is or Maybe, else Isnt; a union argument yields the maximum over its alternatives; Any accepts everything. " +
			"LOOPREF: TypeIntersection/TypeSum keep no pointer to a shared loop variable.",
		NotDecided: []string{"reflexivity of Is, the upper-bound/commutativity/idempotence laws of TypeSum and the containment law of TypeIntersection: inductive facts about recursive functions (theorem proving, not code shape)"},
	})
}

func runC10(c *core.Ctx) {
	p := c.Prog
	c.Rule("UNI1", "Value.Type / ToRawGoValue read the payload of their own arm")
	c.Rule("NN", "NonNullable removes exactly the NULL alternative")
	c.Rule("FOLD", "Type.Is folds over union alternatives as specified")
	c.Rule("LOOPREF", "no pointer to a shared loop variable escapes its iteration")
	_, nr := checkEnumSwitches(c, []string{"octosql"}, func(name string) bool {
		return name == "octosql.Value.Type" || name == "octosql.Value.ToRawGoValue" || name == "octosql.Value.append"
	})
	if nr < 8 {
		c.Unknown("UNI1", "<octosql.Value arms>", 0, "too few arm regions resolved")
	}
	checkNonNullable(c)
	checkIsFolds(c)
	checkLoopRefs(c, "LOOPREF", []string{"octosql"})
	_ = p
}

func checkNonNullable(c *core.Ctx) {
	p := c.Prog
	ids := typeIDs(p)
	fn := p.Func("octosql", "NonNullable")
	key := "octosql.NonNullable"
	if fn == nil {
		c.Unknown("NN", key, 0, "anchor not found")
		return
	}
	c.SawFunc(key)
	in := newInterp(p, fn)
	in.Hooks.Field = func(st *absint.State, base absint.Val, sel string) (absint.Val, bool) {
		if sel != "TypeID" {
			return nil, false
		}
		switch {
		case base.Canon() == "t":
			return absint.Int(ids["TypeIDUnion"]), true
		case st.IterNow == "null":
			return absint.Int(ids["TypeIDNull"]), true
		case st.IterNow == "other":
			return absint.Int(ids["TypeIDInt"]), true
		}
		return nil, false
	}
	in.Hooks.Loop = func(st *absint.State, loop ast.Stmt) *absint.LoopSpec {
		return &absint.LoopSpec{Cases: []string{"null", "other"}, RefStep: func(ref, cs string) string { return "" }}
	}
	outs, err := runDecl(in, fn, nil, "")
	if err != nil {
		c.Unknown("NN", key, fn.Decl.Pos(), err.Error())
		return
	}
	bad := ""
	seen := map[string]bool{}
	for _, o := range outs {
		if len(o.Trace) != 1 {
			continue
		}
		cls := o.Trace[0]
		seen[cls] = true
		kept := false
		for _, e := range o.Events {
			if strings.HasPrefix(e.Name, "append") {
				kept = true
			}
		}
		if cls == "null" && kept {
			bad = "the NULL alternative is kept"
		}
		if cls == "other" && !kept {
			bad = "a non-NULL alternative is dropped"
		}
	}
	if bad == "" && (!seen["null"] || !seen["other"]) {
		bad = "filter loop not reached for both alternative classes"
	}
	c.Decide(bad == "", "NN", key+"/filter", fn.Decl.Pos(), len(outs), "keeps an alternative iff its TypeID is not Null", bad)
	// non-union input is returned unchanged
	in2 := newInterp(p, fn)
	in2.Hooks.Field = func(st *absint.State, base absint.Val, sel string) (absint.Val, bool) {
		if sel == "TypeID" && base.Canon() == "t" {
			return absint.Int(ids["TypeIDInt"]), true
		}
		return nil, false
	}
	outs2, err := runDecl(in2, fn, nil, "")
	ok := err == nil && len(outs2) == 1 && outs2[0].Kind == "return" && outs2[0].Values[0].Canon() == "t"
	c.Decide(ok, "NN", key+"/non-union", fn.Decl.Pos(), len(outs2), "a non-union type is returned unchanged", "a type that is not a union must be returned unchanged: "+showOutcomes(outs2))
	// single survivor unwrap: `if len(out) == 1 { return out[0] }`
	unwrap := false
	ast.Inspect(fn.Decl.Body, func(n ast.Node) bool {
		if is, ok := n.(*ast.IfStmt); ok {
			s := core.ExprStr(is.Cond)
			if strings.HasPrefix(s, "len(") && strings.HasSuffix(s, ") == 1") && len(is.Body.List) == 1 {
				if rs, ok := is.Body.List[0].(*ast.ReturnStmt); ok && len(rs.Results) == 1 && strings.HasSuffix(core.ExprStr(rs.Results[0]), "[0]") {
					unwrap = true
				}
			}
		}
		return true
	})
	c.Decide(unwrap, "NN", key+"/unwrap", fn.Decl.Pos(), 1, "a single remaining alternative is returned as itself", "a union with one remaining alternative must be unwrapped (Int | NULL → Int), otherwise NonNullable(Int|NULL) is not Int")
}

func checkIsFolds(c *core.Ctx) {
	p := c.Prog
	ids := typeIDs(p)
	fn := p.Func("octosql", "Type.Is")
	key := "octosql.Type.Is"
	if fn == nil {
		c.Unknown("FOLD", key, 0, "anchor not found")
		return
	}
	c.SawFunc(key)
	rel := map[string]int64{"isnt": 0, "maybe": 1, "is": 2}
	relConst := func(name string) int64 {
		v, _ := absint.AsInt(lookupConst(p, "octosql", name))
		return v
	}
	rel["isnt"], rel["maybe"], rel["is"] = relConst("TypeRelationIsnt"), relConst("TypeRelationMaybe"), relConst("TypeRelationIs")
	name := map[int64]string{rel["isnt"]: "Isnt", rel["maybe"]: "Maybe", rel["is"]: "Is"}
	// Any accepts everything
	{
		in := newInterp(p, fn)
		in.Hooks.Field = func(st *absint.State, base absint.Val, sel string) (absint.Val, bool) {
			if sel == "TypeID" && base.Canon() == "other" {
				return absint.Int(ids["TypeIDAny"]), true
			}
			return nil, false
		}
		outs, err := runDecl(in, fn, nil, "")
		ok := err == nil && len(outs) > 0
		for _, o := range outs {
			v, isInt := absint.AsInt(o.Values[0])
			if o.Kind != "return" || !isInt || v != rel["is"] {
				ok = false
			}
		}
		c.Decide(ok, "FOLD", key+"/other=Any", fn.Decl.Pos(), len(outs), "everything Is Any", "every type must be Any: "+showOutcomes(outs))
	}
	for _, side := range []string{"receiver", "argument"} {
		side := side
		in := newInterp(p, fn)
		in.Hooks.Field = func(st *absint.State, base absint.Val, sel string) (absint.Val, bool) {
			if sel != "TypeID" {
				return nil, false
			}
			switch base.Canon() {
			case "t":
				if side == "receiver" {
					return absint.Int(ids["TypeIDUnion"]), true
				}
				return absint.Int(ids["TypeIDInt"]), true
			case "other":
				if side == "argument" {
					return absint.Int(ids["TypeIDUnion"]), true
				}
				return absint.Int(ids["TypeIDString"]), true
			}
			return nil, false
		}
		in.Hooks.Loop = func(st *absint.State, loop ast.Stmt) *absint.LoopSpec {
			return &absint.LoopSpec{Cases: []string{"isnt", "maybe", "is"}, RefStep: func(ref, cs string) string {
				// reference state: (all is so far, any is/maybe so far, max so far)
				if ref == "" {
					ref = "all=1,any=0,max=isnt"
				}
				all := strings.Contains(ref, "all=1")
				any := strings.Contains(ref, "any=1")
				mx := ref[strings.Index(ref, "max=")+4:]
				if cs != "is" {
					all = false
				}
				if cs != "isnt" {
					any = true
				}
				if rel[cs] > rel[mx] {
					mx = cs
				}
				b := func(x bool) string {
					if x {
						return "1"
					}
					return "0"
				}
				return "all=" + b(all) + ",any=" + b(any) + ",max=" + mx
			}}
		}
		in.Hooks.Call = func(st *absint.State, call *ast.CallExpr, callee string, recv absint.Val, args []absint.Val) (absint.Val, bool) {
			if callee == "octosql.Type.Is" && st.IterNow != "" {
				return absint.Int(rel[st.IterNow]), true
			}
			return nil, false
		}
		outs, err := runDecl(in, fn, nil, "")
		ckey := key + "/union " + side
		if err != nil {
			c.Unknown("FOLD", ckey, fn.Decl.Pos(), err.Error())
			continue
		}
		bad := ""
		nret := 0
		for _, o := range outs {
			if o.Kind != "return" {
				continue
			}
			if !strings.HasPrefix(o.Ref, "exit:") {
				bad = "returns inside the fold before all alternatives were examined: " + o.String()
				continue
			}
			nret++
			got, _ := absint.AsInt(o.Values[0])
			ref := strings.TrimPrefix(o.Ref, "exit:")
			want := rel["isnt"]
			if ref == "" {
				// empty union
				if side == "receiver" {
					want = rel["is"]
				}
			} else if side == "receiver" {
				switch {
				case strings.Contains(ref, "all=1"):
					want = rel["is"]
				case strings.Contains(ref, "any=1"):
					want = rel["maybe"]
				}
			} else {
				want = rel[ref[strings.Index(ref, "max=")+4:]]
			}
			if got != want {
				bad = fmt.Sprintf("after alternatives %v the fold must give %s, gives %s", o.Trace, name[want], name[got])
			}
		}
		if bad == "" && nret < 3 {
			bad = fmt.Sprintf("only %d completed folds explored", nret)
		}
		c.Decide(bad == "", "FOLD", ckey, fn.Decl.Pos(), len(outs), "agrees with the reference fold on every explored alternative sequence", bad)
	}
}
