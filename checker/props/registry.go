// Package props holds the per-property obligation lists: anchors, rule
// instances and expected tables. Each property registers one Check.
package props

import "octoverif/core"

type Check struct {
	ID          string
	Explanation string   // what is decided (goes into the evidence)
	NotDecided  []string // clauses of the property the rules do not cover
	Assumptions []string
	Run         func(c *core.Ctx)
}

var Registry = map[string]*Check{}

func register(ch *Check) { Registry[ch.ID] = ch }
